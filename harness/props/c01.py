"""C01 — conditional inclusion matches what a real C preprocessor would do.

Implementation: codebasin.finder.find on ONE generated translation unit, several platforms
                (-D sets); observed per node of tree.walk(): (kind, physical lines, platforms that
                reached it) + failure (exception class) per platform.
Model (Lean):   driver op "c01" -> model = PP.analyseFile = parse_file port + Cond.model (Cond.semCBI ..)
                = the zipper tree builder + visitor the theorems of Props/C01.lean are about.
Spec (Lean):    same reply -> spec = PP.referenceFile = Cond.reference (Cond.semC ..) = flat ISO C 6.10.1
                conditional-stack machine with overwrite #define; wf = no structural / redefinition /
                expression diagnostic.
External oracle (spec validation, thorough tier + failing-input search + a small sample in quick):
                gcc -E -P -undef; surviving markers = code lines not skipped; any stderr => outside WF.

Classification per (program, platform):
  spec.wf  and implementation != spec rows / implementation failed  -> violation (property)
  implementation != model (rows or failure status)                   -> correspondence break
  gcc silent and (implementation | spec) code-line set != gcc's       -> violation / spec-validation failure
"""
from __future__ import annotations

import itertools
import json
import os
import re
import subprocess

from harness import core

NAMES = ["A", "B", "C", "D"]
KIND = {
    "CodeNode": "code", "IfNode": "ifk", "ElIfNode": "elifk", "ElseNode": "elsek", "EndIfNode": "endk",
    "DefineNode": "define", "UndefNode": "undef", "IncludeNode": "include", "PragmaNode": "pragma",
    "UnrecognizedDirectiveNode": "unrecognized",
}
# Lean error constructor -> Python exception classes it stands for
ERRMAP = {
    "index": {"IndexError"}, "type_": {"AttributeError", "TypeError"}, "parse": {"ParseError"},
    "runtime": {"RuntimeError"}, "overflow": {"OverflowError"},
}


# ----------------------------------------------------------------------------------------------
# generators
# ----------------------------------------------------------------------------------------------
def gen_cond(rng, names):
    n = rng.choice(names)
    m = rng.choice(names)
    k = rng.choice([0, 1, 2])
    return rng.choice([
        f"defined({n})", f"defined {n}", f"!defined({n})", f"{n}", f"!{n}", f"{n} == {k}", f"{n} != {k}",
        f"{n} && {m}", f"{n} || {m}", f"defined({n}) && {m} == {k}", f"!defined({n}) || defined({m})",
        f"{n} + 1 > {m}", f"({n} + {m}) * 2 == {k * 2}", f"{n} - {m} < 0", f"({n}) ? {m} : {k}", f"{n} > {k}",
        "0", "1", f"{k}", f"defined({n}) == defined({m})", f"(defined {n}) + (defined {m}) == 1",
    ])


def defined_body(rng, names, avoid=None):
    """replacement list of an object-like macro that contains the `defined` operator.  When such a macro is used in a
    controlling expression the operator reaches the condition through macro replacement; gcc / clang / MSVC evaluate it as if
    the replacement list had been written in place (C 6.10.1p4 leaves it undefined; gcc is silent without -Wextra / -pedantic),
    and so does the reference machine (the operand is never macro-expanded, the name is looked up when the macro is USED)"""
    pool = [x for x in names if x != avoid] or list(names)
    x, y = rng.choice(pool), rng.choice(pool)
    k = rng.choice([0, 1, 2])
    return rng.choice([
        f"defined({x})", f"defined {x}", f"(defined({x}))", f"(defined {x})", f"!defined({x})", f"(!defined {x})",
        f"(defined({x}) || defined({y}))", f"(defined({x}) && defined {y})", f"defined({x}) && defined({y})",
        f"(defined {x} || !defined({y}))", f"(defined({x}) + defined({y}))", f"(defined({x}) && {y} == {k})",
        f"(!defined({x}) || {k})", f"defined ( {x} )",
    ])


def gen_define(rng, names, safe):
    """a #define / #undef line.  `safe`: keep the unit free of redefinition diagnostics more often."""
    n = rng.choice(names)
    if rng.random() < 0.35:
        return [f"#undef {n}"]
    later = [x for x in names if x > n]
    vals = ["", " 0", " 1", " 1", " 2", " 7"] + ([" " + rng.choice(later)] if later else [])
    v = rng.choice(vals)
    if rng.random() < 0.08:
        v = " " + defined_body(rng, names, avoid=n)
    line = f"#define {n}{v}"
    if safe and rng.random() < 0.7:
        return [f"#undef {n}", line]
    return [line]


class Gen:
    def __init__(self, rng, depth, budget, names, p_err=0.03, decorate=0.08, p_defined=0.03):
        self.rng, self.names, self.budget = rng, names, budget
        self.p_defined = p_defined
        self.marker = 0
        self.depth0 = depth
        self.p_err = p_err
        self.decorate = decorate
        self.safe = rng.random() < 0.8

    def code(self):
        self.marker += 1
        self.budget -= 1
        return f"int m{self.marker};"

    def dirline(self, s):
        self.budget -= 1
        r = self.rng
        if r.random() < self.decorate:
            s = r.choice([lambda x: "  " + x, lambda x: x.replace("#", "# ", 1), lambda x: x + " // c",
                          lambda x: x + " /* c */", lambda x: "\t" + x])(s)
        return s

    def open_line(self):
        r = self.rng
        k = r.random()
        n = r.choice(self.names)
        if r.random() < self.p_err:
            return "#if " + r.choice(["1 +", "", "(", f"{n} ==", "1 +"])
        if k < 0.18:
            return f"#ifdef {n}"
        if k < 0.36:
            return f"#ifndef {n}"
        return f"#if {gen_cond(r, self.names)}"

    def indirection_drill(self):
        """a macro whose replacement names another macro is used, the inner macro is redefined, the outer one is used
        again: every use sees the inner definition in force at that point (C 6.10.3.4 rescanning; nothing is frozen
        at definition time or at first use)"""
        r = self.rng
        i = r.randrange(len(self.names) - 1)
        outer, inner = self.names[i], r.choice(self.names[i + 1:])
        v1, v2 = r.sample([0, 1, 2, 7], 2)
        out = [f"#undef {outer}", f"#define {outer} {r.choice([inner, '(' + inner + ')', inner + ' + 0'])}",
               f"#undef {inner}", f"#define {inner} {v1}"]
        out += [f"#if {outer} == {v1}", self.code(), "#else", self.code(), "#endif"]
        if r.random() < 0.5:
            out.append(self.code())
        out += [f"#undef {inner}"] + ([f"#define {inner} {v2}"] if r.random() < 0.8 else [])
        out += [r.choice([f"#if {outer} == {v2}", f"#if {outer} != {v1}", f"#if {outer} > {min(v1, v2)}"]), self.code(), "#else", self.code(), "#endif"]
        self.budget -= len(out) // 2
        return [self.dirline(l) if l.startswith("#") else l for l in out]

    def defined_drill(self):
        """an object-like macro H whose replacement list contains `defined`, used in #if / #elif; then the tested name changes
        state (#undef / #define) and H is used again: `defined` produced by macro replacement is an operator, its operand is
        not expanded, and it is answered from the macro table in force where H is USED"""
        r = self.rng
        h = r.choice(self.names)
        body = defined_body(r, self.names, avoid=h)
        tested = [x for x in self.names if x != h and re.search(r"\b" + x + r"\b", body)]
        out = [f"#undef {h}", f"#define {h} {body}"]

        def use():
            k = r.random()
            if k < 0.45:
                return [f"#if {r.choice([h, '!' + h, h + ' == 1', '(' + h + ')', h + ' && 1', '0 || ' + h])}", self.code(), "#else", self.code(), "#endif"]
            if k < 0.75:
                return [f"#if {r.choice(['0', '!(' + h + ')'])}", self.code(), f"#elif {h}", self.code(), "#else", self.code(), "#endif"]
            return [f"#if {gen_cond(r, self.names)}", self.code(), f"#elif {r.choice([h, '!' + h])}", self.code(), "#endif"]

        out += use()
        if tested and r.random() < 0.7:
            t = r.choice(tested)
            out += [f"#undef {t}"] + ([f"#define {t}{r.choice(['', ' 0', ' 1', ' 2'])}"] if r.random() < 0.5 else [])
            out += use()
        self.budget -= len(out) // 2
        return [self.dirline(l) if l.startswith("#") else l for l in out]

    def block(self, depth):
        r = self.rng
        out = []
        for _ in range(r.randint(1, 4)):
            if self.budget <= 0:
                break
            x = r.random()
            if x < self.p_defined and len(self.names) >= 2:
                out += self.defined_drill()
            elif x < self.p_defined + 0.05 and len(self.names) >= 2:
                out += self.indirection_drill()
            elif x < 0.34:
                out.append(self.code())
            elif x < 0.52:
                for l in gen_define(r, self.names, self.safe):
                    out.append(self.dirline(l))
            elif depth > 0:
                # a group may be empty (nothing between two directives of a chain): it still is the selected group
                def group():
                    return [] if r.random() < 0.12 else self.block(depth - 1)

                out.append(self.dirline(self.open_line()))
                out += group()
                for _ in range(r.choice([0, 0, 1, 1, 2, 3])):
                    c = gen_cond(r, self.names) if r.random() >= self.p_err else r.choice(["1 +", "", ")"])
                    out.append(self.dirline(f"#elif {c}"))
                    out += group()
                if r.random() < 0.5:
                    out.append(self.dirline("#else"))
                    out += group()
                out.append(self.dirline("#endif"))
            else:
                out.append(self.code())
        if not out:
            out.append(self.code())
        return out


def gen_program(rng, p_defined=0.03, force_defined=False):
    names = NAMES[: rng.choice([3, 4])]
    g = Gen(rng, rng.randint(1, 6), rng.randint(6, 40), names, p_defined=p_defined)
    lines = g.defined_drill() if force_defined else []
    lines += g.block(g.depth0)
    while g.budget > 8 and rng.random() < 0.6:
        lines += g.block(g.depth0)
    return lines[:60], names


def gen_defs(rng, names):
    defs = []
    for n in names:
        later = [x for x in names if x > n]
        c = rng.choice(["undef", "undef", "empty", "zero", "one", "one", "bare", "other"])
        if c == "undef":
            continue
        defs.append({"empty": f"{n}=", "zero": f"{n}=0", "one": f"{n}=1", "bare": n,
                     "other": f"{n}=" + (rng.choice(later) if later and rng.random() < 0.4 else rng.choice(["2", "7", "-1"]))}[c])
    rng.shuffle(defs)
    return defs


def gen_platforms(rng, names):
    return {f"P{i}": gen_defs(rng, names) for i in range(rng.randint(2, 4))}


def malform(rng, lines):
    """break the nesting: delete / duplicate / move / insert conditional directives"""
    lines = list(lines)
    for _ in range(rng.randint(1, 3)):
        idx = [i for i, l in enumerate(lines) if l.lstrip(" \t#").startswith(("if", "el", "endif"))]
        op = rng.choice(["del", "dup", "ins", "swap", "front"])
        if op == "del" and idx:
            del lines[rng.choice(idx)]
        elif op == "dup" and idx:
            i = rng.choice(idx)
            lines.insert(rng.randint(i, len(lines)), lines[i])
        elif op == "ins":
            lines.insert(rng.randint(0, len(lines)), rng.choice(["#endif", "#else", "#elif 1", "#elif 0", "#if 1", "#if 0", "#ifdef A"]))
        elif op == "swap" and len(idx) >= 2:
            i, j = rng.sample(idx, 2)
            lines[i], lines[j] = lines[j], lines[i]
        elif op == "front":
            lines.insert(0, rng.choice(["#endif", "#else", "#elif 1", "#elif A"]))
    return lines


# ---- exhaustive shapes -----------------------------------------------------------------------
def chains(n):
    """all chains with exactly n conditional directive lines (n >= 2): (#if B (#elif B)* (#else B)? #endif)"""
    if n < 2:
        return
    # groups: k = number of groups (if + elifs + optional else); directive lines = k + 1 (+ nested)
    for k in range(1, n):  # k group headers + endif = k+1 lines
        inner = n - (k + 1)
        for has_else in ((False, True) if k >= 2 else (False,)):
            for split in compositions(inner, k):
                for bodies in itertools.product(*[list(blocks(s)) for s in split]):
                    yield ("chain", has_else, list(bodies))


def compositions(total, parts):
    if parts == 1:
        yield (total,)
        return
    for first in range(total + 1):
        for rest in compositions(total - first, parts - 1):
            yield (first,) + rest


_blocks_memo = {}


def blocks(n):
    """all blocks (sequences of chains) with exactly n directive lines"""
    if n in _blocks_memo:
        return _blocks_memo[n]
    res = []
    if n == 0:
        res.append([])
    for first in range(2, n + 1):
        for c in chains(first):
            for rest in blocks(n - first):
                res.append([c] + rest)
    _blocks_memo[n] = res
    return res


def render_shape(block):
    """text with a marker line in every gap; conditions are distinct macros C0, C1, ..."""
    st = {"m": 0, "c": 0}
    out = []

    def code():
        st["m"] += 1
        out.append(f"int m{st['m']};")

    def rb(b):
        code()
        for (_, has_else, bodies) in b:
            nb = len(bodies)
            for i, body in enumerate(bodies):
                if i == 0:
                    out.append(f"#if C{st['c']}")
                    st["c"] += 1
                elif has_else and i == nb - 1:
                    out.append("#else")
                else:
                    out.append(f"#elif C{st['c']}")
                    st["c"] += 1
                rb(body)
            out.append("#endif")
            code()

    rb(block)
    return out, st["c"]


# ----------------------------------------------------------------------------------------------
# implementation / oracle adapters
# ----------------------------------------------------------------------------------------------
class Impl:
    def __init__(self):
        core.import_codebasin()
        from codebasin import CodeBase, finder
        from codebasin import preprocessor as pp

        self.CodeBase, self.finder, self.pp = CodeBase, finder, pp
        self.n = 0

    def find(self, root, text, platforms):
        """{'rows': [[kind, lines, [platform names]]]} or {'exc': name}"""
        self.n += 1
        path = os.path.join(str(root), f"u{self.n}.c")
        with open(path, "w", newline="") as f:
            f.write(text)
        try:
            cfg = {p: [{"file": path, "defines": list(d), "include_paths": [], "include_files": []}] for p, d in platforms.items()}
            st = self.finder.find(str(root), self.CodeBase(str(root)), cfg, summarize_only=False)
            tree, m = st.get_tree(path), st.get_map(path)
            return {"rows": [[KIND.get(type(n).__name__, type(n).__name__), list(n.lines), sorted(m[n])]
                             for n in tree.walk() if isinstance(n, self.pp.CodeNode)]}
        except Exception as e:  # noqa
            return {"exc": type(e).__name__}
        finally:
            os.remove(path)

    def per_platform(self, root, text, platforms):
        """{platform: {'ok': [[kind, lines, attributed]]} | {'exc': name}}"""
        r = self.find(root, text, platforms)
        if "rows" in r:
            return {p: {"ok": [[k, ls, p in ps] for k, ls, ps in r["rows"]]} for p in platforms}
        if len(platforms) == 1:
            return {p: {"exc": r["exc"]} for p in platforms}
        out = {}
        for p, d in platforms.items():
            out.update(self.per_platform(root, text, {p: d}))
        return out


def gcc_markers(text, defs):
    """set of marker numbers surviving gcc -E, or None when gcc prints any diagnostic"""
    try:
        r = subprocess.run(["gcc", "-E", "-P", "-undef", "-x", "c"] + [f"-D{d}" for d in defs] + ["-"],
                           input=text, capture_output=True, text=True, timeout=20)
    except Exception:  # noqa
        return None
    if r.stderr.strip() or r.returncode:
        return None
    return set(int(t[1:]) for t in r.stdout.replace(";", " ").split() if t.startswith("m") and t[1:].isdigit())


def code_markers(text, rows):
    """marker numbers on the physical lines of attributed code nodes"""
    lines = text.split("\n")
    out = set()
    for k, ls, a in rows:
        if k == "code" and a:
            for ln in ls:
                s = lines[ln - 1].strip()
                if s.startswith("int m") and s.endswith(";") and s[5:-1].isdigit():
                    out.add(int(s[5:-1]))
    return out


C23_RE = re.compile(r"^[ \t]*#[ \t]*elifn?def\b", re.M)


def is_c23(case):
    """classifier of finding F-C01-1: the unit has a #elifdef / #elifndef directive line"""
    return bool(C23_RE.search(case["text"]))


CLASSIFIERS = [("F-C01-1", is_c23)]


def err_matches(lean_exc, py_exc):
    tag = lean_exc.split("Err.")[-1].split(" ")[0]
    return tag not in ERRMAP or py_exc in ERRMAP[tag]


# ----------------------------------------------------------------------------------------------
# one case
# ----------------------------------------------------------------------------------------------
def evaluate(ctx, drv, impl, root, text, platforms, origin, use_gcc=False, record=True):
    """returns list of (kind, what) problems found: kind in {'violation', 'corr', 'specgcc'}"""
    problems = []
    got = impl.per_platform(root, text, platforms)
    replies = drv.batch([{"op": "c01", "text": text, "defs": d} for d in platforms.values()]) if drv else [None] * len(platforms)
    any_wf = False
    for (p, defs), rep in zip(platforms.items(), replies):
        g = got[p]
        case = {"text": text, "platforms": {p: defs}, "origin": origin}
        if record:
            ctx.count(key=origin)
        if rep is None:
            continue
        model, spec = rep["model"], rep["spec"]
        wf = bool(spec.get("wf"))
        # ---- model vs implementation (correspondence)
        if "ok" in model:
            same = "ok" in g and g["ok"] == model["ok"]
        else:
            same = "exc" in g and err_matches(model["exc"], g["exc"])
        if not same:
            problems.append(("corr", case, g, model))
        # ---- implementation vs spec (the property), on well-formed input
        if wf:
            any_wf = True
            if "exc" in g:
                problems.append(("violation", case, f"analysis fails with {g['exc']} on a unit the reference preprocessor accepts without diagnostics"))
            elif g["ok"] != spec["rows"]:
                diff = [(a, b) for a, b in zip(g["ok"], spec["rows"]) if a != b][:3]
                problems.append(("violation", case, "attribution differs from the C preprocessor reference: (implementation, reference) = " + json.dumps(diff)))
        if record:
            ctx.dist["wf" if wf else "not_wf:" + ("exc" if "exc" in spec else "+".join(k for k in ("bad", "unterminated", "diag") if spec.get(k)) + ("+err" if spec.get("err") else ""))] += 1
            if "exc" in g:
                ctx.dist["impl_exc:" + g["exc"]] += 1
            if wf and "ok" in g:
                codes = [a for k, _, a in g["ok"] if k == "code"]
                if any(codes) and not all(codes):
                    ctx.nontrivial.add((text, tuple(defs)))
        # ---- gcc
        if use_gcc or spec.get("c23"):
            gm = gcc_markers(text, defs)
            if record:
                ctx.dist["gcc:" + ("diag" if gm is None else "silent")] += 1
            if gm is None:
                if wf and record:
                    ctx.dist["gcc_diag_but_spec_wf"] += 1
            else:
                if "rows" in spec and wf and code_markers(text, spec["rows"]) != gm:
                    problems.append(("specgcc", case, f"reference spec and gcc -E disagree on surviving code lines: spec {sorted(code_markers(text, spec['rows']))} gcc {sorted(gm)}"))
                if not wf and record:
                    ctx.dist["gcc_silent_but_spec_not_wf" + (":c23" if spec.get("c23") else "")] += 1
                if "ok" in g and code_markers(text, g["ok"]) != gm:
                    problems.append(("violation", case, f"code lines kept by gcc -E {sorted(gm)} != code lines attributed {sorted(code_markers(text, g['ok']))}"))
                elif "exc" in g and not wf:
                    problems.append(("violation", case, f"analysis fails with {g['exc']} on a unit gcc -E accepts without diagnostics"))
    if record and any_wf:
        ctx.sample({"text": text, "platforms": platforms, "origin": origin})
    return problems


def shrink(ctx, drv, impl, root, text, platforms, kind):
    """greedy line deletion while a problem of the same kind persists"""
    lines = text.split("\n")
    budget = 120
    changed = True
    while changed and budget > 0:
        changed = False
        i = 0
        while i < len(lines) and budget > 0:
            cand = lines[:i] + lines[i + 1:]
            budget -= 1
            t2 = "\n".join(cand)
            pr = evaluate(ctx, drv, impl, root, t2, platforms, "shrink", use_gcc=(kind == "specgcc"), record=False)
            if any(k == kind for k, *_ in pr):
                lines = cand
                changed = True
            else:
                i += 1
    return "\n".join(lines)


def report(ctx, drv, impl, root, problems):
    for pr in problems:
        kind, case = pr[0], pr[1]
        if kind == "corr":
            if len(ctx.corr_breaks) < 2:
                small = shrink(ctx, drv, impl, root, case["text"], case["platforms"], kind)
                p, defs = next(iter(case["platforms"].items()))
                g = impl.per_platform(root, small, {p: defs})[p]
                m = drv.ask({"op": "c01", "text": small, "defs": defs})["model"] if drv else None
                ctx.corr_break("c01", dict(case, text=small, original_text=case["text"]), g, m)
            else:
                ctx.corr_break("c01", case, pr[2], pr[3])
            continue
        if kind == "violation" and any(pred(case) and any(k["id"] == fid for k in ctx.known) for fid, pred in CLASSIFIERS):
            ctx.classify(case, pr[2], CLASSIFIERS)
            continue
        small = shrink(ctx, drv, impl, root, case["text"], case["platforms"], kind) if len(ctx.violations) < 3 else case["text"]
        case = dict(case, text=small, original_text=case["text"])
        if kind == "specgcc":
            ctx.violation("SPEC-VALIDATION: " + pr[2], case)
        else:
            ctx.classify(case, pr[2], CLASSIFIERS)


# ----------------------------------------------------------------------------------------------
# streams
# ----------------------------------------------------------------------------------------------
def stream_corpus(ctx, drv, impl, root):
    for f in sorted((core.VERIF / "corpus" / "C01").glob("*.json")):
        c = json.loads(f.read_text())
        report(ctx, drv, impl, root, evaluate(ctx, drv, impl, root, c["text"], c["platforms"], "corpus", use_gcc=True))


def stream_exhaustive(ctx, drv, impl, root, maxlines, deadline):
    done = True
    for n in range(2, maxlines + 1):
        for b in blocks(n):
            if ctx.elapsed() > deadline:
                return False
            lines, nc = render_shape(b)
            text = "\n".join(lines) + "\n"
            plats = {"T" + "".join(map(str, bits)): [f"C{i}={v}" for i, v in enumerate(bits)] for bits in itertools.product((0, 1), repeat=nc)}
            report(ctx, drv, impl, root, evaluate(ctx, drv, impl, root, text, plats, f"exhaustive{n}"))
    return done


def stream_random(ctx, drv, impl, root, n, gcc_every, deadline):
    for i in range(n):
        if ctx.elapsed() > deadline:
            ctx.notes.append(f"random stream stopped after {i}/{n} programs (time budget)")
            break
        lines, names = gen_program(ctx.rng)
        text = "\n".join(lines) + ("\n" if ctx.rng.random() < 0.9 else "")
        plats = gen_platforms(ctx.rng, names)
        report(ctx, drv, impl, root, evaluate(ctx, drv, impl, root, text, plats, "random", use_gcc=(gcc_every and i % gcc_every == 0)))
        if i % 4 == 1 and len(ctx.violations) < 5:
            multi_command(ctx, drv, impl, root, text, plats)


def multi_command(ctx, drv, impl, root, text, plats):
    """one platform built by several commands (-D sets) for the same unit: a line is used by the platform iff some
    command's preprocessor run keeps it (the reference machine per command, OR-ed)"""
    if drv is None or len(plats) < 2:
        return
    dsets = list(plats.values())
    replies = drv.batch([{"op": "c01", "text": text, "defs": d} for d in dsets])
    if not all(rep["spec"].get("wf") for rep in replies):
        return
    want = [[k, ls, any(rep["spec"]["rows"][i][2] for rep in replies)] for i, (k, ls, _) in enumerate(replies[0]["spec"]["rows"])]
    impl.n += 1
    path = os.path.join(str(root), f"mc{impl.n}.c")
    with open(path, "w", newline="") as f:
        f.write(text)
    case = {"text": text, "platforms": {"P": dsets}, "origin": "multi-command", "multi_command": True}
    try:
        cfg = {"P": [{"file": path, "defines": list(d), "include_paths": [], "include_files": []} for d in dsets],
               "Q": [{"file": path, "defines": list(dsets[0]), "include_paths": [], "include_files": []}]}
        st = impl.finder.find(str(root), impl.CodeBase(str(root)), cfg, summarize_only=False)
        tree, m = st.get_tree(path), st.get_map(path)
        got = [[KIND.get(type(n).__name__, type(n).__name__), list(n.lines), "P" in m[n]] for n in tree.walk() if isinstance(n, impl.pp.CodeNode)]
    except Exception as e:  # noqa
        ctx.violation(f"analysis of a platform with {len(dsets)} commands for one unit fails with {type(e).__name__} although every command is accepted alone", case)
        return
    finally:
        os.remove(path)
    ctx.count(key="multi-command")
    if got != want:
        diff = [(a, b) for a, b in zip(got, want) if a != b][:3]
        ctx.violation(f"platform built by the commands {dsets}: attribution differs from the union of the per-command preprocessor runs: "
                      f"(implementation, reference) = {json.dumps(diff)}", case)


def stream_malformed(ctx, drv, impl, root, n, deadline):
    for i in range(n):
        if ctx.elapsed() > deadline:
            break
        lines, names = gen_program(ctx.rng)
        lines = malform(ctx.rng, lines[:25])
        text = "\n".join(lines) + "\n"
        plats = {"P0": gen_defs(ctx.rng, names)}
        report(ctx, drv, impl, root, evaluate(ctx, drv, impl, root, text, plats, "malformed"))


def stream_c23(ctx, drv, impl, root, n, deadline):
    """units using C23 #elifdef/#elifndef: judged against gcc -E (finding F-C01-1)"""
    for i in range(n):
        if ctx.elapsed() > deadline:
            break
        lines, names = gen_program(ctx.rng)
        idx = [k for k, l in enumerate(lines) if l.startswith("#elif ")]
        if not idx:
            lines = ["#ifdef " + names[0], "int m900;", "#elif 0", "int m901;", "#endif"] + lines
            idx = [2]
        for k in ctx.rng.sample(idx, ctx.rng.randint(1, len(idx))):
            lines[k] = ctx.rng.choice(["#elifdef ", "#elifndef "]) + ctx.rng.choice(names)
        text = "\n".join(lines) + "\n"
        report(ctx, drv, impl, root, evaluate(ctx, drv, impl, root, text, gen_platforms(ctx.rng, names), "c23"))


# ----------------------------------------------------------------------------------------------
# command-line stream: the platform's compile command, through the compilation database
# ----------------------------------------------------------------------------------------------
ARGV0S = ["gcc", "gcc", "/usr/bin/gcc", "clang", "/usr/bin/cc"]
FILLERS = [["-O2"], ["-g"], ["-O"], ["-I", "inc"], ["-Iinc"], ["-c"], ["-O3"], ["-isystem", "sys"]]
# per-macro histories of -D / -U on one command line (relative order kept when the histories are merged)
HISTORIES = [[], ["D"], ["D"], ["U"], ["U", "D"], ["U", "D"], ["U", "D"], ["D", "U"], ["D", "U"], ["D", "U", "D"], ["U", "D", "U"],
             ["U", "U", "D"], ["D", "D"]]


def gen_cmdline(rng, names, path):
    """(argv0, options): -D / -U for the names in every relative order, attached and separate spelling, a few other options"""
    per_name = []
    # in 45 % of the commands no macro is undefined after it was defined (every -U precedes the -D of its macro or stands alone)
    pool = [h for h in HISTORIES if "D" not in h or "U" not in h[h.index("D"):]] if rng.random() < 0.45 else HISTORIES
    for n in names:
        later = [x for x in names if x > n]
        h = rng.choice(pool)
        val = None
        seq = []
        for k in h:
            if k == "U":
                seq.append(["-U" + n] if rng.random() < 0.6 else ["-U", n])
                val = None
            else:
                if val is None or h == ["D", "U", "D"]:
                    val = rng.choice(["", "=", "=0", "=1", "=1", "=2", "=7"] + (["=" + rng.choice(later)] if later else []))
                seq.append(["-D" + n + val] if rng.random() < 0.6 else ["-D", n + val])
        per_name.append(seq)
    opts = []
    while any(per_name):
        q = rng.choice([x for x in per_name if x])
        opts.append(q.pop(0))
        if rng.random() < 0.15:
            opts.append(list(rng.choice(FILLERS)))
    if rng.random() < 0.5:
        opts.insert(rng.randint(0, len(opts)), list(rng.choice(FILLERS)))
    tail = rng.choice([["-c", path], [path], ["-c", path, "-o", "u.o"], ["-o", "u.o", "-c", path]])
    flat = [a for o in opts for a in o]
    return rng.choice(ARGV0S), (flat + tail if rng.random() < 0.8 else tail + flat)


def du_options(argv):
    """the -D / -U options of an argument vector in command-line order: [('D', 'A=1', [tokens]), ('U', 'A', [tokens]), ...]
    (both spellings; the options with a separate argument that the generator emits are skipped with their argument)"""
    out, i = [], 0
    while i < len(argv):
        a = argv[i]
        if a in ("-D", "-U") and i + 1 < len(argv):
            out.append((a[1], argv[i + 1], argv[i:i + 2]))
            i += 2
        elif a[:2] in ("-D", "-U") and len(a) > 2:
            out.append((a[1], a[2:], [a]))
            i += 1
        elif a in ("-I", "-isystem", "-o", "-include"):
            i += 2
        else:
            i += 1
    return out


def reference_defs(argv):
    """What a compiler driver does with the macro options of a command line, by definition (GCC manual, "Preprocessor
    Options": "-D and -U options are processed in the order they are given on the command line"; -D NAME = NAME defined
    as 1; -U NAME cancels any previous definition).  Returns (defs in force when the unit starts, diagnostic?):
    a -D of a name that is still defined with a different body is a redefinition (gcc warns: outside WF)."""
    table, diag = {}, False
    for k, v, _ in du_options(argv):
        name = v.split("=", 1)[0]
        if k == "U":
            table.pop(name, None)
        else:
            body = v.split("=", 1)[1] if "=" in v else "1"
            if name in table and table[name][0] != body:
                diag = True
            table.pop(name, None)
            table[name] = (body, v)
    return [v for _, v in table.values()], diag


def undefine_after_define(argv):
    """names with a -U NAME that follows a -D NAME[=...] on the command line (the inputs of the fixed finding F-C01-2)"""
    seen, out = set(), []
    for k, v, _ in du_options(argv):
        name = v.split("=", 1)[0]
        if k == "D":
            seen.add(name)
        elif name in seen and name not in out:
            out.append(name)
    return out


# F-C01-2 (-U ignored on compile commands) is fixed in the code (config._UndefineAction): no classifier, nothing is suppressed.


def effective_table(defines):
    """the macro table a list of -D values leaves: the last definition of each name wins"""
    table = {}
    for v in defines:
        name = v.split("=", 1)[0]
        table.pop(name, None)
        table[name] = v
    return list(table.values())


def gcc_cmdline_markers(text, argv):
    """gcc -E run with the macro options of the SAME command line (order and spelling kept)"""
    opts = [t for _, _, toks in du_options(argv) for t in toks]
    try:
        r = subprocess.run(["gcc", "-E", "-P", "-undef", "-x", "c"] + opts + ["-"], input=text, capture_output=True, text=True, timeout=20)
    except Exception:  # noqa
        return None
    if r.stderr.strip() or r.returncode:
        return None
    return set(int(t[1:]) for t in r.stdout.replace(";", " ").split() if t.startswith("m") and t[1:].isdigit())


def cmdline_find(impl, root, text, commands, form):
    """the real path of a compile command: compile_commands.json -> config.load_database (CompileCommand, ArgumentParser.parse_args)
    -> finder.find.  {platform: {'ok': rows} | {'exc': name}}"""
    from codebasin import config

    root = str(root)
    path = os.path.join(root, "u.c")
    with open(path, "w", newline="") as f:
        f.write(text)
    try:
        cfg = {}
        for p, c in commands.items():
            db = os.path.join(root, f"cc_{p}.json")
            entry = {"directory": root, "file": path}
            argv = [c["argv0"]] + [path if a == "@FILE@" else a for a in c["argv"]]
            if form == "command":
                import shlex
                entry["command"] = shlex.join(argv)
            else:
                entry["arguments"] = argv
            with open(db, "w") as f:
                json.dump([entry], f)
            cfg[p] = config.load_database(db, root)
            os.remove(db)
        st = impl.finder.find(root, impl.CodeBase(root), cfg, summarize_only=False)
        tree, m = st.get_tree(path), st.get_map(path)
        rows = [[KIND.get(type(n).__name__, type(n).__name__), list(n.lines), sorted(m[n])] for n in tree.walk() if isinstance(n, impl.pp.CodeNode)]
        return {p: {"ok": [[k, ls, p in ps] for k, ls, ps in rows]} for p in commands}
    except Exception as e:  # noqa
        if len(commands) == 1:
            return {p: {"exc": type(e).__name__} for p in commands}
    finally:
        if os.path.exists(path):
            os.remove(path)
    out = {}
    for p, c in commands.items():
        out.update(cmdline_find(impl, root, text, {p: c}, form))
    return out


def evaluate_cmdline(ctx, drv, impl, root, text, commands, form, use_gcc=True, record=True):
    """problems of one unit analysed for platforms given by compile commands: [(kind, case, what[, model])]"""
    problems = []
    got = cmdline_find(impl, root, text, commands, form)
    for p, c in commands.items():
        argv = c["argv"]
        defs, diag = reference_defs(argv)
        g = got[p]
        case = {"text": text, "cmdline": True, "form": form, "commands": {p: dict(c)}, "origin": "cmdline"}
        shown = f"{c['argv0']} {' '.join('u.c' if x == '@FILE@' else x for x in argv)}"
        if record:
            ctx.count(key="cmdline")
        rep = mrep = None
        if drv is not None:
            rep = drv.ask({"op": "c01", "text": text, "defs": defs})
            # model of the code: the C11 argument-parser model gives the defines, the C01 model analyses the unit with them
            a = drv.ask({"op": "c11full", "argv": ["u.c" if x == "@FILE@" else x for x in argv], "argv0": c["argv0"]})
            if "ok" in a.get("model", {}) and all(isinstance(d, str) for d in a["model"]["ok"]["defines"]):
                mrep = drv.ask({"op": "c01", "text": text, "defs": a["model"]["ok"]["defines"]})["model"]
            # the C11 property-level reference (Lean Extract.extract: definitions in force after -D/-U left to right) must leave the
            # macro table the GCC-manual reading of the command line leaves (this function's reference, validated against gcc -E below)
            if a.get("tame") and effective_table(a["spec"]["defines"]) != defs:
                problems.append(("specgcc", case, f"C11 reference (Extract.extract) leaves {a['spec']['defines']} in force, the GCC-manual reading of "
                                 f"the -D/-U options leaves {defs} (command: {shown})"))
            elif a.get("tame") and record:
                ctx.dist["cmdline:C11-spec == GCC-manual reference"] += 1
        wf = rep is not None and bool(rep["spec"].get("wf")) and not diag
        if mrep is not None:
            same = ("ok" in g and g["ok"] == mrep["ok"]) if "ok" in mrep else ("exc" in g and err_matches(mrep["exc"], g["exc"]))
            c2 = case["commands"][p]
            c2["matches_composed_model"] = bool(same)
        else:
            same = True
        bad = None
        if wf:
            if "exc" in g:
                bad = f"analysis fails with {g['exc']} on a unit the reference preprocessor accepts without diagnostics (command: {shown})"
            elif g["ok"] != rep["spec"]["rows"]:
                diff = [(a_, b_) for a_, b_ in zip(g["ok"], rep["spec"]["rows"]) if a_ != b_][:3]
                bad = (f"compile command `{shown}` (-D/-U in command-line order leave {defs} defined): attribution differs from the "
                       f"C preprocessor reference: (implementation, reference) = " + json.dumps(diff))
        if bad:
            problems.append(("violation", case, bad))
        elif not same:
            # only a tie problem when the property itself is not contradicted on this input
            problems.append(("corr", case, g, mrep))
        if record:
            ctx.dist["cmdline:" + ("wf" if wf else "not_wf")] += 1
            kinds = set()
            seen_d, seen_u = set(), set()
            for k, v, _ in du_options(argv):
                n = v.split("=", 1)[0]
                if k == "D":
                    if n in seen_u:
                        kinds.add("U-then-D")
                    seen_d.add(n)
                else:
                    if n in seen_d:
                        kinds.add("D-then-U")
                    seen_u.add(n)
            for kd in kinds or {"no-mixed-name" if seen_u else "D-only"}:
                ctx.dist["cmdline:" + kd] += 1
            if wf and "ok" in g:
                codes = [a_ for k_, _, a_ in g["ok"] if k_ == "code"]
                if any(codes) and not all(codes):
                    ctx.nontrivial.add((text, c["argv0"], tuple(argv)))
        if use_gcc:
            gm = gcc_cmdline_markers(text, argv)
            if record:
                ctx.dist["gcc_cmdline:" + ("diag" if gm is None else "silent")] += 1
            if gm is not None:
                if wf and code_markers(text, rep["spec"]["rows"]) != gm:
                    problems.append(("specgcc", case, f"reference (-D/-U in order, then the ISO C machine) and gcc -E run with the same options disagree: "
                                     f"reference {sorted(code_markers(text, rep['spec']['rows']))} gcc {sorted(gm)} (command: {shown})"))
                if "ok" in g and code_markers(text, g["ok"]) != gm and not bad:
                    problems.append(("violation", case, f"compile command `{shown}`: code lines kept by gcc -E with the same -D/-U options {sorted(gm)} "
                                     f"!= code lines attributed {sorted(code_markers(text, g['ok']))}"))
            elif wf and record:
                ctx.dist["gcc_diag_but_spec_wf"] += 1
    if record:
        ctx.sample({"text": text, "commands": commands, "form": form, "origin": "cmdline"}, cap=8)
    return problems


def shrink_cmdline(ctx, drv, impl, root, case, kind):
    lines = case["text"].split("\n")
    budget = 150
    changed = True
    while changed and budget > 0:
        changed = False
        i = 0
        while i < len(lines) and budget > 0:
            cand = lines[:i] + lines[i + 1:]
            budget -= 1
            pr = evaluate_cmdline(ctx, drv, impl, root, "\n".join(cand), case["commands"], case["form"], use_gcc=(kind == "specgcc"), record=False)
            if any(q[0] == kind and not any(pred(q[1]) for _, pred in CLASSIFIERS) for q in pr):
                lines = cand
                changed = True
            else:
                i += 1
    return "\n".join(lines)


def report_cmdline(ctx, drv, impl, root, problems):
    for pr in problems:
        kind, case = pr[0], pr[1]
        if kind == "corr":
            ctx.corr_break("c01+c11full (compile command -> defines -> attribution)", case, pr[2], pr[3])
            continue
        known = any(pred(case) and any(k["id"] == fid for k in ctx.known) for fid, pred in CLASSIFIERS)
        if kind == "violation" and known:
            ctx.classify(case, pr[2], CLASSIFIERS)
            continue
        if len(ctx.violations) < 3:
            small = shrink_cmdline(ctx, drv, impl, root, case, kind)
            if small != case["text"]:
                again = [q for q in evaluate_cmdline(ctx, drv, impl, root, small, case["commands"], case["form"], use_gcc=True, record=False) if q[0] == kind]
                if again:
                    pr = again[0]
                    case = dict(pr[1], original_text=case["text"])
        if kind == "specgcc":
            ctx.violation("SPEC-VALIDATION: " + pr[2], case)
        else:
            ctx.classify(case, pr[2], CLASSIFIERS)


def probe_block(rng, names, marker0):
    """conditionals that depend directly on each name (before the unit's own #define/#undef can interfere)"""
    out, m = [], marker0
    for n in names:
        k = rng.random()
        if k < 0.4:
            out += [f"#ifdef {n}", f"int m{m};", "#else", f"int m{m + 1};", "#endif"]
        elif k < 0.7:
            out += [f"#if defined({n}) && {n} + 0 == {rng.choice([0, 1, 2])}", f"int m{m};", f"#elif defined({n})", f"int m{m + 1};", "#endif"]
        else:
            out += [f"#ifndef {n}", f"int m{m};", "#endif", f"int m{m + 1};"]
        m += 2
    return out


def stream_cmdline(ctx, drv, impl, root, n, gcc_every, deadline):
    """platforms given by compile commands in a compilation database (the property's 'run with that platform's compile command'):
    -D and -U of the same macros in both relative orders and both spellings"""
    for i in range(n):
        if ctx.elapsed() > deadline:
            ctx.notes.append(f"cmdline stream stopped after {i}/{n} units (time budget)")
            break
        lines, names = gen_program(ctx.rng)
        if ctx.rng.random() < 0.6:
            lines = probe_block(ctx.rng, names, 900) + lines[:40]
        text = "\n".join(lines) + "\n"
        commands = {}
        for j in range(ctx.rng.randint(1, 3)):
            argv0, argv = gen_cmdline(ctx.rng, names, "@FILE@")
            commands[f"P{j}"] = {"argv0": argv0, "argv": argv}
        form = ctx.rng.choice(["arguments", "arguments", "command"])
        report_cmdline(ctx, drv, impl, root, evaluate_cmdline(ctx, drv, impl, root, text, commands, form, use_gcc=(i % gcc_every == 0)))


def stream_defined(ctx, drv, impl, root, n, gcc_every, deadline):
    """units in which `defined` reaches a controlling expression through an object-like macro"""
    for i in range(n):
        if ctx.elapsed() > deadline:
            ctx.notes.append(f"defined-body stream stopped after {i}/{n} units (time budget)")
            break
        lines, names = gen_program(ctx.rng, p_defined=0.15, force_defined=True)
        text = "\n".join(lines) + "\n"
        report(ctx, drv, impl, root, evaluate(ctx, drv, impl, root, text, gen_platforms(ctx.rng, names), "defined-body", use_gcc=(i % gcc_every == 0)))


# ----------------------------------------------------------------------------------------------
# include stream (small): a file entered again is evaluated against the macro table of that moment
# ----------------------------------------------------------------------------------------------
def gen_include_unit(rng, names):
    """{'main.c': text, '<h>.h': text}: (a) a header that includes itself, each level selected by a counter the previous
    level redefines (file-iteration idiom); (b) a guarded header included twice, the guard #undef'd and a tested macro changed
    in between.  Markers are unique over both files."""
    st = {"m": 0}

    def code():
        st["m"] += 1
        return f"int m{st['m']};"

    def chain():
        n = rng.choice(names)
        return rng.choice([
            [f"#ifdef {n}", code(), "#else", code(), "#endif"],
            [f"#if defined({n}) && {n} + 0 == {rng.choice([0, 1, 2])}", code(), f"#elif defined({n})", code(), "#else", code(), "#endif"],
            [f"#ifndef {n}", code(), "#endif"],
        ])

    def change():
        n = rng.choice(names)
        return rng.choice([[f"#undef {n}"], [f"#undef {n}", f"#define {n} {rng.choice([0, 1, 2])}"], [f"#undef {n}", f"#define {n}"]])

    if rng.random() < 0.5:
        levels = rng.randint(2, 4)
        h = ["#ifndef DEPTH", "#define DEPTH 1", code()] + chain() + ['#include "rep.h"']
        for d in range(1, levels):
            h += [f"#elif DEPTH == {d}", "#undef DEPTH", f"#define DEPTH {d + 1}", code()] + (change() if rng.random() < 0.5 else []) + chain()
            if d < levels - 1 or rng.random() < 0.3:
                h.append('#include "rep.h"')
        h += ["#else", code(), "#endif"]
        main = [code()] + (chain() if rng.random() < 0.5 else []) + ['#include "rep.h"', f"#if DEPTH == {levels}", code(), "#else", code(), "#endif"] + chain()
        return {"main.c": "\n".join(main) + "\n", "rep.h": "\n".join(h) + "\n"}, "self-include"
    guard = rng.choice(["G_H", "GUARD_H_", "_G_H_INCLUDED"])
    opener = rng.choice([f"#ifndef {guard}", f"#if !defined({guard})"])
    h = [opener, f"#define {guard}"] + chain() + (change() if rng.random() < 0.4 else []) + chain() + ["#endif"]
    main = [code()] + (chain() if rng.random() < 0.5 else []) + ['#include "g.h"']
    main += rng.choice([[f"#undef {guard}"], [f"#undef {guard}"], [f"#ifdef {rng.choice(names)}", f"#undef {guard}", "#endif"], []])
    main += change() + ['#include "g.h"'] + chain()
    if rng.random() < 0.4:
        main += [f"#undef {guard}"] + change() + ['#include "g.h"'] + chain()
    return {"main.c": "\n".join(main) + "\n", "g.h": "\n".join(h) + "\n"}, "guard-undef"


def include_find(impl, root, files, platforms):
    """{platform: set of marker numbers on attributed code lines (all files)} or {'exc': name}"""
    root = str(root)
    paths = {}
    for name, text in files.items():
        paths[name] = os.path.join(root, name)
        with open(paths[name], "w", newline="") as f:
            f.write(text)
    try:
        cfg = {p: [{"file": paths["main.c"], "defines": list(d), "include_paths": [], "include_files": []}] for p, d in platforms.items()}
        st = impl.finder.find(root, impl.CodeBase(root), cfg, summarize_only=False)
        out = {p: set() for p in platforms}
        for name, text in files.items():
            tree, m = st.get_tree(paths[name]), st.get_map(paths[name])
            rows = [[KIND.get(type(n).__name__, type(n).__name__), list(n.lines), sorted(m[n])] for n in tree.walk() if isinstance(n, impl.pp.CodeNode)]
            for p in platforms:
                out[p] |= code_markers(text, [[k, ls, p in ps] for k, ls, ps in rows])
        return out
    except Exception as e:  # noqa
        return {"exc": type(e).__name__}
    finally:
        for q in paths.values():
            os.remove(q)


def gcc_include_markers(root, files, defs):
    root = str(root)
    for name, text in files.items():
        with open(os.path.join(root, name), "w", newline="") as f:
            f.write(text)
    try:
        r = subprocess.run(["gcc", "-E", "-P", "-undef", "-x", "c"] + [f"-D{d}" for d in defs] + ["main.c"], cwd=root, capture_output=True, text=True, timeout=20)
    except Exception:  # noqa
        return None
    finally:
        for name in files:
            os.remove(os.path.join(root, name))
    if r.stderr.strip() or r.returncode:
        return None
    return set(int(t[1:]) for t in r.stdout.replace(";", " ").split() if t.startswith("m") and t[1:].isdigit())


def evaluate_include(ctx, impl, root, files, platforms, shape, record=True):
    got = include_find(impl, root, files, platforms)
    out = []
    for p, defs in platforms.items():
        gm = gcc_include_markers(root, files, defs)
        if record:
            ctx.count(key="include:" + shape)
            ctx.dist["gcc_include:" + ("diag" if gm is None else "silent")] += 1
        if gm is None:
            continue
        case = {"files": files, "platforms": {p: defs}, "origin": "include", "include": True, "text": files["main.c"]}
        if "exc" in got:
            if len(platforms) == 1:
                out.append((case, f"analysis fails with {got['exc']} on a translation unit (main.c + header) gcc -E accepts without diagnostics"))
            else:
                out += evaluate_include(ctx, impl, root, files, {p: defs}, shape, record=False)
        elif got[p] != gm:
            out.append((case, f"translation unit main.c + {[n for n in files if n != 'main.c'][0]} ({shape}), -D {defs}: code lines kept by gcc -E {sorted(gm)} != code lines attributed {sorted(got[p])}"))
        elif record and gm:
            ctx.nontrivial.add((json.dumps(files, sort_keys=True), tuple(defs)))
    return out


def stream_include(ctx, drv, impl, root, n, deadline):
    """a header entered more than once in ONE translation unit (from inside itself / after its guard was #undef'd), judged
    against gcc -E on the same files (the multi-file Lean model is C04's; this stream only widens C01's input space)"""
    for i in range(n):
        if ctx.elapsed() > deadline:
            break
        names = NAMES[:3]
        files, shape = gen_include_unit(ctx.rng, names)
        for case, what in evaluate_include(ctx, impl, root, files, gen_platforms(ctx.rng, names), shape):
            ctx.classify(case, what, CLASSIFIERS)
        if i < 2:
            ctx.sample({"files": files, "origin": "include:" + shape}, cap=10)


def setup(ctx):
    ctx.rule = ("one generated C translation unit x 2-4 platforms (-D assignments of undefined/empty/0/1/other to 3-4 names). "
                "Random units contain 'indirection drills' (an outer macro used before and after the macro it names is redefined); every fourth one is "
                "also analysed as ONE platform built by several commands (union of the per-command reference runs). Streams: exhaustive = every conditional-chain shape with <= N conditional directive lines (quick N=8: 385 shapes / 8164 assignments, thorough N=9: 1101 shapes / 35908 assignments), "
                "a marker code line in every gap, every truth assignment of the controlling macros; random = Block ASTs of depth <= 6 and "
                "<= 40 lines (conditions: defined X, X, !X, X==k, X&&Y, arithmetic, #ifdef/#ifndef; #define/#undef on all paths; a few "
                "malformed expressions); malformed = random units with conditional directives deleted/duplicated/moved/inserted "
                "(model = code only unless the reference still accepts the unit); c23 = units with #elifdef/#elifndef judged against gcc -E; "
                "defined-body = random units that start with a 'defined drill' (an object-like macro whose replacement list contains the `defined` "
                "operator - 14 body shapes, both spellings - used in #if/#elif, then the tested name is #undef'd/#define'd and the macro is used again; "
                "the same bodies also appear in 8 % of the #define lines and as drills in 3 % of the block items of every random unit); "
                "cmdline = the platform's COMPILE COMMAND through the real path (compile_commands.json -> config.load_database -> "
                "ArgumentParser.parse_args -> finder.find): per macro a history of -D/-U options ([], D, U, UD, DU, DUD, UDU, UUD, DD), histories merged in "
                "random order, attached and separate spelling (-DX=1 / -D X=1 / -UX / -U X), five compiler names, `arguments` and `command` form, other "
                "options in between; expectation = the options processed in command-line order (GCC manual) then the ISO C reference machine, validated "
                "against gcc -E run with the same -D/-U options; model side = C11 argument-parser model (op c11full) composed with the C01 model. "
                "include = main.c + one header entered more than once in the same unit (self-including header whose levels are selected by a counter "
                "macro; guarded header included again after #undef of its guard and a change of a tested macro), judged against gcc -E only. "
                "Non-trivial = distinct (unit, -D set) that the reference accepts without diagnostic, the analysis completes, and at least "
                "one code line is attributed and at least one is skipped.")
    ctx.assumptions += [
        "the line list (directive kinds, physical lines) is produced by the parse_file port shared by model and spec (C05's subject)",
        "expression values come from the Lean port of the patched evaluator/expander (C02/C03's subject); the generator stays in the "
        "fragment where it agrees with C (validated against gcc -E in the thorough tier and in a sample of the quick tier)",
        "well-formed = the reference reports no structural diagnostic, no macro redefinition with a different body, no malformed reached "
        "expression (= gcc -E prints nothing on stderr)",
    ]


def run(ctx, drv, search_mode=False):
    setup(ctx)
    impl = Impl()
    thorough = ctx.thorough() or search_mode
    t0 = ctx.elapsed()
    with core.Scratch() as root:
        stream_corpus(ctx, drv, impl, root)
        limit = (150 if search_mode else 480) if thorough else 42
        ok = stream_exhaustive(ctx, drv, impl, root, 9 if thorough else 8, deadline=t0 + limit * 0.45)
        ctx.exhaustive = bool(ok)
        if not ok:
            ctx.notes.append("exhaustive stream cut by the time budget")
        stream_malformed(ctx, drv, impl, root, ctx.n(250, 3000), deadline=t0 + limit * 0.6)
        stream_c23(ctx, drv, impl, root, ctx.n(40, 400), deadline=t0 + limit * 0.65)
        # the two streams below have their own allowance on top of `limit` (quick: <= 7 s + 9 s)
        extra = 0.0
        t1 = ctx.elapsed()
        stream_defined(ctx, drv, impl, root, ctx.n(70, 700), gcc_every=(1 if thorough else 3), deadline=t1 + (40 if thorough else 7))
        stream_cmdline(ctx, drv, impl, root, ctx.n(90, 900), gcc_every=(1 if thorough else 2), deadline=ctx.elapsed() + (60 if thorough else 9))
        stream_include(ctx, drv, impl, root, ctx.n(40, 400), deadline=ctx.elapsed() + (30 if thorough else 4))
        extra = ctx.elapsed() - t1
        stream_random(ctx, drv, impl, root, ctx.n(800, 6000), gcc_every=(2 if thorough else 8), deadline=t0 + limit + extra)
    ctx.extra["gcc_oracle"] = {k: v for k, v in ctx.dist.items() if k.startswith("gcc")}


def search(ctx, drv):
    ctx.t0_search = ctx.elapsed()
    run(ctx, drv, search_mode=True)


def replay(ctx, drv, case):
    impl = Impl()
    out = {}

    def compact_rows(x):
        if isinstance(x, dict):
            return {k: compact_rows(v) if k in ("ok", "rows") else v for k, v in x.items()}
        return [f"{k} {','.join(map(str, ls))} {'+' if a else '-'}" for k, ls, a in x]

    if case.get("include"):
        with core.Scratch() as root:
            for p, defs in case["platforms"].items():
                got = include_find(impl, root, case["files"], {p: defs})
                gm = gcc_include_markers(root, case["files"], defs)
                out[p] = {"defines": defs, "implementation_markers": sorted(got[p]) if p in got else got,
                          "gcc_markers": None if gm is None else sorted(gm)}
        out["files"] = {k: v.split("\n") for k, v in case["files"].items()}
        return out
    if case.get("cmdline"):
        with core.Scratch() as root:
            for p, c in case["commands"].items():
                argv = c["argv"]
                defs, diag = reference_defs(argv)
                r = {"command": [c["argv0"]] + ["u.c" if a == "@FILE@" else a for a in argv], "form": case.get("form", "arguments"),
                     "macro_options_in_order": [[k, v] for k, v, _ in du_options(argv)],
                     "reference_defines_at_start_of_unit": defs, "command_line_redefinition": diag,
                     "undefine_after_define_of": undefine_after_define(argv),
                     "implementation": compact_rows(cmdline_find(impl, root, case["text"], {p: c}, case.get("form", "arguments"))[p])}
                if drv is not None:
                    r["spec"] = compact_rows(drv.ask({"op": "c01", "text": case["text"], "defs": defs})["spec"])
                    a = drv.ask({"op": "c11full", "argv": ["u.c" if x == "@FILE@" else x for x in argv], "argv0": c["argv0"]})
                    r["model_defines (C11 argument-parser model)"] = a.get("model")
                    if "ok" in a.get("model", {}):
                        r["model"] = compact_rows(drv.ask({"op": "c01", "text": case["text"], "defs": a["model"]["ok"]["defines"]})["model"])
                gm = gcc_cmdline_markers(case["text"], argv)
                r["gcc_markers (gcc -E with the same -D/-U options)"] = None if gm is None else sorted(gm)
                if "ok" in r["implementation"]:
                    r["implementation_markers"] = sorted(code_markers(case["text"], cmdline_find(impl, root, case["text"], {p: c}, case.get("form", "arguments"))[p]["ok"]))
                out[p] = r
        out["text"] = case["text"].split("\n")
        return out
    if case.get("multi_command"):
        c2 = core.Ctx(ctx.prop, "quick", 0)
        with core.Scratch() as root:
            multi_command(c2, drv, impl, root, case["text"], {f"c{i}": d for i, d in enumerate(case["platforms"]["P"])})
        return {"text": case["text"].split("\n"), "commands": case["platforms"]["P"], "violations": [w for w, _ in c2.violations]}
    with core.Scratch() as root:
        for p, defs in case["platforms"].items():
            def compact(x):
                if isinstance(x, dict):
                    return {k: compact(v) if k in ("ok", "rows") else v for k, v in x.items()}
                return [f"{k} {','.join(map(str, ls))} {'+' if a else '-'}" for k, ls, a in x]

            r = {"implementation": compact(impl.per_platform(root, case["text"], {p: defs})[p])}
            if drv is not None:
                rep = drv.ask({"op": "c01", "text": case["text"], "defs": defs})
                r["model"], r["spec"] = compact(rep["model"]), compact(rep["spec"])
            gm = gcc_markers(case["text"], defs)
            r["gcc_markers"] = None if gm is None else sorted(gm)
            out[p] = r
    out["text"] = case["text"].split("\n")
    return out
