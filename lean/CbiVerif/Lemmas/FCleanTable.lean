import CbiVerif.Model.FClean
import CbiVerif.Spec.FortranRef
/-!
Class-level abstraction of `fortran_cleaner` (finite state: stack, scan mode,
"`verify_continue` holds blanks after its `&`") and the two finite obligations
that tie it to the reference scanner: one per (reference mode, character class)
and one per reference mode at the end of a line.  Both are closed by kernel
`decide`.  `Lemmas/FCleanLift.lean` lifts them to characters, lines and texts.
-/
namespace CbiVerif.Fortran.Tbl
open CbiVerif.Fortran

inductive KEmit | sp | ns (c : Cls)
deriving DecidableEq, Repr

structure CSt where
  stack : List Mode      -- head = state[-1]
  scan : Scan
  vws : Bool             -- verify_continue holds white space after the '&'
deriving DecidableEq, Repr

/-- class-level shadow of `Fortran.step1` -/
def step1 (s : CSt) (c : Cls) : CSt × List KEmit × Bool :=
  match s.scan with
  | .done => (s, [], false)
  | .sentinel => (s, [.ns c], false)
  | .bang =>
    match c with
    | .dollar => ({ s with scan := .sentinel }, [.ns .bang, .ns .dollar], false)
    | .alpha => (s, [], false)
    | _ => ({ s with scan := .done }, [], false)
  | .run =>
    match s.stack with
    | [] => (s, [], false)
    | .top :: r =>
      match c with
      | .bslash => ({ s with stack := .esc :: .top :: r }, [.ns c], false)
      | .bang => ({ s with stack := [.top], scan := .bang }, [], false)
      | .amp => ({ s with stack := .verify :: .top :: r, vws := false }, [], false)
      | .dq => ({ s with stack := .dq :: .top :: r }, [.ns c], false)
      | .sq => ({ s with stack := .sq :: .top :: r }, [.ns c], false)
      | .ws => (s, [.sp], false)
      | _ => (s, [.ns c], false)
    | .cfs :: r =>
      match c with
      | .ws => (s, [.sp], false)
      | .amp => ({ s with stack := r }, [], false)
      | .bang => ({ s with scan := .bang }, [], false)
      | _ => ({ s with stack := r }, [], true)
    | .dq :: r =>
      match c with
      | .bslash => ({ s with stack := .esc :: .dq :: r }, [.ns c], false)
      | .dq => ({ s with stack := r }, [.ns c], false)
      | .amp => ({ s with stack := .verify :: .dq :: r, vws := false }, [], false)
      | _ => (s, [.ns c], false)
    | .sq :: r =>
      match c with
      | .bslash => ({ s with stack := .esc :: .sq :: r }, [.ns c], false)
      | .sq => ({ s with stack := r }, [.ns c], false)
      | .amp => ({ s with stack := .verify :: .sq :: r, vws := false }, [], false)
      | _ => (s, [.ns c], false)
    | .esc :: r => ({ s with stack := r }, [.ns c], false)
    | .verify :: r =>
      if c == .bang && r.head? == some .top then ({ s with scan := .bang }, [], false)
      else if c != .ws then
        ({ s with stack := r, vws := false }, (.ns .amp) :: (if s.vws then [.ns .ws] else []), true)
      else ({ s with vws := true }, [], false)

def step (s : CSt) (c : Cls) : CSt × List KEmit :=
  match step1 s c with
  | (s1, e1, true) => match step1 s1 c with | (s2, e2, _) => (s2, e1 ++ e2)
  | (s1, e1, false) => (s1, e1)

def endLine (s : CSt) : CSt :=
  match s.stack with
  | .verify :: r => { stack := .cfs :: r, scan := .run, vws := false }
  | st => { stack := st, scan := .run, vws := s.vws }

def KEmit.visible : KEmit → Bool | .ns .ws => false | .ns _ => true | .sp => false
def KEmit.litWs : KEmit → Bool | .ns .ws => true | _ => false
def anyVisible (es : List KEmit) : Bool := es.any KEmit.visible
def anyLitWs (es : List KEmit) : Bool := es.any KEmit.litWs

/-! ## abstraction of reference modes -/
def ctxStack : Ctx → List Mode | .top => [.top] | .dq => [.dq, .top] | .sq => [.sq, .top]
def siteStack : Site → List Mode
  | .code => [.top] | .cont => [.cfs, .top] | .contDq => [.cfs, .dq, .top] | .contSq => [.cfs, .sq, .top]
  | .amp => [.verify, .top]

def absSt : RF → CSt
  | .code => ⟨[.top], .run, false⟩
  | .inDq => ⟨[.dq, .top], .run, false⟩
  | .inSq => ⟨[.sq, .top], .run, false⟩
  | .ampTop w => ⟨[.verify, .top], .run, w⟩
  | .ampDq w => ⟨[.verify, .dq, .top], .run, w⟩
  | .ampSq w => ⟨[.verify, .sq, .top], .run, w⟩
  | .start c => ⟨.cfs :: ctxStack c, .run, false⟩
  | .bang s => ⟨siteStack s, .bang, false⟩
  | .sent s => ⟨siteStack s, .sentinel, false⟩
  | .comm s => ⟨siteStack s, .done, false⟩

def allSite : List Site := [.code, .cont, .contDq, .contSq, .amp]
def allRF : List RF :=
  [.start .top, .start .dq, .start .sq, .code, .inDq, .inSq, .ampTop false, .ampTop true,
   .ampDq false, .ampDq true, .ampSq false, .ampSq true] ++
  allSite.map .bang ++ allSite.map .sent ++ allSite.map .comm
def allC : List Cls := [.bang, .amp, .dq, .sq, .dollar, .alpha, .ws, .bslash, .other]

/-- `vws` only matters while a '&' is being verified -/
def relevant (s : CSt) : Bool := s.scan == .run && s.stack.head? == some .verify
def proj (s : CSt) : List Mode × Scan × Bool := (s.stack, s.scan, relevant s && s.vws)

/-- representative cleaner state for reference mode `m` with an arbitrary irrelevant `vws` -/
def repSt (m : RF) (v : Bool) : CSt := if relevant (absSt m) then absSt m else { absSt m with vws := v }

def stepOK (m : RF) (v : Bool) (c : Cls) : Bool :=
  match rstep m c with
  | none => true
  | some o =>
    let r := step (repSt m v) c
    (proj r.1 == proj (absSt o.mode)) && (anyVisible r.2 == o.vis) && (anyLitWs r.2 == o.lit)

theorem stepOK_all : (allRF.all fun m => [false, true].all fun v => allC.all fun c => stepOK m v c) = true := by decide

def endOK (m : RF) (v : Bool) : Bool :=
  match rend m with
  | none => true
  | some m' => proj (endLine (repSt m v)) == proj (absSt m')

theorem endOK_all : (allRF.all fun m => [false, true].all fun v => endOK m v) = true := by decide

theorem mem_allRF (m : RF) : m ∈ allRF := by
  cases m with
  | start c => cases c <;> simp [allRF]
  | ampTop w => cases w <;> simp [allRF]
  | ampDq w => cases w <;> simp [allRF]
  | ampSq w => cases w <;> simp [allRF]
  | bang s => cases s <;> simp [allRF, allSite]
  | sent s => cases s <;> simp [allRF, allSite]
  | comm s => cases s <;> simp [allRF, allSite]
  | _ => simp [allRF]

theorem mem_allC (c : Cls) : c ∈ allC := by cases c <;> simp [allC]

/-- the simulation relation between an abstract cleaner state and a reference mode -/
def Rl (s : CSt) (m : RF) : Prop := proj s = proj (absSt m)

theorem rel_rep (s : CSt) (m : RF) (h : Rl s m) : s = repSt m s.vws := by
  obtain ⟨st, sc, v⟩ := s
  unfold Rl proj at h
  simp only [Prod.mk.injEq] at h
  obtain ⟨h1, h2, h3⟩ := h
  unfold repSt
  by_cases hr : relevant (absSt m) = true
  · have hr' : relevant (⟨st, sc, v⟩ : CSt) = true := by
      simp only [relevant] at hr ⊢; simp only [h1, h2]; exact hr
    simp only [hr, hr', Bool.true_and, if_true] at h3 ⊢
    cases hm : absSt m
    simp only [hm] at h1 h2 h3
    simp [h1, h2, h3]
  · simp only [hr, Bool.false_eq_true, if_false]
    cases hm : absSt m
    simp only [hm] at h1 h2
    simp [h1, h2]

theorem step_sim (s : CSt) (m : RF) (c : Cls) (o : ROut) (h : Rl s m) (ho : rstep m c = some o) :
    Rl (step s c).1 o.mode ∧ anyVisible (step s c).2 = o.vis ∧ anyLitWs (step s c).2 = o.lit := by
  have hall := stepOK_all
  simp only [List.all_eq_true] at hall
  have h1 := hall m (mem_allRF m) s.vws (by cases s.vws <;> simp) c (mem_allC c)
  simp only [stepOK, ho, Bool.and_eq_true, beq_iff_eq] at h1
  rw [rel_rep s m h]
  exact ⟨h1.1.1, h1.1.2, h1.2⟩

theorem end_sim (s : CSt) (m m' : RF) (h : Rl s m) (he : rend m = some m') : Rl (endLine s) m' := by
  have hall := endOK_all
  simp only [List.all_eq_true] at hall
  have h1 := hall m (mem_allRF m) s.vws (by cases s.vws <;> simp)
  simp only [endOK, he, beq_iff_eq] at h1
  rw [rel_rep s m h]
  exact h1

end CbiVerif.Fortran.Tbl
