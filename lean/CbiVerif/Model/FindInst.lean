import CbiVerif.PP.Find
import CbiVerif.Model.FindFold
import CbiVerif.Model.FindCache
/-!
`finder.find` as an INSTANCE of the generic double fold `FindFold.findG`, for the C family:
the single-command analysis is the body of the inner loop of `finder.find`
(fresh `Platform`, `-I`, `-D`, `-include` files, then the file itself) from a fresh state.

There is no engine of its own here any more.  The single-command analysis `analyseEntryN n fs` is
`FindCache.analyse (semPP fs) n` — the total, fuelled, cache-free engine `Exclude.runEntryRef` of
`Model/Exclude.lean` (the engine the C10 theorems are about and ops `c10find` / `c08find.cached` execute),
instantiated with the semantics record `semPP fs`: the record `Exclude.sem fs` the other ops run, with every
file sent through the C front end whatever its extension (the design-phase visitor `PP.assocFile`, a
`partial def`, did exactly that; it is deleted).  `Props/C08Engines.lean` proves that `findI` IS
`FindCache.findRefG (semPP fs)`, equals the run with the shared parse cache `FindCache.findC (semPP fs)`
unconditionally, and equals `findRefG (Exclude.sem fs)` on C-family inputs.

What is modelled differently from the code, on purpose:
* the parse cache `ParserState.trees` is not threaded from one command to the next:
  every command starts from a fresh state and parses what it reaches.  In the code the cache is shared by all
  commands and platforms.  That the shared cache is unobservable is PROVED (`C08.cache_transparent_partial`,
  `C08.find_cached_eq_findG_partial`, and for this instance without side condition:
  `C08.findI_eq_cached`), up to finding F-C08-1 = D19; that the tokens stored in the cache are never modified is
  what the correspondence check tests (finding F-C08-2, repaired).
* the up-front parse of every code-base file and every entry file is kept only as the
  error check `prepare` (an unparsable file aborts the run).
* the platform's name is only used by `associate`; the single-command analysis runs under
  a dummy name and the real name is attached by `FindFold.associate`.

Core Lean only.
-/
namespace CbiVerif.FindInst
open CbiVerif.PP CbiVerif.FindFold CbiVerif.Exclude

/-- a node of a parsed file: (canonical path, index in parse order) -/
abbrev NodeKey := String × Nat

/-- `ParserState.insert_file` on an empty cache, as an error check -/
def parseOne (fs : FSMap) (f : String) : Except Err Unit :=
  match (({} : PState).insertFile fs f).err with
  | some e => .error e
  | none => .ok ()

/-- "Build a tree for each unique file for all platforms": fails iff some file fails -/
def prepare (fs : FSMap) : List String → Except Err Unit
  | [] => .ok ()
  | f :: rest =>
    match parseOne fs f with
    | .error e => .error e
    | .ok _ => prepare fs rest

/-- the C-family instance of the engine's semantics: `Exclude.sem fs` (node step, include search, `-include`
search, `Platform` construction) with every file handed to the C front end, whatever its extension -/
def semPP (fs : FSMap) : Sem :=
  { sem fs with extClass := fun _ => some .c, parseAs := fun _ f => parseAsFS fs .c f }

/-- the body of the inner loop of `finder.find` for ONE database entry, from a fresh state:
which nodes are visited and which warnings are logged (or the exception raised); `n` = fuel of the engine -/
def analyseEntryN (n : Nat) (fs : FSMap) (e : Entry) : Except Err (Out NodeKey Warn) :=
  FindCache.analyse (semPP fs) n e

/-- … with the driver's default fuel -/
def analyseEntry (fs : FSMap) (e : Entry) : Except Err (Out NodeKey Warn) := analyseEntryN defaultFuel fs e

/-- the files named by the database entries -/
def filesOf (config : Config Entry) : List String := (jobs config).map (·.2.file)

/-- `finder.find(rootdir, codebase, configuration)`, fuel `n` -/
def findIN (n : Nat) (fs : FSMap) (codebase : List String) (config : Config Entry) :
    Except Err (Acc NodeKey Warn) :=
  match prepare fs (codebase ++ filesOf config) with
  | .error e => .error e
  | .ok _ => findG (analyseEntryN n fs) config

/-- `finder.find(rootdir, codebase, configuration)` -/
def findI (fs : FSMap) (codebase : List String) (config : Config Entry) :
    Except Err (Acc NodeKey Warn) :=
  match prepare fs (codebase ++ filesOf config) with
  | .error e => .error e
  | .ok _ => findG (analyseEntry fs) config

/-- the property's reference for the same inputs: stateless union of single-command analyses -/
def specI (fs : FSMap) (codebase : List String) (config : Config Entry) :
    Except Err (Acc NodeKey Warn) :=
  match prepare fs (codebase ++ filesOf config) with
  | .error e => .error e
  | .ok _ => specFind (analyseEntry fs) config

/-- the state-threading run of the same instance (driver field `pp`; it replaces the design-phase port
`PP.find`): `finder.find` with the shared parse cache, every file through the C front end.
`C08.findI_eq_cached`: it equals `findIN n fs` on every input. -/
def findPP (n : Nat) (fs : FSMap) (codebase : List String) (config : Config Entry) :
    Except Err (Acc NodeKey Warn) :=
  FindCache.findC (semPP fs) n codebase config

/-! ### the decidable side condition of the engine-agreement theorems (`Props/C08Engines.lean`) -/

/-- every existing file has an extension class of the C family, or none -/
def CFam (fs : FSMap) : Bool := fs.all fun ft => extClass ft.1 == some .c || extClass ft.1 == none
/-- every existing file has an extension class of the C family -/
def AllC (fs : FSMap) : Bool := fs.all fun ft => extClass ft.1 == some .c

/-- the decidable side condition of the agreement theorem: no existing file is Fortran or assembler by extension;
the files of the code base and the compiled files are C-family by extension; and either no command has
`-include` files or every existing file is C-family by extension -/
def ClassOK (fs : FSMap) (cb : List String) (cfg : Config Entry) : Bool :=
  CFam fs && (cb ++ entryFiles cfg).all (fun f => extClass f == some .c) &&
  ((jobs cfg).all (fun j => j.2.includeFiles.isEmpty) || AllC fs)

end CbiVerif.FindInst
