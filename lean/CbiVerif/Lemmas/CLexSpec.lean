import CbiVerif.Lemmas.CLexBuf
/-! # C05: the reference scanner, physical line by physical line -/
namespace CbiVerif.CLexSim
open CbiVerif.CClean CbiVerif.CLexRef CbiVerif.CText

/-! ## characters and classes -/

theorem beq_char (c d : Char) : (c == d) = (c.toNat == d.toNat) := by
  by_cases h : c = d
  · subst h; simp
  · have h2 : c.toNat ≠ d.toNat := fun e => h (Char.toNat_inj.mp e)
    rw [beq_eq_false_iff_ne.mpr h, beq_eq_false_iff_ne.mpr h2]

theorem kind_classify (c : Char) (h : plainChar c = true) : kind c = (classify c).kind := by
  unfold kind classify cWhite pyIsSpace
  unfold plainChar cWhite at h
  simp only [beq_char, Char.reduceToNat] at h ⊢
  generalize c.toNat = n at *
  repeat' split
  all_goals first | rfl | (simp only [Cls.kind] <;> simp_all <;> omega) | (exfalso; simp_all; omega)

theorem isWhite_classify (c : Char) (h : plainChar c = true) : (classify c).isWhite = cWhite c := by
  unfold classify cWhite pyIsSpace
  unfold plainChar cWhite at h
  simp only [beq_char, Char.reduceToNat] at h ⊢
  generalize c.toNat = n at *
  repeat' split
  all_goals first | (simp only [Cls.isWhite] <;> simp_all <;> omega) | (exfalso; simp_all; omega)


/-! ## survivors as buffer actions -/

def _root_.CbiVerif.CLexRef.Surv.render : Surv → List REmit
  | .ch c _ lit => [if cWhite c && !lit then .sp else .ns (classify c)]
  | .nl _ => []

def renderAll (out : List Surv) : List REmit := out.flatMap Surv.render

def _root_.CbiVerif.CLexRef.Surv.onLine (n : Nat) : Surv → Bool
  | .ch _ m _ => m == n
  | .nl m => m == n

def _root_.CbiVerif.CLexRef.Surv.isNl : Surv → Bool
  | .ch _ _ _ => false
  | .nl _ => true

theorem renderAll_append (a b : List Surv) : renderAll (a ++ b) = renderAll a ++ renderAll b := by
  simp [renderAll]

theorem scan_eta (b : Scan) : (⟨b.st, b.out, b.k1⟩ : Scan) = b := by cases b; rfl

theorem decomment_append (xs ys : List Item) : ∀ s : DState, decomment s (xs ++ ys) =
    match decomment s xs with
    | none => none
    | some a =>
      match decomment a.st ys with
      | none => none
      | some b => some ⟨b.st, a.out ++ b.out, a.k1 || b.k1⟩ := by
  induction xs with
  | nil =>
    intro s
    simp only [List.nil_append, decomment]
    cases decomment s ys with
    | none => rfl
    | some b => simp [scan_eta]
  | cons it its ih =>
    intro s
    simp only [List.cons_append, decomment]
    cases hd : decItem s it with
    | none => rfl
    | some r =>
      simp only [ih r.st]
      cases decomment r.st its with
      | none => rfl
      | some a =>
        simp only
        cases decomment a.st ys with
        | none => rfl
        | some b => simp [List.append_assoc, Bool.or_assoc]

/-! ## one character -/

theorem render_slash (p : Nat) : Surv.render (.ch '/' p false) = [.ns .slash] := by
  simp [Surv.render, cWhite, classify]

theorem render_space (n : Nat) : Surv.render (.ch ' ' n false) = [.sp] := by
  simp [Surv.render, cWhite]

theorem decItem_ch (s : DState) (c : Char) (n : Nat) (r : DRes) (hp : plainChar c = true)
    (h : decItem s (.ch c n) = some r) :
    ∃ o, dstep s.mode (classify c).kind = some o ∧ r.st.mode = o.mode ∧
      renderAll r.out = refEmits s.mode (classify c) o ∧
      (r.k1 = false → ∀ x ∈ r.out, x.onLine n = true) ∧ (∀ x ∈ r.out, x.isNl = false) ∧
      (r.st.mode = .sqSl → r.st.ptag = n) ∧
      (r.k1 = false → s.mode = .sqSl → s.ptag = n) := by
  simp only [decItem] at h
  rw [kind_classify c hp] at h
  cases ho : dstep s.mode (classify c).kind with
  | none => simp [ho] at h
  | some o =>
    simp only [ho, Option.some.injEq] at h
    subst h
    refine ⟨o, rfl, rfl, ?_, ?_, ?_, ?_, ?_⟩
    · simp only [renderAll, refEmits, keepEmit, isWhite_classify c hp]
      cases o.pend <;> cases o.space <;> cases o.keep <;>
        simp [Surv.render, cWhite, classify]
    · intro hk x hx
      simp only [Bool.and_eq_false_iff, Bool.or_eq_false_iff, bne_eq_false_iff_eq] at hk
      simp only [List.mem_append] at hx
      rcases hx with (hx | hx) | hx
      · cases hpd : o.pend with
        | false => simp [hpd] at hx
        | true =>
          simp only [hpd, if_true, List.mem_singleton] at hx
          subst hx
          rcases hk with hk | hk
          · simp [hpd] at hk
          · simp [Surv.onLine, hk]
      · cases hsp : o.space <;> simp [hsp] at hx
        subst hx; simp [Surv.onLine]
      · cases hkp : o.keep <;> simp [hkp] at hx
        subst hx; simp [Surv.onLine]
    · intro x hx
      simp only [List.mem_append] at hx
      rcases hx with (hx | hx) | hx
      · cases hpd : o.pend <;> simp [hpd] at hx
        subst hx; rfl
      · cases hsp : o.space <;> simp [hsp] at hx
        subst hx; rfl
      · cases hkp : o.keep <;> simp [hkp] at hx
        subst hx; rfl
    · intro hm
      simp only at hm
      simp [hm]
    · intro hk hm
      simp only [Bool.and_eq_false_iff, Bool.or_eq_false_iff, bne_eq_false_iff_eq] at hk
      rcases hk with hk | hk
      · simp [hm] at hk
      · exact hk

/-! ## a run of characters of physical line `n` -/

def tagged (n : Nat) (cs : List Char) : List Item := cs.map (Item.ch · n)

theorem chars_ref (n : Nat) (cs : List Char) : ∀ (s : DState) (sc : Scan),
    decomment s (tagged n cs) = some sc → (∀ c ∈ cs, plainChar c = true) →
    refChars s.mode (cs.map classify) = some (sc.st.mode, renderAll sc.out) ∧
    (sc.k1 = false → ∀ x ∈ sc.out, x.onLine n = true) ∧ (∀ x ∈ sc.out, x.isNl = false) ∧
    ((s.mode = .sqSl → s.ptag = n) → sc.st.mode = .sqSl → sc.st.ptag = n) ∧
    (sc.k1 = false → cs ≠ [] → s.mode = .sqSl → s.ptag = n) := by
  induction cs with
  | nil =>
    intro s sc h _
    simp only [tagged, List.map_nil, decomment, Option.some.injEq] at h
    subst h
    exact ⟨rfl, fun _ _ hx => by simp at hx, fun _ hx => by simp at hx, fun hs hm => hs hm, fun _ hne => absurd rfl hne⟩
  | cons c cs ih =>
    intro s sc h hp
    simp only [tagged, List.map_cons, decomment] at h
    cases hd : decItem s (.ch c n) with
    | none => simp [hd] at h
    | some r =>
      simp only [hd] at h
      cases hrest : decomment r.st (tagged n cs) with
      | none => simp only [tagged] at hrest; simp [hrest] at h
      | some rest =>
        simp only [tagged] at hrest
        simp only [hrest, Option.some.injEq] at h
        subst h
        obtain ⟨o, ho, hm, hr, ht, hnl, hpt, hsq⟩ := decItem_ch s c n r (hp c (by simp)) hd
        obtain ⟨i1, i2, i3, i4, _⟩ := ih r.st rest hrest (fun c' hc' => hp c' (by simp [hc']))
        refine ⟨?_, ?_, ?_, ?_, ?_⟩
        · simp only [List.map_cons, refChars, ho]
          rw [← hm, i1]
          simp [renderAll_append, hr]
        · intro hk x hx
          simp only [Bool.or_eq_false_iff] at hk
          simp only [List.mem_append] at hx
          rcases hx with hx | hx
          · exact ht hk.1 x hx
          · exact i2 hk.2 x hx
        · intro x hx
          simp only [List.mem_append] at hx
          rcases hx with hx | hx
          · exact hnl x hx
          · exact i3 x hx
        · intro _ hmode
          exact i4 hpt hmode
        · intro hk _ hmode
          simp only [Bool.or_eq_false_iff] at hk
          exact hsq hk.1 hmode

/-! ## the newline item -/

theorem render_nl (n : Nat) : Surv.render (.nl n) = [] := rfl

theorem decItem_nl (s : DState) (n : Nat) (r : DRes) (h : decItem s (.nl n) = some r) :
    ∃ ends, refNewline s.mode = some (r.st.mode, renderAll r.out, ends) ∧
      (∃ body, r.out = body ++ (if ends then [Surv.nl n] else []) ∧ (∀ x ∈ body, x.isNl = false) ∧
        (r.k1 = false → ∀ x ∈ body, x.onLine n = true)) ∧ r.st.mode ≠ .sqSl := by
  simp only [decItem] at h
  cases hm : s.mode with
  | code =>
    simp only [hm, Option.some.injEq] at h; subst h
    exact ⟨true, by simp [refNewline, renderAll, render_nl], ⟨[], by simp⟩, by simp⟩
  | slash =>
    simp only [hm, Option.some.injEq] at h; subst h
    refine ⟨true, by simp [refNewline, renderAll, render_slash, render_nl], ⟨[.ch '/' s.ptag false], by simp, by simp [Surv.isNl], ?_⟩, by simp⟩
    intro hk x hx
    simp only [bne_eq_false_iff_eq] at hk
    simp only [List.mem_singleton] at hx
    subst hx
    simp [Surv.onLine, hk]
  | lineC =>
    simp only [hm, Option.some.injEq] at h; subst h
    exact ⟨true, by simp [refNewline, renderAll, render_space, render_nl],
      ⟨[.ch ' ' n false], by simp [Surv.isNl, Surv.onLine]⟩, by simp⟩
  | blockC =>
    simp only [hm, Option.some.injEq] at h; subst h
    exact ⟨false, by simp [refNewline, renderAll], ⟨[], by simp⟩, by simp⟩
  | blockStar =>
    simp only [hm, Option.some.injEq] at h; subst h
    exact ⟨false, by simp [refNewline, renderAll], ⟨[], by simp⟩, by simp⟩
  | dq => simp [hm] at h
  | dqEsc => simp [hm] at h
  | sq0 => simp [hm] at h
  | sqN => simp [hm] at h
  | sqSl => simp [hm] at h
  | sqEsc => simp [hm] at h


/-! ## one physical line -/

def plainLine (r : RawLine) : Bool := r.body.all plainChar

theorem map_pchar_fst (cs : List Char) : (cs.map pchar).map (·.1) = cs.map classify := by
  simp [pchar, Function.comp_def]

/-- what the main induction needs to know about the reference scan `sc` of physical line `n`
    started in state `s` -/
structure LineFacts (s : DState) (n : Nat) (r : RawLine) (sc : Scan) (ends : Bool) (body : List Surv) : Prop where
  ref : refLine s.mode ((toPLine r).chars.map (·.1)) (toPLine r).continued = some (sc.st.mode, renderAll body, ends)
  out : sc.out = body ++ (if ends then [Surv.nl n] else [])
  noNl : ∀ x ∈ body, x.isNl = false
  tags : sc.k1 = false → ∀ x ∈ body, x.onLine n = true
  ptag : (s.mode = .sqSl → s.ptag = n) → sc.st.mode = .sqSl → sc.st.ptag = n
  cont : ends = true → (toPLine r).continued = false

theorem line_ref (s : DState) (n : Nat) (r : RawLine) (sc : Scan)
    (h : decomment s (lineItems n r) = some sc) (hp : plainLine r = true) :
    ∃ ends body, LineFacts s n r sc ends body := by
  have hpl : ∀ c ∈ r.body, plainChar c = true := by simpa [plainLine] using hp
  unfold lineItems spliced at h
  by_cases hb : CLexRef.endsBackslash r.body = true
  · have hb' : CClean.endsBackslash r.body = true := hb
    simp only [hb, if_true] at h
    obtain ⟨h1, h2, h3, h4, _⟩ := chars_ref n r.body.dropLast s sc h (fun c hc => hpl c ((List.dropLast_sublist r.body).subset hc))
    refine ⟨false, sc.out, ?_, by simp, h3, h2, h4, by simp⟩
    simp only [toPLine, hb', if_true, map_pchar_fst, refLine, h1]
  · have hb' : CClean.endsBackslash r.body = false := by
      simpa [CClean.endsBackslash, CLexRef.endsBackslash] using hb
    simp only [hb, Bool.false_eq_true, if_false] at h
    have happ := decomment_append (tagged n r.body) [Item.nl n] s
    simp only [tagged] at happ
    rw [happ] at h
    cases ha : decomment s (List.map (fun x => Item.ch x n) r.body) with
    | none => simp [ha] at h
    | some a =>
      simp only [ha, decomment] at h
      cases hd : decItem a.st (.nl n) with
      | none => simp [hd] at h
      | some d =>
        simp only [hd, Option.some.injEq] at h
        subst h
        obtain ⟨h1, h2, h3, h4, _⟩ := chars_ref n r.body s a ha hpl
        obtain ⟨ends, hn, ⟨body', hb1, hb2, hb3⟩, hb4⟩ := decItem_nl a.st n d hd
        refine ⟨ends, a.out ++ body', ?_, ?_, ?_, ?_, ?_, ?_⟩
        · simp only [toPLine, hb', Bool.false_eq_true, if_false, map_pchar_fst, refLine, h1, hn]
          have : renderAll d.out = renderAll body' := by
            rw [hb1, renderAll_append]
            cases ends <;> simp [renderAll, render_nl]
          rw [renderAll_append, this]
        · simp [hb1, List.append_assoc]
        · intro x hx
          simp only [List.mem_append] at hx
          rcases hx with hx | hx
          · exact h3 x hx
          · exact hb2 x hx
        · intro hk x hx
          simp only [Bool.or_false, Bool.or_eq_false_iff] at hk
          simp only [List.mem_append] at hx
          rcases hx with hx | hx
          · exact h2 hk.1 x hx
          · exact hb3 hk.2 x hx
        · intro _ hm
          exact absurd hm hb4
        · intro _
          simp [toPLine, hb']


/-! ## the whole text as a list of per-line scans -/

def lastSt (s : DState) : List Scan → DState
  | [] => s
  | sc :: rest => lastSt sc.st rest

def scanPer (s : DState) (n : Nat) : List RawLine → Option (List Scan)
  | [] => some []
  | r :: rs =>
    match decomment s (lineItems n r) with
    | none => none
    | some sc =>
      match scanPer sc.st (n + 1) rs with
      | none => none
      | some scs => some (sc :: scs)

theorem decomment_splice (rs : List RawLine) : ∀ (s : DState) (n : Nat), decomment s (splice n rs) =
    (scanPer s n rs).map fun scs => ⟨lastSt s scs, scs.flatMap (·.out), scs.any (·.k1)⟩ := by
  induction rs with
  | nil => intro s n; rfl
  | cons r rs ih =>
    intro s n
    simp only [splice, decomment_append, scanPer]
    cases decomment s (lineItems n r) with
    | none => rfl
    | some sc =>
      simp only [ih sc.st (n + 1)]
      cases scanPer sc.st (n + 1) rs with
      | none => rfl
      | some scs => simp [lastSt]

def _root_.CbiVerif.CLexRef.Item.line : Item → Nat
  | .ch _ n => n
  | .nl n => n

theorem sqSl_items (s : DState) (n : Nat) (its : List Item) (sc : Scan) (h : decomment s its = some sc)
    (hm : s.mode = .sqSl) (hlt : s.ptag < n) (hl : ∀ it ∈ its, it.line = n) : (its = [] ∧ sc.st = s) ∨ sc.k1 = true := by
  cases its with
  | nil =>
    simp only [decomment, Option.some.injEq] at h
    subst h; exact Or.inl ⟨rfl, rfl⟩
  | cons it rest =>
    right
    simp only [decomment] at h
    cases hd : decItem s it with
    | none => simp [hd] at h
    | some d =>
      simp only [hd] at h
      cases hr : decomment d.st rest with
      | none => simp [hr] at h
      | some rr =>
        simp only [hr, Option.some.injEq] at h
        subst h
        have hline := hl it (by simp)
        cases it with
        | nl m => simp [decItem, hm] at hd
        | ch c m =>
          simp only [Item.line] at hline
          subst hline
          simp only [decItem] at hd
          cases ho : dstep s.mode (kind c) with
          | none => simp [ho] at hd
          | some o =>
            simp only [ho, Option.some.injEq] at hd
            subst hd
            have : (s.ptag != m) = true := by simp; omega
            simp [hm, this]

theorem lineItems_line (n : Nat) (r : RawLine) : ∀ it ∈ lineItems n r, it.line = n := by
  intro it hit
  unfold lineItems at hit
  split at hit
  · simp only [List.mem_map] at hit
    obtain ⟨c, _, rfl⟩ := hit; rfl
  · simp only [List.mem_append, List.mem_map, List.mem_singleton] at hit
    rcases hit with ⟨c, _, rfl⟩ | rfl <;> rfl

/-- a `/` that is the last c-char before a splice inside a character constant is always flagged -/
theorem sqSl_carry (rs : List RawLine) : ∀ (s : DState) (n : Nat) (scs : List Scan), scanPer s n rs = some scs →
    s.mode = .sqSl → s.ptag < n → scs.any (·.k1) = true ∨ (lastSt s scs).mode = .sqSl := by
  induction rs with
  | nil =>
    intro s n scs h hm _
    simp only [scanPer, Option.some.injEq] at h
    subst h; right; simpa [lastSt] using hm
  | cons r rs ih =>
    intro s n scs h hm hlt
    simp only [scanPer] at h
    cases hd : decomment s (lineItems n r) with
    | none => simp [hd] at h
    | some sc =>
      simp only [hd] at h
      cases hr : scanPer sc.st (n + 1) rs with
      | none => simp [hr] at h
      | some rest =>
        simp only [hr, Option.some.injEq] at h
        subst h
        rcases sqSl_items s n _ sc hd hm hlt (lineItems_line n r) with ⟨_, hst⟩ | hk
        · rcases ih sc.st (n + 1) rest hr (by rw [hst]; exact hm) (by rw [hst]; omega) with h1 | h1
          · left; simp [h1]
          · right; simpa [lastSt] using h1
        · left; simp [hk]

end CbiVerif.CLexSim
