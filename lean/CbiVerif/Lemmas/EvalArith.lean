import CbiVerif.Model.EvalBridge
/-! C02 lemmas: the evaluator's operations on `_c_int`-wrapped integers (`Eval.applyBinary/applyUnary/
    applyTernary`) are the C operations on `BitVec 64` (`CExpr.cBin/cUn`) wherever C defines them; the
    signedness of every result depends on the operands' signedness only.  Core `BitVec`/`Int` lemmas and
    `omega`; no bit-blasting. -/
namespace CbiVerif.EvalArith
open CbiVerif.Eval CbiVerif.CExpr CbiVerif.EvalBridge

theorem cInt_ofInt (z : Int) (u : Bool) : cInt z u = mval ⟨u, BitVec.ofInt 64 z⟩ := by
  cases u
  · simp only [cInt, mval, BitVec.toInt_ofInt, Int.bmod, two64, two63, Bool.false_eq_true, if_false]
    by_cases h : z % 18446744073709551616 ≥ 9223372036854775808
    · simp only [h, if_true]; congr 1
      have : ¬ (z % ((2 ^ 64 : Nat) : Int) < (((2 ^ 64 : Nat) : Int) + 1) / 2) := by omega
      simp only [this, if_false]; omega
    · simp only [h, if_false]; congr 1
      have : (z % ((2 ^ 64 : Nat) : Int) < (((2 ^ 64 : Nat) : Int) + 1) / 2) := by omega
      simp only [this, if_true]; omega
  · simp only [cInt, mval, BitVec.toNat_ofInt, two64, if_true]
    congr 1
    omega

theorem ofInt_mval (v : CExpr.Val) : BitVec.ofInt 64 (mval v).v = v.bits := by
  obtain ⟨u, b⟩ := v
  cases u
  · simp [mval]
  · simp [mval, BitVec.ofInt_natCast]

theorem cInt_mval (v : CExpr.Val) (u : Bool) : cInt (mval v).v u = mval ⟨u, v.bits⟩ := by
  rw [cInt_ofInt, ofInt_mval]

theorem cInt_unsigned (z : Int) (u : Bool) : (cInt z u).unsigned = u := by
  rw [cInt_ofInt]; rfl

def conv (u : Bool) (x : BitVec 64) : Int := if u then (x.toNat : Int) else x.toInt
theorem mval_v (v : CExpr.Val) : (mval v).v = conv v.unsigned v.bits := rfl
theorem mval_u (v : CExpr.Val) : (mval v).unsigned = v.unsigned := rfl
theorem cInt_conv (v : CExpr.Val) (u : Bool) : (cInt (mval v).v u).v = conv u v.bits := by
  rw [cInt_mval]; rfl
theorem ofInt_conv (u : Bool) (x : BitVec 64) : BitVec.ofInt 64 (conv u x) = x := by
  have := ofInt_mval ⟨u, x⟩; simpa [mval_v] using this

theorem ofInt_sub (a b : Int) : BitVec.ofInt 64 (a - b) = BitVec.ofInt 64 a - BitVec.ofInt 64 b := by
  rw [Int.sub_eq_add_neg, BitVec.ofInt_add, BitVec.ofInt_neg, BitVec.sub_eq_add_neg]

theorem add_ok (x y : CExpr.Val) :
    applyBinary "+" (mval x) (mval y) = mval ⟨x.unsigned || y.unsigned, x.bits + y.bits⟩ := by
  simp only [applyBinary, String.reduceBEq, Bool.false_eq_true, if_false, Bool.or_self, if_true, mval_u, cInt_conv]
  rw [cInt_ofInt, BitVec.ofInt_add, ofInt_conv, ofInt_conv]
theorem sub_ok (x y : CExpr.Val) :
    applyBinary "-" (mval x) (mval y) = mval ⟨x.unsigned || y.unsigned, x.bits - y.bits⟩ := by
  simp only [applyBinary, String.reduceBEq, Bool.false_eq_true, if_false, Bool.or_self, if_true, mval_u, cInt_conv]
  rw [cInt_ofInt, ofInt_sub, ofInt_conv, ofInt_conv]
theorem mul_ok (x y : CExpr.Val) :
    applyBinary "*" (mval x) (mval y) = mval ⟨x.unsigned || y.unsigned, x.bits * y.bits⟩ := by
  simp only [applyBinary, String.reduceBEq, Bool.false_eq_true, if_false, Bool.or_self, if_true, mval_u, cInt_conv]
  rw [cInt_ofInt, BitVec.ofInt_mul, ofInt_conv, ofInt_conv]

theorem conv_emod (u : Bool) (x : BitVec 64) : (conv u x % two64).toNat = x.toNat := by
  have h := x.isLt
  cases u
  · simp only [conv, Bool.false_eq_true, if_false, two64, BitVec.toInt_eq_toNat_cond]
    split <;> omega
  · simp only [conv, if_true, two64]; omega

theorem ofInt_natCast' (n : Nat) : BitVec.ofInt 64 (n : Int) = BitVec.ofNat 64 n := BitVec.ofInt_natCast 64 n

theorem or_ok (x y : CExpr.Val) :
    applyBinary "|" (mval x) (mval y) = mval ⟨x.unsigned || y.unsigned, x.bits ||| y.bits⟩ := by
  simp only [applyBinary, String.reduceBEq, Bool.false_eq_true, if_false, Bool.or_self, if_true, mval_u, cInt_conv, natOr, conv_emod]
  rw [cInt_ofInt, ofInt_natCast']
  congr 2
  apply BitVec.eq_of_toNat_eq
  simp
theorem xor_ok (x y : CExpr.Val) :
    applyBinary "^" (mval x) (mval y) = mval ⟨x.unsigned || y.unsigned, x.bits ^^^ y.bits⟩ := by
  simp only [applyBinary, String.reduceBEq, Bool.false_eq_true, if_false, Bool.or_self, if_true, mval_u, cInt_conv, natXor, conv_emod]
  rw [cInt_ofInt, ofInt_natCast']
  congr 2
  apply BitVec.eq_of_toNat_eq
  simp
theorem and_ok (x y : CExpr.Val) :
    applyBinary "&" (mval x) (mval y) = mval ⟨x.unsigned || y.unsigned, x.bits &&& y.bits⟩ := by
  simp only [applyBinary, String.reduceBEq, Bool.false_eq_true, if_false, Bool.or_self, if_true, mval_u, cInt_conv, natAnd, conv_emod]
  rw [cInt_ofInt, ofInt_natCast']
  congr 2
  apply BitVec.eq_of_toNat_eq
  simp

theorem b2v_ofBool (b : Bool) : b2v b = mval (Val.ofBool b) := by
  cases b <;> simp [b2v, mval, Val.ofBool] <;> decide

theorem conv_inj (u : Bool) (x y : BitVec 64) : conv u x = conv u y ↔ x = y := by
  constructor
  · intro h; rw [← ofInt_conv u x, ← ofInt_conv u y, h]
  · intro h; rw [h]

theorem conv_lt (u : Bool) (x y : BitVec 64) : decide (conv u x < conv u y) = (if u then x.ult y else x.slt y) := by
  cases u
  · simp only [conv, Bool.false_eq_true, if_false]
    rw [Bool.eq_iff_iff]; simp [BitVec.slt_iff_toInt_lt]
  · simp only [conv, if_true]
    rw [Bool.eq_iff_iff]; simp [BitVec.ult_iff_lt, BitVec.lt_def]
theorem conv_le (u : Bool) (x y : BitVec 64) : decide (conv u x ≤ conv u y) = (if u then x.ule y else x.sle y) := by
  cases u
  · simp only [conv, Bool.false_eq_true, if_false]
    rw [Bool.eq_iff_iff]; simp [BitVec.sle_iff_toInt_le]
  · simp only [conv, if_true]
    rw [Bool.eq_iff_iff]; simp [BitVec.ule_iff_le, BitVec.le_def]

theorem lt_ok (x y : CExpr.Val) :
    applyBinary "<" (mval x) (mval y) = mval (Val.ofBool (if x.unsigned || y.unsigned then x.bits.ult y.bits else x.bits.slt y.bits)) := by
  simp only [applyBinary, String.reduceBEq, Bool.false_eq_true, if_false, Bool.or_self, if_true, mval_u, cInt_conv, conv_lt, b2v_ofBool]
theorem gt_ok (x y : CExpr.Val) :
    applyBinary ">" (mval x) (mval y) = mval (Val.ofBool (if x.unsigned || y.unsigned then y.bits.ult x.bits else y.bits.slt x.bits)) := by
  simp only [applyBinary, String.reduceBEq, Bool.false_eq_true, if_false, Bool.or_self, if_true, mval_u, cInt_conv, GT.gt, conv_lt, b2v_ofBool]
theorem le_ok (x y : CExpr.Val) :
    applyBinary "<=" (mval x) (mval y) = mval (Val.ofBool (if x.unsigned || y.unsigned then x.bits.ule y.bits else x.bits.sle y.bits)) := by
  simp only [applyBinary, String.reduceBEq, Bool.false_eq_true, if_false, Bool.or_self, if_true, mval_u, cInt_conv, conv_le, b2v_ofBool]
theorem ge_ok (x y : CExpr.Val) :
    applyBinary ">=" (mval x) (mval y) = mval (Val.ofBool (if x.unsigned || y.unsigned then y.bits.ule x.bits else y.bits.sle x.bits)) := by
  simp only [applyBinary, String.reduceBEq, Bool.false_eq_true, if_false, Bool.or_self, if_true, mval_u, cInt_conv, GE.ge, conv_le, b2v_ofBool]
theorem eq_ok (x y : CExpr.Val) :
    applyBinary "==" (mval x) (mval y) = mval (Val.ofBool (x.bits == y.bits)) := by
  simp only [applyBinary, String.reduceBEq, Bool.false_eq_true, if_false, Bool.or_self, if_true, mval_u, cInt_conv, b2v_ofBool]
  congr 2
  rw [Bool.eq_iff_iff]; simp [conv_inj]
theorem ne_ok (x y : CExpr.Val) :
    applyBinary "!=" (mval x) (mval y) = mval (Val.ofBool (x.bits != y.bits)) := by
  simp only [applyBinary, String.reduceBEq, Bool.false_eq_true, if_false, Bool.or_self, if_true, mval_u, cInt_conv, b2v_ofBool]
  congr 2
  rw [Bool.eq_iff_iff]; simp [conv_inj]

theorem mval_v_ne_zero (x : CExpr.Val) : ((mval x).v != 0) = (x.bits != 0#64) := by
  rw [Bool.eq_iff_iff]
  have : (mval x).v = conv x.unsigned x.bits := rfl
  have h0 : conv x.unsigned (0#64) = 0 := by cases x.unsigned <;> simp [conv]
  simp only [bne_iff_ne, ne_eq, this]
  rw [← h0, conv_inj]
theorem mval_v_eq_zero (x : CExpr.Val) : ((mval x).v == 0) = (x.bits == 0#64) := by
  have := mval_v_ne_zero x
  simp only [bne, Bool.not_eq_eq_eq_not, Bool.not_not] at this
  exact this

theorem land_ok (x y : CExpr.Val) :
    applyBinary "&&" (mval x) (mval y) = mval (Val.ofBool (x.bits != 0#64 && y.bits != 0#64)) := by
  simp only [applyBinary, String.reduceBEq, Bool.false_eq_true, if_false, if_true, mval_v_ne_zero, b2v_ofBool]
theorem lor_ok (x y : CExpr.Val) :
    applyBinary "||" (mval x) (mval y) = mval (Val.ofBool (x.bits != 0#64 || y.bits != 0#64)) := by
  simp only [applyBinary, String.reduceBEq, Bool.false_eq_true, if_false, if_true, mval_v_ne_zero, b2v_ofBool]

theorem truncQuot_eq (a b : Int) : truncQuot a b = Int.tdiv a b := by
  unfold truncQuot
  cases a with
  | ofNat m =>
    cases b with
    | ofNat n =>
      simp [Int.tdiv]; intro h; omega
    | negSucc n =>
      have h2 : (Int.negSucc n < 0) := Int.negSucc_lt_zero n
      simp [h2, Int.tdiv]
  | negSucc m =>
    cases b with
    | ofNat n =>
      have h1 : (Int.negSucc m < 0) := Int.negSucc_lt_zero m
      simp [h1, Int.tdiv]
    | negSucc n =>
      have h1 : (Int.negSucc m < 0) := Int.negSucc_lt_zero m
      have h2 : (Int.negSucc n < 0) := Int.negSucc_lt_zero n
      simp [h1, h2, Int.tdiv]

theorem ofInt_bmod (z : Int) : BitVec.ofInt 64 (z.bmod (2 ^ 64)) = BitVec.ofInt 64 z := by
  apply BitVec.eq_of_toInt_eq
  simp [BitVec.toInt_ofInt]

theorem conv_false (x : BitVec 64) : conv false x = x.toInt := rfl
theorem conv_true (x : BitVec 64) : conv true x = (x.toNat : Int) := rfl

theorem conv_eq_zero (u : Bool) (y : BitVec 64) : (conv u y == 0) = (y == 0#64) := by
  have h0 : conv u (0#64) = 0 := by cases u <;> simp [conv]
  rw [Bool.eq_iff_iff]; simp only [beq_iff_eq]
  rw [← h0, conv_inj]

theorem sdiv_ok (x y : CExpr.Val) (hu : (x.unsigned || y.unsigned) = false) (hy : (y.bits == 0#64) = false) :
    applyBinary "/" (mval x) (mval y) = mval ⟨false, x.bits.sdiv y.bits⟩ := by
  simp only [applyBinary, String.reduceBEq, Bool.false_eq_true, if_false, Bool.or_self, if_true, mval_u, cInt_conv, hu, conv_eq_zero, hy, truncQuot_eq]
  simp only [conv_false]
  rw [cInt_ofInt]
  congr 2
  rw [← ofInt_bmod, ← BitVec.toInt_sdiv, BitVec.ofInt_toInt]
theorem srem_ok (x y : CExpr.Val) (hu : (x.unsigned || y.unsigned) = false) (hy : (y.bits == 0#64) = false) :
    applyBinary "%" (mval x) (mval y) = mval ⟨false, x.bits.srem y.bits⟩ := by
  simp only [applyBinary, String.reduceBEq, Bool.false_eq_true, if_false, Bool.or_self, if_true, mval_u, cInt_conv, hu, conv_eq_zero, hy, truncQuot_eq]
  simp only [conv_false]
  rw [cInt_ofInt]
  congr 2
  have : x.bits.toInt - x.bits.toInt.tdiv y.bits.toInt * y.bits.toInt = x.bits.toInt.tmod y.bits.toInt := by
    rw [Int.tmod_def, Int.mul_comm]
  rw [this, ← BitVec.toInt_srem, BitVec.ofInt_toInt]
theorem udiv_ok (x y : CExpr.Val) (hu : (x.unsigned || y.unsigned) = true) (hy : (y.bits == 0#64) = false) :
    applyBinary "/" (mval x) (mval y) = mval ⟨true, x.bits / y.bits⟩ := by
  simp only [applyBinary, String.reduceBEq, Bool.false_eq_true, if_false, Bool.or_self, if_true, mval_u, cInt_conv, hu, conv_eq_zero, hy, truncQuot_eq]
  simp only [conv_true]
  rw [cInt_ofInt]
  congr 2
  apply BitVec.eq_of_toNat_eq
  rw [BitVec.toNat_udiv, ← Int.ofNat_tdiv, ofInt_natCast', BitVec.toNat_ofNat]
  apply Nat.mod_eq_of_lt
  have := x.bits.isLt
  exact Nat.lt_of_le_of_lt (Nat.div_le_self _ _) this
theorem umod_ok (x y : CExpr.Val) (hu : (x.unsigned || y.unsigned) = true) (hy : (y.bits == 0#64) = false) :
    applyBinary "%" (mval x) (mval y) = mval ⟨true, x.bits % y.bits⟩ := by
  simp only [applyBinary, String.reduceBEq, Bool.false_eq_true, if_false, Bool.or_self, if_true, mval_u, cInt_conv, hu, conv_eq_zero, hy, truncQuot_eq]
  simp only [conv_true]
  rw [cInt_ofInt]
  congr 2
  have : (x.bits.toNat : Int) - (x.bits.toNat : Int).tdiv y.bits.toNat * y.bits.toNat = ((x.bits.toNat % y.bits.toNat : Nat) : Int) := by
    rw [← Int.ofNat_tdiv]
    have h1 := Int.emod_def (x.bits.toNat : Int) (y.bits.toNat : Int)
    have h2 : ((x.bits.toNat / y.bits.toNat : Nat) : Int) = (x.bits.toNat : Int) / (y.bits.toNat : Int) := by simp
    have h3 : ((x.bits.toNat % y.bits.toNat : Nat) : Int) = (x.bits.toNat : Int) % (y.bits.toNat : Int) := by simp
    rw [h3, h1, h2, Int.mul_comm]
  rw [this]
  apply BitVec.eq_of_toNat_eq
  rw [BitVec.toNat_umod, ofInt_natCast', BitVec.toNat_ofNat]
  apply Nat.mod_eq_of_lt
  have := x.bits.isLt
  exact Nat.lt_of_le_of_lt (Nat.mod_le _ _) this

/-- a defined shift count is the evaluator's integer for the right operand -/
theorem shiftCount_some (y : CExpr.Val) (n : Nat) (h : shiftCount y = some n) :
    (mval y).v = (n : Int) ∧ n < 64 := by
  unfold shiftCount at h
  split at h
  · simp at h
  · split at h
    · simp at h
    · rename_i h1 h2
      simp only [Option.some.injEq] at h
      subst h
      refine ⟨?_, by omega⟩
      simp only [mval_v, conv]
      cases hu : y.unsigned
      · simp only [Bool.false_eq_true, if_false]
        simp only [hu, Bool.not_false, Bool.true_and, decide_eq_true_eq] at h1
        rw [BitVec.toInt_eq_toNat_cond] at h1 ⊢
        split <;> rename_i h3
        · rfl
        · rw [if_neg h3] at h1; omega
      · simp

theorem ofInt_two_pow (n : Nat) : BitVec.ofInt 64 ((2 : Int) ^ n) = BitVec.twoPow 64 n := by
  have : ((2 : Int) ^ n) = ((2 ^ n : Nat) : Int) := by simp
  rw [this, ofInt_natCast']
  apply BitVec.eq_of_toNat_eq
  simp [BitVec.toNat_twoPow]

theorem shl_ok (x y : CExpr.Val) (n : Nat) (h : shiftCount y = some n) :
    applyBinary "<<" (mval x) (mval y) = mval ⟨x.unsigned, x.bits <<< n⟩ := by
  obtain ⟨hv, hn⟩ := shiftCount_some y n h
  have h1 : ¬ ((n : Int) < 0) := by omega
  have h2 : ¬ ((n : Int) ≥ 64) := by omega
  simp only [applyBinary, String.reduceBEq, Bool.false_eq_true, if_false, Bool.or_false, Bool.false_or, if_true, mval_u, hv, h1, h2, decide_false, Int.toNat_natCast]
  rw [cInt_ofInt, BitVec.ofInt_mul, ofInt_mval, ofInt_two_pow, BitVec.shiftLeft_eq_mul_twoPow]

theorem shr_ok (x y : CExpr.Val) (n : Nat) (h : shiftCount y = some n) :
    applyBinary ">>" (mval x) (mval y) = mval ⟨x.unsigned, if x.unsigned then x.bits >>> n else x.bits.sshiftRight n⟩ := by
  obtain ⟨hv, hn⟩ := shiftCount_some y n h
  have h1 : ¬ ((n : Int) < 0) := by omega
  have h2 : ¬ ((n : Int) ≥ 64) := by omega
  simp only [applyBinary, String.reduceBEq, Bool.false_eq_true, if_false, Bool.or_false, Bool.false_or, Bool.or_true, if_true, mval_u, hv, h1, h2, decide_false, Int.toNat_natCast]
  rw [cInt_ofInt]
  congr 2
  cases hu : x.unsigned
  · simp only [Bool.false_eq_true, if_false, mval_v, hu, conv_false]
    have : ((2 : Int) ^ n) = ((2 ^ n : Nat) : Int) := by simp
    rw [this, ← Int.shiftRight_eq_div_pow, ← BitVec.toInt_sshiftRight, BitVec.ofInt_toInt]
  · simp only [if_true, mval_v, hu, conv_true]
    have : (x.bits.toNat : Int) / (2 : Int) ^ n = ((x.bits.toNat / 2 ^ n : Nat) : Int) := by simp
    rw [this, ofInt_natCast']
    apply BitVec.eq_of_toNat_eq
    rw [BitVec.toNat_ushiftRight, Nat.shiftRight_eq_div_pow, BitVec.toNat_ofNat]
    apply Nat.mod_eq_of_lt
    exact Nat.lt_of_le_of_lt (Nat.div_le_self _ _) x.bits.isLt

/-! unary -/
theorem neg_ok (x : CExpr.Val) : applyUnary "-" (mval x) = mval ⟨x.unsigned, -x.bits⟩ := by
  simp only [applyUnary, String.reduceBEq, if_true, mval_u]
  rw [cInt_ofInt, BitVec.ofInt_neg, ofInt_mval]
theorem pos_ok (x : CExpr.Val) : applyUnary "+" (mval x) = mval x := by
  simp only [applyUnary, String.reduceBEq, Bool.false_eq_true, if_false, if_true, mval_u]
  rw [cInt_mval]
theorem lnot_ok (x : CExpr.Val) : applyUnary "!" (mval x) = mval (Val.ofBool (x.bits == 0#64)) := by
  simp only [applyUnary, String.reduceBEq, Bool.false_eq_true, if_false, if_true, mval_v_eq_zero, b2v_ofBool]
theorem bnot_ok (x : CExpr.Val) : applyUnary "~" (mval x) = mval ⟨x.unsigned, ~~~x.bits⟩ := by
  simp only [applyUnary, String.reduceBEq, Bool.false_eq_true, if_false, if_true, mval_u]
  rw [cInt_ofInt]
  congr 2
  rw [ofInt_sub, BitVec.ofInt_neg, ofInt_mval]
  have := BitVec.neg_eq_not_add x.bits
  rw [this]
  apply BitVec.eq_of_toNat_eq
  simp [BitVec.toNat_add, BitVec.toNat_sub]
  omega

/-! ?: -/
theorem tern_ok (c t e : CExpr.Val) :
    applyTernary (mval c) (mval t) (mval e) =
      mval ⟨t.unsigned || e.unsigned, if c.bits != 0#64 then t.bits else e.bits⟩ := by
  simp only [applyTernary, mval_v_ne_zero, mval_u]
  split
  · rw [cInt_mval]
  · rw [cInt_mval]

/-- every binary operator: where C defines the result, the evaluator's operation on the wrapped
    integers is the C operation on the 64-bit values -/
theorem applyBinary_spec (op : BinOp) (x y v : CExpr.Val) (h : cBin op x y = some v) :
    applyBinary op.sym (mval x) (mval y) = mval v := by
  cases op <;> simp only [cBin] at h <;> simp only [BinOp.sym]
  case add => split at h <;> simp at h; subst h; exact add_ok x y
  case sub => split at h <;> simp at h; subst h; exact sub_ok x y
  case mul => split at h <;> simp at h; subst h; exact mul_ok x y
  case div =>
    split at h; · simp at h
    rename_i hy; simp only [Bool.not_eq_true] at hy
    split at h
    · rename_i hu; simp at h; subst h; exact udiv_ok x y hu hy
    · rename_i hu; simp only [Bool.not_eq_true] at hu
      split at h; · simp at h
      simp at h; subst h; exact sdiv_ok x y hu hy
  case mod =>
    split at h; · simp at h
    rename_i hy; simp only [Bool.not_eq_true] at hy
    split at h
    · rename_i hu; simp at h; subst h; exact umod_ok x y hu hy
    · rename_i hu; simp only [Bool.not_eq_true] at hu
      split at h; · simp at h
      simp at h; subst h; exact srem_ok x y hu hy
  case shl =>
    split at h; · simp at h
    rename_i n hn
    rw [shl_ok x y n hn]
    split at h
    · rename_i hu; simp at h; subst h; rw [hu]
    · rename_i hu; simp only [Bool.not_eq_true] at hu
      split at h <;> simp at h; subst h; rw [hu]
  case shr =>
    split at h; · simp at h
    rename_i n hn
    rw [shr_ok x y n hn]
    split at h
    · rename_i hu; simp at h; subst h; simp [hu]
    · rename_i hu; simp only [Bool.not_eq_true] at hu; simp at h; subst h; simp [hu]
  case lt => simp only [Option.some.injEq] at h; subst h; exact lt_ok x y
  case gt => simp only [Option.some.injEq] at h; subst h; exact gt_ok x y
  case le => simp only [Option.some.injEq] at h; subst h; exact le_ok x y
  case ge => simp only [Option.some.injEq] at h; subst h; exact ge_ok x y
  case eq => simp at h; subst h; exact eq_ok x y
  case ne => simp at h; subst h; exact ne_ok x y
  case band => simp at h; subst h; exact and_ok x y
  case bxor => simp at h; subst h; exact xor_ok x y
  case bor => simp at h; subst h; exact or_ok x y
  case land => simp at h; subst h; exact land_ok x y
  case lor => simp at h; subst h; exact lor_ok x y

theorem applyUnary_spec (op : UnOp) (x v : CExpr.Val) (h : cUn op x = some v) :
    applyUnary op.sym (mval x) = mval v := by
  cases op <;> simp only [cUn] at h <;> simp only [UnOp.sym]
  case neg => split at h <;> simp at h; subst h; exact neg_ok x
  case pos => simp at h; subst h; exact pos_ok x
  case lnot => simp at h; subst h; exact lnot_ok x
  case bnot => simp at h; subst h; exact bnot_ok x

/-! signedness of the evaluator's results depends on the operands' signedness only (whatever their values) -/
def binU (op : BinOp) (lu ru : Bool) : Bool :=
  match op with
  | .land | .lor | .lt | .gt | .le | .ge | .eq | .ne => false
  | .shl | .shr => lu
  | _ => lu || ru
def unU (op : UnOp) (u : Bool) : Bool := match op with | .lnot => false | _ => u

theorem b2v_unsigned (b : Bool) : (b2v b).unsigned = false := rfl

theorem applyBinary_unsigned (op : BinOp) (l r : Eval.Val) :
    (applyBinary op.sym l r).unsigned = binU op l.unsigned r.unsigned := by
  cases op <;> simp only [BinOp.sym, applyBinary, String.reduceBEq, Bool.false_eq_true, if_false, if_true, Bool.or_self, Bool.or_false, Bool.or_true, Bool.false_or, binU] <;>
    (repeat' split) <;> simp only [cInt_unsigned, b2v_unsigned]

theorem applyUnary_unsigned (op : UnOp) (x : Eval.Val) :
    (applyUnary op.sym x).unsigned = unU op x.unsigned := by
  cases op <;> simp only [UnOp.sym, applyUnary, String.reduceBEq, Bool.false_eq_true, if_false, if_true, unU, cInt_unsigned, b2v_unsigned]

theorem applyTernary_unsigned (c t e : Eval.Val) : (applyTernary c t e).unsigned = (t.unsigned || e.unsigned) := by
  simp only [applyTernary, cInt_unsigned]

theorem cBin_unsigned (op : BinOp) (x y v : CExpr.Val) (h : cBin op x y = some v) :
    v.unsigned = binU op x.unsigned y.unsigned := by
  have h1 := applyBinary_spec op x y v h
  have h2 := applyBinary_unsigned op (mval x) (mval y)
  rw [h1] at h2; exact h2
theorem cUn_unsigned (op : UnOp) (x v : CExpr.Val) (h : cUn op x = some v) :
    v.unsigned = unU op x.unsigned := by
  have h1 := applyUnary_spec op x v h
  have h2 := applyUnary_unsigned op (mval x)
  rw [h1] at h2; exact h2
end CbiVerif.EvalArith
