/-! Prototype 2: c_cleaner line counting vs reference — step simulation lemma. -/
namespace CbiVerif.CLex2

inductive Cls | slash | star | dq | sq | bslash | hash | ws | other
deriving DecidableEq, Repr

inductive Mode | top | dir | dq | sq | esc | slash | lineC | blockC | blockStar
deriving DecidableEq, Repr

inductive Emit | sp | ns (c : Cls)
deriving DecidableEq, Repr

abbrev Stack := List Mode   -- head = state[-1]

/-- one dispatch of `c_cleaner.process`; third component = `putback(char)` -/
def step1 (st : Stack) (blank : Bool) (c : Cls) : Stack × List Emit × Bool :=
  match st with
  | [] => ([], [], false)
  | .top :: r =>
    match c with
    | .bslash => (.esc :: .top :: r, [.ns c], false)
    | .slash => (.slash :: .top :: r, [], false)
    | .dq => (.dq :: .top :: r, [.ns c], false)
    | .sq => (.sq :: .top :: r, [.ns c], false)
    | .hash => if blank then (.dir :: .top :: r, [.ns c], false) else (.top :: r, [.ns c], false)
    | .ws => (.top :: r, [.sp], false)
    | _ => (.top :: r, [.ns c], false)
  | .dir :: r =>
    match c with
    | .bslash => (.esc :: .dir :: r, [.ns c], false)
    | .slash => (.slash :: .dir :: r, [], false)
    | .dq => (.dq :: .dir :: r, [.ns c], false)
    | .sq => (.sq :: .dir :: r, [.ns c], false)
    | .ws => (.dir :: r, [.sp], false)
    | _ => (.dir :: r, [.ns c], false)
  | .dq :: r =>
    match c with
    | .bslash => (.esc :: .dq :: r, [.ns c], false)
    | .dq => (r, [.ns c], false)
    | _ => (.dq :: r, [.ns c], false)
  | .sq :: r =>
    match c with
    | .bslash => (.esc :: .sq :: r, [.ns c], false)
    | .slash => (.slash :: .sq :: r, [], false)
    | .sq => (r, [.ns c], false)
    | _ => (.sq :: r, [.ns c], false)
  | .slash :: r =>
    match c with
    | .slash => (.lineC :: r, [], false)
    | .star => (.blockC :: r, [], false)
    | _ => (r, [.ns .slash], true)
  | .blockC :: r =>
    match c with
    | .star => (.blockStar :: .blockC :: r, [], false)
    | _ => (.blockC :: r, [], false)
  | .blockStar :: r =>
    match c with
    | .slash => (r.tail, [.sp], false)
    | .star => (.blockStar :: r, [], false)
    | _ => (r, [], false)
  | .esc :: r => (r, [.ns c], false)
  | .lineC :: r => (.lineC :: r, [], false)

def step (st : Stack) (blank : Bool) (c : Cls) : Stack × List Emit :=
  match step1 st blank c with
  | (st1, e1, true) => match step1 st1 false c with | (st2, e2, _) => (st2, e1 ++ e2)
  | (st1, e1, false) => (st1, e1)

def logicalNewline (st : Stack) : Stack × List Emit :=
  match st with
  | .lineC :: _ => ([.top], [.sp])
  | .slash :: _ => ([.top], [.ns .slash])
  | .sq :: _ => ([.top], [])
  | .dq :: _ => ([.top], [])
  | .blockStar :: r => (r, [])
  | .dir :: _ => ([.top], [])
  | st => (st, [])

def Emit.visible : Emit → Bool | .ns .ws => false | .ns _ => true | .sp => false
def Emit.litWs : Emit → Bool | .ns .ws => true | _ => false

/-! ## Reference scanner (translation phase 3 on the spliced stream), with well-formedness -/

inductive WMode | code | slash | dq | dqEsc | sq0 | sq1 | sqEsc | lineC | blockC | blockStar
deriving DecidableEq, Repr

structure ROut where
  mode : WMode
  pend : Bool    -- a previously seen '/' turns out to be code (visible)
  now : Bool     -- this character survives and is visible
  lit : Bool     -- this character is white space inside a literal

/-- `none` = ill-formed (stray backslash, bad character constant) -/
def rstep (m : WMode) (c : Cls) : Option ROut :=
  match m with
  | .code =>
    match c with
    | .bslash => none
    | .slash => some ⟨.slash, false, false, false⟩
    | .dq => some ⟨.dq, false, true, false⟩
    | .sq => some ⟨.sq0, false, true, false⟩
    | .ws => some ⟨.code, false, false, false⟩
    | _ => some ⟨.code, false, true, false⟩
  | .slash =>
    match c with
    | .bslash => none
    | .slash => some ⟨.lineC, false, false, false⟩
    | .star => some ⟨.blockC, false, false, false⟩
    | .dq => some ⟨.dq, true, true, false⟩
    | .sq => some ⟨.sq0, true, true, false⟩
    | .ws => some ⟨.code, true, false, false⟩
    | _ => some ⟨.code, true, true, false⟩
  | .dq =>
    match c with
    | .bslash => some ⟨.dqEsc, false, true, false⟩
    | .dq => some ⟨.code, false, true, false⟩
    | .ws => some ⟨.dq, false, false, true⟩
    | _ => some ⟨.dq, false, true, false⟩
  | .dqEsc => some ⟨.dq, false, c != .ws, c == .ws⟩
  | .sq0 =>
    match c with
    | .bslash => some ⟨.sqEsc, false, true, false⟩
    | .sq => none
    | .ws => some ⟨.sq1, false, false, true⟩
    | _ => some ⟨.sq1, false, true, false⟩
  | .sqEsc => some ⟨.sq1, false, c != .ws, c == .ws⟩
  | .sq1 =>
    match c with
    | .sq => some ⟨.code, false, true, false⟩
    | _ => none
  | .lineC => some ⟨.lineC, false, false, false⟩
  | .blockC => some ⟨if c == .star then .blockStar else .blockC, false, false, false⟩
  | .blockStar => some ⟨if c == .slash then .code else if c == .star then .blockStar else .blockC, false, false, false⟩

/-! ## Simulation relation -/

/-- the cleaner stack that corresponds to reference mode `w` over base `[.top]` / `[.dir, .top]`;
    `hold` = the cleaner holds back a '/' inside a character constant -/
def absStack (dirBase : Bool) (w : WMode) (hold : Bool) : Stack :=
  let b : Stack := if dirBase then [.dir, .top] else [.top]
  match w with
  | .code => b
  | .slash => .slash :: b
  | .dq => .dq :: b
  | .dqEsc => .esc :: .dq :: b
  | .sq0 => .sq :: b
  | .sq1 => if hold then .slash :: .sq :: b else .sq :: b
  | .sqEsc => .esc :: .sq :: b
  | .lineC => .lineC :: b
  | .blockC => .blockC :: b
  | .blockStar => .blockStar :: .blockC :: b

def okHold (w : WMode) (hold : Bool) : Bool := !hold || w == .sq1

def anyVisible (es : List Emit) : Bool := es.any Emit.visible
def anyLitWs (es : List Emit) : Bool := es.any Emit.litWs

/-- the per-character obligation as a decidable check -/
def stepOK (d : Bool) (w : WMode) (hold : Bool) (blank : Bool) (c : Cls) : Bool :=
  !okHold w hold ||
  match rstep w c with
  | none => true
  | some o =>
    let r := step (absStack d w hold) blank c
    [(false, false), (false, true), (true, false), (true, true)].any fun (d', hold') =>
      r.1 == absStack d' o.mode hold' && okHold o.mode hold' &&
      ((anyVisible r.2 || hold') == (o.pend || o.now || hold)) &&
      (anyLitWs r.2 == o.lit) && (!hold' || c == .slash)

def allW : List WMode := [.code, .slash, .dq, .dqEsc, .sq0, .sq1, .sqEsc, .lineC, .blockC, .blockStar]
def allC : List Cls := [.slash, .star, .dq, .sq, .bslash, .hash, .ws, .other]
def allB : List Bool := [false, true]

theorem stepOK_all : (allB.all fun d => allW.all fun w => allB.all fun h => allB.all fun bl => allC.all fun c =>
    stepOK d w h bl c) = true := by decide

theorem stepOK_each (d : Bool) (w : WMode) (hold : Bool) (blank : Bool) (c : Cls) : stepOK d w hold blank c = true := by
  have h := stepOK_all
  simp only [List.all_eq_true] at h
  exact h d (by cases d <;> simp [allB]) w (by cases w <;> simp [allW]) hold (by cases hold <;> simp [allB])
    blank (by cases blank <;> simp [allB]) c (by cases c <;> simp [allC])


/-! ## Buffers and whole lines -/

structure Buf where
  parts : List Bool := []      -- for each part: is it the string " "?
  trailing : Bool := false

def Buf.add (b : Buf) : Emit → Buf
  | .sp => if b.trailing then b else { parts := b.parts ++ [true], trailing := true }
  | .ns c => { parts := b.parts ++ [c == .ws], trailing := false }
def Buf.addAll (b : Buf) (es : List Emit) : Buf := es.foldl Buf.add b
def Buf.blank (b : Buf) : Bool := b.parts == [] || b.parts == [true]

def procChars : Stack → Buf → List Cls → Stack × Buf
  | st, b, [] => (st, b)
  | st, b, c :: cs => procChars (step st b.blank c).1 (b.addAll (step st b.blank c).2) cs

structure PLine where
  chars : List Cls
  continued : Bool

/-- one iteration of the `for` loop of `c_file_source` -/
def procLine (st : Stack) (l : PLine) : Stack × Bool :=
  let r := procChars st {} l.chars
  if !l.continued && r.1.head? != some .blockC then
    ((logicalNewline r.1).1, !(r.2.addAll (logicalNewline r.1).2).blank)
  else (r.1, !r.2.blank)

def cbiCounted : Stack → List PLine → List Bool
  | _, [] => []
  | st, l :: ls => (procLine st l).2 :: cbiCounted (procLine st l).1 ls

/-! reference, line by line -/
structure RAcc where
  mode : WMode
  vis : Bool      -- a visible character of this line survives
  lit : Bool      -- white space inside a literal occurs on this line

def rchars : RAcc → List Cls → Option RAcc
  | a, [] => some a
  | a, c :: cs =>
    match rstep a.mode c with
    | none => none
    | some o => rchars ⟨o.mode, a.vis || o.pend || o.now, a.lit || o.lit⟩ cs

/-- reference at an unspliced newline: new mode, and whether a pending '/' survives -/
def rnewline : WMode → Option (WMode × Bool)
  | .code => some (.code, false)
  | .slash => some (.code, true)
  | .lineC => some (.code, false)
  | .blockC => some (.blockC, false)
  | .blockStar => some (.blockC, false)
  | _ => none     -- unterminated literal

/-- `none`: ill-formed or in a recorded finding class (K1: pending '/' carried over a splice;
    K2: white space inside a literal on a line with nothing visible) -/
def rline (m : WMode) (l : PLine) : Option (WMode × Bool) :=
  match rchars ⟨m, false, false⟩ l.chars with
  | none => none
  | some a =>
    if l.continued then
      if a.mode == .slash then none                                   -- K1
      else if a.mode == .sq1 && l.chars.getLast? == some .slash then none   -- K1 inside '…'
      else if a.lit && !a.vis then none                               -- K2
      else some (a.mode, a.vis)
    else
      match rnewline a.mode with
      | none => none
      | some (m', p) => if a.lit && !(a.vis || p) then none else some (m', a.vis || p)

def refCounted : WMode → List PLine → Option (List Bool)
  | m, [] => if m == .code then some [] else none
  | m, l :: ls =>
    match rline m l with
    | none => none
    | some (m', b) => match refCounted m' ls with | none => none | some bs => some (b :: bs)


/-! ## Buffer lemmas -/
def Buf.hasVis (b : Buf) : Bool := b.parts.any (fun x => !x)
def Buf.OnlySp (b : Buf) : Prop := (b.parts = [] ∧ b.trailing = false) ∨ (b.parts = [true] ∧ b.trailing = true)

theorem hasVis_add (b : Buf) (e : Emit) : (b.add e).hasVis = (b.hasVis || e.visible) := by
  cases e with
  | sp => simp only [Buf.add, Emit.visible, Bool.or_false]; split <;> simp [Buf.hasVis]
  | ns c => cases c <;> simp [Buf.add, Buf.hasVis, Emit.visible]

theorem hasVis_addAll (b : Buf) (es : List Emit) : (b.addAll es).hasVis = (b.hasVis || anyVisible es) := by
  induction es generalizing b with
  | nil => simp [Buf.addAll, anyVisible]
  | cons e es ih =>
    simp only [Buf.addAll, List.foldl_cons] at ih ⊢
    rw [ih, hasVis_add]; simp [anyVisible, Bool.or_assoc]

theorem onlySp_add (b : Buf) (e : Emit) (h : b.OnlySp) (hv : e.visible = false) (hl : e.litWs = false) :
    (b.add e).OnlySp := by
  cases e with
  | sp =>
    rcases h with ⟨hp, ht⟩ | ⟨hp, ht⟩
    · right; simp [Buf.add, hp, ht]
    · right; simp [Buf.add, hp, ht]
  | ns c => cases c <;> simp [Emit.visible, Emit.litWs] at hv hl

theorem onlySp_addAll (b : Buf) (es : List Emit) (h : b.OnlySp) (hv : anyVisible es = false) (hl : anyLitWs es = false) :
    (b.addAll es).OnlySp := by
  induction es generalizing b with
  | nil => simpa [Buf.addAll] using h
  | cons e es ih =>
    simp only [anyVisible, anyLitWs, List.any_cons, Bool.or_eq_false_iff] at hv hl
    simp only [Buf.addAll, List.foldl_cons]
    exact ih _ (onlySp_add b e h hv.1 hl.1) (by simpa [anyVisible] using hv.2) (by simpa [anyLitWs] using hl.2)

theorem blank_of_onlySp (b : Buf) (h : b.OnlySp) : b.blank = true := by
  rcases h with ⟨hp, _⟩ | ⟨hp, _⟩ <;> simp [Buf.blank, hp]

theorem blank_of_hasVis (b : Buf) (h : b.hasVis = true) : b.blank = false := by
  unfold Buf.blank Buf.hasVis at *
  cases hp : b.parts with
  | nil => simp [hp] at h
  | cons x xs =>
    cases xs with
    | nil => cases x <;> simp_all
    | cons y ys => simp

/-- buffer invariant on a physical line: `v`/`l` = some visible / literal-white-space emission so far -/
structure BInv (b : Buf) (v l : Bool) : Prop where
  vis : b.hasVis = v
  only : v = false → l = false → b.OnlySp

theorem BInv.addAll {b : Buf} {v l : Bool} (h : BInv b v l) (es : List Emit) :
    BInv (b.addAll es) (v || anyVisible es) (l || anyLitWs es) := by
  refine ⟨by rw [hasVis_addAll, h.vis], ?_⟩
  intro hv hl
  simp only [Bool.or_eq_false_iff] at hv hl
  exact onlySp_addAll b es (h.only hv.1 hl.1) hv.2 hl.2

theorem BInv.counted {b : Buf} {v l : Bool} (h : BInv b v l) (hk : l = true → v = true) : (!b.blank) = v := by
  cases v with
  | true => simp [blank_of_hasVis b h.vis]
  | false =>
    have hl : l = false := by cases l <;> simp_all
    simp [blank_of_onlySp b (h.only rfl hl)]


/-! ## Lifting the finite check to characters, lines and texts -/

theorem step_sim (d : Bool) (w : WMode) (hold blank : Bool) (c : Cls) (o : ROut)
    (hk : okHold w hold = true) (ho : rstep w c = some o) :
    ∃ d' hold', (step (absStack d w hold) blank c).1 = absStack d' o.mode hold' ∧ okHold o.mode hold' = true ∧
      ((anyVisible (step (absStack d w hold) blank c).2 || hold') = (o.pend || o.now || hold)) ∧
      (anyLitWs (step (absStack d w hold) blank c).2 = o.lit) ∧ (hold' = true → c = .slash) := by
  have h := stepOK_each d w hold blank c
  simp only [stepOK, hk, Bool.not_true, Bool.false_or, ho, List.any_cons, List.any_nil, Bool.or_false,
    Bool.or_eq_true, Bool.and_eq_true, beq_iff_eq] at h
  rcases h with h | h | h | h
  · exact ⟨false, false, h.1.1.1.1, h.1.1.1.2, by simpa using h.1.1.2, h.1.2, by simp⟩
  · exact ⟨false, true, h.1.1.1.1, h.1.1.1.2, h.1.1.2, h.1.2, fun _ => by simpa using h.2⟩
  · exact ⟨true, false, h.1.1.1.1, h.1.1.1.2, by simpa using h.1.1.2, h.1.2, by simp⟩
  · exact ⟨true, true, h.1.1.1.1, h.1.1.1.2, h.1.1.2, h.1.2, fun _ => by simpa using h.2⟩

theorem chars_sim (chars : List Cls) : ∀ (d : Bool) (w : WMode) (hold : Bool) (buf : Buf) (v l : Bool) (a0 a : RAcc),
    okHold w hold = true → a0.mode = w → BInv buf v l → (v || hold) = a0.vis → l = a0.lit →
    rchars a0 chars = some a →
    ∃ d' hold' v' l', (procChars (absStack d w hold) buf chars).1 = absStack d' a.mode hold' ∧
      okHold a.mode hold' = true ∧ BInv (procChars (absStack d w hold) buf chars).2 v' l' ∧
      (v' || hold') = a.vis ∧ l' = a.lit ∧
      (hold' = true → (chars = [] ∧ hold = true) ∨ chars.getLast? = some .slash) := by
  induction chars with
  | nil =>
    intro d w hold buf v l a0 a hk hm hb hv hl hr
    simp only [rchars, Option.some.injEq] at hr
    subst hr
    exact ⟨d, hold, v, l, by simp [procChars, hm], by simpa [hm] using hk, by simpa [procChars] using hb, hv, hl,
      fun h => Or.inl ⟨rfl, h⟩⟩
  | cons c cs ih =>
    intro d w hold buf v l a0 a hk hm hb hv hl hr
    simp only [rchars] at hr
    cases ho : rstep a0.mode c with
    | none => simp [ho] at hr
    | some o =>
      simp only [ho] at hr
      obtain ⟨d', hold', hs1, hs2, hs3, hs4, hs5⟩ := step_sim d w hold buf.blank c o hk (hm ▸ ho)
      simp only [procChars]
      rw [hs1]
      have hvis : (v || anyVisible (step (absStack d w hold) buf.blank c).2 || hold') = (a0.vis || o.pend || o.now) := by
        have : (v || anyVisible (step (absStack d w hold) buf.blank c).2 || hold')
            = (v || (anyVisible (step (absStack d w hold) buf.blank c).2 || hold')) := by
          simp [Bool.or_assoc]
        rw [this, hs3, ← hv]
        cases v <;> cases hold <;> cases o.pend <;> cases o.now <;> rfl
      have hlit : (l || anyLitWs (step (absStack d w hold) buf.blank c).2) = (a0.lit || o.lit) := by rw [hs4, hl]
      obtain ⟨d2, h2, v2, l2, r1, r2, r3, r4, r5, r6⟩ := ih d' o.mode hold' _ (v || anyVisible (step (absStack d w hold) buf.blank c).2)
        (l || anyLitWs (step (absStack d w hold) buf.blank c).2) ⟨o.mode, a0.vis || o.pend || o.now, a0.lit || o.lit⟩ a hs2 rfl (hb.addAll _) hvis hlit hr
      refine ⟨d2, h2, v2, l2, r1, r2, r3, r4, r5, ?_⟩
      intro hh
      right
      rcases r6 hh with ⟨rfl, hh'⟩ | hlast
      · simp [hs5 hh']
      · cases cs with
        | nil => simp at hlast
        | cons x xs => simpa [List.getLast?_cons_cons] using hlast


theorem binv_empty : BInv ({} : Buf) false false :=
  ⟨by simp [Buf.hasVis], fun _ _ => Or.inl ⟨rfl, rfl⟩⟩

/-- the newline obligation as a decidable check -/
def newlineOK (d : Bool) (w : WMode) : Bool :=
  match rnewline w with
  | none => true
  | some (m', p) =>
    let st := absStack d w false
    if st.head? != some Mode.blockC then
      ([false, true].any fun d' => (logicalNewline st).1 == absStack d' m' false) &&
        (anyVisible (logicalNewline st).2 == p) && (anyLitWs (logicalNewline st).2 == false)
    else (m' == w) && (p == false)

theorem newlineOK_all : (allB.all fun d => allW.all fun w => newlineOK d w) = true := by decide

theorem newline_sim (d : Bool) (w m' : WMode) (p : Bool) (h : rnewline w = some (m', p)) :
    if (absStack d w false).head? != some Mode.blockC then
      (∃ d', (logicalNewline (absStack d w false)).1 = absStack d' m' false) ∧
        anyVisible (logicalNewline (absStack d w false)).2 = p ∧ anyLitWs (logicalNewline (absStack d w false)).2 = false
    else m' = w ∧ p = false := by
  have hall := newlineOK_all
  simp only [List.all_eq_true] at hall
  have hd := hall d (by cases d <;> simp [allB]) w (by cases w <;> simp [allW])
  simp only [newlineOK, h] at hd
  split
  · rename_i hc
    simp only [hc, if_true, Bool.and_eq_true, List.any_cons, List.any_nil, Bool.or_false, Bool.or_eq_true, beq_iff_eq] at hd
    refine ⟨?_, hd.1.2, hd.2⟩
    rcases hd.1.1 with h1 | h1
    · exact ⟨false, h1⟩
    · exact ⟨true, h1⟩
  · rename_i hc
    simp only [hc, Bool.false_eq_true, if_false, Bool.and_eq_true, beq_iff_eq] at hd
    exact hd

/-- One physical line: the cleaner counts it iff the reference says a visible character survives on it. -/
theorem line_sim (d : Bool) (w w' : WMode) (l : PLine) (b : Bool) (h : rline w l = some (w', b)) :
    ∃ d', procLine (absStack d w false) l = (absStack d' w' false, b) := by
  unfold rline at h
  cases hr : rchars ⟨w, false, false⟩ l.chars with
  | none => simp [hr] at h
  | some a =>
    simp only [hr] at h
    obtain ⟨d', hold', v', l', h1, h2, h3, h4, h5, h6⟩ :=
      chars_sim l.chars d w false {} false false ⟨w, false, false⟩ a (by simp [okHold]) rfl binv_empty rfl rfl hr
    cases hc : l.continued with
    | true =>
      simp only [hc, if_true] at h
      split at h
      · simp at h
      · rename_i hns
        split at h
        · simp at h
        · rename_i hnq
          split at h
          · simp at h
          · rename_i hk2
            simp only [Option.some.injEq, Prod.mk.injEq] at h
            obtain ⟨rfl, rfl⟩ := h
            have hh : hold' = false := by
              cases hold' with
              | false => rfl
              | true =>
                exfalso
                have hm : a.mode = .sq1 := by
                  have := h2; cases hmode : a.mode <;> simp [okHold, hmode] at this ⊢
                rcases h6 rfl with ⟨_, hf⟩ | hlast
                · simp at hf
                · simp [hm, hlast] at hnq
            subst hh
            refine ⟨d', ?_⟩
            simp only [procLine, hc, Bool.not_true, Bool.false_and, Bool.false_eq_true, if_false, h1]
            have hv : v' = a.vis := by simpa using h4
            have : (!(procChars (absStack d w false) {} l.chars).2.blank) = v' :=
              h3.counted (by
                intro hl; rw [h5] at hl; rw [hv]
                cases hav : a.vis with
                | true => rfl
                | false => simp [hl, hav] at hk2)
            rw [this, hv]
    | false =>
      simp only [hc, Bool.false_eq_true, if_false] at h
      cases hn : rnewline a.mode with
      | none => simp [hn] at h
      | some mp =>
        obtain ⟨m', p⟩ := mp
        simp only [hn] at h
        split at h
        · simp at h
        · rename_i hk2
          simp only [Option.some.injEq, Prod.mk.injEq] at h
          obtain ⟨rfl, rfl⟩ := h
          have hh : hold' = false := by
            cases hold' with
            | false => rfl
            | true =>
              exfalso
              have := h2
              cases hmode : a.mode <;> simp [okHold, hmode] at this
              simp [rnewline, hmode] at hn
          subst hh
          have hv : v' = a.vis := by simpa using h4
          have hns := newline_sim d' a.mode m' p hn
          simp only [procLine, hc, Bool.not_false, Bool.true_and, h1]
          split at hns
          · rename_i hcond
            obtain ⟨⟨d2, hst⟩, hvis, hlit⟩ := hns
            refine ⟨d2, ?_⟩
            simp only [hcond, if_true, hst]
            have h3' := h3.addAll (logicalNewline (absStack d' a.mode false)).2
            rw [hvis, hlit] at h3'
            have := h3'.counted (by
              intro hl
              simp only [Bool.or_false] at hl
              rw [h5] at hl; rw [hv]
              cases hav : a.vis with
              | true => rfl
              | false => simp [hl, hav] at hk2 ⊢; exact hk2)
            rw [this, hv]
          · rename_i hcond
            obtain ⟨rfl, rfl⟩ := hns
            refine ⟨d', ?_⟩
            simp only [hcond, Bool.false_eq_true, if_false, Bool.or_false]
            have := h3.counted (by
              intro hl; rw [h5] at hl; rw [hv]
              cases hav : a.vis with
              | true => rfl
              | false => simp [hl, hav] at hk2)
            rw [this, hv]

/-- **C05 (class level): for every well-formed text outside the recorded finding classes, the lines
    counted by the cleaner are exactly the lines on which a visible character survives
    splicing and comment removal.** -/
theorem counted_eq_ref (t : List PLine) : ∀ (d : Bool) (w : WMode) (bs : List Bool),
    refCounted w t = some bs → cbiCounted (absStack d w false) t = bs := by
  induction t with
  | nil =>
    intro d w bs h
    simp only [refCounted] at h
    split at h <;> simp at h
    simp [cbiCounted, h]
  | cons l ls ih =>
    intro d w bs h
    simp only [refCounted] at h
    cases hl : rline w l with
    | none => simp [hl] at h
    | some r =>
      obtain ⟨w', b⟩ := r
      simp only [hl] at h
      cases hrest : refCounted w' ls with
      | none => simp [hrest] at h
      | some bs' =>
        simp only [hrest, Option.some.injEq] at h
        subst h
        obtain ⟨d', hp⟩ := line_sim d w w' l b hl
        simp only [cbiCounted, hp]
        rw [ih d' w' bs' hrest]

theorem counted_eq_ref_top (t : List PLine) (bs : List Bool) (h : refCounted .code t = some bs) :
    cbiCounted [.top] t = bs := counted_eq_ref t false .code bs h

end CbiVerif.CLex2
#print axioms CbiVerif.CLex2.counted_eq_ref_top
#print axioms CbiVerif.CLex2.stepOK_all
