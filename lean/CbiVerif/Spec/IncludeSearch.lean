/-! # C04 reference semantics of `#include` resolution (written from the property text / the
compiler's documented rule, not from the code).

`#include "f"`: the directory of the including file, then the `-I` directories in command-line
order, then the `-isystem` directories in command-line order.  `#include <f>`: the same list without
the including file's directory.  The first candidate that names an existing regular file wins.
Nothing else (no earlier look-up, no other spelling) takes part. -/
namespace CbiVerif.IncludeSearch

/-- What a resolution may observe of the outside world. -/
structure Env where
  /-- `os.path.isfile` (follows symbolic links) -/
  isfile : String → Bool
  /-- normalised `dir / name` -/
  join : String → String → String

/-- The directories a compiler searches, in order. -/
def searchList (quote : Bool) (dir : String) (ipaths isystem : List String) : List String :=
  (if quote then [dir] else []) ++ ipaths ++ isystem

def candidates (E : Env) (dirs : List String) (name : String) : List String :=
  dirs.map (E.join · name)

/-- first existing candidate along `dirs` -/
def resolveIn (E : Env) (dirs : List String) (name : String) : Option String :=
  (candidates E dirs name).find? E.isfile

/-- the compiler's rule -/
def resolve (E : Env) (quote : Bool) (dir : String) (ipaths isystem : List String) (name : String) :
    Option String :=
  resolveIn E (searchList quote dir ipaths isystem) name

/-! ## the command line: which directories are `-I`, which `-isystem` -/

/-- one element of a compiler command line as far as include directories are concerned -/
inductive Flag
  | I (dir : String)
  | isystem (dir : String)
  | other (text : String)
deriving DecidableEq, Repr

def Flag.getI : Flag → Option String | .I d => some d | _ => none
def Flag.getSys : Flag → Option String | .isystem d => some d | _ => none

/-- the compiler's search directories for a command line: every `-I` in order, then every `-isystem` in order -/
def commandDirs (argv : List Flag) : List String :=
  argv.filterMap Flag.getI ++ argv.filterMap Flag.getSys

end CbiVerif.IncludeSearch
