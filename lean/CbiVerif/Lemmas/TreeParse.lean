import CbiVerif.Model.Assoc
/-! Lemmas for `C01.structured_of_wellNested`: every line list that the reference machine accepts
structurally (no stray `#elif/#else/#endif`, nothing after `#else`, every `#if` closed) is the
line list of a structured program `b : Block`.  Shift-reduce parser over a stack of open chains. -/
namespace CbiVerif.Cond

/-! ## the structural part of the reference machine, independent of the semantics -/
def nestStep (st : List Bool) (l : Lbl) : Option (List Bool) :=
  match l.kind with
  | .code => some st
  | .other => some st
  | .ifk => some (false :: st)
  | .elifk => match st with
    | [] => none
    | e :: r => if e then none else some (false :: r)
  | .elsek => match st with
    | [] => none
    | e :: r => if e then none else some (true :: r)
  | .endk => match st with
    | [] => none
    | _ :: r => some r

def nestRun : List Bool → List Lbl → Option (List Bool)
  | st, [] => some st
  | st, l :: ls => match nestStep st l with
    | none => none
    | some st' => nestRun st' ls

variable {Env : Type}

theorem refStep_bad_mono (M : Sem Env) (r : RState Env) (l : Lbl) (h : r.bad = true) :
    (refStep M r l).bad = true := by
  obtain ⟨id, k, p⟩ := l
  cases k <;> simp only [refStep]
  · split <;> exact h
  · split <;> exact h
  · cases r.stack with
    | nil => rfl
    | cons f fs => simp only; split; rfl; split; exact h; split <;> exact h
  · cases r.stack with
    | nil => rfl
    | cons f fs => simp only; split; rfl; split <;> exact h
  · cases r.stack with
    | nil => rfl
    | cons f fs => simp only; split <;> exact h
  · split <;> exact h

theorem refRun_bad_mono (M : Sem Env) (ls : List Lbl) (r : RState Env) (h : r.bad = true) :
    (refRun M r ls).bad = true := by
  induction ls generalizing r with
  | nil => exact h
  | cons l ls ih => exact ih _ (refStep_bad_mono M r l h)

theorem refStep_nest (M : Sem Env) (r : RState Env) (l : Lbl) (h : (refStep M r l).bad = false) :
    nestStep (r.stack.map (·.seenElse)) l = some ((refStep M r l).stack.map (·.seenElse)) := by
  obtain ⟨id, k, p⟩ := l
  cases k <;> simp only [refStep, nestStep] at h ⊢
  · split <;> rfl
  · split <;> rfl
  · cases hs : r.stack with
    | nil => simp [hs] at h
    | cons f fs =>
      simp only [hs, List.map_cons] at h ⊢
      by_cases h1 : f.seenElse = true
      · simp [h1] at h
      · simp only [h1, Bool.false_eq_true, if_false]
        split
        · simp [hs, Bool.eq_false_iff.mpr h1]
        · split <;> simp
  · cases hs : r.stack with
    | nil => simp [hs] at h
    | cons f fs =>
      simp only [hs, List.map_cons] at h ⊢
      by_cases h1 : f.seenElse = true
      · simp [h1] at h
      · simp only [h1, Bool.false_eq_true, if_false]
        split <;> simp
  · cases hs : r.stack with
    | nil => simp [hs] at h
    | cons f fs =>
      simp only [List.map_cons]
      split <;> rfl
  · split <;> rfl

theorem refRun_nest (M : Sem Env) (ls : List Lbl) (r : RState Env) (h : (refRun M r ls).bad = false) :
    nestRun (r.stack.map (·.seenElse)) ls = some ((refRun M r ls).stack.map (·.seenElse)) := by
  induction ls generalizing r with
  | nil => rfl
  | cons l ls ih =>
    have hb : (refStep M r l).bad = false := by
      cases hx : (refStep M r l).bad with
      | false => rfl
      | true =>
        have := refRun_bad_mono M ls _ hx
        simp only [refRun, List.foldl] at h this
        rw [this] at h; cases h
    simp only [nestRun, refStep_nest M r l hb]
    exact ih _ h


/-! ## shift-reduce parser -/
def Block.snoc : Block → Item → Block
  | .nil, i => .cons i .nil
  | .cons j b, i => .cons j (b.snoc i)

theorem Block.snoc_lines : (b : Block) → (i : Item) → (b.snoc i).lines = b.lines ++ i.lines
  | .nil, i => by simp [Block.snoc, Block.lines]
  | .cons j b, i => by simp [Block.snoc, Block.lines, Block.snoc_lines b i]

/-- header of the group that is currently open -/
inductive Hd | cond (id pay : Nat) | els (id : Nat)

def Hd.isEls : Hd → Bool | .cond _ _ => false | .els _ => true

/-- an open chain: the items of the enclosing group before it, its finished groups
(header id, payload, body; the first one is the `#if`), and the header of the open group -/
structure Fr where
  outer : Block
  groups : List (Nat × Nat × Block)
  hd : Hd

def groupsLines : Bool → List (Nat × Nat × Block) → List Lbl
  | _, [] => []
  | first, (id, p, b) :: gs => ⟨id, if first then .ifk else .elifk, p⟩ :: (b.lines ++ groupsLines false gs)

def hdLine (first : Bool) : Hd → Lbl
  | .cond id p => ⟨id, if first then .ifk else .elifk, p⟩
  | .els id => ⟨id, .elsek, 0⟩

/-- the lines consumed so far, given the open chains (innermost first) and the open group's items -/
def stLines : List Fr → Block → List Lbl
  | [], cur => cur.lines
  | f :: fs, cur => stLines fs f.outer ++ groupsLines true f.groups ++ [hdLine f.groups.isEmpty f.hd] ++ cur.lines

def mkConts : List (Nat × Nat × Block) → Conts → Conts
  | [], c => c
  | (i, p, b) :: gs, c => .elif i p b (mkConts gs c)

def mkItem : List (Nat × Nat × Block) → Conts → Item
  | [], _ => .code 0
  | (i, p, b) :: gs, c => .cond i p b (mkConts gs c)

def closeFr (f : Fr) (cur : Block) (e : Nat) : Item :=
  match f.hd with
  | .cond i p => mkItem (f.groups ++ [(i, p, cur)]) (.endif e)
  | .els i => mkItem f.groups (.els i cur e)

def pstep (s : List Fr × Block) (l : Lbl) : Option (List Fr × Block) :=
  match l.kind with
  | .code => some (s.1, s.2.snoc (.code l.id))
  | .other => some (s.1, s.2.snoc (.dir l.id l.pay))
  | .ifk => some (⟨s.2, [], .cond l.id l.pay⟩ :: s.1, .nil)
  | .elifk => match s.1 with
    | [] => none
    | f :: fs => match f.hd with
      | .cond i p => some (⟨f.outer, f.groups ++ [(i, p, s.2)], .cond l.id l.pay⟩ :: fs, .nil)
      | .els _ => none
  | .elsek => match s.1 with
    | [] => none
    | f :: fs => match f.hd with
      | .cond i p => some (⟨f.outer, f.groups ++ [(i, p, s.2)], .els l.id⟩ :: fs, .nil)
      | .els _ => none
  | .endk => match s.1 with
    | [] => none
    | f :: fs => some (fs, f.outer.snoc (closeFr f s.2 l.id))

/-- payloads of code / `#else` / `#endif` lines carry no information: normalised to 0 -/
def Lbl.normal (l : Lbl) : Prop := (l.kind = .code ∨ l.kind = .elsek ∨ l.kind = .endk) → l.pay = 0

/-- an `#else` group is never the first group of its chain -/
def FrOk (f : Fr) : Prop := f.hd.isEls = true → f.groups ≠ []

theorem mkConts_lines (gs : List (Nat × Nat × Block)) (c : Conts) :
    (mkConts gs c).lines = groupsLines false gs ++ c.lines := by
  induction gs with
  | nil => simp [mkConts, groupsLines]
  | cons g gs ih => obtain ⟨i, p, b⟩ := g; simp [mkConts, groupsLines, Conts.lines, ih]

theorem mkItem_lines (g : Nat × Nat × Block) (gs : List (Nat × Nat × Block)) (c : Conts) :
    (mkItem (g :: gs) c).lines = groupsLines true (g :: gs) ++ c.lines := by
  obtain ⟨i, p, b⟩ := g
  simp [mkItem, groupsLines, Item.lines, mkConts_lines]

theorem groupsLines_snoc (first : Bool) (gs : List (Nat × Nat × Block)) (i p : Nat) (b : Block) :
    groupsLines first (gs ++ [(i, p, b)]) =
      groupsLines first gs ++ [hdLine (first && gs.isEmpty) (.cond i p)] ++ b.lines := by
  induction gs generalizing first with
  | nil => cases first <;> simp [groupsLines, hdLine]
  | cons g gs ih =>
    obtain ⟨j, q, c⟩ := g
    simp [groupsLines, ih, hdLine]

theorem closeFr_lines (f : Fr) (cur : Block) (e : Nat) (hf : FrOk f) :
    (closeFr f cur e).lines =
      groupsLines true f.groups ++ [hdLine f.groups.isEmpty f.hd] ++ cur.lines ++ [⟨e, .endk, 0⟩] := by
  obtain ⟨outer, groups, hd⟩ := f
  cases hd with
  | cond i p =>
    simp only [closeFr]
    cases groups with
    | nil => simp [mkItem, mkConts, Item.lines, Conts.lines, groupsLines, hdLine]
    | cons g gs =>
      rw [List.cons_append, mkItem_lines, ← List.cons_append, groupsLines_snoc]
      simp [Conts.lines]
  | els i =>
    simp only [closeFr]
    cases groups with
    | nil => exact absurd rfl (hf rfl)
    | cons g gs =>
      rw [mkItem_lines]
      simp [Conts.lines, hdLine]

theorem pstep_ok (fs : List Fr) (cur : Block) (l : Lbl) (hl : l.normal) (hfs : ∀ f ∈ fs, FrOk f)
    (st' : List Bool) (hn : nestStep (fs.map (·.hd.isEls)) l = some st') :
    ∃ fs' cur', pstep (fs, cur) l = some (fs', cur') ∧ st' = fs'.map (·.hd.isEls) ∧
      (∀ f ∈ fs', FrOk f) ∧ stLines fs' cur' = stLines fs cur ++ [l] := by
  obtain ⟨id, k, p⟩ := l
  cases k with
  | code =>
    have hp : p = 0 := hl (Or.inl rfl)
    subst hp
    simp only [nestStep, Option.some.injEq] at hn
    refine ⟨fs, cur.snoc (.code id), rfl, hn.symm, hfs, ?_⟩
    cases fs with
    | nil => simp [stLines, Block.snoc_lines, Item.lines]
    | cons f fs => simp [stLines, Block.snoc_lines, Item.lines]
  | other =>
    simp only [nestStep, Option.some.injEq] at hn
    refine ⟨fs, cur.snoc (.dir id p), rfl, hn.symm, hfs, ?_⟩
    cases fs with
    | nil => simp [stLines, Block.snoc_lines, Item.lines]
    | cons f fs => simp [stLines, Block.snoc_lines, Item.lines]
  | ifk =>
    simp only [nestStep, Option.some.injEq] at hn
    refine ⟨⟨cur, [], .cond id p⟩ :: fs, .nil, rfl, by simp [← hn, Hd.isEls], ?_, ?_⟩
    · intro f hf
      simp at hf
      rcases hf with rfl | hf
      · intro h; simp [Hd.isEls] at h
      · exact hfs f hf
    · simp [stLines, groupsLines, hdLine, Block.lines]
  | elifk =>
    cases fs with
    | nil => simp [nestStep] at hn
    | cons f fs =>
      obtain ⟨outer, groups, hd⟩ := f
      cases hd with
      | els i => simp [nestStep, Hd.isEls] at hn
      | cond i q =>
        simp only [nestStep, List.map_cons, Hd.isEls, Bool.false_eq_true, if_false, Option.some.injEq] at hn
        refine ⟨⟨outer, groups ++ [(i, q, cur)], .cond id p⟩ :: fs, .nil, rfl, by simp [← hn, Hd.isEls], ?_, ?_⟩
        · intro f hf
          simp at hf
          rcases hf with rfl | hf
          · intro h; simp [Hd.isEls] at h
          · exact hfs f (by simp [hf])
        · simp [stLines, groupsLines_snoc, hdLine, Block.lines]
  | elsek =>
    have hp : p = 0 := hl (Or.inr (Or.inl rfl))
    subst hp
    cases fs with
    | nil => simp [nestStep] at hn
    | cons f fs =>
      obtain ⟨outer, groups, hd⟩ := f
      cases hd with
      | els i => simp [nestStep, Hd.isEls] at hn
      | cond i q =>
        simp only [nestStep, List.map_cons, Hd.isEls, Bool.false_eq_true, if_false, Option.some.injEq] at hn
        refine ⟨⟨outer, groups ++ [(i, q, cur)], .els id⟩ :: fs, .nil, rfl, by simp [← hn, Hd.isEls], ?_, ?_⟩
        · intro f hf
          simp at hf
          rcases hf with rfl | hf
          · intro _; simp
          · exact hfs f (by simp [hf])
        · simp [stLines, groupsLines_snoc, hdLine, Block.lines]
  | endk =>
    have hp : p = 0 := hl (Or.inr (Or.inr rfl))
    subst hp
    cases fs with
    | nil => simp [nestStep] at hn
    | cons f fs =>
      simp only [nestStep, List.map_cons, Option.some.injEq] at hn
      refine ⟨fs, f.outer.snoc (closeFr f cur id), rfl, hn.symm, fun g hg => hfs g (by simp [hg]), ?_⟩
      have hc := closeFr_lines f cur id (hfs f (by simp))
      cases fs with
      | nil => simp [stLines, Block.snoc_lines, hc]
      | cons g gs => simp [stLines, Block.snoc_lines, hc]

theorem prun_ok (ls : List Lbl) (fs : List Fr) (cur : Block) (hl : ∀ l ∈ ls, l.normal) (hfs : ∀ f ∈ fs, FrOk f)
    (hn : nestRun (fs.map (·.hd.isEls)) ls = some []) :
    ∃ b : Block, b.lines = stLines fs cur ++ ls := by
  induction ls generalizing fs cur with
  | nil =>
    simp only [nestRun, Option.some.injEq, List.map_eq_nil_iff] at hn
    subst hn
    exact ⟨cur, by simp [stLines]⟩
  | cons l ls ih =>
    simp only [nestRun] at hn
    cases hs : nestStep (fs.map (·.hd.isEls)) l with
    | none => simp [hs] at hn
    | some st' =>
      simp only [hs] at hn
      obtain ⟨fs', cur', _, hst, hfs', hlines⟩ := pstep_ok fs cur l (hl l (by simp)) hfs st' hs
      subst hst
      obtain ⟨b, hb⟩ := ih fs' cur' (fun x hx => hl x (by simp [hx])) hfs' hn
      exact ⟨b, by rw [hb, hlines]; simp⟩

/-- every structurally well-nested, normalised line list is the line list of a structured program -/
theorem structured_of_nest (ls : List Lbl) (hl : ∀ l ∈ ls, l.normal) (hn : nestRun [] ls = some []) :
    ∃ b : Block, b.lines = ls := by
  obtain ⟨b, hb⟩ := prun_ok ls [] .nil hl (by intro f hf; cases hf) hn
  exact ⟨b, by simpa [stLines, Block.lines] using hb⟩

end CbiVerif.Cond
