import CbiVerif.Model.Warn
import CbiVerif.Generated.WarnMsg
/-! # Exact text of the warnings (C18 message layer)

`renderX e` is the `msg` of the log record the code issues for the event `e`, byte for byte, obtained by
interpreting the message templates **regenerated from the `log.warning(f"…")` call sites**
(`Generated/WarnMsg.lean`): literal text, `{field}` and `{field:>N}` placeholders, Python's `repr` of a
`list[str]` for the directive spelling (`pyReprList`).

`segs` cuts a rendered message at the literal characters that do not occur in a category phrase; it is the
symbolic form of `re.search(phrase, msg)` used by the classification theorems (`Lemmas/WarnMsg.lean`). -/
namespace CbiVerif.WarnMsg
open CbiVerif.Warn CbiVerif.WarnTmpl

/-! ## Python `repr` of `str` and of `list[str]` -/
def hexDigit (n : Nat) : Char := if n < 10 then Char.ofNat (48 + n) else Char.ofNat (87 + n)

/-- one character inside `repr(str)` with outer quote `q`.  Exact for ASCII; a character ≥ U+0080 is kept as
it is, which is what CPython does for the *printable* ones (the generators use only those). -/
def pyEscape (q : Char) (c : Char) : List Char :=
  if c == q || c == '\\' then ['\\', c]
  else if c == '\t' then ['\\', 't']
  else if c == '\n' then ['\\', 'n']
  else if c == '\r' then ['\\', 'r']
  else if c.toNat < 32 || c.toNat == 127 then ['\\', 'x', hexDigit (c.toNat / 16), hexDigit (c.toNat % 16)]
  else [c]

/-- the quote `repr` chooses: `"` iff the string contains `'` and no `"` -/
def pyQuote (s : List Char) : Char := if s.contains '\'' && !s.contains '"' then '"' else '\''

def pyReprStr (s : List Char) : List Char :=
  let q := pyQuote s
  q :: (s.flatMap (pyEscape q) ++ [q])

/-- `repr(list_of_str)` -/
def pyReprList (xs : List String) : List Char :=
  '[' :: ((", ".toList).intercalate (xs.map fun x => pyReprStr x.toList) ++ [']'])

/-! ## rendering a template -/
def kindPhrase : Kind → String
  | .userInclude => Gen.includeKindUser
  | .systemInclude => Gen.includeKindSystem
  | _ => ""

def argText (e : Event) : Arg → List Char
  | .file => e.file.toList
  | .line => natL e.line
  | .col => natL e.col
  | .name => e.name.toList
  | .kind => (kindPhrase e.kind).toList
  | .spelling => e.spelling.toList
  | .spellingList => pyReprList [e.spelling]
  | .other _ => []

/-- `f"{x:>w}"` (`w = 0`: no format spec) -/
def padLeft (w : Nat) (l : List Char) : List Char := List.replicate (w - l.length) ' ' ++ l

def pieceText (e : Event) : Piece → List Char
  | .lit s => s.toList
  | .arg a w => padLeft w (argText e a)

def renderT (t : List Piece) (e : Event) : List Char := t.flatMap (pieceText e)

/-- the call site that reports each kind of event -/
def template : Kind → List Piece
  | .userInclude | .systemInclude => Gen.tmplInclude
  | .unknownDirective => Gen.tmplDirective
  | .missingFile => Gen.tmplMissing
  | .unknownCompiler => Gen.tmplCompiler
  | .unknownArgs => Gen.tmplArgs
  | .noFiles => Gen.tmplNofiles

/-- the `msg` of the log record of an event, exactly -/
def renderX (e : Event) : List Char := renderT (template e.kind) e
def renderS (e : Event) : String := String.ofList (renderX e)

/-- the message of `finder.find` for a `-include` file that is not found (its own call site) -/
def renderForced (e : Event) : List Char := renderT Gen.tmplForced e

/-- the event by which the rest of the model represents a missing `-include NAME` of source file `src` -/
def forcedEvent (src name : String) : Event :=
  { kind := .userInclude, file := src, line := 0, name := name, spelling := "-include " ++ name }

def recordsOfX (es : List Event) : List Record := es.map fun e => ⟨"WARNING", renderX e⟩

/-! ## what a message must name (the property's demand, as an executable predicate on any text) -/
/-- source-level include event: `file:line: ` comes first, the category phrase of the form, the requested name
in quotes, the line again and the directive as written -/
def namesInclude (msg : List Char) (e : Event) : Bool :=
  (e.file.toList ++ ':' :: natL e.line ++ [':']).isPrefixOf msg &&
  containsSub msg (kindPhrase e.kind).toList &&
  containsSub msg ('\'' :: e.name.toList ++ ['\'']) &&
  containsSub msg e.spelling.toList

/-- unknown directive: `file:line:col:` comes first, then the directive as written (as Python prints the list) -/
def namesDirective (msg : List Char) (e : Event) : Bool :=
  (e.file.toList ++ ':' :: natL e.line ++ ':' :: natL e.col ++ [':']).isPrefixOf msg &&
  containsSub msg (pyReprList [e.spelling])

/-- what the message of an event of each kind must contain -/
def namesEvent (msg : List Char) (e : Event) : Bool :=
  match e.kind with
  | .userInclude | .systemInclude => namesInclude msg e
  | .unknownDirective => namesDirective msg e
  | _ => containsSub msg e.name.toList

/-! ## symbolic substring search: segments between characters foreign to the pattern -/
inductive Atom
  | c (ch : Char)          -- a character of a literal piece (or of the category phrase, which is fixed by the kind)
  | f (txt : List Char)    -- the text of a field
deriving Repr

def Atom.text : Atom → List Char
  | .c ch => [ch]
  | .f txt => txt

def flat (as : List Atom) : List Char := as.flatMap Atom.text

def pieceAtoms (e : Event) : Piece → List Atom
  | .lit s => s.toList.map Atom.c
  | .arg .kind w => (padLeft w (argText e .kind)).map Atom.c
  | .arg a w => [Atom.f (padLeft w (argText e a))]

def atoms (t : List Piece) (e : Event) : List Atom := t.flatMap (pieceAtoms e)

/-- cut at the literal characters that do not occur in `p`; each segment carries "contains a field" -/
def segs (p : List Char) : List Atom → List Char → Bool → List (Bool × List Char)
  | [], cur, hf => [(hf, cur)]
  | .f txt :: t, cur, _ => segs p t (cur ++ txt) true
  | .c ch :: t, cur, hf =>
    if p.contains ch then segs p t (cur ++ [ch]) hf else (hf, cur) :: segs p t [] false

def eventSegs (p : List Char) (e : Event) : List (Bool × List Char) := segs p (atoms (template e.kind) e) [] false

/-- **the D30 side condition**: no stretch of the message that contains a field (the field with the literal
characters around it, up to the nearest character that cannot be part of the phrase) contains the phrase -/
def fieldsFree (p : String) (e : Event) : Bool :=
  (eventSegs p.toList e).all fun s => !s.1 || !containsSub s.2 p.toList

/-- does the fixed text of the message of an event contain the phrase? -/
def literalHit (p : String) (e : Event) : Bool :=
  (eventSegs p.toList e).any fun s => !s.1 && containsSub s.2 p.toList

/-- the same, from the kind alone (fields replaced by an empty text: they only mark their segment) -/
def literalHitK (p : String) (k : Kind) : Bool := literalHit p { kind := k }

/-! ## injectivity: a template whose placeholders are each followed by a separating literal -/
/-- every placeholder is followed by a non-empty literal -/
def wellSep : List Piece → Bool
  | [] => true
  | .lit _ :: t => wellSep t
  | .arg _ _ :: .lit s :: t => !s.toList.isEmpty && wellSep t
  | .arg _ _ :: _ => false

/-- may character `c` follow placeholder `a` so that the end of `a` is recognisable?  numbers end at a non-digit,
the file at `:`, the name at `'` (the side condition of injectivity forbids those characters inside the field) -/
def sepFor (a : Arg) (w : Nat) (c : Char) : Bool :=
  match a with
  | .file => w == 0 && c == ':'
  | .name => w == 0 && c == '\''
  | .line | .col => w == 0 && !c.isDigit
  | _ => false

/-- the separators are of the right sort -/
def sepsOK : List Piece → Bool
  | [] => true
  | .lit _ :: t => sepsOK t
  | .arg a w :: .lit s :: t => (match s.toList with | c :: _ => sepFor a w c | [] => false) && sepsOK t
  | .arg _ _ :: _ => false

/-- the longest prefix of a template that `sepsOK` accepts (computed; the rest is `drop`) -/
def sepPrefixLen : List Piece → Nat
  | .lit _ :: t => 1 + sepPrefixLen t
  | .arg a w :: .lit s :: t =>
    (match s.toList with | c :: _ => if sepFor a w c then 2 + sepPrefixLen t else 0 | [] => 0)
  | _ => 0

/-- the side condition of injectivity on an event: the file holds no `:`, the name no `'` -/
def fieldsPlain (e : Event) : Bool := !e.file.toList.contains ':' && !e.name.toList.contains '\''

/-- replace the `{kind}` placeholder by its text (it is fixed once the kind is) -/
def instKind (k : Kind) : List Piece → List Piece
  | [] => []
  | .arg .kind 0 :: t => .lit (kindPhrase k) :: instKind k t
  | p :: t => p :: instKind k t

def argsOf : List Piece → List Arg
  | [] => []
  | .lit _ :: t => argsOf t
  | .arg a _ :: t => a :: argsOf t

end CbiVerif.WarnMsg
