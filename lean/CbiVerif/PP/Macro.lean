import CbiVerif.PP.Lexer
/-! Model of Macro / MacroFunction (definition-time preprocessing and `replace`). -/
namespace CbiVerif.PP

inductive Err | runtime (msg : String) | parse (msg : String) | index | type_ | overflow | other (msg : String)
deriving Repr, DecidableEq, Inhabited

structure Macro where
  name : String
  args : Option (List String)      -- none = object-like `Macro`
  variadic : Bool := false
  hasStrcat : Bool := false
  needsExp : List Bool := []
  replacement : List Tok
deriving Repr, Inhabited

def Macro.whichArg (m : Macro) (t : String) : Option Nat :=
  match m.args with
  | none => none
  | some as => as.idxOf? t

def setAt (l : List Bool) (i : Nat) : List Bool := l.set i true

/-- Macro.preproc_replacement -/
def preprocReplacement (m : Macro) : Except Err Macro :=
  -- `prev`: text of the token before `tok` in the original replacement list ("" at the start)
  let rec go (fuel : Nat) (rest : List Tok) (res : List Tok) (m : Macro) (prev : String) : Except Err Macro :=
    match fuel with
    | 0 => .ok { m with replacement := res }
    | fuel + 1 =>
      match rest with
      | [] => .ok { m with replacement := res }
      | tok :: rest' =>
        if tok.text == "##" then
          match res.getLast? with
          | none => .error .index
          | some last =>
            let res0 := res.dropLast
            if (m.whichArg last.text).isSome then
              go fuel rest' (res0 ++ [last, tok]) { m with hasStrcat := true } tok.text
            else
              match rest' with
              | [] => .error .index
              | nexttok :: rest'' =>
                if (m.whichArg nexttok.text).isSome then
                  go fuel rest'' (res0 ++ [last, tok, nexttok]) { m with hasStrcat := true } nexttok.text
                else
                  match tokenizeOne (last.text ++ nexttok.text).toList false with
                  | none => .error (.parse "Invalid concatenation")
                  | some (t, _) => go fuel rest'' (res0 ++ [{ t with pw := last.pw }]) m nexttok.text
        else if tok.text == "#" then
          go fuel rest' (res ++ [tok]) (if m.args.isSome then { m with hasStrcat := true } else m) tok.text
        else if tok.kind == .ident then
          -- `__is_operand`: an operand of `#` / `##` is substituted unexpanded and does not mark its parameter
          let isOperand := prev == "#" || prev == "##" || (rest'.head?.map (·.text)) == some "##"
          match m.whichArg tok.text with
          | some i => go fuel rest' (res ++ [tok]) (if isOperand then m else { m with needsExp := setAt m.needsExp i }) tok.text
          | none => go fuel rest' (res ++ [tok]) m tok.text
        else go fuel rest' (res ++ [tok]) m tok.text
  go (m.replacement.length + 1) m.replacement [] m ""

/-- make_macro(identifier, args, expansion) -/
def makeMacro (name : String) (args : Option (List String)) (expansion : List Tok) : Except Err Macro :=
  let m0 : Macro :=
    match args with
    | none => { name := name, args := none, replacement := expansion }
    | some as =>
      let variadic := match as.getLast? with | some l => l.endsWith "..." | none => false
      let as' := if variadic then
          as.dropLast ++ [match as.getLast? with
            | some l => if l == "..." then "__VA_ARGS__" else (l.dropRight 3)
            | none => ""]
        else as
      { name := name, args := some as', variadic := variadic, needsExp := as'.map (fun _ => false), replacement := expansion }
  match expansion with
  | [] => .ok m0
  | first :: _ =>
    if first.text == "##" then .error (.runtime "## at start")
    else if (expansion.getLast?.map (·.text)) == some "##" then .error (.runtime "## at end")
    else
      let repl := { first with pw := false } :: expansion.tail
      preprocReplacement { m0 with replacement := repl }

/-- an argument as collected by the expander: raw tokens and (if it was pre-expanded) its expansion -/
structure Arg where
  raw : List Tok
  exp : Option (List Tok)
deriving Repr, Inhabited

def Arg.getExp (a : Arg) : Except Err (List Tok) := match a.exp with | some e => .ok e | none => .error .index

/-- sanitized_str for stringification -/
def sanitized (t : Tok) : String :=
  match t.kind with
  | .str =>
    let rec go (fuel : Nat) (cs : List Char) (acc : String) : String :=
      match fuel with
      | 0 => acc
      | fuel + 1 =>
        match cs with
        | [] => acc
        | '\\' :: '"' :: r => go fuel r (acc ++ "\\\\\\\"")
        | '\\' :: r => go fuel r (acc ++ "\\\\")
        | c :: r => go fuel r (acc.push c)
    "\\\"" ++ go (t.text.length + 1) t.text.toList "" ++ "\\\""
  | .chr =>
    -- `CharacterConstant.sanitized_str` (repair of finding D10): the quotes are kept, each backslash and double quote is escaped
    "'" ++ String.ofList (t.text.toList.flatMap fun c => if c == '\\' || c == '"' then ['\\', c] else [c]) ++ "'"
  | _ => t.text

/-- Lexer.stringify (after the repair of finding D10): white space before the first token is dropped, white space between two
    tokens is one blank (C11 6.10.3.2p2); the result is lexed again as one token (`prev_white` false; the caller sets it) -/
def stringify (ts : List Tok) : Option Tok :=
  let body := match ts with
    | [] => ""
    | f :: r => r.foldl (fun acc p => acc ++ (if p.pw then " " else "") ++ sanitized p) (sanitized f)
  (tokenizeOne ("\"" ++ body ++ "\"").toList false).map (·.1)

/-- MacroFunction.replace -/
def Macro.replaceFn (m : Macro) (inputArgs : List Arg) : Except Err (List Tok) := do
  let params := m.args.getD []
  let np := params.length
  -- combine variadic arguments
  let inputArgs ← (if m.variadic then do
      let comma : Tok := ⟨.punct, ",", false, true⟩
      let idxs := (List.range (inputArgs.length - 1)).filter (fun i => i ≥ np - 1)
      let mut raw : List Tok := []
      let mut exp : List Tok := []
      for i in idxs do
        let a := inputArgs[i]!
        raw := raw ++ a.raw ++ [comma]
        exp := exp ++ a.exp.getD a.raw ++ [comma]     -- `input_args[idx][-1]`
      if np - 1 < inputArgs.length then
        match inputArgs.getLast? with
        | some a =>
          raw := raw ++ a.raw
          exp := exp ++ a.exp.getD a.raw
        | none => pure ()
      pure (inputArgs.take (np - 1) ++ [⟨raw, some exp⟩])
    else pure inputArgs : Except Err (List Arg))
  -- `_parameter_index`: only an identifier names a parameter
  let argOf (t : Tok) : Option Nat := if t.kind == .ident then params.idxOf? t.text else none
  -- handle # and ##
  let resTokens ← (if m.hasStrcat then
      let rec go (fuel : Nat) (rest : List Tok) (res : List (Tok × Bool)) (lastCat : Bool) (pm : Bool) (pmw : Bool) : Except Err (List (Tok × Bool)) :=
        match fuel with
        | 0 => .ok res
        | fuel + 1 =>
          match rest with
          | [] => .ok res
          | tok :: rest' =>
            if tok.text == "##" then
              -- left operand (tokens, result list without it, prev_white); `pm`: the previous `##` gave a placemarker
              let leftE : Except Err (List Tok × List (Tok × Bool) × Bool) :=
                if pm then .ok ([], res, pmw)
                else
                  match res.getLast? with
                  | none => .error .index
                  | some (last0, _) =>
                    if !lastCat then
                      match argOf last0 with
                      | some i => match inputArgs[i]? with | some a => .ok (a.raw, res.dropLast, last0.pw) | none => .error .index
                      | none => .ok ([last0], res.dropLast, last0.pw)
                    else .ok ([last0], res.dropLast, last0.pw)
              match leftE with
              | .error e => .error e
              | .ok (last, res0, prevWhite) =>
                match rest' with
                | [] => .error .index
                | nexttok0 :: rest'' =>
                  let nextE : Except Err (List Tok) :=
                    match argOf nexttok0 with
                    | some i => match inputArgs[i]? with | some a => .ok a.raw | none => .error .index
                    | none => .ok [nexttok0]
                  match nextE with
                  | .error e => .error e
                  | .ok next =>
                    let toaddE : Except Err (List Tok) :=
                      match last.getLast?, next with
                      | some ll, nf :: nrest =>
                        match tokenizeOne (ll.text ++ nf.text).toList false with
                        | none => .error (.parse "Invalid concatenation")
                        | some (t, _) => .ok (last.dropLast ++ [{ t with pw := ll.pw }] ++ nrest)
                      | _, _ => .ok (last ++ next)
                    match toaddE with
                    | .error e => .error e
                    | .ok toadd =>
                      let toadd' := match toadd with
                        | f :: r => { f with pw := prevWhite } :: r
                        | [] => []
                      go fuel rest'' (res0 ++ toadd'.map (·, true)) true toadd.isEmpty prevWhite
            else if tok.text == "#" then
              match rest' with
              | [] => .error (.parse "# at end")
              | nexttok :: rest'' =>
                match argOf nexttok with
                | none => .error (.parse "# not followed by argument")
                | some i =>
                  match inputArgs[i]? with
                  | none => .error .index
                  | some a =>
                    match stringify a.raw with
                    | none => .error .type_
                    | some t => go fuel rest'' (res ++ [({ t with pw := tok.pw }, true)]) true false pmw
            else go fuel rest' (res ++ [(tok, false)]) false false pmw
      go (m.replacement.length + 1) m.replacement [] false false false
    else .ok (m.replacement.map (·, false)))
  -- substitute arguments (tokens that `#`/`##` produced from the arguments are copied)
  let mut out : List Tok := []
  for (token, isArg) in resTokens do
    match (if isArg then none else argOf token) with
    | some i =>
      match inputArgs[i]? with
      | none => throw .index
      | some a =>
        let e ← a.getExp
        match e with
        | f :: r => out := out ++ ({ f with pw := token.pw } :: r)
        | [] => pure ()
    | none => out := out ++ [token]
  return out

end CbiVerif.PP
