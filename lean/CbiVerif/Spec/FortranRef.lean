import CbiVerif.Model.FChar
/-!
Reference scanner for free-form Fortran source with C preprocessor lines — the
specification of property C17, written from the property text and the
free-form source rules of the Fortran standard (F2018 6.3.2), *not* from the code.

A physical line is **counted** iff it holds statement text, a directive sentinel
comment (`!` + letters + `$`, e.g. `!$omp`, `!dir$`) or a preprocessor directive.

Rules implemented (one scanner mode per situation):

* R1 `!` outside a character context starts a comment that runs to the end of the
  line; if the `!` is followed by zero or more letters and then `$` the comment is
  a directive sentinel and the line is counted.
* R2 `'…'` and `"…"` delimit character contexts; a doubled delimiter inside is
  just close + open; `!`, `&` (not last), `/`, `#`, the other quote and blanks
  inside are statement text.
* R3 `&` as the last non-blank character of a line (outside a character context
  optionally followed by a comment) continues the statement on the next
  non-comment line; that `&` is not statement text.  In a character context the
  `&` must be the last non-blank character (no comment may follow), otherwise
  it is text.
* R4 on a continuation line a leading `&` (first non-blank) is consumed; outside
  a character context it is optional, inside one it is mandatory.
* R5 blank lines and comment lines may be interleaved in a continued statement;
  they are not counted (a sentinel comment line is counted).
* R6 a line whose first non-blank character is `#` is a preprocessor directive
  (as in C): counted; it may not occur inside a continued statement.
* R7 outside `WF` (result `none`): an `&` in the middle of a line outside a
  character context, a character context left open at the end of a line without
  `&`, a character-context continuation line that does not start with `&`,
  backslashes (the code treats them as C escapes), non-ASCII characters, a
  directive inside a continued statement, a text that ends inside a continued
  statement.

The scanner reports per line `counted` and `k`: `k` marks the recorded finding
class F-C17-1 (a continuation line *inside a character context* whose only
statement text is blanks: counted by this reference).

Core Lean only.
-/
namespace CbiVerif.Fortran

inductive Ctx | top | dq | sq deriving DecidableEq, Repr
/-- where a `!` was met: in code, on a continuation line before any text (outside /
inside a character context), right after a trailing `&` -/
inductive Site | code | cont | contDq | contSq | amp deriving DecidableEq, Repr

inductive RF
  | start (c : Ctx)            -- beginning of a continuation line (R4/R5)
  | code
  | inDq | inSq                -- inside a character context (R2)
  | ampTop (w : Bool)          -- after an `&` that may end the line (R3); w: blanks seen after it
  | ampDq (w : Bool) | ampSq (w : Bool)
  | bang (s : Site) | sent (s : Site) | comm (s : Site)   -- R1: after `!` + letters / sentinel / comment
deriving DecidableEq, Repr

structure ROut where
  mode : RF
  vis : Bool     -- this character makes statement text / a sentinel visible on the line
  lit : Bool     -- this character is a blank that is statement text (inside a character context / sentinel)
deriving DecidableEq, Repr

/-- character `c` inside character context `ctx`; `pend`: a pending `&` turned out to be
text, `w`: blanks were seen after that `&` -/
def inLit (ctx : Ctx) (c : Cls) (pend : Bool) (w : Bool) : Option ROut :=
  match ctx, c with
  | _, .bslash => none
  | .dq, .dq => some ⟨.code, true, w⟩
  | .sq, .sq => some ⟨.code, true, w⟩
  | .dq, .amp => some ⟨.ampDq false, pend, w⟩
  | .sq, .amp => some ⟨.ampSq false, pend, w⟩
  | .dq, .ws => some ⟨.inDq, pend, true⟩
  | .sq, .ws => some ⟨.inSq, pend, true⟩
  | .dq, _ => some ⟨.inDq, true, w⟩
  | .sq, _ => some ⟨.inSq, true, w⟩
  | .top, _ => none

def codeStep (c : Cls) : Option ROut :=
  match c with
  | .bslash => none
  | .bang => some ⟨.bang .code, false, false⟩
  | .amp => some ⟨.ampTop false, false, false⟩
  | .dq => some ⟨.inDq, true, false⟩
  | .sq => some ⟨.inSq, true, false⟩
  | .ws => some ⟨.code, false, false⟩
  | _ => some ⟨.code, true, false⟩

/-- one character; `none` = the line is not well-formed free-form source -/
def rstep (m : RF) (c : Cls) : Option ROut :=
  match m with
  | .code => codeStep c
  | .inDq => inLit .dq c false false
  | .inSq => inLit .sq c false false
  | .ampTop _ =>
    match c with
    | .ws => some ⟨.ampTop true, false, false⟩
    | .bang => some ⟨.bang .amp, false, false⟩
    | _ => none
  | .ampDq w => if c == .ws then some ⟨.ampDq true, false, false⟩ else inLit .dq c true w
  | .ampSq w => if c == .ws then some ⟨.ampSq true, false, false⟩ else inLit .sq c true w
  | .start .top =>
    match c with
    | .ws => some ⟨.start .top, false, false⟩
    | .amp => some ⟨.code, false, false⟩
    | .bang => some ⟨.bang .cont, false, false⟩
    | _ => codeStep c
  | .start .dq =>
    match c with
    | .ws => some ⟨.start .dq, false, false⟩
    | .amp => some ⟨.inDq, false, false⟩
    | .bang => some ⟨.bang .contDq, false, false⟩
    | _ => none
  | .start .sq =>
    match c with
    | .ws => some ⟨.start .sq, false, false⟩
    | .amp => some ⟨.inSq, false, false⟩
    | .bang => some ⟨.bang .contSq, false, false⟩
    | _ => none
  | .bang s =>
    match c with
    | .alpha => some ⟨.bang s, false, false⟩
    | .dollar => some ⟨.sent s, true, false⟩
    | _ => some ⟨.comm s, false, false⟩
  | .sent s => some ⟨.sent s, c != .ws, c == .ws⟩
  | .comm s => some ⟨.comm s, false, false⟩

/-- end of line: the mode in which the next line starts; `none` = open character context -/
def rend : RF → Option RF
  | .code => some .code
  | .ampTop _ => some (.start .top)
  | .ampDq _ => some (.start .dq)
  | .ampSq _ => some (.start .sq)
  | .bang .code | .sent .code | .comm .code => some .code
  | .bang .contDq | .sent .contDq | .comm .contDq => some (.start .dq)
  | .bang .contSq | .sent .contSq | .comm .contSq => some (.start .sq)
  | .bang _ | .sent _ | .comm _ => some (.start .top)
  | .start c => some (.start c)
  | .inDq | .inSq => none

/-! ## lines and texts (characters) -/

structure RAcc where
  mode : RF
  vis : Bool
  lit : Bool
deriving DecidableEq, Repr

def rchars : RAcc → List Char → Option RAcc
  | a, [] => some a
  | a, c :: cs =>
    if c.toNat ≥ 128 then none
    else match rstep a.mode (cls c) with
      | none => none
      | some o => rchars ⟨o.mode, a.vis || o.vis, a.lit || o.lit⟩ cs

/-- verdict for one line -/
structure RLine where
  next : RF
  counted : Bool
  k : Bool        -- finding class F-C17-1
deriving DecidableEq, Repr

/-- a non-directive line scanned from mode `m` -/
def rline (m : RF) (l : List Char) : Option RLine :=
  match rchars ⟨m, false, false⟩ l with
  | none => none
  | some a =>
    match rend a.mode with
    | none => none
    | some m' => some ⟨m', a.vis || a.lit, a.lit && !a.vis⟩

/-- R6: first non-blank character is `#` -/
def isDirectiveLine : List Char → Bool
  | [] => false
  | c :: cs => if pyIsSpace c then isDirectiveLine cs else c == '#'

/-- the reference on a list of lines: per line (counted, k) -/
def refLines : RF → List (List Char) → Option (List (Bool × Bool))
  | m, [] => if m == .code then some [] else none
  | m, l :: ls =>
    if isDirectiveLine l then
      if m == .code then (refLines .code ls).map ((true, false) :: ·) else none
    else
      match rline m l with
      | none => none
      | some r => (refLines r.next ls).map ((r.counted, r.k) :: ·)

/-! ## whole texts -/

def hasSlashStar : List Char → Bool
  | [] => false
  | c :: cs => (c == '/' && cs.head? == some '*') || hasSlashStar cs

/-- physical lines of a text (`\n` separated; a final piece without newline is a line) -/
def textLinesAux : List Char → List Char → List (List Char)
  | [], cur => if cur.isEmpty then [] else [cur.reverse]
  | '\n' :: r, cur => cur.reverse :: textLinesAux r []
  | c :: r, cur => textLinesAux r (c :: cur)

def textLines (s : String) : List (List Char) := textLinesAux s.toList []

/-- text-level side conditions that concern the preprocessor pass: no backslash and no
carriage return anywhere (splicing / newline conventions), no `/*` on a directive line
(a block comment could swallow following lines). -/
def textOK (ls : List (List Char)) : Bool :=
  ls.all fun l => !l.contains '\\' && !l.contains '\r' && (!isDirectiveLine l || !hasSlashStar l)

/-- the specification: `none` = outside `WF`; otherwise per physical line (counted, k) -/
def refText (s : String) : Option (List (Bool × Bool)) :=
  let ls := textLines s
  if textOK ls then refLines .code ls else none

/-- line numbers `n+1, n+2, …` of the marked positions -/
def numberedFrom (n : Nat) : List Bool → List Nat
  | [] => []
  | b :: bs => (if b then [n + 1] else []) ++ numberedFrom (n + 1) bs

def countedLines (r : List (Bool × Bool)) : List Nat := numberedFrom 0 (r.map (·.1))

def kLines (r : List (Bool × Bool)) : List Nat := numberedFrom 0 (r.map (·.2))

/-- model flags agree with the reference verdicts on every line outside finding class F-C17-1 -/
def agree : List Bool → List (Bool × Bool) → Prop
  | [], [] => True
  | b :: bs, (c, k) :: r => (k = false → b = c) ∧ agree bs r
  | _, _ => False


/-! ## kinds of lines named by the property text -/

def dropWs : List Char → List Char
  | [] => []
  | c :: cs => if cls c == .ws then dropWs cs else c :: cs

/-- after a `!`: zero or more letters, then `$` -/
def sentinelTail : List Char → Bool
  | [] => false
  | c :: cs => if cls c == .dollar then true else if cls c == .alpha then sentinelTail cs else false

/-- blank line: nothing but white space -/
def isBlankLine (l : List Char) : Bool := dropWs l == []

/-- the first non-blank character is a `!` that starts a directive sentinel (`!$omp`, `!dir$`, …) -/
def isSentinelLine (l : List Char) : Bool :=
  match dropWs l with
  | c :: cs => cls c == .bang && sentinelTail cs
  | [] => false

/-- the first non-blank character is a `!` that starts an ordinary comment -/
def isCommentLine (l : List Char) : Bool :=
  match dropWs l with
  | c :: cs => cls c == .bang && !sentinelTail cs
  | [] => false


end CbiVerif.Fortran
