import CbiVerif.Lemmas.CLexLines
/-! # C05: the survivors of the reference scanner — counted lines, first non-white character -/
namespace CbiVerif.CLexSim
open CbiVerif.CClean CbiVerif.CLexRef CbiVerif.CText

/-! ## every surviving character is a plain one -/

def _root_.CbiVerif.CLexRef.Surv.plain : Surv → Bool
  | .ch c _ _ => plainChar c
  | .nl _ => true

def _root_.CbiVerif.CLexRef.Item.plain : Item → Bool
  | .ch c _ => plainChar c
  | .nl _ => true

theorem plain_slash : plainChar '/' = true := by decide
theorem plain_space : plainChar ' ' = true := by decide

theorem decItem_plain (s : DState) (it : Item) (r : DRes) (h : decItem s it = some r) (hp : it.plain = true) :
    ∀ x ∈ r.out, x.plain = true := by
  cases it with
  | nl n =>
    simp only [decItem] at h
    cases hm : s.mode with
    | code => simp only [hm, Option.some.injEq] at h; subst h; intro x hx; simp at hx; subst hx; rfl
    | slash =>
      simp only [hm, Option.some.injEq] at h; subst h; intro x hx; simp at hx
      rcases hx with rfl | rfl
      · exact plain_slash
      · rfl
    | lineC =>
      simp only [hm, Option.some.injEq] at h; subst h; intro x hx; simp at hx
      rcases hx with rfl | rfl
      · exact plain_space
      · rfl
    | blockC => simp only [hm, Option.some.injEq] at h; subst h; intro x hx; simp at hx
    | blockStar => simp only [hm, Option.some.injEq] at h; subst h; intro x hx; simp at hx
    | dq => simp [hm] at h
    | dqEsc => simp [hm] at h
    | sq0 => simp [hm] at h
    | sqN => simp [hm] at h
    | sqSl => simp [hm] at h
    | sqEsc => simp [hm] at h
  | ch c n =>
    simp only [decItem] at h
    cases ho : dstep s.mode (kind c) with
    | none => simp [ho] at h
    | some o =>
      simp only [ho, Option.some.injEq] at h
      subst h
      intro x hx
      simp only [List.mem_append] at hx
      rcases hx with (hx | hx) | hx
      · cases hpd : o.pend <;> simp [hpd] at hx
        subst hx; exact plain_slash
      · cases hsp : o.space <;> simp [hsp] at hx
        subst hx; exact plain_space
      · cases hkp : o.keep <;> simp [hkp] at hx
        subst hx; exact hp

theorem decomment_plain (its : List Item) : ∀ (s : DState) (sc : Scan), decomment s its = some sc →
    (∀ it ∈ its, it.plain = true) → ∀ x ∈ sc.out, x.plain = true := by
  induction its with
  | nil =>
    intro s sc h _
    simp only [decomment, Option.some.injEq] at h
    subst h; simp
  | cons it its ih =>
    intro s sc h hp
    simp only [decomment] at h
    cases hd : decItem s it with
    | none => simp [hd] at h
    | some r =>
      simp only [hd] at h
      cases hr : decomment r.st its with
      | none => simp [hr] at h
      | some rest =>
        simp only [hr, Option.some.injEq] at h
        subst h
        intro x hx
        simp only [List.mem_append] at hx
        rcases hx with hx | hx
        · exact decItem_plain s it r hd (hp it (by simp)) x hx
        · exact ih r.st rest hr (fun i hi => hp i (by simp [hi])) x hx

theorem lineItems_plain (n : Nat) (r : RawLine) (hp : plainLine r = true) : ∀ it ∈ lineItems n r, it.plain = true := by
  have hpl : ∀ c ∈ r.body, plainChar c = true := by simpa [plainLine] using hp
  intro it hit
  unfold lineItems at hit
  split at hit
  · simp only [List.mem_map] at hit
    obtain ⟨c, hc, rfl⟩ := hit
    exact hpl c ((List.dropLast_sublist r.body).subset hc)
  · simp only [List.mem_append, List.mem_map, List.mem_singleton] at hit
    rcases hit with ⟨c, hc, rfl⟩ | rfl
    · exact hpl c hc
    · rfl

/-! ## visible ⇔ non-white, for plain survivors -/

def _root_.CbiVerif.CLexRef.Surv.litWhite : Surv → Bool
  | .ch c _ lit => lit && cWhite c
  | .nl _ => false

theorem render_visible (x : Surv) (hp : x.plain = true) : anyVisible x.render = !x.isWhite := by
  cases x with
  | nl n => rfl
  | ch c n lit =>
    simp only [Surv.plain] at hp
    simp only [Surv.render, anyVisible, List.any_cons, List.any_nil, Bool.or_false, Surv.isWhite]
    cases hw : cWhite c <;> cases lit <;> simp [REmit.visible, isWhite_classify c hp, hw]

theorem render_litWs (x : Surv) (hp : x.plain = true) : anyLitWs x.render = x.litWhite := by
  cases x with
  | nl n => rfl
  | ch c n lit =>
    simp only [Surv.plain] at hp
    simp only [Surv.render, anyLitWs, List.any_cons, List.any_nil, Bool.or_false, Surv.litWhite]
    cases hw : cWhite c <;> cases lit <;> simp [REmit.litWs, isWhite_classify c hp, hw]

theorem anyVisible_renderAll (xs : List Surv) (hp : ∀ x ∈ xs, x.plain = true) :
    anyVisible (renderAll xs) = xs.any (fun x => !x.isWhite) := by
  induction xs with
  | nil => rfl
  | cons x xs ih =>
    have h1 := render_visible x (hp x (by simp))
    have h2 := ih (fun y hy => hp y (by simp [hy]))
    simp only [anyVisible, renderAll, List.flatMap_cons, List.any_append, List.any_cons] at h1 h2 ⊢
    rw [h1, h2]

theorem anyLitWs_renderAll (xs : List Surv) (hp : ∀ x ∈ xs, x.plain = true) :
    anyLitWs (renderAll xs) = xs.any Surv.litWhite := by
  induction xs with
  | nil => rfl
  | cons x xs ih =>
    have h1 := render_litWs x (hp x (by simp))
    have h2 := ih (fun y hy => hp y (by simp [hy]))
    simp only [anyLitWs, renderAll, List.flatMap_cons, List.any_append, List.any_cons] at h1 h2 ⊢
    rw [h1, h2]

theorem lead_renderAll (xs : List Surv) (hp : ∀ x ∈ xs, x.plain = true) :
    lead none (renderAll xs) = (firstNonWhite xs).map classify := by
  induction xs with
  | nil => rfl
  | cons x xs ih =>
    have h2 := ih (fun y hy => hp y (by simp [hy]))
    cases x with
    | nl n =>
      simp only [renderAll, List.flatMap_cons, render_nl, List.nil_append, firstNonWhite, List.find?_cons,
        Surv.isWhite, Bool.not_true] at h2 ⊢
      exact h2
    | ch c n lit =>
      have hpc : plainChar c = true := hp (.ch c n lit) (by simp)
      simp only [renderAll, List.flatMap_cons, Surv.render, List.cons_append, List.nil_append, firstNonWhite,
        List.find?_cons, Surv.isWhite] at h2 ⊢
      cases hw : cWhite c
      · simp [lead, isWhite_classify c hpc, hw]
      · cases lit
        · simpa [lead, hw] using h2
        · simpa [lead, hw, isWhite_classify c hpc] using h2

theorem lead_isSome (es : List REmit) : (lead none es).isSome = anyVisible es := by
  induction es with
  | nil => rfl
  | cons e es ih =>
    cases e with
    | sp => simpa [lead, anyVisible, REmit.visible] using ih
    | ns k =>
      cases hk : k.isWhite
      · simp [lead, hk, anyVisible, REmit.visible]
      · simpa [lead, hk, anyVisible, REmit.visible] using ih

/-! ## counted lines of a block of survivors that all stand on one line -/

def _root_.CbiVerif.CLexRef.Surv.lineNo : Surv → Nat
  | .ch _ m _ => m
  | .nl m => m

theorem onLine_iff (x : Surv) (n : Nat) : x.onLine n = true ↔ x.lineNo = n := by
  cases x <;> simp [Surv.onLine, Surv.lineNo]

theorem nonWhiteOn_eq (x : Surv) (n : Nat) : x.nonWhiteOn n = (x.lineNo == n && !x.isWhite) := by
  cases x <;> simp [Surv.nonWhiteOn, Surv.lineNo, Surv.isWhite]

theorem litWhiteOn_eq (x : Surv) (n : Nat) : x.litWhiteOn n = (x.lineNo == n && x.litWhite) := by
  cases x <;> simp [Surv.litWhiteOn, Surv.lineNo, Surv.litWhite, Bool.and_assoc]

theorem any_nonWhiteOn_other (xs : List Surv) (m k : Nat) (h : ∀ x ∈ xs, x.lineNo = m) (hk : k ≠ m) :
    xs.any (Surv.nonWhiteOn k) = false := by
  rw [List.any_eq_false]
  intro x hx
  rw [nonWhiteOn_eq, h x hx]
  have : (m == k) = false := by simp; omega
  simp [this]

theorem any_nonWhiteOn_same (xs : List Surv) (m : Nat) (h : ∀ x ∈ xs, x.lineNo = m) :
    xs.any (Surv.nonWhiteOn m) = xs.any (fun x => !x.isWhite) := by
  induction xs with
  | nil => rfl
  | cons x xs ih =>
    simp only [List.any_cons, ih (fun y hy => h y (by simp [hy])), nonWhiteOn_eq, h x (by simp), beq_self_eq_true,
      Bool.true_and]

theorem any_litWhiteOn_same (xs : List Surv) (m : Nat) (h : ∀ x ∈ xs, x.lineNo = m) :
    xs.any (Surv.litWhiteOn m) = xs.any Surv.litWhite := by
  induction xs with
  | nil => rfl
  | cons x xs ih =>
    simp only [List.any_cons, ih (fun y hy => h y (by simp [hy])), litWhiteOn_eq, h x (by simp), beq_self_eq_true,
      Bool.true_and]

theorem any_nonWhiteOn_lt (xs : List Surv) (m k : Nat) (h : ∀ x ∈ xs, x.lineNo < m) (hk : m ≤ k) :
    xs.any (Surv.nonWhiteOn k) = false := by
  rw [List.any_eq_false]
  intro x hx
  rw [nonWhiteOn_eq]
  have := h x hx
  have : (x.lineNo == k) = false := by simp; omega
  simp [this]

/-- appending the survivors of line `m` to survivors of earlier lines adds `m` to the counted
    lines iff one of them is not white -/
theorem linesOf_append (cnt m : Nat) (a b : List Surv) (ha : ∀ x ∈ a, x.lineNo < m) (hb : ∀ x ∈ b, x.lineNo = m)
    (h1 : 1 ≤ m) (h2 : m ≤ cnt) :
    linesOf cnt (a ++ b) = linesOf cnt a ++ (if b.any (fun x => !x.isWhite) then [m] else []) := by
  unfold linesOf
  have hsplit : List.range' 1 cnt = List.range' 1 (m - 1) ++ ([m] ++ List.range' (m + 1) (cnt - m)) := by
    obtain ⟨k, rfl⟩ : ∃ k, m = k + 1 := ⟨m - 1, by omega⟩
    obtain ⟨j, rfl⟩ : ∃ j, cnt = k + 1 + j := ⟨cnt - (k + 1), by omega⟩
    have e1 : List.range' 1 (k + (j + 1)) = List.range' 1 k ++ List.range' (1 + k) (j + 1) :=
      (List.range'_append_1).symm
    have e2 : List.range' (1 + k) (j + 1) = (1 + k) :: List.range' (1 + k + 1) j := List.range'_succ
    have a1 : k + 1 + j = k + (j + 1) := by omega
    have a2 : k + 1 - 1 = k := by omega
    have a3 : k + 1 + j - (k + 1) = j := by omega
    have a4 : 1 + k = k + 1 := by omega
    rw [a1, e1, e2, a2, a4]
    have a5 : k + (j + 1) - (k + 1) = j := by omega
    rw [a5]; rfl
  rw [hsplit]
  simp only [List.filter_append, List.any_append]
  have p1 : List.filter (fun n => a.any (Surv.nonWhiteOn n) || b.any (Surv.nonWhiteOn n)) (List.range' 1 (m - 1))
      = List.filter (fun n => a.any (Surv.nonWhiteOn n)) (List.range' 1 (m - 1)) := by
    apply List.filter_congr
    intro k hk
    rw [List.mem_range'_1] at hk
    rw [any_nonWhiteOn_other b m k hb (by omega)]; simp
  have p2 : List.filter (fun n => a.any (Surv.nonWhiteOn n) || b.any (Surv.nonWhiteOn n)) [m]
      = if b.any (fun x => !x.isWhite) then [m] else [] := by
    simp only [List.filter_cons, List.filter_nil, any_nonWhiteOn_lt a m m ha (Nat.le_refl m), Bool.false_or,
      any_nonWhiteOn_same b m hb]
  have p3 : List.filter (fun n => a.any (Surv.nonWhiteOn n) || b.any (Surv.nonWhiteOn n)) (List.range' (m + 1) (cnt - m))
      = [] := by
    rw [List.filter_eq_nil_iff]
    intro k hk
    rw [List.mem_range'_1] at hk
    rw [any_nonWhiteOn_other b m k hb (by omega), any_nonWhiteOn_lt a m k ha (by omega)]; simp
  have q2 : List.filter (fun n => a.any (Surv.nonWhiteOn n)) [m] = [] := by
    simp [any_nonWhiteOn_lt a m m ha (Nat.le_refl m)]
  have q3 : List.filter (fun n => a.any (Surv.nonWhiteOn n)) (List.range' (m + 1) (cnt - m)) = [] := by
    rw [List.filter_eq_nil_iff]
    intro k hk
    rw [List.mem_range'_1] at hk
    rw [any_nonWhiteOn_lt a m k ha (by omega)]; simp
  rw [p1, p2, p3, q2, q3]
  simp

end CbiVerif.CLexSim
