import CbiVerif.Lemmas.EvalMain
import CbiVerif.Lemmas.LexSource
/-!
# C02 — `#if` expressions are evaluated with C integer-constant-expression semantics

Model  : `CbiVerif.Eval`  (`Model/Eval.lean`) — the evaluator of the code, an instance of the generic
         precedence climbing `CbiVerif.Climb` (`Model/Climb.lean`) over the GENERATED operator tables.
Spec   : `CbiVerif.CExpr` (`Spec/CExpr.lean`) — C11 6.6/6.10.1p4 on `BitVec 64` + signedness.
Bridge : `CbiVerif.EvalBridge` (`Model/EvalBridge.lean`) — `render` (token list of a parse tree after
         lexing and expansion), `mval` (C value ↦ evaluator value), the known-finding classes.

Only theorems (and non-vacuity examples) live here; the lemmas are in
`Lemmas/{ClimbProof,EvalArith,EvalLit,EvalChar,EvalMain,LexRoundtrip,LexSource}.lean`.
-/
namespace CbiVerif.C02
open CbiVerif.PP CbiVerif.Climb CbiVerif.CExpr CbiVerif.Eval CbiVerif.EvalBridge

deriving instance DecidableEq for Except

/-! ## 1. the table of the code is the C table -/

/-- The operator tables extracted from the code on this run are, as sets of rows with distinct keys,
    the C standard's table (levels of 6.5.5–6.5.15, all binary operators left-, `?:` right-associative,
    the four unary operators at level 12).  A changed precedence or associativity breaks this `decide`. -/
theorem table_is_C :
    (∀ r ∈ Gen.binaryOps, r ∈ cBinaryTable) ∧ (∀ r ∈ cBinaryTable, r ∈ Gen.binaryOps) ∧
    (Gen.binaryOps.map (·.1)).Nodup ∧
    (∀ r ∈ Gen.unaryOps, r ∈ cUnaryTable) ∧ (∀ r ∈ cUnaryTable, r ∈ Gen.unaryOps) ∧
    (Gen.unaryOps.map (·.1)).Nodup := by decide

/-- look-ups in the code's table, as the parser performs them -/
theorem table_lookup_is_C :
    (∀ op : BinOp, Eval.binInfo op.sym = some (op.prec, false)) ∧
    Eval.binInfo "?" = some (1, true) ∧ Eval.binInfo ":" = none ∧ Eval.binInfo ")" = none ∧
    (∀ op : UnOp, Eval.unPrec op.sym = some 12) :=
  ⟨EvalMain.binInfo_sym, by decide, by decide, by decide, EvalMain.unPrec_sym⟩

/-- the generated table satisfies the side conditions of the parser theorem -/
theorem table_ok (n : Nat) : TableOK (opsN n) := EvalMain.tableOK n

/-! ## 2. the parser -/

/-- Precedence climbing, with the code's table and operations, evaluates every parse tree of the
    table-induced grammar to the tree's value, consuming exactly its tokens, within fuel `3·size+1`
    (so the executed bound `3·length+4` never runs out). Any nesting, any size. -/
theorem climb_correct (n : Nat) (a : Climb.Ast Eval.Val) (h : a.WF (opsN n)) :
    ∃ f, f ≤ 3 * a.size + 1 ∧ expr (opsN n) f 0 a.render = .ok (a.eval (opsN n), []) := by
  have := Climb.climb_correct (opsN n) (table_ok n) a h [] (by simp [leadPrec]) (by simp [noLP])
  simpa using this

/-- … hence for every parse tree of the C grammar (`grammatical`) whose constants are legal and
    outside the recorded class D8, the executed evaluator returns the eager value of the tree. -/
theorem parser_correct (env : Env) (a : CExpr.Ast) (hg : a.grammatical = true) (hl : EvalMain.leavesOK a) :
    cbiExpr (render env a) = .ok (meval env a, []) := EvalMain.cbiExpr_tree env a hg hl

/-! ## 3. the operations -/

/-- Every binary operator: wherever C defines the result (`cBin … = some v`: no division by zero,
    no `INTMAX_MIN / -1`, shift count in 0..63, no signed overflow), the code's operation on
    `_c_int`-wrapped Python integers is the C operation on 64-bit values, including the usual
    arithmetic conversions and the result type. -/
theorem apply_is_C (op : BinOp) (x y v : CExpr.Val) (h : cBin op x y = some v) :
    applyBinary op.sym (mval x) (mval y) = mval v := EvalArith.applyBinary_spec op x y v h

theorem apply_unary_is_C (op : UnOp) (x v : CExpr.Val) (h : cUn op x = some v) :
    applyUnary op.sym (mval x) = mval v := EvalArith.applyUnary_spec op x v h

/-- `c ? t : e`: the selected operand converted to the common type of `t` and `e` -/
theorem apply_ternary_is_C (c t e : CExpr.Val) :
    applyTernary (mval c) (mval t) (mval e) =
      mval ⟨t.unsigned || e.unsigned, if c.bits != 0#64 then t.bits else e.bits⟩ := EvalArith.tern_ok c t e

/-- The value of a dead operand cannot influence the result (the code evaluates it eagerly and
    totally; C does not evaluate it): `0 && r`, `nonzero || r`, `c ? t : dead`, `c ? dead : e`
    for *every* value `r` the evaluator may have computed for the dead operand.  For `?:` only the
    dead operand's signedness enters, which is its static C type (`dead_operand_type`). -/
theorem dead_operand_irrelevant :
    (∀ (x : CExpr.Val) (r : Eval.Val), (x.bits == 0#64) = true →
        applyBinary "&&" (mval x) r = mval (Val.ofBool false)) ∧
    (∀ (x : CExpr.Val) (r : Eval.Val), (x.bits != 0#64) = true →
        applyBinary "||" (mval x) r = mval (Val.ofBool true)) ∧
    (∀ (c t : CExpr.Val) (r : Eval.Val), (c.bits != 0#64) = true →
        applyTernary (mval c) (mval t) r = mval ⟨t.unsigned || r.unsigned, t.bits⟩) ∧
    (∀ (c e : CExpr.Val) (r : Eval.Val), (c.bits != 0#64) = false →
        applyTernary (mval c) r (mval e) = mval ⟨r.unsigned || e.unsigned, e.bits⟩) :=
  ⟨EvalMain.land_dead, EvalMain.lor_dead, EvalMain.tern_dead_e, EvalMain.tern_dead_t⟩

/-- the signedness of the evaluator's value is the static C type of the expression, even where the
    C value is undefined (dead operands) -/
theorem dead_operand_type (env : Env) (a : CExpr.Ast) (hl : EvalMain.leavesOK a) :
    (meval env a).unsigned = a.utype := EvalMain.meval_unsigned env a hl

/-! ## 4. constants -/

/-- What `term()` computes for the spelling of ANY syntactically valid integer constant (every base,
    every digit string, every suffix spelling): value by `int(digits, base)`, unsigned iff a `u`
    suffix, `OverflowError` iff the value does not fit `np.uint64` / `np.int64`. -/
theorem literal_model (l : Lit) (hv : l.valid = true) :
    Eval.literal l.spell =
      (if l.suffix.isUnsigned then (if (l.value : Int) < two64 then .ok ⟨true, l.value⟩ else .error eOverflow)
       else (if (l.value : Int) < two63 then .ok ⟨false, l.value⟩ else .error eOverflow)) :=
  EvalLit.literal_model l hv

/-- … which is the C value and type of the constant, except in the recorded class D8 (no `u`
    suffix, value above INTMAX_MAX: C makes an octal/hex/binary constant unsigned). -/
theorem literal_value (l : Lit) (hv : l.valid = true) (v : CExpr.Val) (hc : cLiteral l = some v)
    (hk : EvalLit.bigUnsuffixed l = false) : Eval.literal l.spell = .ok (mval v) :=
  EvalLit.literal_value l hv v hc hk

/-- D8 is exactly the overflow class: every valid constant in it raises `OverflowError` -/
theorem literal_D8 (l : Lit) (hv : l.valid = true) (hk : EvalLit.bigUnsuffixed l = true) :
    Eval.literal l.spell = .error eOverflow := EvalLit.literal_big l hv hk

/-- Character constants: for EVERY character constant that has a C value (plain, simple escape, `\ooo`,
    `\xh…` with a code ≤ 255; plain `char` signed and 8 bits wide) `_character_value` of its spelling is that
    value, and `term()` returns it with type `int`.  (Finding D6 before the repair of the code.) -/
theorem char_value (c : CharLit) (v : CExpr.Val) (h : cChar c = some v) :
    characterValue c.chars = .ok (mval v).v ∧ (mval v).unsigned = false ∧
    ∀ n rest, (opsN n).leaf (chrTok (String.ofList c.chars) :: rest) = .ok (mval v, rest) := by
  obtain ⟨h1, h2⟩ := EvalChar.chr_spec c v h
  have hu : (mval v).unsigned = false := by rw [← h2]; exact EvalChar.chrVal_unsigned c
  refine ⟨h1, hu, ?_⟩
  intro n rest
  obtain ⟨args, ha⟩ := EvalMain.ops_leaf n
  rw [ha, EvalMain.leaf_chr args c.chars _ rest h1, ← hu]

/-! ## 5. the property -/

/-- value form: on every parse tree of the C grammar that is well defined in its evaluated positions
    (`cEval env a = some v`), whose constants are legal, and that avoids the recorded class D8,
    the evaluator returns exactly the C value with the C type, for every macro environment. -/
theorem main_value (env : Env) (a : CExpr.Ast) (hg : a.grammatical = true) (hl : EvalMain.leavesOK a)
    (v : CExpr.Val) (hv : cEval env a = some v) :
    cbiExpr (render env a) = .ok (mval v, []) := by
  rw [parser_correct env a hg hl, EvalMain.meval_spec env a hl v hv]

/-- the full statement of the property on the model (no exclusion of D8) -/
def main : Prop :=
  ∀ (env : Env) (a : CExpr.Ast) (v : CExpr.Val), a.grammatical = true → a.constsOK = true →
    cEval env a = some v → cbiEval (render env a) = .ok v.truth

/-- proved part: `main` outside the one recorded known-finding class D8 (big constants without `u`;
    kept because `tests/failure/test_bignum.py` pins the `OverflowError`).  Character constants with escape
    sequences (finding D6 until the code was repaired) are covered.  Missing for `main`: exactly the class D8,
    which the present code gets wrong (`main_fails_on_D8`). -/
theorem main_partial (env : Env) (a : CExpr.Ast) (v : CExpr.Val) (hg : a.grammatical = true)
    (hc : a.constsOK = true) (hk8 : usesBigUnsuffixed a = false)
    (hv : cEval env a = some v) : cbiEval (render env a) = .ok v.truth := by
  have h := main_value env a hg ⟨hc, hk8⟩ v hv
  simp only [cbiEval, h]
  congr 1
  rw [EvalArith.mval_v_ne_zero]; rfl

/-! ## 6. witnesses: the repaired class D6, the recorded known-finding class D8 -/

def envNone : Env := fun _ => false
def noSuffix : Suffix := ⟨.none, .none, false⟩
/-- `'\n'` -/
def witnessD6 : CExpr.Ast := .chr (.simple 'n')
/-- `0xFFFFFFFFFFFFFFFF` -/
def witnessD8 : CExpr.Ast := .lit ⟨.hex, false, List.replicate 16 ⟨15, true⟩, noSuffix⟩

/-- the value the evaluator computes for the one-token expression `'…'` -/
def chrResult (c : CharLit) : Except EErr (Eval.Val × List Tok) := cbiExpr (render envNone (.chr c))

/-- D6 (repaired): the former witness `'\n'` evaluates to 10, and with it `'\''` = 39, `'\0'` = 0, `'\101'` = 65,
    `'\x41'` = 65, `'\377'` = -1, `'\x80'` = -128, `'\x00041'` = 65 — signed `int`, all tokens consumed; each is
    the C value.  `'\400'` and `'\x100'` have no C value (gcc diagnoses them) and raise `ValueError`. -/
theorem main_holds_on_D6 :
    witnessD6.grammatical = true ∧ witnessD6.constsOK = true ∧ usesEscapedChar witnessD6 = true ∧
    cEval envNone witnessD6 = some ⟨false, 10#64⟩ ∧ cbiEval (render envNone witnessD6) = .ok true ∧
    chrResult (.simple 'n') = .ok (⟨false, 10⟩, []) ∧
    chrResult (.simple '\'') = .ok (⟨false, 39⟩, []) ∧
    chrResult (.octal [0]) = .ok (⟨false, 0⟩, []) ∧
    chrResult (.octal [1, 0, 1]) = .ok (⟨false, 65⟩, []) ∧
    chrResult (.hex [⟨4, false⟩, ⟨1, false⟩]) = .ok (⟨false, 65⟩, []) ∧
    chrResult (.octal [3, 7, 7]) = .ok (⟨false, -1⟩, []) ∧ cChar (.octal [3, 7, 7]) = some ⟨false, -1#64⟩ ∧
    chrResult (.hex [⟨8, false⟩, ⟨0, false⟩]) = .ok (⟨false, -128⟩, []) ∧
    cChar (.hex [⟨8, false⟩, ⟨0, false⟩]) = some ⟨false, -128#64⟩ ∧
    chrResult (.hex [⟨0, false⟩, ⟨0, false⟩, ⟨0, false⟩, ⟨4, false⟩, ⟨1, false⟩]) = .ok (⟨false, 65⟩, []) ∧
    cChar (.octal [4, 0, 0]) = none ∧ chrResult (.octal [4, 0, 0]) = .error eValue ∧
    cChar (.hex [⟨1, false⟩, ⟨0, false⟩, ⟨0, false⟩]) = none ∧
    chrResult (.hex [⟨1, false⟩, ⟨0, false⟩, ⟨0, false⟩]) = .error eValue := by
  refine ⟨?_, ?_, ?_, ?_, ?_, ?_, ?_, ?_, ?_, ?_, ?_, ?_, ?_, ?_, ?_, ?_, ?_, ?_, ?_⟩ <;> decide

/-- D8: `0xFFFFFFFFFFFFFFFF` is well-formed C (unsigned, 2⁶⁴−1); the evaluator raises `OverflowError` -/
theorem main_fails_on_D8 :
    witnessD8.grammatical = true ∧ witnessD8.constsOK = true ∧ usesBigUnsuffixed witnessD8 = true ∧
    cEval envNone witnessD8 = some ⟨true, 18446744073709551615#64⟩ ∧
    cbiEval (render envNone witnessD8) = .error eOverflow := by decide

/-- the full statement is false for the present code, through D8 only -/
theorem main_refuted : ¬ main := by
  intro h
  have := h envNone witnessD8 ⟨true, 18446744073709551615#64⟩ (by decide) (by decide) (by decide)
  have h2 : cbiEval (render envNone witnessD8) = .error eOverflow := main_fails_on_D8.2.2.2.2
  rw [h2] at this
  exact absurd this (by decide)

/-! ## 6b. from the text to the tokens: the lexer

The theorems above speak about token lists.  The two below tie the *text* of an expression to its tokens
for the lexer model the driver executes (`PP.tokenize`, whose operator / punctuator / exponent lists are
the ones regenerated from `Lexer` in the code on every run). -/

/-- Every spelling in the regenerated `Lexer.operator` list is read back as that operator (and the two
    parentheses as punctuators): no earlier entry of the list shadows a longer one ("longest match
    first").  Reordering the list in the code (say `<` before `<<`) breaks this `decide`. -/
theorem lexer_tables_longest_match :
    (Gen.lexOperators.all fun o => LexRT.lexOK ⟨.op, o, false, true⟩) = true ∧
    LexRT.lexOK lpTok = true ∧ LexRT.lexOK rpTok = true := by decide

/-- For every parse tree whose leaves are single lexer tokens (`lexable`: valid integer constants of any
    base / suffix; character constants plain, with a one-character escape, `\ooo` (1–3 octal digits) or `\xh…`
    — every character constant that has a C value, `char_constants_lexable`; identifiers of letters, digits and
    `_`), of any size and nesting, the lexer turns the text of the tree — its source tokens separated by
    blanks — into exactly those tokens (kinds and texts), in order, nothing dropped, split or merged. -/
theorem lexer_reads_source (a : CExpr.Ast) (h : LexSource.lexable a = true) :
    tokenize (LexRT.text (renderSrc a)) = (renderSrc a).map LexRT.norm :=
  LexRT.tokenize_text _ (LexSource.renderSrc_ok a h)

/-- every character constant with a C value (`cChar c ≠ none`) is in the class of `lexer_reads_source` -/
theorem char_constants_lexable (c : CharLit) (h : (cChar c).isSome = true) : LexSource.lexable (.chr c) = true :=
  LexSource.chr_lexable_of_value c h

/-- token-list form: any list of tokens of the accepted classes -/
theorem lexer_roundtrip (ts : List Tok) (h : ∀ t ∈ ts, LexRT.lexOK t = true) :
    tokenize (LexRT.text ts) = ts.map LexRT.norm := LexRT.tokenize_text ts h

/-! ## 7. non-vacuity -/

def dec (n : Nat) : Lit := ⟨.dec, false, (Nat.toDigits 10 n).map fun c => ⟨Fin.ofNat 16 (c.toNat - 48), false⟩, noSuffix⟩
/-- `0` is an octal constant in C -/
def num (n : Nat) : CExpr.Ast := if n = 0 then .lit ⟨.oct, false, [], noSuffix⟩ else .lit (dec n)
def numU (n : Nat) : CExpr.Ast := .lit { dec n with suffix := ⟨.u, .none, true⟩ }

/-- `-7 / 2 == -3 && (1 ? 2u : 0) > -1 || defined(X)` : satisfies every hypothesis of `main_partial`,
    mixes precedence levels, signed/unsigned conversion, truncating division and a `defined` leaf -/
def sample : CExpr.Ast :=
  .bin .lor
    (.bin .land
      (.bin .eq (.bin .div (.un .neg (num 7)) (num 2)) (.un .neg (num 3)))
      (.bin .gt (.paren (.tern (num 1) (numU 2) (num 0))) (.un .neg (num 1))))
    (.defd "X" true)

example : sample.grammatical = true ∧ sample.constsOK = true ∧
    usesBigUnsuffixed sample = false ∧ cEval envNone sample = some (Val.ofBool false) := by decide
/-- (2u > -1 is false in C: -1 converts to UINTMAX_MAX; the evaluator agrees) -/
example : cbiEval (render envNone sample) = .ok false := by decide
example : (render envNone sample).length = 20 := by decide

/-- `'\377' + 1 == 0 && '\x41' == 'A' && '\n' < '\101'` : the hypotheses of `main_partial`, `char_value` and
    `lexer_reads_source` hold with escaped character constants of every kind; the lexer reads each as ONE token -/
def sampleChr : CExpr.Ast :=
  .bin .land
    (.bin .land
      (.bin .eq (.bin .add (.chr (.octal [3, 7, 7])) (num 1)) (num 0))
      (.bin .eq (.chr (.hex [⟨4, false⟩, ⟨1, false⟩])) (.chr (.plain 'A'))))
    (.bin .lt (.chr (.simple 'n')) (.chr (.octal [1, 0, 1])))
example : sampleChr.grammatical = true ∧ sampleChr.constsOK = true ∧ usesEscapedChar sampleChr = true ∧
    usesBigUnsuffixed sampleChr = false ∧ cEval envNone sampleChr = some (Val.ofBool true) ∧
    cbiEval (render envNone sampleChr) = .ok true ∧ LexSource.lexable sampleChr = true ∧
    LexRT.text (renderSrc sampleChr) = " '\\377' + 1 == 0 && '\\x41' == 'A' && '\\n' < '\\101' " ∧
    (tokenize (LexRT.text (renderSrc sampleChr))).map (·.text) =
      ["\\377", "+", "1", "==", "0", "&&", "\\x41", "==", "A", "&&", "\\n", "<", "\\101"] := by decide
example : cChar (.octal [3, 7, 7]) = some ⟨false, -1#64⟩ ∧ (cChar (.hex [⟨15, true⟩, ⟨15, false⟩])).isSome = true := by decide

/-- the hypotheses of `lexer_reads_source` hold for `sample`; its text and what the lexer makes of it -/
example : LexSource.lexable sample = true ∧
    LexRT.text (renderSrc sample) = " - 7 / 2 == - 3 && ( 1 ? 2u : 0 ) > - 1 || defined ( X ) " ∧
    (tokenize (LexRT.text (renderSrc sample))).map (·.text) =
      ["-", "7", "/", "2", "==", "-", "3", "&&", "(", "1", "?", "2u", ":", "0", ")", ">", "-", "1", "||", "defined", "(", "X", ")"] := by decide
/-- operators that are prefixes of one another are kept apart: `a <<= b` is not in the class (`<<=` is no
    `#if` operator) but `a << b <= c >> d >= e` reads back token by token -/
example : tokenize " 1 << 2 <= 3 >> 4 >= 5 " = [numTok "1", opTok "<<", numTok "2", opTok "<=", numTok "3", opTok ">>", numTok "4",
    opTok ">=", numTok "5"].map LexRT.norm := by decide

/-- `0 && (1/0)` is well-formed C (the division is not evaluated) and must not fail: hypotheses of
    `main_partial` hold with an undefined dead operand -/
def deadDiv : CExpr.Ast := .bin .land (num 0) (.paren (.bin .div (num 1) (num 0)))
example : deadDiv.grammatical = true ∧ deadDiv.constsOK = true ∧ cEval envNone deadDiv = some (Val.ofBool false) ∧
    cEval envNone (.bin .div (num 1) (num 0)) = none ∧ cbiEval (render envNone deadDiv) = .ok false := by decide

/-- hypotheses of `apply_is_C` are satisfiable with wrap-around and mixed signedness: `-1 + 1u`, `-7 / 2`, `-1 < 0u` -/
example : cBin .add ⟨false, -1#64⟩ ⟨true, 1#64⟩ = some ⟨true, 0#64⟩ ∧ cBin .div ⟨false, -7#64⟩ ⟨false, 2#64⟩ = some ⟨false, -3#64⟩ ∧
    cBin .lt ⟨false, -1#64⟩ ⟨true, 0#64⟩ = some (Val.ofBool false) ∧ cBin .add ⟨false, 9223372036854775807#64⟩ ⟨false, 1#64⟩ = none := by decide
/-- hypotheses of `literal_value`: `0x7fffffffffffffffLL`-like constants -/
example : (⟨.hex, true, [⟨7, false⟩, ⟨15, true⟩], ⟨.U, .ll, false⟩⟩ : Lit).valid = true ∧
    (⟨.hex, true, [⟨7, false⟩, ⟨15, true⟩], ⟨.U, .ll, false⟩⟩ : Lit).spell = "0X7FllU" ∧
    cLiteral ⟨.hex, true, [⟨7, false⟩, ⟨15, true⟩], ⟨.U, .ll, false⟩⟩ = some ⟨true, 127#64⟩ := by decide
/-- hypotheses of `climb_correct`: the tree of `sample` is well-formed for the generated table -/
example : (toClimb envNone sample).WF (opsN 0) := EvalMain.toClimb_wf envNone 0 sample (by decide) ⟨by decide, by decide⟩

end CbiVerif.C02
