import CbiVerif.Props.C13
import CbiVerif.Lemmas.FindReach

/-!
# C13, closure — "only files named by entries, and what they include, are attributed to a platform"

`Props/C13.lean` proves the database layer's share (`only_named_files_partial`) relative to a hypothesis about the
analysis (`hfind`).  This file discharges that hypothesis for the executable multi-file model of `finder.find`
(`CbiVerif.Inc.find`, the model of C04: `Model/FindInc.lean`, `Model/MultiFile.lean`) and composes the two layers.

* `attributed_files_reachable` — for every file system, code base, configuration and include-depth bound: a file with a
  node attributed to platform `p` is (the real path of) the `file` of one of `p`'s entries, or of one of that entry's
  `-include` files, or is reached from one of those through `#include` directives that resolve - by the model's own
  resolution function, with that entry's search directories - to the next file (`Inc.Includes`, `Inc.Reach`).
* `only_named_files_forced` — the statement of C13 with the `-include` roots made explicit (the files named by
  `-include` ARE attributed, by the code and by the model; the statement in `Props/C13.lean`, which has the entry's
  file as only root, is therefore kept for commands without `-include`: `only_named_files_model_plain`).
* `only_named_files_model` — `only_named_files_forced` for the composed model: `load_database` (`DbPath.loadList`)
  followed by `finder.find` (`Inc.find`) on the loaded entries.

The include relation is the model's, not an abstract parameter: `includesModel` is `Inc.Includes` over `Inc.parseAll fs`
and `IncMemo.resolveM`, the definitions the driver executes (`findinc`, `reachinc`).
-/
namespace CbiVerif.C13
open CbiVerif.DbPath
open CbiVerif.Inc (FS parseAll Includes ForcedRoot)

/-! ## the analysis layer -/

/-- **attributed_files_reachable.**  In the model of `finder.find`, for every file system, code base, configuration and
fuel: every file that receives an attribution for platform `p` is (a) the `file` of one of `p`'s configuration entries,
(b) a forced include of such an entry, or (c) reached from one of those through a chain of include directives resolved
with that entry's search directories (files are identified by their real paths). -/
theorem attributed_files_reachable (fs : FS) (codebase : List String) (config : List (String × List CbiVerif.PP.Entry))
    (fuel : Nat) (f p : String) (h : f ∈ (Inc.find fs codebase config fuel).attributedTo p) :
    ∃ pe ∈ config, pe.1 = p ∧ ∃ e ∈ pe.2, ∃ root,
      (root = fs.realpath e.file ∨ ForcedRoot fs e.file e.includePaths e.includeFiles root) ∧
      Inc.Reach (Includes fs (parseAll fs) e.includePaths) root f := by
  simp only [Inc.PState.attributedTo, List.mem_map, List.mem_filter] at h
  obtain ⟨a, ⟨ha, hp⟩, rfl⟩ := h
  exact Inc.find_good fs codebase config fuel a ha p (by simpa using hp)

/-- the list the driver prints (`reachinc`: `attributedFiles`, repetitions removed) has the same members -/
theorem attributedFiles_mem (st : Inc.PState) (p f : String) : f ∈ st.attributedFiles p ↔ f ∈ st.attributedTo p := by
  simp [Inc.PState.attributedFiles]

/-- a platform without configuration entries is attributed nothing, whatever the code base contains -/
theorem no_entry_no_attribution (fs : FS) (codebase : List String) (config : List (String × List CbiVerif.PP.Entry))
    (fuel : Nat) (p : String) (h : ∀ pe ∈ config, pe.1 = p → pe.2 = []) :
    (Inc.find fs codebase config fuel).attributedTo p = [] := by
  apply List.eq_nil_iff_forall_not_mem.mpr
  intro f hf
  obtain ⟨pe, hpe, hp, e, he, _⟩ := attributed_files_reachable fs codebase config fuel f p hf
  rw [h pe hpe hp] at he
  cases he

/-- a file that no entry of `p` reaches is not attributed to `p` (contrapositive; this is what the decoy files of the
harness exercise) -/
theorem unreached_not_attributed (fs : FS) (codebase : List String) (config : List (String × List CbiVerif.PP.Entry))
    (fuel : Nat) (f p : String)
    (h : ∀ pe ∈ config, pe.1 = p → ∀ e ∈ pe.2, ¬ Inc.ReachE fs (parseAll fs) e f) :
    f ∉ (Inc.find fs codebase config fuel).attributedTo p := by
  intro hf
  obtain ⟨pe, hpe, hp, e, he, root, hr, hreach⟩ := attributed_files_reachable fs codebase config fuel f p hf
  exact h pe hpe hp e he ⟨root, hr, hreach⟩

/-! ## the composed model: `load_database`, then `finder.find` on what it returns -/

variable {α : Type}

/-- a loaded entry as `finder.find` receives it; `defs` / `forced` read the `-D` / `-include` values off the pass -/
def toEntry (defs forced : α → List String) (o : Out α) : CbiVerif.PP.Entry :=
  { file := String.ofList o.file, defines := defs o.pass,
    includePaths := o.includePaths.map String.ofList, includeFiles := forced o.pass }

/-- the files attributed to the platform by the model of `finder.find` run on the loaded entries -/
def attributedModel (fs : FS) (codebase : List String) (fuel : Nat) (pname : String) (defs forced : α → List String)
    (outs : List (Out α)) : List Str :=
  ((Inc.find fs codebase [(pname, outs.map (toEntry defs forced))] fuel).attributedTo pname).map String.toList

/-- the model's include relation (its own parse of the file, its own resolution function) -/
def includesModel (fs : FS) (incs : List Str) (f g : Str) : Prop :=
  Includes fs (parseAll fs) (incs.map String.ofList) (String.ofList f) (String.ofList g)

/-- `os.path.realpath` of the model's file system -/
def realModel (fs : FS) (p : Str) : Str := (fs.realpath (String.ofList p)).toList

/-- `r` is what a `-include` name of the pass resolves to (searched like a quote include of the entry's file) -/
def forcedRootModel (fs : FS) (forced : α → List String) (file : Str) (incs : List Str) (a : α) (r : Str) : Prop :=
  ForcedRoot fs (String.ofList file) (incs.map String.ofList) (forced a) (String.ofList r)

/-- **only_named_files_forced** — full statement, `-include` roots explicit.  Every attributed file is reached, with the
resolved include directories of one pass of a kept entry of the database, from the (real path of the) resolved `file`
of that entry or from a file that one of the pass's `-include` names resolves to. -/
def only_named_files_forced (attributed : List (Out α) → List Str) (includes : List Str → Str → Str → Prop)
    (real : Str → Str) (forcedRoot : Str → List Str → α → Str → Prop) : Prop :=
  ∀ (cwd root : Str) (ex : Str → Bool) (parse : List Str → List (α × List Str)) (db : List Cmd)
    (outs : List (Out α)) (logs : List Log),
    loadList cwd root ex parse db = .ok (outs, logs) →
    ∀ f ∈ attributed outs, ∃ c ∈ db, ∃ argv, Kept cwd root ex c argv ∧ ∃ p ∈ parse argv, ∃ r,
      (r = real (entryPath cwd root c) ∨
        forcedRoot (entryPath cwd root c) (p.2.map fun i => abspath cwd (join (filedir cwd root c.directory) i)) p.1 r) ∧
      Reach includes (p.2.map fun i => abspath cwd (join (filedir cwd root c.directory) i)) r f

/-- the database layer's share of `only_named_files_forced` (as `only_named_files_partial`, with forced roots) -/
theorem only_named_files_forced_of_find (attributed : List (Out α) → List Str) (includes : List Str → Str → Str → Prop)
    (real : Str → Str) (forcedRoot : Str → List Str → α → Str → Prop)
    (hfind : ∀ outs f, f ∈ attributed outs → ∃ o ∈ outs, ∃ r,
      (r = real o.file ∨ forcedRoot o.file o.includePaths o.pass r) ∧ Reach includes o.includePaths r f) :
    only_named_files_forced attributed includes real forcedRoot := by
  intro cwd root ex parse db outs logs h f hf
  obtain ⟨o, ho, r, hr, hreach⟩ := hfind outs f hf
  obtain ⟨c, hc, argv, hk, p, hp, rfl⟩ := outs_from_kept cwd root ex parse db outs logs h o ho
  exact ⟨c, hc, argv, hk, p, hp, r, hr, hreach⟩

theorem reach_toList (fs : FS) (incs : List Str) (root f : String)
    (h : Inc.Reach (Includes fs (parseAll fs) (incs.map String.ofList)) root f) :
    Reach (includesModel fs) incs root.toList f.toList := by
  induction h with
  | self => exact .self
  | step _ hg ih => exact .step ih (by simpa [includesModel] using hg)

/-- the hypothesis `hfind` of the database layer, discharged for the model of `finder.find` -/
theorem find_model_reach (fs : FS) (codebase : List String) (fuel : Nat) (pname : String) (defs forced : α → List String)
    (outs : List (Out α)) (f : Str) (hf : f ∈ attributedModel fs codebase fuel pname defs forced outs) :
    ∃ o ∈ outs, ∃ r, (r = realModel fs o.file ∨ forcedRootModel fs forced o.file o.includePaths o.pass r) ∧
      Reach (includesModel fs) o.includePaths r f := by
  simp only [attributedModel, List.mem_map] at hf
  obtain ⟨g, hg, rfl⟩ := hf
  obtain ⟨pe, hpe, _, e, he, root, hroot, hreach⟩ := attributed_files_reachable fs codebase _ fuel g pname hg
  simp only [List.mem_singleton] at hpe
  subst hpe
  simp only [List.mem_map] at he
  obtain ⟨o, ho, rfl⟩ := he
  refine ⟨o, ho, root.toList, ?_, reach_toList fs o.includePaths root g hreach⟩
  rcases hroot with rfl | hr
  · exact .inl rfl
  · exact .inr (by simpa [forcedRootModel, toEntry] using hr)

/-- **only_named_files_model.**  `only_named_files_forced` holds for the composed model - `load_database` followed by
`finder.find` on the entries it returns - for every file system, code base, include-depth bound, platform name and
every way of reading `-D` / `-include` values off a pass; no hypothesis is left. -/
theorem only_named_files_model (fs : FS) (codebase : List String) (fuel : Nat) (pname : String)
    (defs forced : α → List String) :
    only_named_files_forced (attributedModel fs codebase fuel pname defs forced) (includesModel fs) (realModel fs)
      (forcedRootModel fs forced) :=
  only_named_files_forced_of_find _ _ _ _ (find_model_reach fs codebase fuel pname defs forced)

/-- **only_named_files** (the statement of `Props/C13.lean`, entry's file as only root) for the composed model when
commands carry no `-include` and the tree has no symbolic links (real path = path). -/
theorem only_named_files_model_plain (fs : FS) (hl : fs.links = []) (codebase : List String) (fuel : Nat) (pname : String)
    (defs : α → List String) :
    only_named_files (attributedModel fs codebase fuel pname defs (fun _ => [])) (includesModel fs) := by
  intro cwd root ex parse db outs logs h f hf
  obtain ⟨c, hc, argv, hk, p, hp, r, hr, hreach⟩ :=
    only_named_files_model fs codebase fuel pname defs (fun _ => []) cwd root ex parse db outs logs h f hf
  refine ⟨c, hc, argv, hk, p, hp, ?_⟩
  rcases hr with rfl | hr
  · have hreal : realModel fs (entryPath cwd root c) = entryPath cwd root c := by
      simp [realModel, Inc.FS.realpath, Inc.realpathLoop, hl]
    rw [hreal] at hreach
    exact hreach
  · obtain ⟨inc, hinc, _⟩ := hr
    cases hinc

/-! ## non-vacuity (kernel-checked by evaluation of the definitions above) -/

/-- `/r/src/a.c` includes `<h.h>`, found through `-I inc`.  Decoys that no entry names and nothing reached includes:
a header in the `-I` directory, a header with the included header's base name beside the source file (not searched
for the angle form), a source file in the source's directory that itself includes a header, a header that is
only named by `-include` in the second example. -/
def fsD : FS := { files := [
  ("/r/src/a.c", "#include <h.h>\nint a;\n"),
  ("/r/inc/h.h", "int h;\n"),
  ("/r/inc/decoy.h", "int d;\n"),
  ("/r/src/h.h", "int other;\n"),
  ("/r/src/decoy.c", "#include \"h.h\"\nint z;\n"),
  ("/r/inc/pre.h", "int p;\n")] }
/-- all of them are in the code base (parsed, reported), so "unattributed" is not "unknown" -/
def cbD : List String := ["/r/src/a.c", "/r/inc/h.h", "/r/inc/decoy.h", "/r/src/h.h", "/r/src/decoy.c", "/r/inc/pre.h"]
def dbD : List Cmd :=
  [{ file := "src/a.c".toList, directory := some "/r".toList, command := some "gcc -I inc -c src/a.c".toList }]
def exD : Str → Bool := fun p => p == "/r/src/a.c".toList
/-- a stand-in argument parser: pass name, `-I` values; the pass `"forced"` carries `-include pre.h` -/
def parseD (pass : String) : List Str → List (String × List Str) := fun argv => [(pass, argv.filter (· == "inc".toList))]
def forcedD : String → List String := fun pass => if pass == "forced" then ["pre.h"] else []

/-- the composed model on this tree: the entry's file and the header it includes through `-I` are attributed, none of
the decoys is (hypotheses of `only_named_files_model` / `only_named_files_model_plain`: none besides `fs.links = []`) -/
example : fsD.links = [] ∧
    (loadList "/w".toList "/r".toList exD (parseD "default") dbD).toOption.map (fun r =>
      (attributedModel fsD cbD 8 "p" (fun _ => []) (fun _ => []) r.1).eraseDups)
    = some ["/r/inc/h.h".toList, "/r/src/a.c".toList] := by decide +kernel

/-- with `-include pre.h` the forced header IS attributed although nothing includes it: the roots of
`only_named_files_forced` are needed, and the other decoys stay unattributed -/
example :
    (loadList "/w".toList "/r".toList exD (parseD "forced") dbD).toOption.map (fun r =>
      (attributedModel fsD cbD 8 "p" (fun _ => []) forcedD r.1).eraseDups)
    = some ["/r/inc/pre.h".toList, "/r/inc/h.h".toList, "/r/src/a.c".toList] := by decide +kernel

/-- the instantiated include relation holds between the two attributed files (so `Reach` has a non-trivial step), and the
forced root is a `ForcedRoot` -/
example : includesModel fsD ["/r/inc".toList] "/r/src/a.c".toList "/r/inc/h.h".toList :=
  Inc.includes_of_check fsD (parseAll fsD) ["/r/inc"] "/r/src/a.c" 0 "/r/inc/h.h" (by decide +kernel)
example : Reach (includesModel fsD) ["/r/inc".toList] "/r/src/a.c".toList "/r/inc/h.h".toList :=
  .step .self (Inc.includes_of_check fsD (parseAll fsD) ["/r/inc"] "/r/src/a.c" 0 "/r/inc/h.h" (by decide +kernel))
example : forcedRootModel fsD forcedD "/r/src/a.c".toList ["/r/inc".toList] "forced" "/r/inc/pre.h".toList :=
  ⟨"pre.h", by decide, "/r/inc/pre.h", by decide +kernel, by decide +kernel⟩

/-- `attributed_files_reachable` / `no_entry_no_attribution` on two platforms over the same tree: `q` has no entries and
gets nothing although every file is in the code base; `p` gets the two reached files -/
example :
    let st := Inc.find fsD cbD [("p", [⟨"/r/src/a.c", [], ["/r/inc"], []⟩]), ("q", [])] 8
    (st.attributedFiles "p", st.attributedFiles "q", st.inserted.length) = (["/r/inc/h.h", "/r/src/a.c"], [], 6) := by
  decide +kernel

end CbiVerif.C13
