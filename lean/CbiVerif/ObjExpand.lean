import CbiVerif.PP.Macro
/-! C03 (partial): the stream-stack expander, written as a pure step machine, equals the recursive
    hide-set definition on tables that contain only object-like macros. -/
namespace CbiVerif.Obj
open CbiVerif.PP

structure Helper where
  toks : List (Option Tok)
  pos : Nat
  pre : Bool
deriving Repr

structure XS where
  stack : List Helper
  noExp : List String
deriving Repr

abbrev Table := List (String × Macro)
def Table.get (t : Table) (n : String) : Option Macro := (t.find? (·.1 == n)).map (·.2)

def filterSome (l : List (Option Tok)) : List Tok := l.filterMap id

def fixpw (r : List Tok) (pw : Bool) : List Tok :=
  match r with | f :: rest => { f with pw := pw } :: rest | [] => []

def splice (below top : Helper) : Helper :=
  let start := filterSome (below.toks.take below.pos)
  ⟨(start ++ filterSome top.toks ++ filterSome (below.toks.drop below.pos)).map some, start.length, below.pre⟩

inductive Out | cont (s : XS) | done (res : List Tok) (s : XS) | overflow | err | other
deriving Repr

def maxLevel : Nat := 200

/-- one iteration of the `while True` loop of `MacroExpander.expand`, popping counted as its own iteration;
    `defined` and function-like macros are outside this fragment (`other`) -/
def iter (tbl : Table) (s : XS) : Out :=
  match s.stack with
  | [] => .err
  | top :: rest =>
    if top.pos ≥ top.toks.length then
      match rest with
      | [] => .done (filterSome top.toks) ⟨[], s.noExp.tail⟩
      | below :: rest' =>
        if top.pre then .done (filterSome top.toks) ⟨rest, s.noExp.tail⟩
        else .cont ⟨splice below top :: rest', s.noExp.tail⟩
    else
      match top.toks[top.pos]? with
      | some (some t) =>
        if t.kind != .ident then .cont ⟨{ top with pos := top.pos + 1 } :: rest, s.noExp⟩
        else if t.text == "defined" then .other
        else if !t.expandable || s.noExp.contains t.text then
          .cont ⟨{ top with toks := top.toks.set top.pos (some { t with expandable := false }), pos := top.pos + 1 } :: rest, s.noExp⟩
        else
          match tbl.get t.text with
          | none => .cont ⟨{ top with pos := top.pos + 1 } :: rest, s.noExp⟩
          | some m =>
            match m.args with
            | some _ => .other
            | none =>
              let child : Helper := ⟨(fixpw m.replacement t.pw).map some, 0, false⟩
              let top' : Helper := { top with toks := top.toks.set top.pos none, pos := top.pos + 1 }
              if rest.length + 2 ≥ maxLevel then .overflow
              else .cont ⟨child :: top' :: rest, m.name :: s.noExp⟩
      | _ => .err

/-- `k` successful iterations -/
def runK (tbl : Table) : Nat → XS → Option XS
  | 0, s => some s
  | k + 1, s => match iter tbl s with | .cont s' => runK tbl k s' | _ => none

theorem runK_add (tbl : Table) (a b : Nat) (s s' s'' : XS) (h1 : runK tbl a s = some s') (h2 : runK tbl b s' = some s'') :
    runK tbl (a + b) s = some s'' := by
  induction a generalizing s with
  | zero => simp [runK] at h1; subst h1; simpa using h2
  | succ a ih =>
    simp only [runK] at h1
    have : a + 1 + b = (a + b) + 1 := by omega
    rw [this]
    simp only [runK]
    cases hi : iter tbl s with
    | cont s1 => simp only [hi] at h1; exact ih s1 h1
    | _ => simp [hi] at h1

/-! the recursive (hide-set style) definition for object-like tables -/
def paint (t : Tok) : Tok := { t with expandable := false }

def E (tbl : Table) : Nat → List String → List Tok → List Tok
  | _, _, [] => []
  | 0, D, t :: ts => t :: E tbl 0 D ts
  | d + 1, D, t :: ts =>
    if t.kind != .ident then t :: E tbl (d + 1) D ts
    else if !t.expandable || D.contains t.text then paint t :: E tbl (d + 1) D ts
    else match tbl.get t.text with
      | none => t :: E tbl (d + 1) D ts
      | some m => E tbl d (m.name :: D) (fixpw m.replacement t.pw) ++ E tbl (d + 1) D ts
termination_by d _ ts => (d, ts.length)

end CbiVerif.Obj
