"""./check <ID> quick|thorough   |   ./check <ID> --replay <file>"""
from __future__ import annotations

import importlib
import json
import os
import sys
import traceback
from pathlib import Path

sys.path.insert(0, str(Path(__file__).resolve().parents[1]))
from harness import core  # noqa: E402


def main(argv):
    if len(argv) < 2:
        print(__doc__)
        return 2
    prop = argv[0]
    if argv[1] == "--replay":
        mod = importlib.import_module(f"harness.props.{prop.lower()}")
        br = core.build(prop)
        drv = core.Driver() if br.driver_ok else None
        payload = json.loads(Path(argv[2]).read_text())
        ctx = core.Ctx(prop, "quick", int(payload.get("seed", 0)))
        for i, case in enumerate(payload.get("cases", [])):
            print(f"--- case {i}: {case.get('what')}")
            print(json.dumps(mod.replay(ctx, drv, case["case"]), indent=1, default=str))
        return 0
    tier = os.environ.get("VERIF_TIER") or argv[1]
    if tier not in ("quick", "thorough"):
        tier = "quick"
    seed = int(os.environ.get("VERIF_SEED", "0") or 0)
    ctx = core.Ctx(prop, tier, seed)
    mod = importlib.import_module(f"harness.props.{prop.lower()}")

    br = core.build(prop)
    broken = []  # reasons why "proved + tied" no longer holds
    if not br.translator_ok:
        broken.append("translator failed: " + br.translator_msg[-300:])
    thms, discharged, axioms, problems = [], [], [], []
    if br.lib_ok:
        thms, discharged, axioms, problems = core.audit(prop, thorough=ctx.thorough())
    else:
        thms = core.load_obligations(prop)["theorems"]
        problems = ["lake build CbiVerif.Props.%s failed (modules: %s)" % (prop, ", ".join(br.failed_modules) or "?")]
    if problems:
        broken.extend(problems)
    drv = None
    try:
        if br.driver_ok:
            drv = core.Driver()
        else:
            broken.append("model driver does not build against the regenerated tables")
        mod.run(ctx, drv)
        if ctx.corr_breaks:
            b = ctx.corr_breaks[0]
            broken.append(f"correspondence {b['op']} broken on {len(ctx.corr_breaks)} input(s), first: {json.dumps(b['case'], default=str)[:200]}")
        if broken and not ctx.violations and hasattr(mod, "search"):
            ctx.budget_scale = 8.0
            ctx.notes.append("failing-input search ran because: " + "; ".join(broken)[:600])
            mod.search(ctx, drv)
    except Exception:
        traceback.print_exc()
        print(f"INTERNAL-ERROR property={prop}")
        return 2
    finally:
        if drv:
            drv.close()

    checker_cmd = f"cd lean && lake build CbiVerif.Props.{prop} && lake env lean <#print axioms of each theorem in obligations/{prop}.json>" + (
        " && lake env leanchecker <modules>" if ctx.thorough() else ""
    )
    core.write_evidence(ctx, thms, discharged, axioms, problems, checker_cmd)

    for fid, what in sorted(ctx.known_seen.items()):
        print(f"KNOWN-FINDING: property={prop} {fid}: {what}")
    rc = 0
    if ctx.violations:
        path = core.write_replay(
            prop,
            {"property": prop, "seed": seed, "tier": tier, "broken": broken,
             "cases": [{"what": w, "case": c} for w, c in ctx.violations]},
        )
        print(f"VIOLATION property={prop} replay={path}")
        for w, c in ctx.violations[:3]:
            print("  " + w[:300])
        rc = 1
    elif broken:
        path = core.write_replay(
            prop,
            {"property": prop, "seed": seed, "tier": tier, "no_failing_input_found": True,
             "no_longer_checks": broken, "correspondence_breaks": ctx.corr_breaks, "build_log": br.log[-3000:]},
        )
        print(f"VIOLATION property={prop} replay={path} no-failing-input-found")
        for b in broken[:5]:
            print("  " + b[:300])
        rc = 1
    print(
        f"{prop} {tier}: obligations {len(discharged)}/{len(thms)} discharged, {ctx.evaluations} evaluations, "
        f"{len(ctx.nontrivial)} distinct non-trivial, {len(ctx.known_seen)} known finding(s), "
        f"{len(ctx.violations)} violation(s), {ctx.elapsed():.1f}s"
    )
    return rc


if __name__ == "__main__":
    try:
        code = main(sys.argv[1:])
    except SystemExit:
        raise
    except BaseException:   # never let an internal failure look like exit status 1 (= violation)
        traceback.print_exc()
        print("INTERNAL-ERROR (outside the check proper)")
        code = 2
    sys.exit(code)
