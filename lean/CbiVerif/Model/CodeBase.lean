import CbiVerif.Model.FS
import CbiVerif.Generated.Tables
/-! # `codebasin.CodeBase` over the file-system model (C09, C15)

`contains` mirrors `CodeBase.__contains__`, `iter` mirrors `CodeBase.__iter__`
(`Path(root).rglob('*')`, which on CPython 3.12 lists every entry below the root that is reached
through real directories only — directory symlinks are listed but not entered — filtered through
`__contains__`; of the listed directories only `walkRoots` are walked: one that equals an earlier one
or lies inside another one is skipped).  The gitignore matcher is the parameter `ignored`.  `counted` is the iteration of
`ParserState.get_setmap`, `notLinks` the one of `report.find_duplicates` / the propagation test of
`FileTree.insert`; `insertFile` is the key discipline of `ParserState.insert_file`.  Core Lean only. -/
namespace CbiVerif.CB
open CbiVerif.Path CbiVerif.FS

structure Cfg where
  /-- `GitIgnoreSpec.from_lines(exclude_patterns).match_file` on a root-relative path -/
  ignored : Comps → Bool
  /-- is the repair of D18 present (`RuntimeError` of `resolve()` caught in `__contains__`)? -/
  catchLoop : Bool

/-- the only failure: `RuntimeError("Symlink loop from …")` raised by `Path.resolve()` -/
inductive Err
  | symlinkLoop
deriving Repr, DecidableEq

/-- `source.is_source_file` on the final component -/
def recognised (nm : String) : Bool := CbiVerif.Gen.sourceExts.contains (suffix nm)

/-- `Path(p).resolve()` -/
def resolve (fs : FS) (n : Nat) (cwd : Comps) (p : P) : Except Err Comps :=
  match realpath fs n (start cwd p) p.comps with
  | .ok r => .ok r
  | _ => .error .symlinkLoop

/-- `CodeBase.__init__`: every directory is resolved once, against the working directory of that moment -/
def mkRoots (fs : FS) (n : Nat) (cwd : Comps) : List P → Except Err (List Comps)
  | [] => .ok []
  | d :: ds =>
    match resolve fs n cwd d, mkRoots fs n cwd ds with
    | .ok r, .ok rs => .ok (r :: rs)
    | _, _ => .error .symlinkLoop

/-- the tests `__contains__` applies to the resolved path `r` once it is known to be an existing non-directory -/
def accepted (cfg : Cfg) (roots : List Comps) (r : Comps) : Bool :=
  recognised (name r) &&
  match roots.find? (fun d => isRelativeTo r d) with
  | none => false
  | some root => !cfg.ignored (relativeTo r root)

/-- `path in CodeBase(roots…)` -/
def contains (cfg : Cfg) (fs : FS) (n : Nat) (roots : List Comps) (cwd : Comps) (p : P) : Except Err Bool :=
  match realpath fs n (start cwd p) p.comps with
  | .ok r =>
    match stat fs n r with
    | none => .ok false            -- not path.exists()
    | some .dir => .ok false       -- path.is_dir()
    | some _ => .ok (accepted cfg roots r)
  | _ => if cfg.catchLoop then .ok false else .error .symlinkLoop

def isTrue : Except Err Bool → Bool
  | .ok true => true
  | _ => false

def isErr : Except Err Bool → Bool
  | .error _ => true
  | _ => false

/-- the entries `Path(root).rglob('*')` yields: everything strictly below `root` that is reached through
real directories (the entry itself may be anything); nothing when `root` is not a directory -/
def rglob (fs : FS) (root : Comps) : List Comps :=
  if isDirE (lstat fs root) then
    (keys fs).filter fun e =>
      root.isPrefixOf e && decide (root.length < e.length) && allFrom fs isDirE root (e.drop root.length).dropLast
  else []

/-- `any(directory != other and directory.is_relative_to(other) for other in self._directories)`:
the listed directory `d` lies inside another listed directory -/
def insideAnother (roots : List Comps) (d : Comps) : Bool := roots.any fun o => o != d && isRelativeTo d o

/-- the first occurrence of every element, in order (the `if directory in walked: continue` of `__iter__`) -/
def firstOcc : List Comps → List Comps
  | [] => []
  | d :: ds => d :: (firstOcc ds).filter (fun x => x != d)

/-- the directories `CodeBase.__iter__` walks (repair of F-C09-NEST = F-C15-ROOTS): a listed directory that
equals an earlier one or lies inside another listed one is skipped — the walk of the enclosing directory
reaches the same files -/
def walkRoots (roots : List Comps) : List Comps := firstOcc (roots.filter fun d => !insideAnother roots d)

/-- what `__iter__` did before the repair: every listed directory is walked in full -/
def candidatesUnrepaired (fs : FS) (roots : List Comps) : List Comps := roots.flatMap (rglob fs)

def candidates (fs : FS) (roots : List Comps) : List Comps := (walkRoots roots).flatMap (rglob fs)

/-- `list(codebase)`: raises iff `__contains__` raises for some candidate -/
def iter (cfg : Cfg) (fs : FS) (n : Nat) (roots : List Comps) : Except Err (List Comps) :=
  let cands := candidates fs roots
  if cands.any (fun x => isErr (contains cfg fs n roots [] ⟨true, x⟩)) then .error .symlinkLoop
  else .ok (cands.filter fun x => isTrue (contains cfg fs n roots [] ⟨true, x⟩))

/-- `list(codebase)` before the repair of F-C09-NEST (kept to state what the repair changed: nothing but repetitions) -/
def iterUnrepaired (cfg : Cfg) (fs : FS) (n : Nat) (roots : List Comps) : Except Err (List Comps) :=
  let cands := candidatesUnrepaired fs roots
  if cands.any (fun x => isErr (contains cfg fs n roots [] ⟨true, x⟩)) then .error .symlinkLoop
  else .ok (cands.filter fun x => isTrue (contains cfg fs n roots [] ⟨true, x⟩))

/-- `Path(fn).is_symlink()` for an enumerated path (its parent is a chain of real directories) -/
def isSymlink (fs : FS) (x : Comps) : Bool := isLinkE (lstat fs x)

/-- the skip test of `get_setmap`: `path.is_symlink() and path.resolve() in codebase` -/
def skipped (cfg : Cfg) (fs : FS) (n : Nat) (roots : List Comps) (x : Comps) : Bool :=
  isSymlink fs x &&
  match resolve fs n [] ⟨true, x⟩ with
  | .ok r => isTrue (contains cfg fs n roots [] ⟨true, r⟩)
  | .error _ => false

/-- the files whose lines `ParserState.get_setmap` adds up -/
def counted (cfg : Cfg) (fs : FS) (n : Nat) (roots : List Comps) : Except Err (List Comps) :=
  match iter cfg fs n roots with
  | .ok l => .ok (l.filter fun x => !skipped cfg fs n roots x)
  | .error e => .error e

/-- the files `find_duplicates` hashes, and the files whose figures `FileTree.insert` propagates -/
def notLinks (cfg : Cfg) (fs : FS) (n : Nat) (roots : List Comps) : Except Err (List Comps) :=
  match iter cfg fs n roots with
  | .ok l => .ok (l.filter fun x => !isSymlink fs x)
  | .error e => .error e

/-- `ParserState.insert_file`: the parse cache is keyed by `os.path.realpath(spelling)`; a spelling that
runs into a link loop cannot be opened and leaves the cache unchanged -/
def insertFile (fs : FS) (n : Nat) (cwd : Comps) (cache : List Comps) (p : P) : List Comps :=
  match realpath fs n (start cwd p) p.comps with
  | .ok r => if cache.contains r then cache else cache ++ [r]
  | _ => cache

def insertFiles (fs : FS) (n : Nat) (cwd : Comps) (cache : List Comps) (ps : List P) : List Comps :=
  ps.foldl (insertFile fs n cwd) cache

end CbiVerif.CB
