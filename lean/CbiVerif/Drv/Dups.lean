import Lean.Data.Json
import CbiVerif.Model.Dups
/-! driver op for C16: `{"op":"dups","files":[{"path","symlink","member","content"}],"hash":h,"choose":c,"seed":n}`
→ `{"groups":[[path,…],…],"candidates":[path,…]}`.
It runs `CbiVerif.Dups.findDuplicates`, the definition the theorems of `Props/C16.lean` are about,
instantiated with one of several hash functions (types `Nat`, `String`, `Unit`) and pop strategies.
The content is whatever string the harness sends (hex of the bytes). -/
open Lean
namespace CbiVerif.Drv.Dups
open CbiVerif.Dups

def fileOf (j : Json) : File String :=
  { path := (j.getObjValAs? String "path").toOption.getD "",
    isSymlink := (j.getObjValAs? Bool "symlink").toOption.getD false,
    isMember := (j.getObjValAs? Bool "member").toOption.getD false,
    content := (j.getObjValAs? String "content").toOption.getD "" }

/-- pop strategies -/
def chooseOf (name : String) (seed : Nat) : List (File String) → Nat :=
  match name with
  | "last" => fun l => l.length - 1
  | "mid" => fun l => l.length / 2
  | "lcg" => fun l => (seed * 1103515245 + 12345 + l.length * 2654435761 +
      (l.foldl (fun acc f => acc * 31 + f.path.length) 7)) / 65536
  | _ => fun _ => 0

def groupsJson (gs : List (List (File String))) : Json :=
  Json.arr (gs.map fun g => Json.arr (g.map fun f => Json.str f.path).toArray).toArray

def handleDups (j : Json) : Json :=
  let files := ((j.getObjValAs? (Array Json) "files").toOption.getD #[]).toList.map fileOf
  let seed := (j.getObjValAs? Nat "seed").toOption.getD 0
  let choose := chooseOf ((j.getObjValAs? String "choose").toOption.getD "head") seed
  let groups : List (List (File String)) :=
    match (j.getObjValAs? String "hash").toOption.getD "id" with
    | "const" => findDuplicates (fun _ : String => ()) choose files                -- one bucket
    | "len" => findDuplicates (fun s : String => s.length) choose files            -- size only
    | "first" => findDuplicates (fun s : String => s.toList.take 2) choose files          -- first byte
    | "sum" => findDuplicates (fun s : String => (s.toList.foldl (fun a c => a + c.toNat) 0) % 5) choose files
    | "strhash" => findDuplicates (fun s : String => hash s) choose files
    | _ => findDuplicates (fun s : String => s) choose files                       -- injective
  Json.mkObj [("groups", groupsJson groups),
              ("candidates", Json.arr ((candidates files).map fun f => Json.str f.path).toArray)]

def handlers : List (String × (Json → Json)) := [("dups", handleDups)]

end CbiVerif.Drv.Dups
