"""C15 — each physical file is parsed and counted once, however it is reached.

Every generated code base is written twice: canonical (no links, every reference spelled canonically) and
aliased (file links, directory links, `./` and `x/../` segments; compile commands, -I options and #include
directives refer to files through aliases).  The real analysis is run on both and compared:
per-physical-file attribution (keyed by realpath), setmap totals, parse cache, duplicates, file tree, coverage.
Model (Lean): CbiVerif.CB.insertFiles / counted / iter over the file-system description of the aliased tree
(driver op "codebase"); the spellings handed to insert_file and the files visited by get_setmap are recorded
from the real run.

Besides the aliased-vs-canonical differential there are absolute expectations (a change that makes both variants wrong
in the same way is invisible to the differential): setmap total = lines of the physical members each once; code bases
of several directories in both listing orders (every physical member exactly once, whichever directory holds a link to
it); full run = union of its compile commands analysed alone in a fresh state, in particular on mixed Fortran / C code
bases whose units share headers.  The coverage export is compared by record NAME and used / unused lines.
"""
from __future__ import annotations

import copy
import io
import json
import os
import re
import shutil
from pathlib import Path

from harness import core
from harness.gen import codebase as cbgen
from harness.gen import fstree

FUEL = 3000
INC_RE = re.compile(r'^#include "([^"]+)"$')


# --------------------------------------------------------------------------
# mixed-language code bases (same description format as cbgen.gen_codebase)
# --------------------------------------------------------------------------
def gen_mixed(rng):
    """A small code base in which Fortran (free form) and C / C++ translation units include the SAME header(s), built by
    two or three platforms in alternating order.  The shared headers hold only text that reads the same under every line
    source (directives, plain declarations; no comments, quotes or continuation marks), so how many lines they have and
    which of them a unit reaches does not depend on the language they are read as."""
    hd = rng.choice(["include", "include/cfg", "src", "common"])
    fd = rng.choice(["src", "fsrc", "src/phys"])
    cd = rng.choice(["src", "csrc", "src/util"])
    dirs = {""}
    for d_ in (hd, fd, cd):
        while d_:
            dirs.add(d_)
            d_ = os.path.dirname(d_)
    dirs = [""] + sorted(x for x in dirs if x)
    texts, headers, sources = {}, [], []

    def hbody(k):
        out = []
        for _ in range(rng.randint(1, 3)):
            r = rng.random()
            if r < 0.35:
                out.append(f"#define N{rng.choice('XYZ')}{k} {rng.randint(1, 64)}")
            elif r < 0.7:
                n = rng.choice(cbgen.NAMES)
                out += [rng.choice([f"#ifdef {n}", f"#ifndef {n}", f"#if defined({n}) && {n} > 0"]), f"shared_{k}_{rng.randint(0, 9)} = 1", "#else", f"shared_{k}_other = 2", "#endif"]
            else:
                out.append(f"shared_plain_{k}_{rng.randint(0, 9)} = 0")
        return out

    nh = rng.randint(1, 2)
    for k in range(nh):
        h = os.path.join(hd if k == 0 else rng.choice([hd, "include"] if "include" in dirs else [hd]), f"defs{k}.{rng.choice(['h', 'h', 'hpp', 'inc'])}")
        headers.append(h)
    for k, h in enumerate(headers):
        b = hbody(k)
        if k == 0 and nh == 2 and rng.random() < 0.6:
            b.insert(rng.randint(0, len(b)), f'#include "{os.path.relpath(headers[1], os.path.dirname(h) or ".")}"')
        style = rng.random()
        if style < 0.6:
            b = [f"#ifndef DEFS{k}_H", f"#define DEFS{k}_H"] + b + ["#endif"]
        elif style < 0.8:
            b = ["#pragma once"] + b
        texts[h] = b

    def unit(path, decl):
        b = []
        for h in headers:
            if h is headers[0] or rng.random() < 0.6:
                b.append(f'#include "{os.path.relpath(h, os.path.dirname(path) or ".")}"')
        if rng.random() < 0.4:
            n = rng.choice(cbgen.NAMES)
            b += [f"#ifdef {n}", decl("a"), "#endif"]
        b.insert(rng.randint(0, len(b)), decl("b"))
        if rng.random() < 0.3:      # the shared header a second time (its guard decides)
            b.append(f'#include "{os.path.relpath(headers[0], os.path.dirname(path) or ".")}"')
        return b

    funits, cunits = [], []
    for i in range(rng.randint(1, 2)):
        p_ = os.path.join(fd, f"phys{i}.{rng.choice(['f90', 'F90'])}")
        texts[p_] = unit(p_, lambda t, i=i: f"integer :: only_fortran_{t}{i}")
        funits.append(p_)
    for i in range(rng.randint(1, 2)):
        p_ = os.path.join(cd, f"main{i}.{rng.choice(['c', 'cpp', 'cc'])}")
        texts[p_] = unit(p_, lambda t, i=i: f"int only_c_{t}{i};")
        cunits.append(p_)
    sources = funits + cunits
    if rng.random() < 0.4:
        texts[os.path.join(rng.choice(dirs), "unused.c")] = ["int unused;", "int unused2;"]
    links = []
    tgt = rng.choice(sources + headers)
    links.append((os.path.join(os.path.dirname(tgt), "link_" + os.path.basename(tgt)), tgt))
    d_ = rng.choice([x for x in dirs if x])
    links.append(("dl_" + d_.replace("/", "_"), d_))
    names = cbgen.PLATFORM_NAMES[: rng.randint(2, 3)]
    layout = rng.choice(["split", "both", "random"])

    def cmd(s_):
        defs = [f"-D{n}={rng.randint(0, 1)}" if rng.random() < 0.7 else f"-D{n}" for n in cbgen.NAMES if rng.random() < 0.4]
        cc = "gfortran" if s_ in funits else rng.choice(["gcc", "g++", "clang"])
        return {"file": s_, "directory": ".", "arguments": [cc] + defs + ["-c", s_]}

    platforms = {}
    for k, name in enumerate(names):
        if layout == "split":
            us = (funits if k % 2 == 0 else cunits)[:]
        elif layout == "both":
            us = [u for pair in zip(funits + [None] * 2, cunits + [None] * 2) for u in pair if u]
            if rng.random() < 0.5:
                us.reverse()
        else:
            us = [u for u in sources if rng.random() < 0.7] or [rng.choice(sources)]
            rng.shuffle(us)
        platforms[name] = [cmd(u) for u in us]
    return dict(texts=texts, headers=headers, sources=sources, dirs=dirs, platforms=platforms, dangling=[], unknown=[], links=links,
                layout=layout)


# --------------------------------------------------------------------------
# the two variants
# --------------------------------------------------------------------------
def normalise(rng, desc):
    """Changes applied to BOTH variants: some includes become -I relative (bare names), every command gets
    -I for every header directory, one header outside the code base is included by a source."""
    d = copy.deepcopy(desc)
    if d["sources"] and rng.random() < 0.6:
        # a `#pragma once` header included twice by one source: its second half is reached only if the
        # header is processed a second time (the two includes get independent alias spellings later)
        dl = [tg for ln, tg in desc["links"] if tg in d["dirs"] and tg]
        pod = rng.choice(dl) if dl else rng.choice(d["dirs"])
        po = os.path.join(pod, "po.h")
        d["texts"][po] = ["#pragma once", "#ifndef PO_SEEN", "#define PO_SEEN", "int po_first;", "#else", "int po_second;", "#endif"]
        d["headers"].append(po)
        s_ = rng.choice(d["sources"])
        rel = os.path.relpath(po, os.path.dirname(s_) or ".")
        d["texts"][s_] = [f'#include "{rel}"', "int between;", f'#include "{rel}"'] + d["texts"][s_]
    hdirs = sorted(set(os.path.dirname(h) for h in d["headers"]))
    base = {os.path.basename(h): h for h in d["headers"]}
    for f, lines in d["texts"].items():
        for i, ln in enumerate(lines):
            m = INC_RE.match(ln)
            if m and not m.group(1).startswith("missing"):
                tgt = os.path.normpath(os.path.join(os.path.dirname(f), m.group(1)))
                if tgt in d["headers"] and rng.random() < 0.35:
                    lines[i] = f'#include "{os.path.basename(tgt)}"'
    d["outside"] = None
    if d["sources"] and rng.random() < 0.5:
        d["outside"] = ["#ifndef EXT_H", "#define EXT_H", "int ext1;", "#ifdef A", "int ext_a;", "#endif", "#endif"]
        s = rng.choice(d["sources"])
        d["texts"][s] = [f'#include "{os.path.relpath("../cb-old/ext.h", os.path.dirname(s) or ".")}"'] + d["texts"][s]
    for name, entries in d["platforms"].items():
        for e in entries:
            args = e["arguments"]
            e["arguments"] = args[:-2] + [x for hd in hdirs for x in ("-I", hd or ".")] + args[-2:]
    d["hdirs"] = hdirs
    # exclude patterns (the same for both variants): a vendored directory that no command or include refers to, and
    # sometimes a name pattern that matches alias names only.  Membership is decided on the resolved path, so a link
    # with an innocent name to an excluded file is not a member, and a link with an excluded name to a member is one.
    d["excludes"] = []
    if rng.random() < 0.5:
        d["texts"]["vendored/vend.h"] = ["int vend_a;", "int vend_b;", "#ifdef A", "int vend_c;", "#endif"]
        d["texts"]["vendored/deep/vend2.c"] = ["int vend2;"]
        d["excludes"].append(rng.choice(["vendored/", "vendored", "/vendored/", "vend*"]))
        if rng.random() < 0.5:
            d["excludes"].append("alias0_*")
    return d


def decorate(rng, d, xlinks=True):
    """The aliased variant: extra links + alias spellings of every reference.  Returns (desc, links)
    links: [(link path rel to root, target rel to root)]; link targets are written relative to the link."""
    a = copy.deepcopy(d)
    links = list(a["links"])
    files = list(a["texts"])
    real_dirs = sorted(set(os.path.dirname(f) for f in files) | set(x for x in a["dirs"]))
    real_dirs = [x for x in real_dirs]
    # more file links, in the directory of their target
    for i in range(rng.randint(0, 2)):
        t = rng.choice(files)
        links.append((os.path.join(os.path.dirname(t), f"alias{i}_" + os.path.basename(t)), t))
    # chains: a link whose target is itself a file link (link -> link -> file), in the same directory
    file_links = [ln for ln, tg in links if tg in a["texts"]]
    for i in range(rng.randint(0, 2)):
        if file_links:
            t = rng.choice(file_links)
            nm = os.path.join(os.path.dirname(t), f"chain{i}_" + os.path.basename(t))
            links.append((nm, t))
            file_links.append(nm)
    # a link with a non-source name to a source, and a source-named link to a non-source
    if rng.random() < 0.4:
        t = rng.choice(files)
        links.append((os.path.join(os.path.dirname(t), "plainlink"), t))
    # directory links: at the top and nested
    for i in range(rng.randint(0, 2)):
        dd = rng.choice([x for x in real_dirs if x] or ["src"])
        where = rng.choice(real_dirs)
        nm = os.path.join(where, f"dlx{i}")
        if not (dd + "/").startswith(nm + "/"):
            links.append((nm, dd))
    # cross-directory file links: the link sits in ANOTHER directory than its target (`0compat/kernel.cpp -> ../src/kernel.cpp`),
    # under the target's own base name or a prefixed one; `0compat` holds nothing but links and sorts before every real
    # directory, so such a link is enumerated (and sorted) before its target, also when the directories are separate roots
    xdir = set()
    if xlinks:
        cand_t = [f for f in files if not f.startswith("vendored")]
        for i in range(rng.randint(0, 2)):
            t = rng.choice(cand_t)
            # (directories that hold a source file: the directory has a row in the file tree of the link-free variant too)
            others = sorted(set(os.path.dirname(f) for f in files if fstree.suffix_of(os.path.basename(f)) in EXTS) - {os.path.dirname(t)})
            others = [x for x in others if not x.startswith("vendored")]
            where = rng.choice(["0compat", "0compat"] + others)
            nm = os.path.join(where, rng.choice(["", "aa_", "zz_"]) + os.path.basename(t))
            if nm not in files and nm not in [l for l, _ in links]:
                links.append((nm, t))
                xdir.add(nm)
    if a.get("excludes"):
        where = rng.choice([x for x in real_dirs if not x.startswith("vendored")] or [""])
        links.append((os.path.join(where, "innocent.h"), "vendored/vend.h"))      # innocent name, excluded target
        if rng.random() < 0.5:
            links.append((os.path.join(where, "innocent_dir"), "vendored/deep"))  # directory link into the excluded directory
    if a["outside"] is not None:
        links.append(("ext_link.h", "../cb-old/ext.h"))       # link to a file outside the code base
        links.append(("dl_out", "../cb-old"))                 # link to a directory outside the code base
    # de-duplicate link names
    seen, ll = set(files), []
    for ln, tg in links:
        if ln not in seen and not any((ln + "/").startswith(x + "/") for x, _ in ll if x != ln):
            seen.add(ln)
            ll.append((ln, tg))
    links = ll
    lmap = {ln: os.path.normpath(tg) for ln, tg in links}

    def final(t):
        t = os.path.normpath(t)
        for _ in range(10):
            if t not in lmap:
                break
            t = lmap[t]
        return t

    def has_quote_include(f):
        return any(INC_RE.match(x) for x in a["texts"].get(f, []))

    flinks = {}
    for ln, tg in links:
        if os.path.basename(ln) == "plainlink":  # a command's file needs a source extension to be supported
            continue
        if ln in xdir and has_quote_include(final(tg)):
            # a file with #include "..." lines is not REFERRED to through a link in another directory (which directory such an
            # include is resolved against is C04's question); the link is still there to be enumerated
            continue
        flinks.setdefault(final(tg), []).append(ln)
    dlinks = [(ln, os.path.normpath(tg)) for ln, tg in links if os.path.normpath(tg) in real_dirs or tg == "../cb-old"]

    def alias(p):
        """an alias spelling (root-relative) of the root-relative path p"""
        p = os.path.normpath(p)
        cands = [p]
        for ln in flinks.get(p, []):
            cands.append(ln)
        for ln, dd in dlinks:
            if p.startswith(dd + "/"):
                cands.append(ln + p[len(dd):])
            if p == dd:
                cands.append(ln)
        q = rng.choice(cands)
        # redundant segments through real directories only
        parts = q.split("/")
        out = []
        for i, c in enumerate(parts):
            out.append(c)
            pre = "/".join(out)
            if i < len(parts) - 1 and pre in real_dirs and not c.startswith("."):
                r = rng.random()
                if r < 0.15:
                    out.append(".")
                elif r < 0.3:
                    subs = [x[len(pre) + 1:] for x in real_dirs if x.startswith(pre + "/") and "/" not in x[len(pre) + 1:]]
                    if subs:
                        out += [rng.choice(subs), ".."]
        return "/".join(out)

    # references: #include texts
    for f, lines in a["texts"].items():
        for i, ln in enumerate(lines):
            m = INC_RE.match(ln)
            if not m or m.group(1).startswith("missing"):
                continue
            inc = m.group(1)
            if "/" not in inc and inc in [os.path.basename(h) for h in a["headers"]] and \
                    os.path.normpath(os.path.join(os.path.dirname(f), inc)) not in a["texts"]:
                # found through -I: only a file link of the same name could alias it; keep
                continue
            tgt = os.path.normpath(os.path.join(os.path.dirname(f), inc))
            if tgt == os.path.normpath("../cb-old/ext.h"):
                al = rng.choice(["ext_link.h", "dl_out/ext.h", "../cb-old/ext.h"])
            elif tgt in a["texts"]:
                al = alias(tgt)
            else:
                continue
            lines[i] = f'#include "{os.path.relpath(al, os.path.dirname(f) or ".")}"'
    # references: compile commands and -I
    for name, entries in a["platforms"].items():
        for e in entries:
            sp = alias(e["file"])
            e["file"] = sp if rng.random() < 0.7 else "$ROOT/" + sp
            args = e["arguments"]
            out = []
            i = 0
            while i < len(args):
                if args[i] == "-I" and i + 1 < len(args):
                    out += ["-I", alias(args[i + 1]) if args[i + 1] != "." else "."]
                    i += 2
                elif args[i].startswith("-I") and len(args[i]) > 2:
                    out.append("-I" + alias(args[i][2:]))
                    i += 1
                else:
                    out.append(args[i])
                    i += 1
            out[-1] = e["file"]
            e["arguments"] = out
    a["links"] = links
    a["xdir"] = sorted(x for x in xdir if x in lmap)
    return a


def write_variant(base, d):
    """base/cb = the code base root, base/cb-old = the sibling directory outside the code base (its name shares the prefix `cb` with the root: containment is by path components, not by string prefix)"""
    root = os.path.join(base, "cb")
    os.makedirs(root)
    if d["outside"] is not None:
        os.makedirs(os.path.join(base, "cb-old"))
        with open(os.path.join(base, "cb-old", "ext.h"), "w") as f:
            f.write("\n".join(d["outside"]) + "\n")
    dd = copy.deepcopy(d)
    for entries in dd["platforms"].values():
        for e in entries:
            e["file"] = e["file"].replace("$ROOT", root)
            e["arguments"] = [x.replace("$ROOT", root) for x in e["arguments"]]
    cbgen.write_codebase(root, dd)
    return root


# --------------------------------------------------------------------------
# observation of the real analysis
# --------------------------------------------------------------------------
def analyse_dirs(root, dirs, platforms, excludes=(), only=None):
    """finder.find on a code base made of the listed directories (root-relative spellings, in this order).
    only = (platform, index): the configuration holds that single compile command."""
    from codebasin import CodeBase, config, finder

    cfg = {}
    for name in platforms:
        if only is not None and name != only[0]:
            continue
        db = config.load_database(os.path.join(root, f"{name}.json"), root)
        cfg[name] = db if only is None else [db[only[1]]]
    cb = CodeBase(*[os.path.join(root, d) for d in dirs], exclude_patterns=list(excludes))
    st = finder.find(root, cb, cfg, summarize_only=False)
    return cb, st


def observe(root, platforms, want_cov=False, excludes=(), dirs=None, light=False):
    """Run finder.find + reports on the code base at root (dirs: on the code base made of these sub-directories of root, in
    this order; light: no duplicates / file-tree report). Returns a dict of observations."""
    from codebasin import finder, report
    from codebasin.finder import ParserState

    inserted = []
    orig_insert = ParserState.insert_file

    def rec_insert(self, fn, language=None):
        inserted.append(str(fn))
        return orig_insert(self, fn, language)

    ParserState.insert_file = rec_insert
    try:
        if dirs is None:
            cb, st = cbgen.analyse(root, platforms, excludes=excludes)
        else:
            cb, st = analyse_dirs(root, dirs, platforms, excludes=excludes)
    finally:
        ParserState.insert_file = orig_insert
    members = list(cb)
    phys = sorted(set(os.path.realpath(f) for f in members))
    # files visited by get_setmap
    visited = []
    orig_get_tree = st.get_tree

    def rec_get_tree(fn):
        visited.append(str(fn))
        return orig_get_tree(fn)

    st.get_tree = rec_get_tree
    try:
        setmap = dict(st.get_setmap(cb))
    finally:
        del st.get_tree
    att = {}
    for rel, dct in cbgen.attribution(phys + [k for k in st.trees if k not in phys], st, root).items():
        att[rel] = {ln: sorted(ps) for ln, ps in dct.items()}
    # what "each physical member counted exactly once" amounts to, computed from the parse trees by definition
    from codebasin.preprocessor import CodeNode
    once_total = 0
    for p_ in phys:
        t_ = st.get_tree(p_)
        if t_ is not None:
            once_total += sum(n.num_lines for n in t_.walk() if isinstance(n, CodeNode))
    if light:
        return {"members": members, "phys": [os.path.relpath(p, root) for p in phys], "setmap": {",".join(sorted(k)): v for k, v in setmap.items()},
                "att": att, "trees": sorted(st.trees.keys()), "inserted": inserted, "visited": visited, "once_total": once_total, "cb": cb, "st": st}
    dups = sorted(sorted(os.path.relpath(str(p), root) for p in grp) for grp in report.find_duplicates(cb))
    dup_links = [str(p) for grp in report.find_duplicates(cb) for p in grp if Path(p).is_symlink()]
    buf = io.StringIO()
    report.files(cb, st, stream=buf)
    rows = cbgen.parse_tree(buf.getvalue())
    return {
        "once_total": once_total,
        "members": members, "phys": [os.path.relpath(p, root) for p in phys], "setmap": {",".join(sorted(k)): v for k, v in setmap.items()},
        "att": att, "trees": sorted(st.trees.keys()), "inserted": inserted, "visited": visited,
        "dups": dups, "dup_links": dup_links, "rows": rows, "cb": cb, "st": st,
    }


def coverage_records(root, dbname):
    rc, out, err = core.run_cli("codebasin.coverage", ["compute", "-S", root, "-o", os.path.join(root, "cov_out.json"), os.path.join(root, dbname)], cwd=root)
    if rc != 0:
        return None, err[-400:]
    return json.load(open(os.path.join(root, "cov_out.json"))), ""


def coverage_records_inproc(root, dbname, excludes=()):
    """the exporter behind `cbi-cov compute`, called in this process (the CLI front end only parses the options)"""
    import argparse

    from codebasin.coverage.__main__ import _compute

    out = os.path.join(root, "cov_inproc.json")
    ns = argparse.Namespace(ifile=os.path.join(root, dbname), ofile=out, source_dir=root, excludes=list(excludes))
    try:
        _compute(ns)
    except SystemExit as e:
        if e.code not in (0, None):
            return None, f"exit {e.code}"
    except Exception as e:  # noqa
        return None, f"{type(e).__name__}: {e}"
    try:
        return json.load(open(out)), ""
    finally:
        os.unlink(out)


def compare_coverage(ctx, case, ra, rc_, rootA, how):
    """The export of the aliased code base must be the export of the canonical one: one record per physical file, under the
    file's own name, with the same used / unused lines."""
    names_a = [r["file"] for r in ra]
    pa = sorted(os.path.relpath(os.path.realpath(os.path.join(rootA, n)), rootA) for n in names_a)
    pc = sorted(r["file"] for r in rc_)
    if pa != pc:
        extra = [n for n in names_a if os.path.islink(os.path.join(rootA, n))]
        ctx.classify(dict(case, coverage_files=names_a, coverage_how=how),
                     f"{how} writes records for {names_a}: physical files {pa} instead of each once {pc}",
                     [("F-C15-COV", lambda c: sorted(set(pa)) == pc and len(extra) == len(pa) - len(pc))])
        return {"aliased": names_a, "canonical": pc}
    da, dc = {r["file"]: r for r in ra}, {r["file"]: r for r in rc_}
    for n in names_a:
        if n not in dc:
            full = os.path.join(rootA, n)
            tgt = os.path.relpath(os.path.realpath(full), rootA)
            ctx.violation(f"{how}: the record of the physical file {tgt} is named {n}" + (" (a symbolic link to it)" if os.path.islink(full) else " (another spelling)") +
                          f"; the export of the same code base without links names it {tgt}: records {names_a} vs {sorted(dc)}",
                          dict(case, coverage_files=names_a, coverage_how=how))
            return {"aliased": names_a, "canonical": pc}
    for n in names_a:
        # `id` is the digest of the file's bytes: the two variants spell their #include lines differently, so it is not compared
        keys = ("used_lines", "unused_lines")
        if any(da[n].get(k) != dc[n].get(k) for k in keys):
            diff = {k: (da[n].get(k), dc[n].get(k)) for k in keys if da[n].get(k) != dc[n].get(k)}
            ctx.violation(f"{how}: the record of {n} differs from the export of the canonical code base in {str(diff)[:300]}",
                          dict(case, coverage_files=names_a, coverage_how=how))
            break
    return {"aliased": names_a, "canonical": pc}


def fresh_union(root, plats, excludes, phys_abs):
    """{member file: {line: [platforms]}}: the union, over every compile command of every platform, of the attribution that
    command produces when it is analysed ALONE in a fresh state (new ParserState, every file parsed for the first time).
    This is what "all attributions of several compile commands / include directives land on the same lines of the one
    physical file" demands of the full run, stated without reference to the full run."""
    union, ncmd = {}, 0
    for p in plats:
        ndb = len(json.load(open(os.path.join(root, f"{p}.json"))))
        for i in range(ndb):
            cb, st = analyse_dirs(root, ["."], [p], excludes, only=(p, i))
            ncmd += 1
            for rel, dct in cbgen.attribution(phys_abs, st, root).items():
                u = union.setdefault(rel, {})
                for ln, ps in dct.items():
                    u.setdefault(ln, set()).update(ps)
    return {rel: {ln: sorted(ps) for ln, ps in d.items()} for rel, d in union.items()}, ncmd


def canonical_dirs(plan, order):
    """the canonical counterpart of a list of directory spellings of the aliased variant: every spelling replaced by the
    real directory it resolves to (`canon_of`; a directory that holds nothing but links has no counterpart), in the same
    order (with exclude patterns a file is judged relative to the FIRST listed directory around it), a directory that
    equals an earlier one or lies inside an earlier one left out (it is never the first one around any file)"""
    cm = plan.get("canon_of")
    if cm is None:
        return list(plan["canonical"])
    out = []
    for d in order:
        c = cm.get(d)
        if c is None:
            continue
        if any(c == e or e == "." or c.startswith(e + "/") for e in out):
            continue
        out.append(c)
    return out


def multi_root_plan(rng, canon, alias, forced=None):
    """Directories for `CodeBase(d1, d2, ...)`: the top-level directories of the tree (files directly under the root are then
    outside the code base), in a random order; the aliased variant lists in addition the directories that hold nothing
    but links and may spell a directory through a top-level directory link.  In more than half of the plans the listed
    directories OVERLAP (F-C15-ROOTS = F-C09-NEST, repaired): a directory listed again (`d`, `./d`, `d/`), listed under its
    name and through a symbolic link to it, listed together with one of its sub-directories (named directly or through
    a link to it) before or after it, or together with the root of the tree itself.  Returns None if there is no
    top-level directory, or only one and no overlap to add."""
    if forced:
        return forced
    tops = sorted({f.split("/")[0] for f in canon["texts"] if "/" in f and not f.startswith("vendored")})
    if not tops:
        return None
    lnames = {ln for ln, _ in alias["links"]}
    linkonly = sorted({ln.split("/")[0] for ln in lnames if "/" in ln} - set(tops) - lnames - {"vendored"})
    order = tops + linkonly
    rng.shuffle(order)
    toplinks = {}
    for ln, tg in alias["links"]:
        if "/" not in ln and os.path.normpath(tg) in tops:
            toplinks.setdefault(os.path.normpath(tg), []).append(ln)
    spelled, canon_of = [], {}
    for d in order:
        r = rng.random()
        if d in toplinks and r < 0.3:
            spelled.append(rng.choice(toplinks[d]))
        elif r < 0.45:
            spelled.append("./" + d)
        else:
            spelled.append(d)
        canon_of[spelled[-1]] = d if d in tops else None
    # ---- overlapping directories
    shapes = []
    if rng.random() < (0.6 if len(tops) >= 2 else 1.0):
        alldirs = sorted({"/".join(f.split("/")[:i]) for f in canon["texts"] for i in range(1, f.count("/") + 1)})
        alldirs = [d for d in alldirs if d.split("/")[0] in tops]
        subdirs = [d for d in alldirs if "/" in d]
        dirlinks = {ln: os.path.normpath(tg) for ln, tg in alias["links"] if os.path.normpath(tg) in alldirs}
        for _ in range(rng.randint(1, 2)):
            kinds = ["relisted", "relisted"] + (["linked"] * 3 if dirlinks else []) + (["nested"] * 2 if subdirs else []) + ["whole"]
            kind = rng.choice(kinds)
            if kind == "relisted":
                d = rng.choice(tops)
                sp = rng.choice([d, "./" + d, d + "/"] + toplinks.get(d, []))
                tgt = d
            elif kind == "linked":
                sp = rng.choice(sorted(dirlinks))
                tgt = dirlinks[sp]
            elif kind == "nested":
                tgt = rng.choice(subdirs)
                sp = rng.choice([tgt, "./" + tgt])
            else:
                sp, tgt = ".", "."
            if kind == "nested" or (kind == "linked" and "/" in tgt):
                kind += ":sub-directory"
            while sp in canon_of and canon_of[sp] != tgt:
                sp = "./" + sp
            canon_of[sp] = tgt
            spelled.insert(rng.randint(0, len(spelled)), sp)
            shapes.append(kind)
    # a directory NEXT to a listed one whose name continues its name (`src`, `src-old`): a code-base directory of its own
    sibling = None
    if rng.random() < 0.25:
        d = rng.choice(tops)
        sib = d + rng.choice(["-old", "2", "x"])
        if not any(f == sib or f.startswith(sib + "/") for f in list(canon["texts"]) + sorted(lnames)):
            sibling = sib
            canon_of[sib] = sib
            spelled.insert(rng.randint(0, len(spelled)), sib)
            shapes.append("name-prefix-sibling")
    if len(tops) < 2 and not shapes:
        return None
    plan = {"canonical": [], "aliased": spelled, "canon_of": canon_of, "overlap": shapes, "prefix_sibling": sibling}
    plan["canonical"] = canonical_dirs(plan, spelled)
    return plan


LINK_ONLY_DIRS = ("0compat/",)


def rows_key(rows):
    """file-tree rows without link rows and without the row of a directory that holds nothing but links (it has no
    counterpart in the link-free tree; its figures must be zero): (depth, is_dir, name, platforms, sloc)"""
    return sorted((r[4], r[5], r[6], r[0], r[1]) for r in rows if " -> " not in r[6] and r[4] > 0 and not (r[5] and r[6] in LINK_ONLY_DIRS))


# --------------------------------------------------------------------------
def check_case(ctx, drv, scr, idx, canon, alias, origin, want_cov=False, extras=None):
    """extras (stored in the case, so that a replay repeats them): {"cov_inproc": bool, "multi": True | plan, "union": bool}"""
    extras = dict(extras or {})
    case = {"canonical": canon, "aliased": alias, "origin": origin}
    if extras:
        case["extras"] = extras
    if isinstance(canon, dict) and origin == "replay-history":
        case["history"] = canon.get("_history")
    baseC, baseA = os.path.join(scr, f"C{idx}"), os.path.join(scr, f"A{idx}")
    os.makedirs(baseC)
    os.makedirs(baseA)
    out = {}
    try:
        rootC, rootA = write_variant(baseC, canon), write_variant(baseA, alias)
        plats = list(canon["platforms"])
        try:
            oc = observe(rootC, plats, excludes=canon.get("excludes", ()))
        except Exception as e:  # noqa
            ctx.notes.append(f"canonical variant not analysable ({type(e).__name__}: {e}) — case dropped")
            return out
        try:
            oa = observe(rootA, plats, excludes=alias.get("excludes", ()))
        except Exception as e:  # noqa
            ctx.violation(f"the aliased variant aborts with {type(e).__name__}: {e} although the canonical one is analysed", case)
            return out
        nlinks = len(alias["links"])
        ctx.count(key=f"links={min(nlinks, 5)}")
        if canon.get("excludes"):
            ctx.count(key="with_exclude_patterns")
            if any(p.startswith("vendored/") for p in oc["phys"]):
                ctx.notes.append(f"exclude patterns {canon['excludes']} did not exclude the vendored directory")
        aliased_refs = sum(1 for p in alias["platforms"] for e, e0 in zip(alias["platforms"][p], canon["platforms"][p]) if e["file"] != e0["file"])
        ctx.dist["commands_through_alias"] += aliased_refs
        if nlinks and (aliased_refs or any(a_ != c_ for f in canon["texts"] for a_, c_ in zip(alias["texts"][f], canon["texts"][f]))):
            ctx.nontrivial.add(origin)
        bad = []
        # the same physical files are members
        if oa["phys"] != oc["phys"]:
            bad.append(f"physical member files differ: aliased {oa['phys']} vs canonical {oc['phys']}")
        # every member of the aliased variant is a physical member or a link to one; links to outside are not members
        for m in oa["members"]:
            rp = os.path.realpath(m)
            if not rp.startswith(rootA + "/"):
                bad.append(f"{m} -> {rp} lies outside the code base but is enumerated")
        for ln, tg in alias["links"]:
            full = os.path.join(rootA, ln)
            rp = os.path.realpath(full)
            inside = rp.startswith(rootA + "/") and os.path.isfile(rp) and fstree.suffix_of(os.path.basename(rp)) in EXTS and os.path.relpath(rp, rootA) in oc["phys"]
            if os.path.isfile(rp) and ((full in oa["cb"]) != inside):
                bad.append(f"link {ln} -> {tg}: `in codebase` is {full in oa['cb']}, target member: {inside}")
        # per-physical-file attribution
        for rel in sorted(set(oc["att"]) | set(oa["att"])):
            ctx.count(key="file_attribution_compared")
            if oc["att"].get(rel) != oa["att"].get(rel):
                bad.append(f"attribution of {rel} differs: aliased {str(oa['att'].get(rel))[:200]} vs canonical {str(oc['att'].get(rel))[:200]}")
                break
        # totals
        if oa["setmap"] != oc["setmap"]:
            bad.append(f"setmap differs: aliased {oa['setmap']} vs canonical {oc['setmap']}")
        # one tree per physical file; keys are realpaths
        if any(os.path.realpath(k) != k for k in oa["trees"]) or len(set(os.path.realpath(k) for k in oa["trees"])) != len(oa["trees"]):
            bad.append(f"parse cache holds several entries for one physical file: {oa['trees']}")
        if sorted(os.path.relpath(k, rootA) for k in oa["trees"]) != sorted(os.path.relpath(k, rootC) for k in oc["trees"]):
            bad.append("parsed files differ: aliased %s vs canonical %s" % (sorted(os.path.relpath(k, rootA) for k in oa["trees"]), sorted(os.path.relpath(k, rootC) for k in oc["trees"])))
        # get_setmap visits each physical member once and no link
        vis = sorted(os.path.relpath(os.path.realpath(v), rootA) for v in oa["visited"])
        if vis != oa["phys"] or any(os.path.islink(v) for v in oa["visited"]):
            bad.append(f"get_setmap visits {oa['visited']} — not each physical member exactly once")
        # duplicates
        # (two byte-identical files of the canonical variant whose #include lines got different alias spellings are no longer
        # byte-identical in the aliased variant: the classes are compared after refining each by the other variant's texts)
        def refine(groups, texts):
            o_ = []
            for g in groups:
                by = {}
                for f in g:
                    by.setdefault(tuple(texts.get(f, [f])), []).append(f)
                o_ += [sorted(v) for v in by.values() if len(v) > 1]
            return sorted(o_)

        if refine(oa["dups"], canon["texts"]) != refine(oc["dups"], alias["texts"]) or oa["dup_links"]:
            bad.append(f"duplicates differ: aliased {oa['dups']} (links {oa['dup_links']}) vs canonical {oc['dups']}")
        # file tree: rows other than link rows are the same, root figure = total
        if rows_key(oa["rows"]) != rows_key(oc["rows"]):
            bad.append(f"file-tree rows differ: aliased {rows_key(oa['rows'])} vs canonical {rows_key(oc['rows'])}")
        for r in oa["rows"]:
            if r[5] and r[6] in LINK_ONLY_DIRS and (r[1] != "0" or r[0].strip("-")):
                bad.append(f"file-tree row of the directory {r[6]} (nothing but links to members) shows platforms {r[0]!r} / SLOC {r[1]}: a link adds nothing to any total")
        if oa["rows"] and oc["rows"] and (oa["rows"][0][:4] != oc["rows"][0][:4]):
            bad.append(f"file-tree root row differs: aliased {oa['rows'][0][:4]} vs canonical {oc['rows'][0][:4]}")
        tot = sum(oa["setmap"].values())  # the SLOC column adds up every platform set, the empty one included
        if oa["rows"] and int(oa["rows"][0][1]) != tot:
            bad.append(f"file-tree root SLOC {oa['rows'][0][1]} != setmap total {tot}")
        if bad:
            ctx.violation("; ".join(bad[:3]), case)
        out = {"aliased": {k: oa[k] for k in ("phys", "setmap", "trees", "visited", "dups")},
               "canonical": {k: oc[k] for k in ("phys", "setmap", "trees", "dups")}, "problems": bad}
        # coverage export (CLI): one record per physical file
        if want_cov and plats:
            db = plats[0] + ".json"
            ra, ea = coverage_records(rootA, db)
            rc_, ec = coverage_records(rootC, db)
            ctx.count(key="coverage_cli")
            if ra is None or rc_ is None:
                ctx.violation(f"cbi-cov compute fails: {ea or ec}", case)
            else:
                out["coverage"] = compare_coverage(ctx, case, ra, rc_, rootA, "cbi-cov compute")
        if extras.get("cov_inproc") and plats:
            # the same exporter in this process, on more cases than the CLI budget allows, with the exclude patterns
            db = ctx.rng.choice(plats) if not extras.get("cov_db") else extras["cov_db"]
            extras["cov_db"] = db
            ra, ea = coverage_records_inproc(rootA, db + ".json", alias.get("excludes", ()))
            rc_, ec = coverage_records_inproc(rootC, db + ".json", canon.get("excludes", ()))
            ctx.count(key="coverage_inproc")
            if rc_ is None:
                ctx.notes.append(f"coverage export of the canonical variant fails ({ec}) - comparison dropped")
            elif ra is None:
                ctx.violation(f"the coverage export ({db}.json) of the aliased variant fails ({ea}) although the canonical one is exported", case)
            else:
                if any(os.path.islink(os.path.join(rootA, ln)) and (ln < os.path.relpath(os.path.realpath(os.path.join(rootA, ln)), rootA))
                       and os.path.relpath(os.path.realpath(os.path.join(rootA, ln)), rootA) in oc["phys"] for ln, _ in alias["links"]):
                    ctx.count(key="coverage:member_link_sorts_before_target")
                out["coverage_inproc"] = compare_coverage(ctx, case, ra, rc_, rootA, f"coverage export ({db}.json, _compute in process)")
        # ---- absolute expectation 1: every physical member is counted exactly once (sum of the setmap = lines of the parse
        # trees of the physical members, each taken once)
        if sum(oa["setmap"].values()) != oa["once_total"]:
            ctx.violation(f"setmap total {sum(oa['setmap'].values())} != {oa['once_total']} = counted lines of the physical member files {oa['phys']}, each once", case)
        # ---- absolute expectation 2: full run = union of its compile commands, each analysed alone in a fresh state
        if extras.get("union") and plats:
            exp, ncmd = fresh_union(rootA, plats, alias.get("excludes", ()), [os.path.join(rootA, p) for p in oa["phys"]])
            ctx.count(key="union_oracle_case")
            ctx.dist["union_oracle_single_command_runs"] += ncmd
            ubad = []
            for rel in oa["phys"]:
                got = oa["att"].get(rel)
                if got is not None and exp.get(rel) is not None and got != exp[rel]:
                    lines = sorted(ln for ln in set(got) | set(exp[rel]) if got.get(ln) != exp[rel].get(ln))
                    ubad.append(f"{rel} lines {lines[:8]}: full run {[got.get(l) for l in lines[:4]]}, union of the {ncmd} commands analysed alone {[exp[rel].get(l) for l in lines[:4]]}")
            out["union"] = {"commands": ncmd, "problems": ubad}
            if ubad:
                ctx.violation("attributions made through several compile commands / include directives do not all land on the lines finally "
                              "counted: " + "; ".join(ubad[:2]), case)
        # ---- several directories: CodeBase(d1, d2, ...) in both orders
        if extras.get("multi"):
            plan = multi_root_plan(ctx.rng, canon, alias, extras["multi"] if isinstance(extras["multi"], dict) else None)
            if plan is not None:
                extras["multi"] = plan
                out["multi"] = multi_root_check(ctx, drv, case, canon, alias, rootC, rootA, baseA, plats, plan)
        # model: parse-cache keys and counted files
        if drv is not None:
            entries = fstree.scan(baseA)
            ign = []
            if alias.get("excludes"):
                # the model takes pathspec's verdict per root-relative resolved path as a table (C09 checks that table against git)
                for dp, dns, fns in os.walk(rootA):
                    for nm in fns + dns:
                        rel = os.path.relpath(os.path.join(dp, nm), rootA)
                        v = fstree.pathspec_ignored(list(alias["excludes"]), rel)
                        if v is True:
                            ign.append(rel)
            rep = drv.ask({"op": "codebase", "fs": fstree.fs_description(baseA, entries), "cwd": rootA, "roots": [rootA],
                           "ignored": ign, "catchLoop": False, "fuel": FUEL, "queries": [], "inserts": oa["inserted"]})
            if sorted(rep.get("cache", [])) != oa["trees"]:
                ctx.corr_break("codebase.cache", case, oa["trees"], rep.get("cache"))
            if rep.get("counted") == "loop" or sorted(rep.get("counted", [])) != sorted(oa["visited"]):
                ctx.corr_break("codebase.counted", case, sorted(oa["visited"]), rep.get("counted"))
            if rep.get("iter") == "loop" or sorted(rep.get("iter", [])) != sorted(oa["members"]):
                ctx.corr_break("codebase.iter", case, sorted(oa["members"]), rep.get("iter"))
            out["model"] = {"cache": rep.get("cache"), "counted": rep.get("counted")}
        ctx.sample({"links": alias["links"], "files": sorted(alias["texts"]), "commands": {p: [e["file"] for e in es] for p, es in alias["platforms"].items()}})
        # ---- history: a link is re-pointed and the tree analysed again in this process; the result must be the one a fresh
        # analysis of the same tree gives (here: of a copy of the tree at another path, where no path was ever seen before)
        if str(idx).isdigit() and int(idx) % 3 == 0 or origin == "replay-history":
            hist = repoint_history(ctx, alias, rootA, baseA, plats, case)
            if hist is not None:
                out["history"] = hist
    finally:
        shutil.rmtree(baseC, ignore_errors=True)
        shutil.rmtree(baseA, ignore_errors=True)
    return out


def multi_root_check(ctx, drv, case, canon, alias, rootC, rootA, baseA, plats, plan):
    try:
        return _multi_root_check(ctx, drv, case, canon, alias, rootC, rootA, baseA, plats, plan)
    finally:
        # the extra directory of the `name-prefix-sibling` shape exists during this check only (the observations made
        # before and after it are about the tree as generated)
        if plan.get("prefix_sibling"):
            for root in (rootC, rootA):
                shutil.rmtree(os.path.join(root, plan["prefix_sibling"]), ignore_errors=True)


def _multi_root_check(ctx, drv, case, canon, alias, rootC, rootA, baseA, plats, plan):
    """The code base is `CodeBase(root/d1, root/d2, ...)`.  Canonical variant (no links) once; aliased variant with the
    directories in the planned order and in the reverse order.  Expected: the same physical members, the same per-file
    attribution and setmap as the canonical variant (a link adds nothing, wherever its target lives and whichever
    directory is listed first), and absolutely: every physical member visited / counted exactly once."""
    res = {"plan": plan, "problems": []}
    exC, exA = canon.get("excludes", ()), alias.get("excludes", ())
    extra_files = []
    if plan.get("prefix_sibling"):
        for root in (rootC, rootA):
            os.makedirs(os.path.join(root, plan["prefix_sibling"]), exist_ok=True)
            with open(os.path.join(root, plan["prefix_sibling"], "zz_extra.c"), "w") as f:
                f.write("int extra_a;\nint extra_b;\n")
        extra_files = [plan["prefix_sibling"] + "/zz_extra.c"]
    try:
        oc = observe(rootC, plats, excludes=exC, dirs=canonical_dirs(plan, plan["aliased"]), light=True)
    except Exception as e:  # noqa
        ctx.notes.append(f"multi-directory canonical variant not analysable ({type(e).__name__}: {e}) - dropped")
        return res
    ctx.count(key="multi_root_case")
    ctx.dist[f"multi_root:dirs={len(plan['aliased'])}"] += 1
    # absolute expectation (no exclude patterns): the physical members are the files with a recognised extension below one of the
    # listed directories - by path components, whatever else is listed
    if not exC and plan.get("canon_of") is not None:
        cdirs = canonical_dirs(plan, plan["aliased"])
        want = sorted(f for f in list(canon["texts"]) + extra_files if fstree.suffix_of(os.path.basename(f)) in EXTS
                      and any(c == "." or f.startswith(c + "/") for c in cdirs))
        ctx.count(key="multi_root:members_by_definition")
        if want != oc["phys"]:
            ctx.violation(f"CodeBase of the directories {cdirs} (link-free variant): physical members {oc['phys']}, but the source files below "
                          f"these directories are {want}", case)
    for sh in plan.get("overlap") or ["none"]:
        ctx.dist[f"multi_root:overlap={sh}"] += 1
    # with exclude patterns a file is judged relative to the first listed directory around it: when directories are nested
    # the reverse order is compared with the canonical variant in ITS reverse order and may legitimately differ from the listed order
    order_matters = bool(plan.get("overlap")) and bool(exA)
    # does a member link sit in a directory listed BEFORE the directory of its target (in one of the two orders it does, if
    # the link crosses directories at all)?
    rdirs = [os.path.realpath(os.path.join(rootA, d)) for d in plan["aliased"]]

    def root_of(p):
        for i, r in enumerate(rdirs):
            if p == r or p.startswith(r + "/"):
                return i
        return None

    cross = []
    for ln, tg in alias["links"]:
        full = os.path.join(rootA, ln)
        rp = os.path.realpath(full)
        if os.path.isfile(rp) and os.path.relpath(rp, rootA) in oc["phys"]:
            a_, b_ = root_of(os.path.join(os.path.realpath(os.path.dirname(full)), os.path.basename(full))), root_of(rp)
            if a_ is not None and b_ is not None and a_ != b_:
                cross.append(ln)
    if cross:
        ctx.count(key="multi_root:member_link_in_another_directory_than_its_target")
        ctx.nontrivial.add(case["origin"] + "/multi")
    bad = []
    prev = None
    for tag, order in (("listed order", list(plan["aliased"])), ("reverse order", list(reversed(plan["aliased"])))):
        if tag == "reverse order" and order_matters:
            try:
                oc = observe(rootC, plats, excludes=exC, dirs=canonical_dirs(plan, order), light=True)
            except Exception as e:  # noqa
                ctx.notes.append(f"multi-directory canonical variant (reverse order) not analysable ({type(e).__name__}: {e}) - dropped")
                continue
        try:
            oa = observe(rootA, plats, excludes=exA, dirs=order, light=True)
        except Exception as e:  # noqa
            bad.append(f"[{tag} {order}] aborts with {type(e).__name__}: {e} although the canonical variant is analysed")
            continue
        # physical members that lie below two or more of the listed directories (equal or nested ones)
        several = [p for p in oa["phys"] if sum(1 for r in rdirs if os.path.join(rootA, p).startswith(r.rstrip("/") + "/")) >= 2]
        if several:
            ctx.count(key="multi_root:member_below_several_listed_directories")
            ctx.nontrivial.add(case["origin"] + "/multi-overlap")
        if oa["phys"] != oc["phys"]:
            bad.append(f"[{tag} {order}] physical member files {oa['phys']} vs canonical {oc['phys']}")
        vis = sorted(os.path.relpath(os.path.realpath(v), rootA) for v in oa["visited"])
        if vis != oc["phys"] or any(os.path.islink(v) for v in oa["visited"]):
            miss = sorted(set(oc["phys"]) - set(vis))
            rep = sorted(set(v for v in vis if vis.count(v) > 1))
            bad.append(f"[{tag} {order}] get_setmap does not count each physical member exactly once: never counted {miss}, counted repeatedly {rep}, "
                       f"links counted {[os.path.relpath(v, rootA) for v in oa['visited'] if os.path.islink(v)]}; enumerated: {[os.path.relpath(m, rootA) for m in oa['members']]}")
        if sum(oa["setmap"].values()) != oc["once_total"]:
            bad.append(f"[{tag} {order}] setmap total {sum(oa['setmap'].values())} != {oc['once_total']} = counted lines of the link-free code base, each file once")
        if oa["setmap"] != oc["setmap"]:
            bad.append(f"[{tag} {order}] setmap {oa['setmap']} vs canonical (no links) {oc['setmap']}")
        for rel in sorted(set(oc["att"]) | set(oa["att"])):
            if oc["att"].get(rel) != oa["att"].get(rel):
                bad.append(f"[{tag} {order}] attribution of {rel}: {str(oa['att'].get(rel))[:160]} vs canonical {str(oc['att'].get(rel))[:160]}")
                break
        if prev is not None and prev != oa["setmap"] and not order_matters:
            bad.append(f"the setmap depends on the order in which the directories are listed: {prev} vs {oa['setmap']}")
        prev = oa["setmap"]
        res[tag] = {"members": [os.path.relpath(m, rootA) for m in oa["members"]], "setmap": oa["setmap"], "visited": vis}
        if drv is not None:
            entries = fstree.scan(baseA)
            ign = []
            if exA:
                for r in rdirs:
                    for dp, dns, fns in os.walk(r):
                        for nm in fns + dns:
                            rel = os.path.relpath(os.path.join(dp, nm), r)
                            if fstree.pathspec_ignored(list(exA), rel) is True:
                                ign.append(rel)
            rep_ = drv.ask({"op": "codebase", "fs": fstree.fs_description(baseA, entries), "cwd": rootA, "roots": [os.path.join(rootA, d) for d in order],
                            "ignored": sorted(set(ign)), "catchLoop": False, "fuel": FUEL, "queries": [], "inserts": oa["inserted"]})
            if rep_.get("iter") == "loop" or sorted(rep_.get("iter", [])) != sorted(oa["members"]):
                ctx.corr_break("codebase.iter(multi)", case, sorted(oa["members"]), rep_.get("iter"))
            if rep_.get("counted") == "loop" or sorted(rep_.get("counted", [])) != sorted(oa["visited"]):
                ctx.corr_break("codebase.counted(multi)", case, sorted(oa["visited"]), rep_.get("counted"))
    res["canonical"] = {"phys": oc["phys"], "setmap": oc["setmap"], "once_total": oc["once_total"]}
    res["problems"] = bad
    if bad:
        ctx.violation(f"code base of several directories {plan['aliased']} (canonical: {plan['canonical']}): " + "; ".join(bad[:2]), case)
    return res


def repoint_history(ctx, alias, rootA, baseA, plats, case):
    cands = []
    for ln, tg in alias["links"]:
        full = os.path.join(rootA, ln)
        if not os.path.islink(full) or not os.path.isfile(os.path.realpath(full)):
            continue
        rp = os.path.realpath(full)
        if not rp.startswith(rootA + "/"):
            continue
        others = [f for f in alias["texts"] if os.path.dirname(f) == os.path.dirname(os.path.relpath(rp, rootA))
                  and os.path.join(rootA, f) != rp and fstree.suffix_of(os.path.basename(f)) == fstree.suffix_of(os.path.basename(rp))]
        if others:
            cands.append((ln, os.path.relpath(rp, rootA), sorted(others)))
    if not cands:
        return None
    forced = case.get("history") if isinstance(case.get("history"), dict) else None
    if forced and any(c[0] == forced["link"] for c in cands):
        ln, old_t, others = next(c for c in cands if c[0] == forced["link"])
        new_t = forced["new"] if forced["new"] in others else others[0]
    else:
        ln, old_t, others = ctx.rng.choice(cands)
        new_t = ctx.rng.choice(others)
    full = os.path.join(rootA, ln)
    os.unlink(full)
    os.symlink(os.path.relpath(os.path.join(rootA, new_t), os.path.dirname(full)), full)
    ctx.count(key="history:link-repointed")
    baseB = baseA + "_copy"
    try:
        shutil.copytree(baseA, baseB, symlinks=True)
        rootB = os.path.join(baseB, "cb")
        # the compilation databases name absolute paths: rewrite them for the copy
        for f in os.listdir(rootB):
            if f.endswith(".json"):
                p = os.path.join(rootB, f)
                t = open(p).read()
                open(p, "w").write(t.replace(rootA, rootB))
        try:
            ob = observe(rootA, plats, excludes=alias.get("excludes", ()))
            oc2 = observe(rootB, plats, excludes=alias.get("excludes", ()))
        except Exception as e:  # noqa
            ctx.notes.append(f"history step not analysable: {type(e).__name__}: {e}")
            return None
        bad = []
        if ob["phys"] != oc2["phys"]:
            bad.append(f"physical member files {ob['phys']} vs {oc2['phys']}")
        for rel in sorted(set(ob["att"]) | set(oc2["att"])):
            if ob["att"].get(rel) != oc2["att"].get(rel):
                bad.append(f"attribution of {rel}: {str(ob['att'].get(rel))[:160]} vs {str(oc2['att'].get(rel))[:160]}")
                break
        if ob["setmap"] != oc2["setmap"]:
            bad.append(f"setmap {ob['setmap']} vs {oc2['setmap']}")
        tb = sorted(os.path.relpath(k, rootA) for k in ob["trees"])
        tc = sorted(os.path.relpath(k, rootB) for k in oc2["trees"])
        if tb != tc:
            bad.append(f"parsed files {tb} vs {tc}")
        if bad:
            ctx.violation(f"after re-pointing the link {ln} from {old_t} to {new_t} the analysis repeated in the same process differs from the "
                          f"analysis of an identical copy of the tree at another path (in process vs copy): " + "; ".join(bad[:2]),
                          dict(case, history={"link": ln, "old": old_t, "new": new_t}))
        return {"link": ln, "old": old_t, "new": new_t, "problems": bad}
    finally:
        shutil.rmtree(baseB, ignore_errors=True)


EXTS: list = []


def run(ctx, drv):
    core.import_codebasin()
    from codebasin.language import FileLanguage

    EXTS[:] = sorted(set(e for l in FileLanguage._language_extensions.values() for e in l))
    ctx.rule = ("case = random multi-platform code base (harness/gen/codebase.py with a file link and a directory link) decorated with "
                "further file links, directory links (top-level, nested, to a directory outside), a header outside the code base, "
                "`./` and `x/../` segments, link chains (link -> link -> file), the outside directory a sibling whose name shares a prefix with the root, "
                "in half of the cases exclude patterns (a vendored directory, alias names) with innocent-named links to excluded files; "
                "compile commands, -I options and #include directives spelled through aliases; compared with "
                "the canonical variant (no links, canonical spellings). Non-trivial = distinct case with at least one link in which a "
                "command or an #include actually goes through an alias.  Every third case continues with a history step: a file link is re-pointed "
                "to another file and the analysis repeated in the same process must equal the analysis of a copy of the tree at another path.  "
                "Cross-directory file links (`0compat/x.c -> ../src/x.c`, a link-only directory that sorts before every real one; links under the "
                "target's own base name in other directories).  Coverage export (CLI on the first cases, the exporter in process on every sixth): the "
                "records of the aliased code base must be those of the canonical one BY NAME and by used / unused lines.  Absolute expectations: "
                "(1) every case: setmap total = counted lines of the physical members, each once; (2) every fifth case with a top-level "
                "directory: CodeBase(d1, d2, ...) in a random order and in the reverse order (directories spelled through top-level links or `./`; "
                "in most plans OVERLAPPING: a directory listed again, listed under its name and through a symbolic link to it, together with a "
                "sub-directory - named or linked - before or after it, together with the root of the tree), "
                "each physical member counted exactly once, same setmap / attribution as the link-free variant, independent of the order; "
                "(3) union oracle (every twelfth case and every mixed-language case): per-line attribution of the full run = union over all compile "
                "commands of that command analysed alone in a fresh state.  Mixed-language stream: Fortran free-form and C / C++ units include the "
                "same headers, 2-3 platforms in split / both / random layouts, decorated with the same aliases.")
    ctx.assumptions += [
        "a file that contains #include \"...\" lines is referred to (compile command, #include) only through links that sit in the directory "
        "of their target or through directory links, so that the directory an #include is resolved against is the same for every alias (which "
        "directory a preprocessor uses for a file reached through a link is C04's question); links in OTHER directories exist for every kind "
        "of file and are enumerated, and files without such lines are also referred to through them",
        "multi-directory code bases: with exclude patterns a file is judged relative to the FIRST listed directory around it, so with nested "
        "directories and exclude patterns the two orders are each compared with the canonical variant in the same order, not with one another "
        "(the listed directories themselves may be equal, linked or nested: F-C15-ROOTS = F-C09-NEST is repaired and `counted_once` has no "
        "hypothesis on the list any more)",
        "the shared headers of the mixed-language stream hold text that reads the same under the C and the Fortran line source (no comments, quotes, continuations)",
        "`x/../` segments go through real directories only (the lexical reading of `..` behind a directory link is C13's question)",
        "file systems contain regular files, directories and symbolic links only",
    ]
    with core.Scratch() as d:
        scr = os.path.realpath(str(d))
        k = 0
        for f in sorted((core.VERIF / "corpus" / "C15").glob("*.json")):
            c = json.loads(f.read_text())
            check_case(ctx, drv, scr, f"k{k}", c["canonical"], c["aliased"], "corpus:" + f.name, want_cov=True)
            k += 1
        n = ctx.n(180, 1800)
        ncov = ctx.n(6, 40)
        for i in range(n):
            if len(ctx.violations) >= 20:
                break
            gen_root = os.path.join(scr, "gen")
            desc = cbgen.gen_codebase(ctx.rng, gen_root, nplat=ctx.rng.randint(1, 3), dup_pool=(ctx.rng.random() < 0.4),
                                      symlinks=True, dirsyms=True, write=False)
            canon = normalise(ctx.rng, desc)
            alias = decorate(ctx.rng, canon)
            canon = dict(canon, links=[])
            check_case(ctx, drv, scr, i, canon, alias, f"gen#{i}", want_cov=(i < ncov),
                       extras={"cov_inproc": i % 6 == 1, "multi": i % 5 == 2, "union": i % 12 == 4})
        # mixed-language stream: Fortran and C / C++ units share headers, platforms alternate between the two families
        for i in range(ctx.n(20, 240)):
            if len(ctx.violations) >= 20:
                break
            desc = gen_mixed(ctx.rng)
            canon = normalise(ctx.rng, desc)
            alias = decorate(ctx.rng, canon)
            canon = dict(canon, links=[])
            ctx.count(key=f"mixed:{desc['layout']}")
            check_case(ctx, drv, scr, f"m{i}", canon, alias, f"mixed#{i}", want_cov=(i == 0),
                       extras={"union": True, "cov_inproc": i % 4 == 1, "multi": i % 3 == 2})


def search(ctx, drv):
    run(ctx, drv)


def replay(ctx, drv, case):
    core.import_codebasin()
    from codebasin.language import FileLanguage

    EXTS[:] = sorted(set(e for l in FileLanguage._language_extensions.values() for e in l))
    with core.Scratch() as d:
        scr = os.path.realpath(str(d))
        if "history" in case:
            case["canonical"] = dict(case["canonical"], _history=case["history"])
        res = check_case(ctx, drv, scr, "r", case["canonical"], case["aliased"], "replay-history" if "history" in case else "replay",
                         want_cov=("coverage_files" in case and "in process" not in case.get("coverage_how", "")), extras=case.get("extras"))
        res["violations"] = [w for w, _ in ctx.violations]
        res["known_findings"] = sorted(ctx.known_seen)
        return json.loads(json.dumps(res, default=str).replace(scr, "$SCRATCH"))
