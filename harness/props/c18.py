"""C18 — nothing is dropped silently: unhonoured input is always reported.

Implementation: config.load_database + finder.find in-process with a handler on the `codebasin` logger (and a real
                WarningAggregator attached to it), and the command line `codebasin -R summary analysis.toml`
                (closing meta-warning lines on stdout + cbi.log).
Model (Lean):   CbiVerif.Inc.find (`findinc`: include warnings, visits, unknown-directive warnings),
                CbiVerif.Warn (`dbevents`, `warnrender`, `warncount`: the aggregator with the regenerated regexes).
Spec oracle:    the multiset of events computed from the generator's description by an independent reference
                preprocessor (includes), from the file texts (directives) and from the entry descriptions (database).
"""
from __future__ import annotations

import collections
import json
import time
import logging
import os
import re

from harness import core
from harness.gen import codebase as CB
from harness.gen import inctree as IT
from harness.gen import warnbase as WB

PHRASES = ("user include", "system include")


class Cap(logging.Handler):
    def __init__(self):
        super().__init__(level=logging.DEBUG)
        self.recs = []

    def emit(self, r):
        self.recs.append((r.levelname, r.getMessage()))


def observe(root, platforms):
    """run the analysis in-process; returns dict(records [(level,msg)], closing [msg], counts [n,n,n], real {..})"""
    from codebasin import config
    from codebasin._detail.logging import WarningAggregator

    lg = logging.getLogger("codebasin")
    old = lg.level
    cap = Cap()
    agg = WarningAggregator()
    cap.addFilter(agg)
    lg.addHandler(cap)
    lg.setLevel(logging.DEBUG)
    out = {}
    try:
        dbs = {p: os.path.join(str(root), f"{p}.json") for p in platforms}
        real = IT.run_real(root, dbs)
        out["real"] = real
        n = len(cap.recs)
        out["records"] = list(cap.recs)
        out["counts"] = [mw._count for mw in agg.meta_warnings]
        agg.warn(lg)
        out["closing"] = [m for _, m in cap.recs[n:]]
    finally:
        lg.removeHandler(cap)
        lg.setLevel(old)
    return out


def d30_case(case):
    """narrow classifier of D30: some path, header name or directive text of the code base contains one of the
    category phrases the aggregator searches for"""
    desc = case["desc"]
    texts = list(desc["texts"]) + [l for b in desc["texts"].values() for l in b if l.lstrip().startswith("#")]
    texts.append(case.get("root_name", ""))
    return any(ph in t for ph in PHRASES for t in texts)


CLASSIFIERS = [("D30", d30_case)]


def tally(events):
    """(total, user, system) of a Counter of event keys"""
    return [sum(events.values()), sum(n for k, n in events.items() if k[0] == "user"), sum(n for k, n in events.items() if k[0] == "system")]


def parse_totals(text):
    out = [0, 0, 0]
    for i, pat in enumerate((r"(\d+) warnings generated during preprocessing", r"(\d+) user include files could not be found",
                             r"(\d+) system include files could not be found")):
        m = re.search(pat, text)
        if m:
            out[i] = int(m.group(1))
    return out


def check_codebase(ctx, drv, desc, root, origin, cli, extra_expected=None):
    case = {"desc": desc, "origin": origin, "root_name": os.path.basename(str(root))}
    out = {"origin": origin}
    want = WB.expected(desc, root)
    if extra_expected:
        want.update(extra_expected)
    obs = observe(root, list(desc["platforms"]))
    real = obs["real"]
    if "exc" in real:
        out["implementation"] = real["exc"]
        ctx.classify(case, f"analysis raises {real['exc']}", CLASSIFIERS)
        return out
    got = collections.Counter()
    details = {}
    unknown_msgs = []
    warn_records = [(l, m) for l, m in obs["records"] if l == "WARNING"]
    for _, msg in warn_records:
        c = WB.classify_message(msg)
        if c is None:
            unknown_msgs.append(msg)
        else:
            got[c[0]] += 1
            details[c[0]] = c[1]
    out["implementation"] = {"events": sorted(map(str, got.elements())), "closing_counts": obs["counts"]}
    out["expected"] = sorted(map(str, want.elements()))
    kinds = collections.Counter(k[0] for k in want.elements())
    ctx.count(key="platforms=%d" % len(desc["platforms"]))
    for k, n in kinds.items():
        ctx.dist["expected_" + k] += n
    ctx.dist["expected_forced_missing"] += sum(n for k, n in want.items() if k[0] == "user" and k[2] == 0)
    ctx.dist["quiet_codebases"] += 1 if not want else 0
    if sum(1 for k in kinds if kinds[k]) >= 2 and (kinds["user"] or kinds["system"]):
        ctx.nontrivial.add(json.dumps([desc["texts"], desc["platforms"]], sort_keys=True))
    ctx.sample({"files": sorted(desc["texts"]), "expected": sorted(map(str, want.elements()))[:12]}, cap=4)
    # ---- (1) one warning per occurrence, naming file / line / name / form   (implementation vs spec)
    if got != want:
        miss = want - got
        extra = got - want
        ctx.classify(case, f"warnings issued differ from the unhonoured input: not reported {sorted(map(str, miss.elements()))[:4]}, "
                           f"reported without cause or twice {sorted(map(str, extra.elements()))[:4]}", CLASSIFIERS)
    if unknown_msgs:
        ctx.classify(case, f"warning of no known kind although the generator produced nothing else: {unknown_msgs[0][:160]!r}", CLASSIFIERS)
    for key, d in details.items():
        if key[0] in ("user", "system"):
            delim_ok = d["delim"] in ('"', "<") and (d["delim"] == '"') == (key[0] == "user") or not d["spelling"].split("include")[-1].strip()[:1] in '"<'
            if d["line2"] != key[2] or not delim_ok:
                ctx.classify(case, f"include warning {key} does not name line/form consistently: {d}", CLASSIFIERS)
    # ---- (2) totals of the aggregator = numbers of warnings issued per category
    spec_tot = tally(got)
    if obs["counts"] != spec_tot:
        ctx.classify(case, f"aggregator counters {obs['counts']} != warnings issued (total, user include, system include) {spec_tot}", CLASSIFIERS)
    closing_tot = parse_totals("\n".join(obs["closing"]))
    if closing_tot != spec_tot:
        ctx.classify(case, f"closing meta-warnings print {closing_tot}, warnings issued {spec_tot}", CLASSIFIERS)
    if not want and (warn_records or obs["closing"]):
        ctx.classify(case, f"fully honoured input produced warnings: {[m for _, m in warn_records][:2]} {obs['closing'][:1]}", CLASSIFIERS)
    # ---- (3) correspondence with the Lean model
    if drv is not None:
        m = drv.ask(IT.model_request(root, real))
        if "ok" not in m:
            ctx.corr_break("findinc", case, "ok", m)
        else:
            mg = collections.Counter()
            for form, f, ln, name, _ in m["warns"]:
                mg[(form, f, ln, name)] += 1
            for f, ln, name, sp in m["dwarns"]:
                mg[("directive", f, ln, name)] += 1
            ig = collections.Counter({k: n for k, n in got.items() if k[0] in ("user", "system", "directive")})
            if mg != ig:
                ctx.corr_break("findinc.warnings", case, sorted(map(str, (ig - mg).elements()))[:5], sorted(map(str, (mg - ig).elements()))[:5])
            out["model"] = sorted(map(str, mg.elements()))
            # theorem one_warning_per_unresolved_visit on the model's own run
            unresolved = collections.Counter((form, f, ln, name) for form, f, ln, name, spec in m["visits"] if spec is None)
            if unresolved != collections.Counter({k: n for k, n in mg.items() if k[0] != "directive"}):
                ctx.corr_break("findinc: warnings != unresolved visits (contradicts the theorem)", case, "theorem", str(unresolved)[:300])
            # the include directives the real code evaluated = the model's visits
            if [[f, ln] for _, f, ln in real["visits"]] != [[f, ln] for _, f, ln, _, _ in m["visits"] if ln != 0]:
                ctx.corr_break("findinc.visits", case, real["visits"][:8], m["visits"][:8])
        # database events
        for pname, ents in desc["platforms"].items():
            req = {"op": "dbevents", "dbpath": os.path.join(str(root), f"{pname}.json"), "entries": [
                {"path": os.path.normpath(os.path.join(str(root), e.get("builddir", ""), e["file"])), "supported": True, "exists": not mt["missing"],
                 "compiler": mt["compiler"], "known": mt["known"], "unrecognised": mt["unrecognised"]}
                for e, mt in zip(ents, desc["dbmeta"][pname])]}
            r = drv.ask(req)
            for msg in r["messages"]:
                if not any(mm == msg for _, mm in warn_records):
                    ctx.corr_break("dbevents", case, [mm for _, mm in warn_records if "include" not in mm and "directive" not in mm][:6], r["messages"])
                    break
        # rendering of the source-level events and the aggregator on the very records observed
        evs = []
        for key in got:
            if key[0] in ("user", "system"):
                evs.append({"kind": key[0], "file": key[1], "line": key[2], "name": key[3], "spelling": details[key]["spelling"]})
            elif key[0] == "directive":
                evs.append({"kind": "directive", "file": key[1], "line": key[2], "col": details[key]["col"], "name": key[3],
                            "spelling": details[key]["spelling"]})
        if evs:
            r = drv.ask({"op": "warnrender", "events": evs})
            msgs = {mm for _, mm in warn_records}
            bad = [x for x in r["messages"] if x not in msgs and "'" not in x.split("directive", 1)[-1][4:-3]]
            if bad:
                ctx.corr_break("warnrender", case, sorted(msgs)[:3], bad[:3])
        r = drv.ask({"op": "warncount", "records": [[l, mm] for l, mm in obs["records"]]})
        if r["counts"] != obs["counts"] or r["closing"] != obs["closing"]:
            ctx.corr_break("warncount", case, {"counts": obs["counts"], "closing": obs["closing"]}, r)
        out["model_aggregator"] = r["counts"]
    # ---- (4) the command line: closing lines and cbi.log
    # the totals do not depend on how much of the log is echoed to the terminal (-v, -v -v, --debug)
    for vflags in ([[]] + [ctx.rng.choice([["-v"], ["-v", "-v"], ["--debug"], ["-v", "--debug"]])] if cli else []):
        rc, so, se = core.run_cli("codebasin", vflags + ["-R", "summary", "analysis.toml"], cwd=root)
        ctx.dist["cli_runs" + ("" if not vflags else ":verbose")] += 1
        case = dict(case, cli_flags=vflags) if vflags else case
        log = ""
        lp = os.path.join(str(root), "cbi.log")
        if os.path.exists(lp):
            with open(lp) as fh:
                log = fh.read()
        if rc != 0:
            ctx.classify(case, f"codebasin exits {rc}: {(so + se)[-200:]}", CLASSIFIERS)
        else:
            cli_tot = parse_totals(so)
            nlog = len(re.findall(r"^warning: ", log, re.M)) - sum(1 for x in cli_tot if x)
            out["cli_totals"], out["cli_log_warnings"] = cli_tot, nlog
            want_tot = tally(want)
            if cli_tot != want_tot:
                ctx.classify(case, f"command line prints totals {cli_tot} (all, user include, system include); unhonoured input per category {want_tot}", CLASSIFIERS)
            if nlog != want_tot[0]:
                ctx.classify(case, f"cbi.log holds {nlog} warnings, {want_tot[0]} expected", CLASSIFIERS)
            for key in want:
                if key[0] in ("user", "system") and f"{key[1]}:{key[2]}: {key[0]} include '{key[3]}' not found" not in log:
                    ctx.classify(case, f"cbi.log lacks the warning for {key}", CLASSIFIERS)
                    break
    return out


def gen_and_check(ctx, drv, i, cli, quiet=False):
    with core.Scratch() as d:
        root = os.path.realpath(str(d))
        desc = WB.gen(ctx.rng, root, dangling=not quiet, unknown=not quiet, db_events=not quiet)
        return check_codebase(ctx, drv, desc, root, f"{'quiet' if quiet else 'random'}:{i}", cli)


def fixed_desc(texts, platforms, dbmeta=None):
    d = dict(texts=texts, headers=[], sources=[], dirs=[""], platforms=platforms, dangling=[], unknown=[], links=[])
    d["dbmeta"] = dbmeta or {p: [{"missing": False, "compiler": "gcc", "known": True, "unrecognised": []} for _ in es] for p, es in platforms.items()}
    return d


def memo_stream(ctx, drv):
    """the same missing header requested repeatedly and in both forms: every visit warns (memoised failure),
    and a resolvable quote include after a failed angle include of the same name does not warn"""
    texts = {
        "src/a.c": ["#include <y.h>", '#include "y.h"', "#include <y.h>", '#include "gone.h"', '#include "gone.h"', '#include "h.h"', '#include "h.h"', "int a;"],
        "src/y.h": ["int y;"],
        "src/h.h": ['#include "gone.h"', "#include <gone.h>", "int h;"],
        "src/b.c": ['#include "h.h"', "#line 7", "#warning w", "#error e", "#ident \"v\"", "int b;"],
    }
    plats = {"cpu": [{"file": "src/a.c", "directory": ".", "arguments": ["gcc", "-c", "src/a.c"]},
                     {"file": "src/b.c", "directory": ".", "arguments": ["gcc", "-c", "src/b.c"]}],
             "gpu": [{"file": "src/a.c", "directory": ".", "arguments": ["clang", "-DG", "-c", "src/a.c"]}]}
    desc = fixed_desc(texts, plats)
    with core.Scratch() as d:
        root = os.path.realpath(str(d))
        CB.write_codebase(root, desc)
        check_codebase(ctx, drv, desc, root, "memo-stream", cli=True)


def d30_stream(ctx, drv):
    """separate stream: a path containing a category phrase (re-confirms D30)"""
    for name, inc in (("system include", '#include "nope.h"'), ("user include", "#include <nope.h>")):
        texts = {f"{name}/a.c": [inc, "int a;"]}
        plats = {"cpu": [{"file": f"{name}/a.c", "directory": ".", "arguments": ["gcc", "-c", f"{name}/a.c"]}]}
        desc = fixed_desc(texts, plats)
        with core.Scratch() as d:
            root = os.path.realpath(str(d))
            CB.write_codebase(root, desc)
            check_codebase(ctx, drv, desc, root, "d30:" + name, cli=True)


def forced_stream(ctx, drv):
    """-include naming a file that cannot be found: one user-include warning, line 0; a once-header forced twice and a
    missing name forced twice (one warning per occurrence)"""
    texts = {"src/a.c": ["int a;", '#include "once.h"'], "src/once.h": ["#pragma once", '#include "gone.h"', "int o;"]}
    plats = {"cpu": [{"file": "src/a.c", "directory": ".", "arguments": ["gcc", "-include", "nothere.h", "-include", "once.h", "-include", "once.h",
                                                                        "-include", "nothere.h", "-c", "src/a.c"]}],
             "gpu": [{"file": "src/a.c", "directory": ".", "arguments": ["clang", "-include", "nothere.h", "-c", "src/a.c"]}]}
    desc = fixed_desc(texts, plats)
    with core.Scratch() as d:
        root = os.path.realpath(str(d))
        CB.write_codebase(root, desc)
        check_codebase(ctx, drv, desc, root, "forced-missing", cli=True)


def run(ctx, drv, cap=None):
    core.import_codebasin()
    t_run = time.time()
    limit = cap if cap is not None else (520 if ctx.thorough() else 65)
    ctx.rule = ("inputs = generated code bases (shared generator, 1-3 platforms, 1-4 translation units each, headers included "
                "several times) with a known set of dangling quote/angle includes in reached and unreached branches, unknown "
                "directives mixed with #line/#warning/#error, database entries for missing files, unknown compilers and unknown "
                "options, computed dangling includes (the form is known only after expansion), build-directory entries whose file is missing there "
                "although a file of the same relative path exists under the root; plus fully honoured code bases; the command line is also run "
                "with -v / -v -v / --debug (the totals must not change). Non-trivial = distinct code base whose expected events span at least two "
                "categories including an unresolved include.")
    ctx.assumptions += [
        "expected include events come from an independent reference preprocessor; for a macro redefined with a different body "
        "(ill-formed C) it keeps the first definition, as the implementation does",
        "generated directives carry no trailing tokens (the separate 'Additional tokens at end of directive' warning is not part of C18)",
        "only single-pass compilers (gcc/clang families) are generated: one configuration, hence one set of warnings, per command",
        "the column in 'unrecognized directive' warnings and Python's list repr quoting are not modelled (compared where they are unambiguous)",
        "generated names contain no category phrase ('user include', 'system include'); such names are the separate D30 stream",
    ]
    for f in sorted((core.VERIF / "corpus" / "C18").glob("*.json")):
        c = json.loads(f.read_text())
        with core.Scratch() as d:
            root = os.path.realpath(str(d))
            CB.write_codebase(root, c["desc"])
            check_codebase(ctx, drv, c["desc"], root, "corpus:" + f.name, cli=True)
    memo_stream(ctx, drv)
    forced_stream(ctx, drv)
    n = ctx.n(260, 1200)
    ncli = min(ctx.n(22, 120), 120)
    for i in range(n):
        if time.time() - t_run > limit:
            ctx.notes.append(f"time budget reached after {i} code bases")
            break
        gen_and_check(ctx, drv, i, cli=(i % max(1, n // ncli) == 0), quiet=(i % 9 == 8))
    d30_stream(ctx, drv)


def search(ctx, drv):
    # failing-input search: same generators, 8x budget, hard wall-clock cap
    run(ctx, drv, cap=130)


def replay(ctx, drv, case):
    core.import_codebasin()
    c2 = core.Ctx(ctx.prop, "thorough", 0)
    with core.Scratch() as d:
        root = os.path.realpath(str(d))
        if case.get("root_name", "").find("include") >= 0:
            root = os.path.join(root, case["root_name"])
            os.makedirs(root)
        CB.write_codebase(root, case["desc"])
        out = check_codebase(c2, drv, case["desc"], root, "replay", cli=True)
    out["violations"] = [w for w, _ in c2.violations]
    out["known_findings"] = sorted(c2.known_seen)
    out["correspondence_breaks"] = c2.corr_breaks[:2]
    return out
