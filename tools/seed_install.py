#!/venv/bin/python
"""seed_install.py <PID> <mk> : verify /tmp/mut_out/<PID>/<mk> in a scratch worktree and install it as
/verif/seeded/<PID>-<mk>/ (patch.diff, demo.py, notes.md, meta.json)."""
import json, shutil, subprocess, sys
from pathlib import Path
pid, mk = sys.argv[1], sys.argv[2]
srcroot = sys.argv[3] if len(sys.argv) > 3 else "/tmp/mut_out"
name = sys.argv[4] if len(sys.argv) > 4 else mk
src = Path(f"{srcroot}/{pid}/{mk}")
r = subprocess.run(["/verif/tools/seed_verify.sh", str(src)], capture_output=True, text=True)
line = [l for l in r.stdout.splitlines() if l.startswith("{")][-1]
res = json.loads(line)
ok = res.get("applies") and "145 passed" in res["tests_with_change"] and res["demo_exit_unchanged"] == 0 and res["demo_exit_with_change"] != 0
print(pid, mk, "OK" if ok else "REJECTED", res)
if not ok:
    sys.exit(1)
dst = Path(f"/verif/seeded/{pid}-{name}")
dst.mkdir(parents=True, exist_ok=True)
for f in ("patch.diff", "demo.py", "notes.md"):
    if (src / f).exists():
        shutil.copy2(src / f, dst / f)
notes = (src / "notes.md").read_text() if (src / "notes.md").exists() else ""
meta = {
    "property": pid,
    "origin": "independent sub-agent given only the property text and a scratch worktree",
    "needs_to_manifest": "see notes.md",
    "confirmed": {
        "how": "tools/seed_verify.sh in a scratch worktree of /repo HEAD",
        "tests_with_change": res["tests_with_change"],
        "demo_exit_unchanged": res["demo_exit_unchanged"],
        "demo_exit_with_change": res["demo_exit_with_change"],
    },
    "checks_run": [],
}
(dst / "meta.json").write_text(json.dumps(meta, indent=1))
