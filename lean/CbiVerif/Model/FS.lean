import CbiVerif.Model.Path
/-! # File-system model (C09, C15)

A file system is a finite map from *physical* paths (component lists below `/`) to what is
stored there: a regular file, a directory or a symbolic link with its target text.  `/` itself
is always a directory.  Two walks over it:

* `namei`    — what the operating system does for `stat(2)` (the reference: "the file a path names");
* `realpath` — what `os.path.realpath(strict=False)` / `Path.resolve()` do: the same walk, but a
  component that does not exist (or lies below a non-directory) is kept lexically instead of failing.

Both are fuelled, one unit per step; running out of fuel is the symbolic-link loop outcome
(`ELOOP`; `Path.resolve()` raises `RuntimeError`).  Core Lean only. -/
namespace CbiVerif.FS
open CbiVerif.Path

inductive Entry
  | file
  | dir
  | link (t : P)
deriving Repr, DecidableEq

abbrev FS := List (Comps × Entry)

def keys (fs : FS) : List Comps := fs.map (·.1)

/-- `lstat`: what is stored at a physical path (no link is followed) -/
def lstat (fs : FS) (p : Comps) : Option Entry := if p = [] then some .dir else fs.lookup p

inductive Res
  | ok (p : Comps)
  | enoent
  | enotdir
  | loop
deriving Repr, DecidableEq

/-- where the walk of a spelled path starts -/
def start (cwd : Comps) (p : P) : Comps := if p.abs then [] else cwd

/-- POSIX path resolution following every symbolic link (`stat`).  `cur` is the directory reached so far. -/
def namei (fs : FS) : Nat → Comps → Comps → Res
  | 0, _, _ => .loop
  | _ + 1, cur, [] => .ok cur
  | n + 1, cur, nm :: rest =>
    if nm = ".." then namei fs n cur.dropLast rest
    else match lstat fs (cur ++ [nm]) with
      | none => .enoent
      | some .file => if rest = [] then namei fs n (cur ++ [nm]) [] else .enotdir
      | some .dir => namei fs n (cur ++ [nm]) rest
      | some (.link t) => namei fs n (start cur t) (t.comps ++ rest)

/-- `os.path.realpath(strict=False)`: never fails on a missing component -/
def realpath (fs : FS) : Nat → Comps → Comps → Res
  | 0, _, _ => .loop
  | _ + 1, cur, [] => .ok cur
  | n + 1, cur, nm :: rest =>
    if nm = ".." then realpath fs n cur.dropLast rest
    else match lstat fs (cur ++ [nm]) with
      | some (.link t) => realpath fs n (start cur t) (t.comps ++ rest)
      | _ => realpath fs n (cur ++ [nm]) rest

/-- `os.stat` of an absolute path -/
def stat (fs : FS) (n : Nat) (p : Comps) : Option Entry :=
  match namei fs n [] p with
  | .ok c => lstat fs c
  | _ => none

/-- every successive prefix `pre ++ [x₁]`, `pre ++ [x₁, x₂]`, … satisfies `ok`, and no component is `..` -/
def allFrom (fs : FS) (ok : Option Entry → Bool) : Comps → Comps → Bool
  | _, [] => true
  | pre, nm :: rest => nm != ".." && ok (lstat fs (pre ++ [nm])) && allFrom fs ok (pre ++ [nm]) rest

def isDirE : Option Entry → Bool
  | some .dir => true
  | _ => false

def notLinkE : Option Entry → Bool
  | some (.link _) => false
  | _ => true

def isFileE : Option Entry → Bool
  | some .file => true
  | _ => false

def isLinkE : Option Entry → Bool
  | some (.link _) => true
  | _ => false

/-- a physical directory path: every prefix is a real directory -/
def dirPath (fs : FS) (c : Comps) : Bool := allFrom fs isDirE [] c

/-- a path without `..` none of whose prefixes is a symbolic link (what `realpath` returns) -/
def linkFree (fs : FS) (c : Comps) : Bool := allFrom fs notLinkE [] c

/-- a canonical path of an existing object: real directories down to a directory or a regular file -/
def canon (fs : FS) (c : Comps) : Bool :=
  dirPath fs c.dropLast && (c == [] || (name c != ".." && (isDirE (lstat fs c) || isFileE (lstat fs c))))

/-- well-formed file system: one entry per path, no `..` names, the parent of every entry is a directory -/
def wf (fs : FS) : Bool :=
  decide (keys fs).Nodup &&
  fs.all (fun e => e.1 != [] && !e.1.contains ".." && isDirE (lstat fs e.1.dropLast))

end CbiVerif.FS
