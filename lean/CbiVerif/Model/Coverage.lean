import CbiVerif.Model.Setmap
/-!
C06 — model of `codebasin/coverage/__main__.py:_compute`: for every code-base file that is not a
symbolic link (an enumerated link always resolves to a member, which gets its own record; links are
skipped like in `get_setmap`, `FileTree` and `find_duplicates`) the counted lines of its nodes are split
into `used_lines` (the node is associated with some platform) and `unused_lines`
(`association[node] == frozenset([])`), by `list.extend` in `tree.walk()` order.
The content hash (`hashlib.file_digest(f, "sha512")`) is outside the model; the harness recomputes it.
Core Lean only.
-/
namespace CbiVerif.Cov
open CbiVerif.SM

structure Split where
  used : List Nat
  unused : List Nat
deriving Repr, BEq, DecidableEq

/-- the node loop of `_compute` -/
def split (ns : List NodeRec) : Split :=
  ns.foldl (fun s n => if n.plats.isEmpty then { s with unused := s.unused ++ n.lines }
                       else { s with used := s.used ++ n.lines }) ⟨[], []⟩

/-- one record of the export: (path components, used, unused) -/
def compute (fs : List FileRec) : List (List String × Split) :=
  (fs.filter fun f => !f.link).map fun f => (f.path, split f.nodes)

/-- all counted lines of a file, in node order -/
def fileLines (ns : List NodeRec) : List Nat := ns.flatMap (·.lines)

end CbiVerif.Cov
