import CbiVerif.Model.C06Compose
import CbiVerif.Model.Summary
import CbiVerif.Model.Order
/-!
C14 about SOURCE TEXT — the order-insensitive READINGS of the composed pipeline `C06C.analyse` (`Model/C06Compose.lean`).

`C06C.analyse files plats` takes three lists whose order the real code does not choose itself: the files of the code base
(`set(codebase)`: string-hash order; `rglob`: directory enumeration order), the `[platform.*]` tables of the analysis file,
and the entries of every compilation database.  Its value is a LIST of records in file order whose platform sets are LISTS in
platform-table order — that representation is *not* order independent, and is not what the property lists.  The readings the
property lists are defined here, on top of the unchanged definitions of C06:

* `printed` — what `report.summary` prints of a row: the name `"{" + ", ".join(sorted(s)) + "}"`, the count, the percentage
  (`Summary.Row.key`, the platform set as a list, is not printed);
* `covExport` — the records of `coverage.json`, sorted by file name (`Order.covExport`, the definition `C14.coverage_perm` is about);
* `attrExport` — per file (sorted by name) every counted line with the SORTED list of the platforms that use it;
* `relist` — a platform set listed in another platform-table order (the effect of permuting the tables on the list representation);
* `resultsOfTexts` — all of the above for a code base given as texts; `none` = the analysis raises (WHICH exception surfaces
  first depends on the enumeration order when several inputs are faulty, that it raises does not).

Core Lean only.
-/
namespace CbiVerif.C14C
open CbiVerif.SM CbiVerif.C06C

/-- what `report.summary` prints of its rows: name, count, percentage -/
def printed (rows : Option (List CbiVerif.Summary.Row)) : Option (List (String × Nat × Rat)) :=
  rows.map fun rs => rs.map fun r => (r.name, r.count, r.percent)

/-- the platform set `k` listed in the order `names` of the platform tables -/
def relist (names : List String) (k : Key) : Key := names.filter fun x => k.contains x

def relistNode (names : List String) (n : NodeRec) : NodeRec := { n with plats := relist names n.plats }

def relistRec (names : List String) (r : FileRec) : FileRec := { r with nodes := r.nodes.map (relistNode names) }

/-- the dict `sm` with every key listed in the order `names` (same items, same insertion order) -/
def relistSetmap (names : List String) (sm : Setmap) : Setmap := sm.map fun e => (relist names e.1, e.2)

/-- the file name stored in a coverage record: the path below the root -/
def fileName (p : List String) : String := "/".intercalate p

/-- one record of `coverage.json` (the content hash is outside the model) -/
def covRecord (x : List String × CbiVerif.Cov.Split) : CbiVerif.Order.CovRecord := ⟨fileName x.1, "", x.2.used, x.2.unused⟩

/-- `coverage.json` of an analysis result: one record per file, `for filename in sorted(codebase)` -/
def covExport (fs : List FileRec) : List CbiVerif.Order.CovRecord :=
  CbiVerif.Order.covExport covRecord (CbiVerif.Cov.compute fs)

/-- the per-line attribution of a file with every platform set in its canonical (sorted) form -/
def attrOf (r : FileRec) : List (Nat × List String) :=
  r.nodes.flatMap fun n => n.lines.map fun l => (l, CbiVerif.Summary.sortStrings n.plats)

def attrLe (a b : String × List (Nat × List String)) : Bool := decide (a.1 ≤ b.1)

/-- the per-line attribution of the code base, files sorted by name -/
def attrExport (fs : List FileRec) : List (String × List (Nat × List String)) :=
  (fs.map fun r => (fileName r.path, attrOf r)).mergeSort attrLe

/-- the results the property lists, in the form in which they are compared -/
structure Canon where
  rows : Option (List (String × Nat × Rat))
  total : Nat
  coverage : List CbiVerif.Order.CovRecord
  attribution : List (String × List (Nat × List String))
deriving DecidableEq, Repr

def canonOf (fs : List FileRec) : Canon :=
  ⟨printed (CbiVerif.Summary.rows (getSetmap fs)), CbiVerif.Summary.totalCount (getSetmap fs), covExport fs, attrExport fs⟩

/-- the listed results of the analysis of the texts; `none` = the analysis raises -/
def resultsOfTexts (files : List SrcFile) (plats : List Plat) : Option Canon :=
  match analyse files plats with
  | .ok fs => some (canonOf fs)
  | .error _ => none

end CbiVerif.C14C
