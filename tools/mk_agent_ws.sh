#!/bin/bash
# scratch workspace for a builder: copy of /verif (with build output) + worktree of /repo
set -e
n=$1
rm -rf /tmp/ag_$n; mkdir -p /tmp/ag_$n
cp -r /verif /tmp/ag_$n/verif
rm -rf /tmp/ag_$n/verif/.git
git -C /repo worktree prune
git -C /repo worktree add -q --detach /tmp/ag_$n/repo HEAD
echo "/tmp/ag_$n ready"
