import CbiVerif.Lemmas.WarnMsg
/-! Agreement of the exact message model with the earlier approximate one (`Warn.renderL`) and of the two call sites
of the include warning, **for the message texts as they are now**.  These statements unfold the literal texts, so an
edit of a message text breaks them although it is harmless: they are kept out of the obligations of C18 on purpose
(built with the library root only) and document that the theorems of `Props/C18.lean` about `renderL` speak about the
same texts as `Props/C18Msg.lean`. -/
namespace CbiVerif.WarnMsg
open CbiVerif.Warn CbiVerif.WarnTmpl

/-- the exact rendering agrees with the earlier (approximate) one wherever no Python `repr` is involved -/
theorem renderX_eq_renderL (e : Event) (h : e.kind ≠ .unknownDirective) : renderX e = renderL e := by
  unfold renderX renderL
  cases hk : e.kind <;> simp_all [renderT, template, Gen.tmplInclude, Gen.tmplMissing, Gen.tmplCompiler, Gen.tmplArgs,
    Gen.tmplNofiles, pieceText, argText, padLeft, kindPhrase, includeMsg, includePhrase, padLeft5]

/-- the message of a missing `-include` file is the include message of `forcedEvent` -/
theorem forced_message_is_include_message (src name : String) :
    renderForced (forcedEvent src name) = renderX (forcedEvent src name) := by
  simp [renderForced, renderX, renderT, forcedEvent, template, Gen.tmplForced, Gen.tmplInclude, pieceText, argText,
    padLeft, kindPhrase, Gen.includeKindUser, natL]

/-! the exact text of three messages as the code prints them now -/
example : renderS { kind := .unknownDirective, file := "/r/a.c", line := 4, col := 1, name := "foo", spelling := " #foo \"a'b\"" } =
    "/r/a.c:4:1: unrecognized directive '[' #foo \"a\\'b\"']'" := by decide
example : renderS { kind := .unknownDirective, file := "/r/a.c", line := 5, col := 0, name := "ident", spelling := "#ident 'a'" } =
    "/r/a.c:5:0: unrecognized directive '[\"#ident 'a'\"]'" := by decide
example : renderS { kind := .systemInclude, file := "/r/a.c", line := 12345, name := "y.h", spelling := "#include <y.h>" } =
    "/r/a.c:12345: system include 'y.h' not found\n12345 | #include <y.h>" := by decide

end CbiVerif.WarnMsg
