/-! Prototype: find_duplicates = content-equality classes of size ≥ 2, for any hash and any pop order. -/
namespace CbiVerif.Dups

variable {F C H : Type} [DecidableEq F] [DecidableEq C] [DecidableEq H]

/-- the confirmation loop on one hash bucket. `remaining` is a list; `set.pop()` takes its head
    (any order is a permutation of the list, over which the theorem quantifies). -/
def confirm (content : F → C) : (fuel : Nat) → List F → List (List F)
  | 0, _ => []
  | _+1, [] => []
  | _+1, [_] => []
  | n+1, first :: rest =>
    let matches_ := first :: rest.filter (fun p => content p == content first)
    let remaining := rest.filter (fun p => !(content p == content first))
    if matches_.length > 1 then matches_ :: confirm content n remaining
    else confirm content n remaining

theorem confirm_mem_same (content : F → C) (n : Nat) (fs : List F) :
    ∀ g ∈ confirm content n fs, ∀ a ∈ g, ∀ b ∈ g, content a = content b := by
  induction n generalizing fs with
  | zero => simp [confirm]
  | succ n ih =>
    match fs with
    | [] => simp [confirm]
    | [_] => simp [confirm]
    | first :: second :: rest =>
      intro g hg
      simp only [confirm] at hg
      split at hg
      · rcases List.mem_cons.mp hg with rfl | hg
        · intro a ha b hb
          have h1 : ∀ x ∈ first :: (second :: rest).filter (fun p => content p == content first), content x = content first := by
            intro x hx
            rcases List.mem_cons.mp hx with rfl | hx
            · rfl
            · simpa using (List.mem_filter.mp hx).2
          rw [h1 a ha, h1 b hb]
        · exact ih _ g hg
      · exact ih _ g hg

theorem confirm_size (content : F → C) (n : Nat) (fs : List F) :
    ∀ g ∈ confirm content n fs, 2 ≤ g.length := by
  induction n generalizing fs with
  | zero => simp [confirm]
  | succ n ih =>
    match fs with
    | [] => simp [confirm]
    | [_] => simp [confirm]
    | first :: second :: rest =>
      intro g hg
      simp only [confirm] at hg
      split at hg
      · rename_i hlen
        rcases List.mem_cons.mp hg with rfl | hg
        · exact hlen
        · exact ih _ g hg
      · exact ih _ g hg

/-- completeness: two distinct positions with equal content end up together in some group -/
theorem confirm_complete (content : F → C) (n : Nat) (fs : List F) (hn : fs.length ≤ n)
    (a b : F) (ha : a ∈ fs) (hb : b ∈ fs) (hab : a ≠ b) (hc : content a = content b) :
    ∃ g ∈ confirm content n fs, a ∈ g ∧ b ∈ g := by
  induction n generalizing fs with
  | zero =>
    have : fs = [] := List.length_eq_zero_iff.mp (Nat.le_zero.mp hn)
    simp [this] at ha
  | succ n ih =>
    match fs, hn, ha, hb with
    | [], _, ha, _ => simp at ha
    | [x], _, ha, hb =>
      simp at ha hb; exact absurd (ha.trans hb.symm) hab
    | first :: second :: rest, hn, ha, hb =>
      simp only [confirm]
      by_cases hfa : content a = content first
      · -- both belong to the class of `first`
        have hfb : content b = content first := hc ▸ hfa
        have hmem : ∀ x, x ∈ first :: second :: rest → content x = content first →
            x ∈ first :: (second :: rest).filter (fun p => content p == content first) := by
          intro x hx hcx
          rcases List.mem_cons.mp hx with rfl | hx
          · exact List.mem_cons_self
          · exact List.mem_cons_of_mem _ (List.mem_filter.mpr ⟨hx, by simpa using hcx⟩)
        have hma := hmem a ha hfa
        have hmb := hmem b hb hfb
        have hlen : (first :: (second :: rest).filter (fun p => content p == content first)).length > 1 := by
          -- it contains two distinct elements
          apply Classical.byContradiction
          intro hcon
          have hl : ((second :: rest).filter (fun p => content p == content first)) = [] := by
            have : ((second :: rest).filter (fun p => content p == content first)).length = 0 := by
              simp only [List.length_cons] at hcon; omega
            exact List.length_eq_zero_iff.mp this
          rw [hl] at hma hmb
          simp at hma hmb
          exact hab (hma.trans hmb.symm)
        simp only [hlen, if_true]
        exact ⟨_, List.mem_cons_self, hma, hmb⟩
      · have hfb : content b ≠ content first := fun h => hfa (hc.trans h)
        have hne : ∀ x, x ∈ first :: second :: rest → content x ≠ content first →
            x ∈ (second :: rest).filter (fun p => !(content p == content first)) := by
          intro x hx hcx
          rcases List.mem_cons.mp hx with rfl | hx
          · exact absurd rfl hcx
          · exact List.mem_filter.mpr ⟨hx, by simpa using hcx⟩
        have hlen' : ((second :: rest).filter (fun p => !(content p == content first))).length ≤ n := by
          have := List.length_filter_le (fun p => !(content p == content first)) (second :: rest)
          simp only [List.length_cons] at hn this ⊢; omega
        obtain ⟨g, hg, hag, hbg⟩ := ih _ hlen' (hne a ha hfa) (hne b hb hfb)
        split
        · exact ⟨g, List.mem_cons_of_mem _ hg, hag, hbg⟩
        · exact ⟨g, hg, hag, hbg⟩

end CbiVerif.Dups
