"""C15 — each physical file is parsed and counted once, however it is reached.

Every generated code base is written twice: canonical (no links, every reference spelled canonically) and
aliased (file links, directory links, `./` and `x/../` segments; compile commands, -I options and #include
directives refer to files through aliases).  The real analysis is run on both and compared:
per-physical-file attribution (keyed by realpath), setmap totals, parse cache, duplicates, file tree, coverage.
Model (Lean): CbiVerif.CB.insertFiles / counted / iter over the file-system description of the aliased tree
(driver op "codebase"); the spellings handed to insert_file and the files visited by get_setmap are recorded
from the real run.
"""
from __future__ import annotations

import copy
import io
import json
import os
import re
import shutil
from pathlib import Path

from harness import core
from harness.gen import codebase as cbgen
from harness.gen import fstree

FUEL = 3000
INC_RE = re.compile(r'^#include "([^"]+)"$')


# --------------------------------------------------------------------------
# the two variants
# --------------------------------------------------------------------------
def normalise(rng, desc):
    """Changes applied to BOTH variants: some includes become -I relative (bare names), every command gets
    -I for every header directory, one header outside the code base is included by a source."""
    d = copy.deepcopy(desc)
    if d["sources"] and rng.random() < 0.6:
        # a `#pragma once` header included twice by one source: its second half is reached only if the
        # header is processed a second time (the two includes get independent alias spellings later)
        dl = [tg for ln, tg in desc["links"] if tg in d["dirs"] and tg]
        pod = rng.choice(dl) if dl else rng.choice(d["dirs"])
        po = os.path.join(pod, "po.h")
        d["texts"][po] = ["#pragma once", "#ifndef PO_SEEN", "#define PO_SEEN", "int po_first;", "#else", "int po_second;", "#endif"]
        d["headers"].append(po)
        s_ = rng.choice(d["sources"])
        rel = os.path.relpath(po, os.path.dirname(s_) or ".")
        d["texts"][s_] = [f'#include "{rel}"', "int between;", f'#include "{rel}"'] + d["texts"][s_]
    hdirs = sorted(set(os.path.dirname(h) for h in d["headers"]))
    base = {os.path.basename(h): h for h in d["headers"]}
    for f, lines in d["texts"].items():
        for i, ln in enumerate(lines):
            m = INC_RE.match(ln)
            if m and not m.group(1).startswith("missing"):
                tgt = os.path.normpath(os.path.join(os.path.dirname(f), m.group(1)))
                if tgt in d["headers"] and rng.random() < 0.35:
                    lines[i] = f'#include "{os.path.basename(tgt)}"'
    d["outside"] = None
    if d["sources"] and rng.random() < 0.5:
        d["outside"] = ["#ifndef EXT_H", "#define EXT_H", "int ext1;", "#ifdef A", "int ext_a;", "#endif", "#endif"]
        s = rng.choice(d["sources"])
        d["texts"][s] = [f'#include "{os.path.relpath("../cb-old/ext.h", os.path.dirname(s) or ".")}"'] + d["texts"][s]
    for name, entries in d["platforms"].items():
        for e in entries:
            args = e["arguments"]
            e["arguments"] = args[:-2] + [x for hd in hdirs for x in ("-I", hd or ".")] + args[-2:]
    d["hdirs"] = hdirs
    # exclude patterns (the same for both variants): a vendored directory that no command or include refers to, and
    # sometimes a name pattern that matches alias names only.  Membership is decided on the resolved path, so a link
    # with an innocent name to an excluded file is not a member, and a link with an excluded name to a member is one.
    d["excludes"] = []
    if rng.random() < 0.5:
        d["texts"]["vendored/vend.h"] = ["int vend_a;", "int vend_b;", "#ifdef A", "int vend_c;", "#endif"]
        d["texts"]["vendored/deep/vend2.c"] = ["int vend2;"]
        d["excludes"].append(rng.choice(["vendored/", "vendored", "/vendored/", "vend*"]))
        if rng.random() < 0.5:
            d["excludes"].append("alias0_*")
    return d


def decorate(rng, d):
    """The aliased variant: extra links + alias spellings of every reference.  Returns (desc, links)
    links: [(link path rel to root, target rel to root)]; link targets are written relative to the link."""
    a = copy.deepcopy(d)
    links = list(a["links"])
    files = list(a["texts"])
    real_dirs = sorted(set(os.path.dirname(f) for f in files) | set(x for x in a["dirs"]))
    real_dirs = [x for x in real_dirs]
    # more file links, in the directory of their target
    for i in range(rng.randint(0, 2)):
        t = rng.choice(files)
        links.append((os.path.join(os.path.dirname(t), f"alias{i}_" + os.path.basename(t)), t))
    # chains: a link whose target is itself a file link (link -> link -> file), in the same directory
    file_links = [ln for ln, tg in links if tg in a["texts"]]
    for i in range(rng.randint(0, 2)):
        if file_links:
            t = rng.choice(file_links)
            nm = os.path.join(os.path.dirname(t), f"chain{i}_" + os.path.basename(t))
            links.append((nm, t))
            file_links.append(nm)
    # a link with a non-source name to a source, and a source-named link to a non-source
    if rng.random() < 0.4:
        t = rng.choice(files)
        links.append((os.path.join(os.path.dirname(t), "plainlink"), t))
    # directory links: at the top and nested
    for i in range(rng.randint(0, 2)):
        dd = rng.choice([x for x in real_dirs if x] or ["src"])
        where = rng.choice(real_dirs)
        nm = os.path.join(where, f"dlx{i}")
        if not (dd + "/").startswith(nm + "/"):
            links.append((nm, dd))
    if a.get("excludes"):
        where = rng.choice([x for x in real_dirs if not x.startswith("vendored")] or [""])
        links.append((os.path.join(where, "innocent.h"), "vendored/vend.h"))      # innocent name, excluded target
        if rng.random() < 0.5:
            links.append((os.path.join(where, "innocent_dir"), "vendored/deep"))  # directory link into the excluded directory
    if a["outside"] is not None:
        links.append(("ext_link.h", "../cb-old/ext.h"))       # link to a file outside the code base
        links.append(("dl_out", "../cb-old"))                 # link to a directory outside the code base
    # de-duplicate link names
    seen, ll = set(files), []
    for ln, tg in links:
        if ln not in seen and not any((ln + "/").startswith(x + "/") for x, _ in ll if x != ln):
            seen.add(ln)
            ll.append((ln, tg))
    links = ll
    lmap = {ln: os.path.normpath(tg) for ln, tg in links}

    def final(t):
        t = os.path.normpath(t)
        for _ in range(10):
            if t not in lmap:
                break
            t = lmap[t]
        return t

    flinks = {}
    for ln, tg in links:
        if os.path.basename(ln) != "plainlink":  # a command's file needs a source extension to be supported
            flinks.setdefault(final(tg), []).append(ln)
    dlinks = [(ln, os.path.normpath(tg)) for ln, tg in links if os.path.normpath(tg) in real_dirs or tg == "../cb-old"]

    def alias(p):
        """an alias spelling (root-relative) of the root-relative path p"""
        p = os.path.normpath(p)
        cands = [p]
        for ln in flinks.get(p, []):
            cands.append(ln)
        for ln, dd in dlinks:
            if p.startswith(dd + "/"):
                cands.append(ln + p[len(dd):])
            if p == dd:
                cands.append(ln)
        q = rng.choice(cands)
        # redundant segments through real directories only
        parts = q.split("/")
        out = []
        for i, c in enumerate(parts):
            out.append(c)
            pre = "/".join(out)
            if i < len(parts) - 1 and pre in real_dirs and not c.startswith("."):
                r = rng.random()
                if r < 0.15:
                    out.append(".")
                elif r < 0.3:
                    subs = [x[len(pre) + 1:] for x in real_dirs if x.startswith(pre + "/") and "/" not in x[len(pre) + 1:]]
                    if subs:
                        out += [rng.choice(subs), ".."]
        return "/".join(out)

    # references: #include texts
    for f, lines in a["texts"].items():
        for i, ln in enumerate(lines):
            m = INC_RE.match(ln)
            if not m or m.group(1).startswith("missing"):
                continue
            inc = m.group(1)
            if "/" not in inc and inc in [os.path.basename(h) for h in a["headers"]] and \
                    os.path.normpath(os.path.join(os.path.dirname(f), inc)) not in a["texts"]:
                # found through -I: only a file link of the same name could alias it; keep
                continue
            tgt = os.path.normpath(os.path.join(os.path.dirname(f), inc))
            if tgt == os.path.normpath("../cb-old/ext.h"):
                al = rng.choice(["ext_link.h", "dl_out/ext.h", "../cb-old/ext.h"])
            elif tgt in a["texts"]:
                al = alias(tgt)
            else:
                continue
            lines[i] = f'#include "{os.path.relpath(al, os.path.dirname(f) or ".")}"'
    # references: compile commands and -I
    for name, entries in a["platforms"].items():
        for e in entries:
            sp = alias(e["file"])
            e["file"] = sp if rng.random() < 0.7 else "$ROOT/" + sp
            args = e["arguments"]
            out = []
            i = 0
            while i < len(args):
                if args[i] == "-I" and i + 1 < len(args):
                    out += ["-I", alias(args[i + 1]) if args[i + 1] != "." else "."]
                    i += 2
                elif args[i].startswith("-I") and len(args[i]) > 2:
                    out.append("-I" + alias(args[i][2:]))
                    i += 1
                else:
                    out.append(args[i])
                    i += 1
            out[-1] = e["file"]
            e["arguments"] = out
    a["links"] = links
    return a


def write_variant(base, d):
    """base/cb = the code base root, base/cb-old = the sibling directory outside the code base (its name shares the prefix `cb` with the root: containment is by path components, not by string prefix)"""
    root = os.path.join(base, "cb")
    os.makedirs(root)
    if d["outside"] is not None:
        os.makedirs(os.path.join(base, "cb-old"))
        with open(os.path.join(base, "cb-old", "ext.h"), "w") as f:
            f.write("\n".join(d["outside"]) + "\n")
    dd = copy.deepcopy(d)
    for entries in dd["platforms"].values():
        for e in entries:
            e["file"] = e["file"].replace("$ROOT", root)
            e["arguments"] = [x.replace("$ROOT", root) for x in e["arguments"]]
    cbgen.write_codebase(root, dd)
    return root


# --------------------------------------------------------------------------
# observation of the real analysis
# --------------------------------------------------------------------------
def observe(root, platforms, want_cov=False, excludes=()):
    """Run finder.find + reports on the code base at root. Returns a dict of observations."""
    from codebasin import finder, report
    from codebasin.finder import ParserState

    inserted = []
    orig_insert = ParserState.insert_file

    def rec_insert(self, fn, language=None):
        inserted.append(str(fn))
        return orig_insert(self, fn, language)

    ParserState.insert_file = rec_insert
    try:
        cb, st = cbgen.analyse(root, platforms, excludes=excludes)
    finally:
        ParserState.insert_file = orig_insert
    members = list(cb)
    phys = sorted(set(os.path.realpath(f) for f in members))
    # files visited by get_setmap
    visited = []
    orig_get_tree = st.get_tree

    def rec_get_tree(fn):
        visited.append(str(fn))
        return orig_get_tree(fn)

    st.get_tree = rec_get_tree
    try:
        setmap = dict(st.get_setmap(cb))
    finally:
        del st.get_tree
    att = {}
    for rel, dct in cbgen.attribution(phys + [k for k in st.trees if k not in phys], st, root).items():
        att[rel] = {ln: sorted(ps) for ln, ps in dct.items()}
    dups = sorted(sorted(os.path.relpath(str(p), root) for p in grp) for grp in report.find_duplicates(cb))
    dup_links = [str(p) for grp in report.find_duplicates(cb) for p in grp if Path(p).is_symlink()]
    buf = io.StringIO()
    report.files(cb, st, stream=buf)
    rows = cbgen.parse_tree(buf.getvalue())
    return {
        "members": members, "phys": [os.path.relpath(p, root) for p in phys], "setmap": {",".join(sorted(k)): v for k, v in setmap.items()},
        "att": att, "trees": sorted(st.trees.keys()), "inserted": inserted, "visited": visited,
        "dups": dups, "dup_links": dup_links, "rows": rows, "cb": cb, "st": st,
    }


def coverage_records(root, dbname):
    rc, out, err = core.run_cli("codebasin.coverage", ["compute", "-S", root, "-o", os.path.join(root, "cov_out.json"), os.path.join(root, dbname)], cwd=root)
    if rc != 0:
        return None, err[-400:]
    return json.load(open(os.path.join(root, "cov_out.json"))), ""


def rows_key(rows):
    """file-tree rows without link rows: (depth, is_dir, name, platforms, sloc)"""
    return sorted((r[4], r[5], r[6], r[0], r[1]) for r in rows if " -> " not in r[6] and r[4] > 0)


# --------------------------------------------------------------------------
def check_case(ctx, drv, scr, idx, canon, alias, origin, want_cov=False):
    case = {"canonical": canon, "aliased": alias, "origin": origin}
    if isinstance(canon, dict) and origin == "replay-history":
        case["history"] = canon.get("_history")
    baseC, baseA = os.path.join(scr, f"C{idx}"), os.path.join(scr, f"A{idx}")
    os.makedirs(baseC)
    os.makedirs(baseA)
    out = {}
    try:
        rootC, rootA = write_variant(baseC, canon), write_variant(baseA, alias)
        plats = list(canon["platforms"])
        try:
            oc = observe(rootC, plats, excludes=canon.get("excludes", ()))
        except Exception as e:  # noqa
            ctx.notes.append(f"canonical variant not analysable ({type(e).__name__}: {e}) — case dropped")
            return out
        try:
            oa = observe(rootA, plats, excludes=alias.get("excludes", ()))
        except Exception as e:  # noqa
            ctx.violation(f"the aliased variant aborts with {type(e).__name__}: {e} although the canonical one is analysed", case)
            return out
        nlinks = len(alias["links"])
        ctx.count(key=f"links={min(nlinks, 5)}")
        if canon.get("excludes"):
            ctx.count(key="with_exclude_patterns")
            if any(p.startswith("vendored/") for p in oc["phys"]):
                ctx.notes.append(f"exclude patterns {canon['excludes']} did not exclude the vendored directory")
        aliased_refs = sum(1 for p in alias["platforms"] for e, e0 in zip(alias["platforms"][p], canon["platforms"][p]) if e["file"] != e0["file"])
        ctx.dist["commands_through_alias"] += aliased_refs
        if nlinks and (aliased_refs or any(a_ != c_ for f in canon["texts"] for a_, c_ in zip(alias["texts"][f], canon["texts"][f]))):
            ctx.nontrivial.add(origin)
        bad = []
        # the same physical files are members
        if oa["phys"] != oc["phys"]:
            bad.append(f"physical member files differ: aliased {oa['phys']} vs canonical {oc['phys']}")
        # every member of the aliased variant is a physical member or a link to one; links to outside are not members
        for m in oa["members"]:
            rp = os.path.realpath(m)
            if not rp.startswith(rootA + "/"):
                bad.append(f"{m} -> {rp} lies outside the code base but is enumerated")
        for ln, tg in alias["links"]:
            full = os.path.join(rootA, ln)
            rp = os.path.realpath(full)
            inside = rp.startswith(rootA + "/") and os.path.isfile(rp) and fstree.suffix_of(os.path.basename(rp)) in EXTS and os.path.relpath(rp, rootA) in oc["phys"]
            if os.path.isfile(rp) and ((full in oa["cb"]) != inside):
                bad.append(f"link {ln} -> {tg}: `in codebase` is {full in oa['cb']}, target member: {inside}")
        # per-physical-file attribution
        for rel in sorted(set(oc["att"]) | set(oa["att"])):
            ctx.count(key="file_attribution_compared")
            if oc["att"].get(rel) != oa["att"].get(rel):
                bad.append(f"attribution of {rel} differs: aliased {str(oa['att'].get(rel))[:200]} vs canonical {str(oc['att'].get(rel))[:200]}")
                break
        # totals
        if oa["setmap"] != oc["setmap"]:
            bad.append(f"setmap differs: aliased {oa['setmap']} vs canonical {oc['setmap']}")
        # one tree per physical file; keys are realpaths
        if any(os.path.realpath(k) != k for k in oa["trees"]) or len(set(os.path.realpath(k) for k in oa["trees"])) != len(oa["trees"]):
            bad.append(f"parse cache holds several entries for one physical file: {oa['trees']}")
        if sorted(os.path.relpath(k, rootA) for k in oa["trees"]) != sorted(os.path.relpath(k, rootC) for k in oc["trees"]):
            bad.append("parsed files differ: aliased %s vs canonical %s" % (sorted(os.path.relpath(k, rootA) for k in oa["trees"]), sorted(os.path.relpath(k, rootC) for k in oc["trees"])))
        # get_setmap visits each physical member once and no link
        vis = sorted(os.path.relpath(os.path.realpath(v), rootA) for v in oa["visited"])
        if vis != oa["phys"] or any(os.path.islink(v) for v in oa["visited"]):
            bad.append(f"get_setmap visits {oa['visited']} — not each physical member exactly once")
        # duplicates
        if oa["dups"] != oc["dups"] or oa["dup_links"]:
            bad.append(f"duplicates differ: aliased {oa['dups']} (links {oa['dup_links']}) vs canonical {oc['dups']}")
        # file tree: rows other than link rows are the same, root figure = total
        if rows_key(oa["rows"]) != rows_key(oc["rows"]):
            bad.append(f"file-tree rows differ: aliased {rows_key(oa['rows'])} vs canonical {rows_key(oc['rows'])}")
        if oa["rows"] and oc["rows"] and (oa["rows"][0][:4] != oc["rows"][0][:4]):
            bad.append(f"file-tree root row differs: aliased {oa['rows'][0][:4]} vs canonical {oc['rows'][0][:4]}")
        tot = sum(oa["setmap"].values())  # the SLOC column adds up every platform set, the empty one included
        if oa["rows"] and int(oa["rows"][0][1]) != tot:
            bad.append(f"file-tree root SLOC {oa['rows'][0][1]} != setmap total {tot}")
        if bad:
            ctx.violation("; ".join(bad[:3]), case)
        out = {"aliased": {k: oa[k] for k in ("phys", "setmap", "trees", "visited", "dups")},
               "canonical": {k: oc[k] for k in ("phys", "setmap", "trees", "dups")}, "problems": bad}
        # coverage export (CLI): one record per physical file
        if want_cov and plats:
            db = plats[0] + ".json"
            ra, ea = coverage_records(rootA, db)
            rc_, ec = coverage_records(rootC, db)
            ctx.count(key="coverage_cli")
            if ra is None or rc_ is None:
                ctx.violation(f"cbi-cov compute fails: {ea or ec}", case)
            else:
                pa = sorted(os.path.relpath(os.path.realpath(os.path.join(rootA, r["file"])), rootA) for r in ra)
                pc = sorted(r["file"] for r in rc_)
                out["coverage"] = {"aliased": pa, "canonical": pc}
                if pa != pc:
                    extra = [r["file"] for r in ra if os.path.islink(os.path.join(rootA, r["file"]))]
                    ctx.classify(dict(case, coverage_files=[r["file"] for r in ra]),
                                 f"cbi-cov compute writes records for {[r['file'] for r in ra]}: physical files {pa} instead of each once {pc}",
                                 [("F-C15-COV", lambda c: sorted(set(pa)) == pc and len(extra) == len(pa) - len(pc))])
        # model: parse-cache keys and counted files
        if drv is not None:
            entries = fstree.scan(baseA)
            ign = []
            if alias.get("excludes"):
                # the model takes pathspec's verdict per root-relative resolved path as a table (C09 checks that table against git)
                for dp, dns, fns in os.walk(rootA):
                    for nm in fns + dns:
                        rel = os.path.relpath(os.path.join(dp, nm), rootA)
                        v = fstree.pathspec_ignored(list(alias["excludes"]), rel)
                        if v is True:
                            ign.append(rel)
            rep = drv.ask({"op": "codebase", "fs": fstree.fs_description(baseA, entries), "cwd": rootA, "roots": [rootA],
                           "ignored": ign, "catchLoop": False, "fuel": FUEL, "queries": [], "inserts": oa["inserted"]})
            if sorted(rep.get("cache", [])) != oa["trees"]:
                ctx.corr_break("codebase.cache", case, oa["trees"], rep.get("cache"))
            if rep.get("counted") == "loop" or sorted(rep.get("counted", [])) != sorted(oa["visited"]):
                ctx.corr_break("codebase.counted", case, sorted(oa["visited"]), rep.get("counted"))
            if rep.get("iter") == "loop" or sorted(rep.get("iter", [])) != sorted(oa["members"]):
                ctx.corr_break("codebase.iter", case, sorted(oa["members"]), rep.get("iter"))
            out["model"] = {"cache": rep.get("cache"), "counted": rep.get("counted")}
        ctx.sample({"links": alias["links"], "files": sorted(alias["texts"]), "commands": {p: [e["file"] for e in es] for p, es in alias["platforms"].items()}})
        # ---- history: a link is re-pointed and the tree analysed again in this process; the result must be the one a fresh
        # analysis of the same tree gives (here: of a copy of the tree at another path, where no path was ever seen before)
        if str(idx).isdigit() and int(idx) % 3 == 0 or origin == "replay-history":
            hist = repoint_history(ctx, alias, rootA, baseA, plats, case)
            if hist is not None:
                out["history"] = hist
    finally:
        shutil.rmtree(baseC, ignore_errors=True)
        shutil.rmtree(baseA, ignore_errors=True)
    return out


def repoint_history(ctx, alias, rootA, baseA, plats, case):
    cands = []
    for ln, tg in alias["links"]:
        full = os.path.join(rootA, ln)
        if not os.path.islink(full) or not os.path.isfile(os.path.realpath(full)):
            continue
        rp = os.path.realpath(full)
        if not rp.startswith(rootA + "/"):
            continue
        others = [f for f in alias["texts"] if os.path.dirname(f) == os.path.dirname(os.path.relpath(rp, rootA))
                  and os.path.join(rootA, f) != rp and fstree.suffix_of(os.path.basename(f)) == fstree.suffix_of(os.path.basename(rp))]
        if others:
            cands.append((ln, os.path.relpath(rp, rootA), sorted(others)))
    if not cands:
        return None
    forced = case.get("history") if isinstance(case.get("history"), dict) else None
    if forced and any(c[0] == forced["link"] for c in cands):
        ln, old_t, others = next(c for c in cands if c[0] == forced["link"])
        new_t = forced["new"] if forced["new"] in others else others[0]
    else:
        ln, old_t, others = ctx.rng.choice(cands)
        new_t = ctx.rng.choice(others)
    full = os.path.join(rootA, ln)
    os.unlink(full)
    os.symlink(os.path.relpath(os.path.join(rootA, new_t), os.path.dirname(full)), full)
    ctx.count(key="history:link-repointed")
    baseB = baseA + "_copy"
    try:
        shutil.copytree(baseA, baseB, symlinks=True)
        rootB = os.path.join(baseB, "cb")
        # the compilation databases name absolute paths: rewrite them for the copy
        for f in os.listdir(rootB):
            if f.endswith(".json"):
                p = os.path.join(rootB, f)
                t = open(p).read()
                open(p, "w").write(t.replace(rootA, rootB))
        try:
            ob = observe(rootA, plats, excludes=alias.get("excludes", ()))
            oc2 = observe(rootB, plats, excludes=alias.get("excludes", ()))
        except Exception as e:  # noqa
            ctx.notes.append(f"history step not analysable: {type(e).__name__}: {e}")
            return None
        bad = []
        if ob["phys"] != oc2["phys"]:
            bad.append(f"physical member files {ob['phys']} vs {oc2['phys']}")
        for rel in sorted(set(ob["att"]) | set(oc2["att"])):
            if ob["att"].get(rel) != oc2["att"].get(rel):
                bad.append(f"attribution of {rel}: {str(ob['att'].get(rel))[:160]} vs {str(oc2['att'].get(rel))[:160]}")
                break
        if ob["setmap"] != oc2["setmap"]:
            bad.append(f"setmap {ob['setmap']} vs {oc2['setmap']}")
        tb = sorted(os.path.relpath(k, rootA) for k in ob["trees"])
        tc = sorted(os.path.relpath(k, rootB) for k in oc2["trees"])
        if tb != tc:
            bad.append(f"parsed files {tb} vs {tc}")
        if bad:
            ctx.violation(f"after re-pointing the link {ln} from {old_t} to {new_t} the analysis repeated in the same process differs from the "
                          f"analysis of an identical copy of the tree at another path (in process vs copy): " + "; ".join(bad[:2]),
                          dict(case, history={"link": ln, "old": old_t, "new": new_t}))
        return {"link": ln, "old": old_t, "new": new_t, "problems": bad}
    finally:
        shutil.rmtree(baseB, ignore_errors=True)


EXTS: list = []


def run(ctx, drv):
    core.import_codebasin()
    from codebasin.language import FileLanguage

    EXTS[:] = sorted(set(e for l in FileLanguage._language_extensions.values() for e in l))
    ctx.rule = ("case = random multi-platform code base (harness/gen/codebase.py with a file link and a directory link) decorated with "
                "further file links, directory links (top-level, nested, to a directory outside), a header outside the code base, "
                "`./` and `x/../` segments, link chains (link -> link -> file), the outside directory a sibling whose name shares a prefix with the root, "
                "in half of the cases exclude patterns (a vendored directory, alias names) with innocent-named links to excluded files; "
                "compile commands, -I options and #include directives spelled through aliases; compared with "
                "the canonical variant (no links, canonical spellings). Non-trivial = distinct case with at least one link in which a "
                "command or an #include actually goes through an alias.  Every third case continues with a history step: a file link is re-pointed "
                "to another file and the analysis repeated in the same process must equal the analysis of a copy of the tree at another path.")
    ctx.assumptions += [
        "links to files sit in the directory of their target or are directory links, so that the directory an #include is resolved "
        "against is the same for every alias (which directory a preprocessor uses for a file reached through a link is C04's question)",
        "`x/../` segments go through real directories only (the lexical reading of `..` behind a directory link is C13's question)",
        "file systems contain regular files, directories and symbolic links only",
    ]
    with core.Scratch() as d:
        scr = os.path.realpath(str(d))
        k = 0
        for f in sorted((core.VERIF / "corpus" / "C15").glob("*.json")):
            c = json.loads(f.read_text())
            check_case(ctx, drv, scr, f"k{k}", c["canonical"], c["aliased"], "corpus:" + f.name, want_cov=True)
            k += 1
        n = ctx.n(180, 1800)
        ncov = ctx.n(6, 40)
        for i in range(n):
            if len(ctx.violations) >= 20:
                break
            gen_root = os.path.join(scr, "gen")
            desc = cbgen.gen_codebase(ctx.rng, gen_root, nplat=ctx.rng.randint(1, 3), dup_pool=(ctx.rng.random() < 0.4),
                                      symlinks=True, dirsyms=True, write=False)
            canon = normalise(ctx.rng, desc)
            alias = decorate(ctx.rng, canon)
            canon = dict(canon, links=[])
            check_case(ctx, drv, scr, i, canon, alias, f"gen#{i}", want_cov=(i < ncov))


def search(ctx, drv):
    run(ctx, drv)


def replay(ctx, drv, case):
    core.import_codebasin()
    from codebasin.language import FileLanguage

    EXTS[:] = sorted(set(e for l in FileLanguage._language_extensions.values() for e in l))
    with core.Scratch() as d:
        scr = os.path.realpath(str(d))
        if "history" in case:
            case["canonical"] = dict(case["canonical"], _history=case["history"])
        res = check_case(ctx, drv, scr, "r", case["canonical"], case["aliased"], "replay-history" if "history" in case else "replay",
                         want_cov=("coverage_files" in case))
        res["violations"] = [w for w, _ in ctx.violations]
        res["known_findings"] = sorted(ctx.known_seen)
        return json.loads(json.dumps(res, default=str).replace(scr, "$SCRATCH"))
