import CbiVerif.Lemmas.FindIncErase
import CbiVerif.Lemmas.ExpandPP
/-! # C04 — `#include` resolution and attribution across files follow compiler rules.

Spec: `Spec/IncludeSearch.lean` (the compiler's search rule), `Spec/IncludeSem.lean` (flat conditional-group
machine with textual inclusion).  Model: `Model/IncludeMemo.lean` (`find_include_file` with its memo, the
two argparse append lists), `Model/MultiFile.lean` + `Model/FindInc.lean` (`finder.find`).  The driver ops
`findinc`, `incmemo`, `incargv` execute exactly these definitions.

All theorems are full-strength statements about the model; nothing here is `_partial`. -/
namespace CbiVerif.C04
open CbiVerif.PP (PNode Tok Table Entry)
open CbiVerif.Cond CbiVerif.MF CbiVerif.IncludeSearch CbiVerif.IncMemo CbiVerif.Inc

/-! ## memo_transparent -/

/-- For EVERY history of look-ups, the memoised resolver (memo keyed as the code keys it now:
`(spelling, None if system else includer dir)`) returns at every step what the memo-free loop returns. -/
theorem memo_transparent (E : Env) (paths : List String) (qs : List Query) :
    IncMemo.run E paths [] qs = qs.map (resolveM E paths) :=
  runBy_spec Query.key (resolveM E paths) (key_determines E paths) [] (sound_nil _ _) qs

/-- the same from any memo that only holds answers of the memo-free loop (the invariant of the induction) -/
theorem memo_transparent_from (E : Env) (paths : List String) (m : Memo Key)
    (h : Sound Query.key (resolveM E paths) m) (qs : List Query) :
    IncMemo.run E paths m qs = qs.map (resolveM E paths) :=
  runBy_spec Query.key (resolveM E paths) (key_determines E paths) m h qs

/-- … and the memo-free loop is the compiler's rule of `Spec/IncludeSearch` when the list handed over is
`-I` directories followed by `-isystem` directories -/
theorem memo_transparent_spec (E : Env) (ipaths isystem : List String) (qs : List Query) :
    IncMemo.run E (ipaths ++ isystem) [] qs =
      qs.map fun q => resolve E (!q.sys) q.dir ipaths isystem q.name := by
  rw [memo_transparent]
  exact List.map_congr_left fun q _ => resolveM_eq_spec E ipaths isystem q

def envEx : Env := { isfile := fun p => p == "b/x.h" || p == "a/x.h" || p == "i/y.h", join := fun d n => d ++ "/" ++ n }

/-- non-vacuity of `memo_transparent_from`: a non-empty sound memo, and a history with hits, misses and a failure -/
example : Sound Query.key (resolveM envEx ["i"]) [(("x.h", some "a"), some "a/x.h")] := by
  intro q r h
  obtain ⟨n, d, s⟩ := q
  cases s with
  | true => simp [Memo.lookup, Query.key] at h
  | false =>
    simp only [Memo.lookup, Query.key, List.find?_cons, List.find?_nil] at h
    split at h
    · rename_i hk
      simp at hk
      obtain ⟨rfl, rfl⟩ := hk
      simp at h
      subst h
      decide
    · simp at h

example : IncMemo.run envEx ["i"] []
    [⟨"x.h", "a", false⟩, ⟨"x.h", "b", false⟩, ⟨"x.h", "b", true⟩, ⟨"x.h", "a", false⟩, ⟨"y.h", "b", true⟩, ⟨"y.h", "b", false⟩] =
    [some "a/x.h", some "b/x.h", none, some "a/x.h", some "i/y.h", some "i/y.h"] := by decide

/-- The memo of the pinned tree (keyed by spelling only, defect D13) is NOT transparent: the same generic
`runBy` with `key := name` answers the second query wrongly. -/
theorem spelling_key_not_transparent :
    ∃ (E : Env) (paths : List String) (qs : List Query),
      runBy (fun q => q.name) (resolveM E paths) [] qs ≠ qs.map (resolveM E paths) :=
  ⟨envEx, [], [⟨"x.h", "a", false⟩, ⟨"x.h", "b", false⟩], by decide⟩

/-- … and a failed `<y.h>` poisons a later resolvable `"y.h"` under the spelling key (the C18 side of D13) -/
theorem spelling_key_poisons :
    runBy (fun q => q.name) (resolveM envEx []) [] [⟨"x.h", "q", true⟩, ⟨"x.h", "a", false⟩] = [none, none] ∧
    [(⟨"x.h", "q", true⟩ : Query), ⟨"x.h", "a", false⟩].map (resolveM envEx []) = [none, some "a/x.h"] := by decide

/-! ## search_order -/

/-- the first existing candidate wins (and only an existing one) -/
theorem search_order (E : Env) (dirs : List String) (name p : String) :
    resolveIn E dirs name = some p ↔
      E.isfile p = true ∧ ∃ as bs, candidates E dirs name = as ++ p :: bs ∧ ∀ a ∈ as, E.isfile a = false := by
  unfold resolveIn
  rw [List.find?_eq_some_iff_append]
  constructor
  · rintro ⟨hp, as, bs, heq, hall⟩
    exact ⟨hp, as, bs, heq, fun a ha => by simpa using hall a ha⟩
  · rintro ⟨hp, as, bs, heq, hall⟩
    exact ⟨hp, as, bs, heq, fun a ha => by simpa using hall a ha⟩

theorem search_none (E : Env) (dirs : List String) (name : String) :
    resolveIn E dirs name = none ↔ ∀ c ∈ candidates E dirs name, E.isfile c = false := by
  unfold resolveIn
  rw [List.find?_eq_none]
  exact ⟨fun h c hc => by simpa using h c hc, fun h c hc => by simpa using h c hc⟩

/-- `<>` never consults the includer's directory: the answer does not depend on it … -/
theorem angle_ignores_includer_dir (E : Env) (dir dir' : String) (ipaths isystem : List String) (name : String) :
    resolve E false dir ipaths isystem name = resolve E false dir' ipaths isystem name := rfl

/-- … it is the search along the command's directories only -/
theorem angle_only_command_dirs (E : Env) (dir : String) (ipaths isystem : List String) (name : String) :
    resolve E false dir ipaths isystem name = resolveIn E (ipaths ++ isystem) name := by
  simp [resolve, searchList]

/-- `""`: the includer's directory first … -/
theorem quote_includer_dir_first (E : Env) (dir : String) (ipaths isystem : List String) (name : String)
    (h : E.isfile (E.join dir name) = true) :
    resolve E true dir ipaths isystem name = some (E.join dir name) := by
  simp [resolve, searchList, resolveIn, candidates, h]

/-- … then exactly the angle search -/
theorem quote_falls_back (E : Env) (dir : String) (ipaths isystem : List String) (name : String)
    (h : E.isfile (E.join dir name) = false) :
    resolve E true dir ipaths isystem name = resolve E false dir ipaths isystem name := by
  simp [resolve, searchList, resolveIn, candidates, h]

/-- independence of earlier look-ups: whatever was looked up before (other directories, the other form,
failures), the memoised resolver answers the next query by the compiler's rule -/
theorem independent_of_history (E : Env) (ipaths isystem : List String) (hist : List Query) (q : Query) :
    (IncMemo.run E (ipaths ++ isystem) [] (hist ++ [q])).getLast? =
      some (resolve E (!q.sys) q.dir ipaths isystem q.name) := by
  rw [memo_transparent_spec]
  simp

example : quote_includer_dir_first envEx "a" [] [] "x.h" (by decide) = quote_includer_dir_first envEx "a" [] [] "x.h" (by decide) := rfl
example : envEx.isfile (envEx.join "q" "x.h") = false := by decide

/-! ## isystem_after_I -/

/-- The list handed to the resolver is all `-I` directories in command-line order followed by all `-isystem`
directories in command-line order — for every command line, however the two kinds are interleaved. -/
theorem isystem_after_I (argv : List Flag) : handed argv = commandDirs argv := by
  unfold handed collect commandDirs
  rw [foldl_step]
  simp

/-- two command lines with the same `-I` subsequence and the same `-isystem` subsequence hand over the same list -/
theorem isystem_after_I_interleaving (argv argv' : List Flag)
    (hI : argv.filterMap Flag.getI = argv'.filterMap Flag.getI)
    (hS : argv.filterMap Flag.getSys = argv'.filterMap Flag.getSys) : handed argv = handed argv' := by
  rw [isystem_after_I, isystem_after_I, commandDirs, commandDirs, hI, hS]

example : handed [.isystem "s1", .I "a", .other "-O2", .isystem "s2", .I "b"] = ["a", "b", "s1", "s2"] := by decide

/-! ## once_once -/

/-- A second inclusion of a once-file changes neither attribution nor world state: if the include directive
`idx` of `file` resolves to a file whose real path is on the once-list, evaluating it enters no file and leaves
the association map, the macro table, the once-list, the set of parsed files, the warnings and the error
status as they were (only the memo and the ghost log of visits may grow). -/
theorem once_once (fs : FS) (pfs : ParsedFS) (file : String) (w : World) (idx : Nat) (n : PNode)
    (hn : pfs.node file idx = some n) (hk : n.kind = .include) (herr : w.st.err = none)
    (path : String) (sys : Bool) (ht : includeTarget w.plat.tbl n.toks = .ok (path, sys))
    (inc : String)
    (hres : (lookupWith true fs.env w.plat.incPaths w.plat.memo ⟨path, dirnameK file, sys⟩).1 = some inc)
    (hskip : w.plat.skip.contains (fs.realpath inc) = true) :
    let r := enter true fs pfs file w idx
    r.1 = none ∧ r.2.st.assoc = w.st.assoc ∧ r.2.plat.tbl = w.plat.tbl ∧ r.2.plat.skip = w.plat.skip ∧
    r.2.st.inserted = w.st.inserted ∧ r.2.st.warns = w.st.warns ∧ r.2.st.dwarns = w.st.dwarns ∧ r.2.st.err = none := by
  simp only [enter, herr, hn, hk, includeStep, ht, hres, hskip, if_true]
  simp [herr]

/-- … hence the associator step on that node is that world (no recursion into the file) -/
theorem once_once_exec (fs : FS) (pfs : ParsedFS) (fuel : Nat) (file : String) (w : World) (idx : Nat)
    (h : (enter true fs pfs file w idx).1 = none) :
    (sem (ops fs pfs) fuel file).exec w idx = (enter true fs pfs file w idx).2 := by
  cases fuel <;> simp only [sem, ops, opsWith, h]

/-- a `#pragma once` directive puts the (real path of the) file on the once-list … -/
theorem once_registers (fs : FS) (pfs : ParsedFS) (file : String) (w : World) (idx : Nat) (n : PNode) (t : Tok) (ts : List Tok)
    (hn : pfs.node file idx = some n) (hk : n.kind = .pragma) (htoks : n.toks = t :: ts) (ho : t.spell = "once")
    (herr : w.st.err = none) :
    file ∈ (enter true fs pfs file w idx).2.plat.skip := by
  simp only [enter, herr, hn, hk, htoks, ho]
  by_cases hc : file ∈ w.plat.skip
  · simp [hc]
  · simp [hc]

/-- … and nothing ever removes it: the once-list only grows over the processing of any file at any depth -/
theorem once_persists (fs : FS) (pfs : ParsedFS) (fuel : Nat) (file : String) (w : World) (x : String)
    (hx : x ∈ w.plat.skip) : x ∈ (assocFile (ops fs pfs) fuel file w).plat.skip :=
  assocFile_inv (SkipHas [x]) (ops fs pfs) (ops_skipHas true fs pfs [x]) fuel file w
    (by intro y hy; simp at hy; subst hy; exact hx) x (by simp)

/-! ## forced_includes_first -/

/-- `-include` files are processed, in command-line order, before the file itself and with the same
`Platform`: the world in which the entry's own file is associated is the one the forced includes leave. -/
theorem forced_includes_first (fs : FS) (pfs : ParsedFS) (fuel : Nat) (pname : String) (st : PState) (e : Entry)
    (tbl : Table) (herr : st.err = none) (hd : buildDefines e.defines [] = .ok tbl) :
    let run := assocFile (ops fs pfs) fuel
    let w0 : World := { st := st, plat := { name := pname, tbl := tbl, incPaths := e.includePaths } }
    let w1 := e.includeFiles.foldl (forcedWith true run fs pfs e.file) w0
    runEntryWith true run fs pfs pname st e =
      (if w1.st.err.isSome then w1 else run (fs.realpath e.file) w1).st := by
  simp [runEntryWith, herr, hd]

/-- the forced includes themselves are taken left to right -/
theorem forced_in_order (fs : FS) (pfs : ParsedFS) (run : String → World → World) (src : String) (w : World)
    (f : String) (rest : List String) :
    (f :: rest).foldl (forcedWith true run fs pfs src) w =
      rest.foldl (forcedWith true run fs pfs src) (forcedWith true run fs pfs src w f) := rfl

/-- a forced include that resolves to a (parsable) file not on the once-list is processed like any file: under the
current world — macros of `-D` and of earlier forced includes, same once-list — and the world it leaves is the
one the next forced include / the source file starts in -/
theorem forced_processes (fs : FS) (pfs : ParsedFS) (run : String → World → World) (src : String) (w : World) (inc f : String)
    (p : Parsed) (herr : w.st.err = none)
    (hres : (lookupWith true fs.env w.plat.incPaths w.plat.memo ⟨inc, dirnameK src, false⟩).1 = some f)
    (hskip : w.plat.skip.contains (fs.realpath f) = false)
    (hp : pfs.get (fs.realpath f) = some (.ok p)) :
    forcedWith true run fs pfs src w inc =
      run (fs.realpath f)
        { st := PState.insertFile { w.st with visits := w.st.visits ++ [⟨src, 0, 0, inc, false, w.plat.incPaths,
                  resolveM fs.env w.plat.incPaths ⟨inc, dirnameK src, false⟩⟩] } pfs (fs.realpath f)
          plat := { w.plat with memo := (lookupWith true fs.env w.plat.incPaths w.plat.memo ⟨inc, dirnameK src, false⟩).2 } } := by
  have he := insertFile_err_none { w.st with visits := w.st.visits ++ [⟨src, 0, 0, inc, false, w.plat.incPaths,
    resolveM fs.env w.plat.incPaths ⟨inc, dirnameK src, false⟩⟩] } pfs (fs.realpath f) p herr hp
  have h0 : w.st.err.isSome = false := by simp [herr]
  unfold forcedWith
  simp only [h0, Bool.false_eq_true, if_false, hres, hskip]
  split
  · rename_i hc
    exact absurd hc (by rw [show (PState.insertFile _ pfs (fs.realpath f)).err = none from he]; simp)
  · rfl

/-- **once-files and `-include`** (fix d95f59a): a forced include that resolves to a file on the once-list —
because an earlier `-include` of the same file, or anything processed before, said `#pragma once` — is not
processed again: attribution, macro table, once-list, parsed files, warnings and error status are unchanged. -/
theorem forced_once (fs : FS) (pfs : ParsedFS) (run : String → World → World) (src : String) (w : World) (inc f : String)
    (herr : w.st.err = none)
    (hres : (lookupWith true fs.env w.plat.incPaths w.plat.memo ⟨inc, dirnameK src, false⟩).1 = some f)
    (hskip : w.plat.skip.contains (fs.realpath f) = true) :
    let w' := forcedWith true run fs pfs src w inc
    w'.st.assoc = w.st.assoc ∧ w'.plat.tbl = w.plat.tbl ∧ w'.plat.skip = w.plat.skip ∧
    w'.st.inserted = w.st.inserted ∧ w'.st.warns = w.st.warns ∧ w'.st.dwarns = w.st.dwarns ∧ w'.st.err = none := by
  have hm : fs.realpath f ∈ w.plat.skip := by simpa using hskip
  simp [forcedWith, herr, hres, hm]

/-! ## include_semantics -/

/-- **Textual inclusion.**  The tree associator of the code (per-file `SourceTree`, `branch_taken`, memoised
include resolution, recursion into included files with the same `Platform`) and the flat reference machine
(ISO C conditional-group stack over the lines of each file, an included file's lines processed under the world
at the point of inclusion and its world handed back, include resolution by the compiler's rule evaluated afresh
each time) compute the same world, up to the memo — for every file, every include depth `fuel`, every starting
world whose memo is sound, provided every file is a well-nested program. -/
theorem include_semantics (fs : FS) (pfs : ParsedFS) (hwf : WFparsed pfs) (fuel : Nat) (file : String) (w : World)
    (h : WarnInv fs w) :
    (assocFile (ops fs pfs) fuel file w).erase = runFileRef (opsSpec fs pfs) fuel file w.erase :=
  (assocFile_erase fs pfs hwf fuel file w h).1.symm

/-- **Whole analysis.**  The model of `finder.find` equals the reference analysis (`findSpec`: flat machine,
textual inclusion, compiler's rule, forced includes first) on every code base, configuration and include-depth
bound, for every file system whose files are well-nested programs: same attribution of every node of every
file to platforms, same parsed files, same warnings, same error status. -/
theorem include_semantics_find (fs : FS) (codebase : List String) (config : List (String × List Entry)) (fuel : Nat)
    (hwf : WFparsed (parseAll fs)) :
    Inc.find fs codebase config fuel = findSpec fs codebase config fuel := by
  unfold Inc.find findSpec findWith
  simp only []
  symm
  apply foldl_congr_inv (StInv fs)
  · intro st pe hst
    apply foldl_congr_inv (StInv fs)
    · intro a e ha
      exact runEntry_erase fs (parseAll fs) hwf fuel pe.1 a e ha
    · intro a e ha
      exact runEntry_inv fs (parseAll fs) fuel pe.1 a e ha
    · exact hst
  · intro st pe hst
    exact foldl_inv (StInv fs) _ (fun a x ha => runEntry_inv fs (parseAll fs) fuel pe.1 a x ha) pe.2 st hst
  · apply foldl_inv (StInv fs)
    · intro s f hs
      obtain ⟨fa, fb, _⟩ := insertFile_frame s (parseAll fs) (fs.realpath f)
      exact ⟨by rw [fa, fb]; exact hs.warns, by rw [fb]; exact hs.ghost⟩
    · exact ⟨rfl, by intro v hv; simp at hv⟩

/-- the executable well-formedness check of the driver (the reference machine's own structural verdict) is sound:
a `true` answer gives the hypothesis (via `C01.structured_of_wellNested`) -/
theorem wfCheck_sound (ls : List Lbl) (h : wfCheck ls = true) : ∃ b : Block, ls = b.lines := by
  simp only [wfCheck, Bool.and_eq_true, List.all_eq_true] at h
  have hn : ∀ l ∈ ls, l.normal := by
    intro l hl hk
    have := h.1 l hl
    unfold normalB at this
    rcases hk with hk | hk | hk <;> simp [hk] at this <;> exact this
  obtain ⟨b, hb⟩ := CbiVerif.C01.structured_of_wellNested trivSem () ls hn h.2
  exact ⟨b, hb.symm⟩

theorem WFparsed_of_check (pfs : ParsedFS) (h : pfs.wf = true) : WFparsed pfs := by
  intro f p hg
  unfold ParsedFS.get at hg
  cases hf : pfs.find? (fun e => e.1 == f) with
  | none => simp [hf] at hg
  | some e =>
    simp only [hf, Option.map_some, Option.some.injEq] at hg
    have hmem := List.mem_of_find?_eq_some hf
    have := (List.all_eq_true.mp h) e hmem
    rw [hg] at this
    obtain ⟨b, hb⟩ := wfCheck_sound p.lbls this
    exact ⟨b, hb⟩

/-- the hypothesis of `include_semantics_find`, checked by computation (what the driver reports as `wf`) -/
theorem include_semantics_find_checked (fs : FS) (codebase : List String) (config : List (String × List Entry)) (fuel : Nat)
    (h : (parseAll fs).wf = true) :
    Inc.find fs codebase config fuel = findSpec fs codebase config fuel :=
  include_semantics_find fs codebase config fuel (WFparsed_of_check _ h)

example : wfCheck [⟨0, .ifk, 0⟩, ⟨1, .other, 1⟩, ⟨2, .code, 0⟩, ⟨3, .elsek, 0⟩, ⟨4, .code, 0⟩, ⟨5, .endk, 0⟩, ⟨6, .code, 0⟩] = true := by decide
example : wfCheck [⟨0, .ifk, 0⟩, ⟨1, .code, 0⟩] = false := by decide

/-- the generic core of `include_semantics` (any per-directive semantics): tree visitor = flat machine across
files, by induction on the include fuel -/
theorem include_semantics_generic {W : Type} (F : FileOps W) (hwf : WellNested F) (fuel : Nat) (file : String) (w : W) :
    assocFile F fuel file w = runFileRef F fuel file w :=
  assocFile_eq_ref F hwf fuel file w

/-- non-vacuity: a starting world satisfying the hypothesis of `include_semantics` -/
example (fs : FS) : WarnInv fs { st := {}, plat := { name := "p" } } :=
  ⟨sound_nil _ _, ⟨rfl, by intro v hv; simp at hv⟩⟩

/-- non-vacuity of `WellNested`: a two-file toy system (a guarded header included twice) -/
def toyOps : FileOps (List String) where
  evalIf _ w _ := (!w.contains "G", w)
  enter file w i := if file == "main" && (i == 0 || i == 1) then (some "h", w) else (none, "G" :: w)
  labels file := if file == "main" then [⟨0, .other, 0⟩, ⟨1, .other, 1⟩, ⟨2, .code, 0⟩]
                 else [⟨0, .ifk, 0⟩, ⟨1, .other, 1⟩, ⟨2, .code, 0⟩, ⟨3, .endk, 0⟩]
  record w file out := w ++ out.map (fun i => file ++ toString i)
  noFuel w := "FUEL" :: w
  crash w := "CRASH" :: w

example : WellNested toyOps := by
  intro file
  by_cases h : file = "main"
  · exact ⟨.cons (.dir 0 0) (.cons (.dir 1 1) (.cons (.code 2) .nil)), by simp [toyOps, h, Block.lines, Item.lines]⟩
  · exact ⟨.cons (.cond 0 0 (.cons (.dir 1 1) (.cons (.code 2) .nil)) (.endif 3)) .nil,
      by simp [toyOps, h, Block.lines, Item.lines, Conts.lines]⟩

/-! ### a concrete file system for the non-vacuity examples (checked by evaluation) -/
/-- `/r/src/a.c` = `#include <x.h>` / `#include "x.h"` / `#pragma once`; `x.h` exists in `/r/inc` and `/r/src` -/
def fsEx : FS := { files := [("/r/src/a.c", ""), ("/r/inc/x.h", ""), ("/r/src/x.h", "")] }
def tokAngle : List Tok := [⟨.op, "<", true, true⟩, ⟨.ident, "x", false, true⟩, ⟨.punct, ".", false, true⟩, ⟨.ident, "h", false, true⟩, ⟨.op, ">", false, true⟩]
def tokQuote : List Tok := [⟨.str, "x.h", true, true⟩]
def nAngle : PNode := { kind := .include, lines := [1], toks := tokAngle }
def nQuote : PNode := { kind := .include, lines := [2], toks := tokQuote }
def nOnce : PNode := { kind := .pragma, lines := [3], toks := [⟨.ident, "once", true, true⟩] }
def pfsEx : ParsedFS :=
  [("/r/src/a.c", .ok { nodes := #[nAngle, nQuote, nOnce], lbls := [⟨0, .other, 0⟩, ⟨1, .other, 1⟩, ⟨2, .other, 2⟩], directives := [] }),
   ("/r/inc/x.h", .ok { nodes := #[], lbls := [], directives := [] }),
   ("/r/src/x.h", .ok { nodes := #[], lbls := [], directives := [] })]
/-- a world in which `/r/inc/x.h` already said `#pragma once` -/
def wEx : World := { st := {}, plat := { name := "p", incPaths := ["/r/inc"], skip := ["/r/inc/x.h"] } }

-- the compiler's rule on this tree: `<x.h>` → -I directory, `"x.h"` → beside the includer
example : resolveM fsEx.env ["/r/inc"] ⟨"x.h", "/r/src", true⟩ = some "/r/inc/x.h" := by decide
example : resolveM fsEx.env ["/r/inc"] ⟨"x.h", "/r/src", false⟩ = some "/r/src/x.h" := by decide
example : dirnameK "/r/src/a.c" = "/r/src" := by decide

/-- non-vacuity of `once_once`: all its hypotheses hold for the angle include of `a.c` in `wEx` -/
example :
    let r := enter true fsEx pfsEx "/r/src/a.c" wEx 0
    r.1 = none ∧ r.2.st.assoc = wEx.st.assoc ∧ r.2.plat.tbl = wEx.plat.tbl ∧ r.2.plat.skip = wEx.plat.skip ∧
    r.2.st.inserted = wEx.st.inserted ∧ r.2.st.warns = wEx.st.warns ∧ r.2.st.dwarns = wEx.st.dwarns ∧ r.2.st.err = none :=
  once_once fsEx pfsEx "/r/src/a.c" wEx 0 nAngle rfl rfl rfl "x.h" true rfl "/r/inc/x.h" (by decide) (by decide)

/-- … while the quote include of the same spelling resolves to the other file, which is not once-listed, and is entered -/
example : (enter true fsEx pfsEx "/r/src/a.c" wEx 1).1 = some "/r/src/x.h" := by decide

/-- non-vacuity of `once_registers` / `once_persists` -/
example : "/r/src/a.c" ∈ (enter true fsEx pfsEx "/r/src/a.c" wEx 2).2.plat.skip :=
  once_registers fsEx pfsEx "/r/src/a.c" wEx 2 nOnce ⟨.ident, "once", true, true⟩ [] rfl rfl rfl (by decide) rfl
example (fuel : Nat) : "/r/inc/x.h" ∈ (assocFile (ops fsEx pfsEx) fuel "/r/src/a.c" wEx).plat.skip :=
  once_persists fsEx pfsEx fuel "/r/src/a.c" wEx "/r/inc/x.h" (by decide)

/-- non-vacuity of `forced_includes_first` / `forced_processes`: `-include x.h` for `/r/src/a.c` -/
example (fuel : Nat) :=
  forced_includes_first fsEx pfsEx fuel "p" {} ⟨"/r/src/a.c", [], ["/r/inc"], ["x.h"]⟩ [] rfl rfl
example (run : String → World → World) :=
  forced_processes fsEx pfsEx run "/r/src/a.c" { st := {}, plat := { name := "p", incPaths := ["/r/inc"] } } "x.h" "/r/src/x.h"
    { nodes := #[], lbls := [], directives := [] } rfl (by decide) (by decide) rfl
/-- non-vacuity of `forced_once`: `-include ../inc/x.h` when `/r/inc/x.h` is already once-listed (e.g. by an earlier -include of it) -/
example (run : String → World → World) :=
  forced_once fsEx pfsEx run "/r/src/a.c" wEx "../inc/x.h" "/r/inc/x.h" rfl (by decide) (by decide)

/-- non-vacuity of `isystem_after_I_interleaving` -/
example := isystem_after_I_interleaving [.isystem "s", .I "a", .I "b"] [.I "a", .other "-O2", .isystem "s", .I "b"] (by decide) (by decide)

/-- non-vacuity of `include_semantics` / `WFparsed_of_check`: the parsed files above are well nested -/
example : WFparsed pfsEx := WFparsed_of_check pfsEx (by decide)
example (fuel : Nat) := include_semantics fsEx pfsEx (WFparsed_of_check pfsEx (by decide)) fuel "/r/src/a.c" wEx
  ⟨sound_nil _ _, ⟨rfl, by intro v hv; simp [wEx] at hv⟩⟩

/-! ## the value of a controlling expression in the multi-file model: one expander (C03), one evaluator (C02) -/

/-- The multi-file model (`finder.find` across `#include`s) gives an `#if`/`#elif` the value `PP.condValue`, i.e. the
evaluation by `Eval.evaluatePP` (the C02 evaluator `Eval.cbiEval`) of the expansion by the total step machine `MX.cbiExpand`
(the model of the C03 theorems) under the platform's macro table — the same definition as the single-file model of C01
(`C01.cond_is_expand_then_eval`, and `C01.cond_object_like_partial`, `C01.ifdef_decided_by_table`, … apply to it verbatim);
a failure of either stage is recorded as the failure of the analysis and is sticky. -/
theorem cond_is_expand_then_eval (w : World) (toks : List Tok) (h : w.st.err = none) :
    evalCondW w toks =
      match CbiVerif.MX.cbiExpand w.plat.tbl toks with
      | .ok ts => (match CbiVerif.Eval.evaluatePP ts with | .ok b => (b, w) | .error e => (false, w.setErr e))
      | .error e => (false, w.setErr e)
      | .fuel => (false, w.setErr (.other "ModelOutOfFuel")) := by
  unfold evalCondW
  rw [h, CbiVerif.PP.condValue_eq]
  cases CbiVerif.MX.cbiExpand w.plat.tbl toks with
  | ok ts => simp only []; cases CbiVerif.Eval.evaluatePP ts <;> rfl
  | error e => rfl
  | fuel => rfl

/-- non-vacuity: `#if A > 1 && defined(B)` under `-DA=2 -DB`, through the function-like macro `GT` -/
example : (evalCondW { st := {}, plat := { name := "p", tbl :=
      [("A", ⟨"A", none, false, false, [], [⟨.num, "2", false, true⟩]⟩), ("B", ⟨"B", none, false, false, [], [⟨.num, "1", false, true⟩]⟩),
       ("GT", ⟨"GT", some ["x", "y"], false, false, [true, true],
          [⟨.ident, "x", false, true⟩, ⟨.op, ">", true, true⟩, ⟨.ident, "y", true, true⟩]⟩)] } }
    (CbiVerif.PP.tokenize "GT(A, 1) && defined(B)")).1 = true := by decide +kernel

end CbiVerif.C04
