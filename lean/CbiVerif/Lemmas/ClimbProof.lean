import CbiVerif.Model.Climb
/-! Correctness of the generic precedence-climbing definition (`Model/Climb.lean`) for every table
    satisfying `TableOK`: fuel monotonicity, the climbing invariant `main_lemma`, and `climb_correct`. -/
namespace CbiVerif.Climb
open CbiVerif.PP
variable {V : Type} (O : EvOps V)

theorem mono_all : ∀ f,
    (∀ m ts r, expr O f m ts = .ok r → expr O (f+1) m ts = .ok r) ∧
    (∀ m v ts r, loop O f m v ts = .ok r → loop O (f+1) m v ts = .ok r) ∧
    (∀ ts r, primary O f ts = .ok r → primary O (f+1) ts = .ok r) := by
  intro f
  induction f with
  | zero => simp [expr, loop, primary, oof]
  | succ f ih =>
    obtain ⟨ihe, ihl, ihp⟩ := ih
    refine ⟨?_, ?_, ?_⟩
    · intro m ts r h
      simp only [expr] at h ⊢
      cases hp : primary O f ts with
      | error e => simp [hp] at h
      | ok pr =>
        obtain ⟨v, rest⟩ := pr
        simp only [hp] at h
        simp only [ihp _ _ hp]
        exact ihl _ _ _ _ h
    · intro m v ts r h
      match ts, h with
      | [], h => simpa [loop] using h
      | t :: rest, h =>
        simp only [loop] at h ⊢
        cases hb : O.binInfo t.text with
        | none => simpa [hb] using h
        | some pa =>
          obtain ⟨p, ra⟩ := pa
          simp only [hb] at h ⊢
          by_cases hpm : p ≥ m
          · simp only [hpm, if_true] at h ⊢
            by_cases hk : (t.kind != TKind.op) = true
            · simp [hk] at h
            · simp only [hk, Bool.false_eq_true, if_false] at h ⊢
              by_cases hq : (t.text == "?") = true
              · simp only [hq, if_true] at h ⊢
                cases he : expr O f 0 rest with
                | error e => simp [he] at h
                | ok tr =>
                  obtain ⟨tv, r2⟩ := tr
                  simp only [ihe _ _ _ he]
                  simp only [he] at h
                  match r2, h with
                  | [], h => simp at h
                  | c :: rest2, h =>
                    simp only at h ⊢
                    by_cases hc : isOp c ":" = true
                    · simp only [hc, if_true] at h ⊢
                      cases he2 : expr O f (if ra then p else p + 1) rest2 with
                      | error e => simp [he2] at h
                      | ok er =>
                        obtain ⟨ev, r3⟩ := er
                        simp only [ihe _ _ _ he2]
                        simp only [he2] at h
                        exact ihl _ _ _ _ h
                    · simp [hc] at h
              · simp only [hq, Bool.false_eq_true, if_false] at h ⊢
                cases he : expr O f (if ra then p else p + 1) rest with
                | error e => simp [he] at h
                | ok rr =>
                  obtain ⟨r', r2⟩ := rr
                  simp only [ihe _ _ _ he]
                  simp only [he] at h
                  exact ihl _ _ _ _ h
          · simpa [hpm] using h
    · intro ts r h
      match ts, h with
      | [], h => simp [primary] at h
      | t :: rest, h =>
        simp only [primary] at h ⊢
        by_cases hk : (t.kind == TKind.op) = true
        · simp only [hk, if_true] at h ⊢
          cases hu : O.unPrec t.text with
          | none => simp [hu] at h
          | some q =>
            simp only [hu] at h ⊢
            cases he : expr O f q rest with
            | error e => simp [he] at h
            | ok vr =>
              obtain ⟨v, r2⟩ := vr
              simp only [ihe _ _ _ he]
              simpa [he] using h
        · simp only [hk, Bool.false_eq_true, if_false] at h ⊢
          by_cases hp : isPunct t "(" = true
          · simp only [hp, if_true] at h ⊢
            cases he : expr O f 0 rest with
            | error e => simp [he] at h
            | ok vr =>
              obtain ⟨v, r2⟩ := vr
              simp only [ihe _ _ _ he]
              simpa [he] using h
          · simpa [hp] using h

theorem expr_mono {f f' m ts r} (h : expr O f m ts = .ok r) (hf : f ≤ f') : expr O f' m ts = .ok r := by
  induction hf with
  | refl => exact h
  | step _ ih => exact (mono_all O _).1 _ _ _ ih
theorem loop_mono {f f' m v ts r} (h : loop O f m v ts = .ok r) (hf : f ≤ f') : loop O f' m v ts = .ok r := by
  induction hf with
  | refl => exact h
  | step _ ih => exact (mono_all O _).2.1 _ _ _ _ ih


variable (hT : TableOK O)
include hT

theorem leadPrec_le (ts : List Tok) : leadPrec O ts ≤ 11 := by
  cases ts with
  | nil => simp [leadPrec]
  | cons t r =>
    cases hb : O.binInfo t.text with
    | none => simp [leadPrec, hb]
    | some pa =>
      obtain ⟨p, ra⟩ := pa
      simp only [leadPrec, hb]
      exact (hT.range _ _ _ hb).2

omit hT in
theorem leadPrec_op (s : String) (p : Nat) (ra : Bool) (rest : List Tok) (h : O.binInfo s = some (p, ra)) :
    leadPrec O (opTok s :: rest) = p := by simp [leadPrec, opTok, h]

omit hT in
theorem loop_stop (g m : Nat) (v : V) (rest : List Tok) (h : leadPrec O rest < m) :
    loop O (g+1) m v rest = .ok (v, rest) := by
  cases rest with
  | nil => simp [loop]
  | cons t r =>
    simp only [loop]
    cases hb : O.binInfo t.text with
    | none => rfl
    | some pa =>
      obtain ⟨p, ra⟩ := pa
      simp only
      have : leadPrec O (t :: r) = p := by simp [leadPrec, hb]
      rw [this] at h
      have : ¬ p ≥ m := by omega
      simp [this]

omit hT in
theorem rbound_eq (a : Ast V) (h : 2 ≤ a.level) : a.rbound = a.level := by
  cases a <;> simp [Ast.rbound, Ast.level] at h ⊢

theorem level_pos (a : Ast V) (h : a.WF O) : 1 ≤ a.level := by
  cases a with
  | leaf ts v => simp [Ast.level]
  | paren a => simp [Ast.level]
  | un s a => simp [Ast.level]
  | bin s p l r => exact (hT.range _ _ _ h.1).1
  | tern c t e => simp [Ast.level]

omit hT in
theorem noLP_op (s : String) (rest : List Tok) : noLP (opTok s :: rest) := by simp [noLP, isPunct, opTok]
omit hT in
theorem noLP_rp (rest : List Tok) : noLP (rpTok :: rest) := by simp [noLP, isPunct, rpTok]

theorem main_lemma (a : Ast V) : a.WF O → ∀ (m : Nat) (rest : List Tok) (g : Nat) (r : V × List Tok),
    m ≤ a.level → leadPrec O rest ≤ a.rbound → noLP rest → loop O g m (a.eval O) rest = .ok r →
    ∃ f, f ≤ g + 3 * a.size ∧ expr O f m (a.render ++ rest) = .ok r := by
  induction a with
  | leaf ts v =>
    intro hwf m rest g r _ _ hnl hl
    obtain ⟨⟨t, tr, rfl, hk, hp⟩, hleaf⟩ := hwf
    refine ⟨g + 2, by simp [Ast.size], ?_⟩
    have hk' : (t.kind == TKind.op) = false := by simpa using hk
    simp only [Ast.render, List.cons_append, expr, primary, hk', Bool.false_eq_true, if_false, hp]
    have := hleaf rest hnl
    simp only [List.cons_append] at this
    rw [this]
    exact loop_mono O hl (by omega)
  | paren a ih =>
    intro hwf m rest g r _ _ _ hl
    obtain ⟨fa, hfa, he⟩ := ih hwf 0 (rpTok :: rest) 1 (a.eval O, rpTok :: rest) (by omega)
      (by simp [leadPrec, rpTok, hT.rparen]) (noLP_rp rest) (by simp [loop, rpTok, hT.rparen])
    have hb : max fa g + 2 ≤ g + 3 * (Ast.paren a).size := by
      have : max fa g ≤ g + 3 * a.size + 1 := Nat.max_le.mpr ⟨by omega, by omega⟩
      simp only [Ast.size]; omega
    refine ⟨max fa g + 2, hb, ?_⟩
    have he' := expr_mono O he (Nat.le_max_left fa g)
    have hr : (Ast.paren a).render ++ rest = lpTok :: (a.render ++ rpTok :: rest) := by simp [Ast.render]
    rw [hr]
    have h1 : (lpTok.kind == TKind.op) = false := rfl
    have h2 : isPunct lpTok "(" = true := rfl
    have h3 : isPunct rpTok ")" = true := rfl
    simp only [expr, primary, h1, h2, Bool.false_eq_true, if_false, if_true, he', h3]
    exact loop_mono O hl (by omega)
  | un s a ih =>
    intro hwf m rest g r _ _ hnl hl
    obtain ⟨hu, hwa, hla⟩ := hwf
    have hlp := leadPrec_le O hT rest
    obtain ⟨fa, hfa, he⟩ := ih hwa 12 rest 1 (a.eval O, rest) hla
      (by rw [rbound_eq a (by omega)]; omega) hnl (loop_stop O 0 12 _ rest (by omega))
    have hb : max fa g + 2 ≤ g + 3 * (Ast.un s a).size := by
      have : max fa g ≤ g + 3 * a.size + 1 := Nat.max_le.mpr ⟨by omega, by omega⟩
      simp only [Ast.size]; omega
    refine ⟨max fa g + 2, hb, ?_⟩
    have he' := expr_mono O he (Nat.le_max_left fa g)
    have h1 : ((opTok s).kind == TKind.op) = true := rfl
    simp only [Ast.render, List.cons_append, expr, primary, h1, if_true, opTok, hu, he']
    exact loop_mono O hl (by omega)
  | bin s p l r ihl ihr =>
    intro hwf m rest g res hm hlead hnl hl
    obtain ⟨hb, hq, hwl, hwr, hll, hlr, hlb⟩ := hwf
    simp only [Ast.level] at hm
    simp only [Ast.rbound, Ast.level] at hlead
    have hp1 := (hT.range _ _ _ hb).1
    obtain ⟨fr, hfr, her⟩ := ihr hwr (p+1) rest 1 (r.eval O, rest) hlr
      (by rw [rbound_eq r (by omega)]; omega) hnl (loop_stop O 0 (p+1) _ rest (by omega))
    have hloop : loop O (max fr g + 1) m (l.eval O) (opTok s :: (r.render ++ rest)) = .ok res := by
      have hk : ((opTok s).kind != TKind.op) = false := rfl
      have hq' : ((opTok s).text == "?") = false := by simpa [opTok] using hq
      have hbt : O.binInfo (opTok s).text = some (p, false) := by simpa [opTok] using hb
      simp only [loop, hbt]
      have : p ≥ m := hm
      simp only [this, if_true, hk, Bool.false_eq_true, if_false, hq']
      rw [expr_mono O her (Nat.le_max_left fr g)]
      exact loop_mono O hl (Nat.le_max_right fr g)
    obtain ⟨fl, hfl, hel⟩ := ihl hwl m (opTok s :: (r.render ++ rest)) _ res (by omega)
      (by rw [leadPrec_op O s p false _ hb]; exact hlb) (noLP_op s _) hloop
    have hbnd : fl ≤ g + 3 * (Ast.bin s p l r).size := by
      have : max fr g ≤ g + 3 * r.size + 1 := Nat.max_le.mpr ⟨by omega, by omega⟩
      simp only [Ast.size]; omega
    refine ⟨fl, hbnd, ?_⟩
    simpa [Ast.render] using hel
  | tern c t e ihc iht ihe =>
    intro hwf m rest g res hm hlead hnl hl
    obtain ⟨hwc, hwt, hwe, hlc, hcb⟩ := hwf
    simp only [Ast.level] at hm
    simp only [Ast.rbound] at hlead
    have hrest0 : leadPrec O rest = 0 := by omega
    obtain ⟨fe, hfe, hee⟩ := ihe hwe 1 rest 1 (e.eval O, rest) (level_pos O hT e hwe)
      (by omega) hnl (loop_stop O 0 1 _ rest (by omega))
    obtain ⟨ft, hft, het⟩ := iht hwt 0 (opTok ":" :: (e.render ++ rest)) 1 (t.eval O, opTok ":" :: (e.render ++ rest))
      (by omega) (by simp [leadPrec, opTok, hT.colon]) (noLP_op ":" _) (by simp [loop, opTok, hT.colon])
    have hloop : loop O (max (max ft fe) g + 1) m (c.eval O) (opTok "?" :: (t.render ++ opTok ":" :: (e.render ++ rest))) = .ok res := by
      have hk : ((opTok "?").kind != TKind.op) = false := rfl
      have hbt : O.binInfo (opTok "?").text = some (1, true) := by simpa [opTok] using hT.quest
      have hq' : ((opTok "?").text == "?") = true := by simp [opTok]
      have hc : isOp (opTok ":") ":" = true := by simp [isOp, opTok]
      simp only [loop, hbt]
      have : 1 ≥ m := hm
      simp only [this, if_true, hk, Bool.false_eq_true, if_false, hq']
      rw [expr_mono O het (Nat.le_trans (Nat.le_max_left ft fe) (Nat.le_max_left _ g))]
      simp only [hc, if_true]
      rw [expr_mono O hee (Nat.le_trans (Nat.le_max_right ft fe) (Nat.le_max_left _ g))]
      exact loop_mono O hl (Nat.le_max_right _ g)
    obtain ⟨fc, hfc, hec⟩ := ihc hwc m _ _ res (by omega)
      (by rw [leadPrec_op O "?" 1 true _ hT.quest]; exact hcb) (noLP_op "?" _) hloop
    have hbnd : fc ≤ g + 3 * (Ast.tern c t e).size := by
      have : max (max ft fe) g ≤ g + 3 * t.size + 3 * e.size + 1 :=
        Nat.max_le.mpr ⟨Nat.max_le.mpr ⟨by omega, by omega⟩, by omega⟩
      simp only [Ast.size]; omega
    refine ⟨fc, hbnd, ?_⟩
    simpa [Ast.render] using hec

-- Any parse tree of the table-induced grammar, with leaves accepted by the leaf parser, is evaluated by the
-- climbing parser to its value, consuming exactly its tokens, without running out of fuel.
omit hT in
theorem loop_stop0 (v : V) (rest : List Tok) (hr : leadPrec O rest = 0) (hpos : ∀ s p ra, O.binInfo s = some (p, ra) → 1 ≤ p) :
    loop O 1 0 v rest = .ok (v, rest) := by
  cases rest with
  | nil => simp [loop]
  | cons t r =>
    simp only [loop]
    cases hb : O.binInfo t.text with
    | none => rfl
    | some pa =>
      obtain ⟨p, ra⟩ := pa
      have h1 : leadPrec O (t :: r) = p := by simp [leadPrec, hb]
      have h2 := hpos _ _ _ hb
      omega

theorem climb_correct (a : Ast V) (h : a.WF O) (rest : List Tok) (hr : leadPrec O rest = 0) (hnl : noLP rest) :
    ∃ f, f ≤ 3 * a.size + 1 ∧ expr O f 0 (a.render ++ rest) = .ok (a.eval O, rest) := by
  obtain ⟨f, hf, he⟩ := main_lemma O hT a h 0 rest 1 (a.eval O, rest) (by omega) (by omega) hnl
    (loop_stop0 O _ rest hr (fun s p ra hb => (hT.range s p ra hb).1))
  exact ⟨f, by omega, he⟩

end CbiVerif.Climb
