#!/bin/bash
# chk.sh <PROP>... [tier] : run checks, print return code, VIOLATION / INTERNAL lines and the summary line
cd "$(dirname "$0")/.."; tier=quick
for a in "$@"; do case $a in quick|thorough) tier=$a;; esac; done
for p in "$@"; do case $p in quick|thorough) continue;; esac
  t0=$(date +%s); out=$(./check $p $tier 2>&1); rc=$?; t1=$(date +%s)
  echo "rc=$rc wall=$((t1-t0))s $(echo "$out" | tail -1 | cut -c1-160)"
  echo "$out" | grep -E "^VIOLATION|INTERNAL|Traceback" -A2 | head -8 | cut -c1-300
done
