import CbiVerif.Lemmas.MacroFunCongr
import CbiVerif.Lemmas.MacroStrRef
/-! # C03, macros with `#` / `##`: `RefS`, `fitsbS`, `costS` depend on the disabled-name list only through the names in it -/
namespace CbiVerif.MX
open CbiVerif.PP

theorem scan_congrS (tbl : Table) (ex : NoExp → List Tok → List Tok) (fit : NoExp → List Tok → Bool) (cost : NoExp → List Tok → Nat)
    (hex : ∀ D D', Eqv D D' → ex D = ex D' ∧ fit D = fit D' ∧ cost D = cost D') :
    ∀ (n : Nat) (D D' : NoExp) (ts : List Tok), Eqv D D' →
      scanRefS tbl ex n D ts = scanRefS tbl ex n D' ts ∧ scanFitS tbl ex fit n D ts = scanFitS tbl ex fit n D' ts ∧
      scanCostS tbl ex cost n D ts = scanCostS tbl ex cost n D' ts := by
  intro n
  induction n with
  | zero => intro D D' ts _; simp [scanRefS, scanFitS, scanCostS]
  | succ n ih =>
    intro D D' ts h
    cases ts with
    | nil => simp [scanRefS, scanFitS, scanCostS]
    | cons a as =>
      have i1 := ih D D' as h
      simp only [scanRefS, scanFitS, scanCostS]
      rw [h a.text]
      cases hm : tbl.get a.text with
      | none => simp only [i1.1, i1.2.1, i1.2.2, and_self]
      | some m =>
        have e1 := hex (some m.name :: D) (some m.name :: D') (eqv_cons _ D D' h)
        have e2 := hex (none :: D) (none :: D') (eqv_cons _ D D' h)
        cases hargs : m.args with
        | none => simp only [hargs, i1.1, i1.2.1, i1.2.2, e1.1, e1.2.1, e1.2.2, and_self]
        | some ps =>
          cases hcall : callOf as with
          | none => simp only [hargs, i1.1, i1.2.1, i1.2.2, and_self]
          | some ar =>
            obtain ⟨args, rest⟩ := ar
            have i2 := ih D D' rest h
            simp only [hargs, hcall, e2.1]
            cases hrr : replRef m (ex (none :: D')) args with
            | none => simp only [i1.1, i1.2.1, i1.2.2, and_self]
            | some repl =>
              simp only [i1.1, i1.2.1, i1.2.2, i2.1, i2.2.1, i2.2.2, e1.1, e1.2.1, e1.2.2, e2.2.1, e2.2.2, and_self]

theorem ref_congrS (tbl : Table) : ∀ (d : Nat) (D D' : NoExp), Eqv D D' →
    RefS tbl d D = RefS tbl d D' ∧ fitsbS tbl d D = fitsbS tbl d D' ∧ costS tbl d D = costS tbl d D' := by
  intro d
  induction d with
  | zero => intro D D' _; refine ⟨?_, ?_, ?_⟩ <;> funext ts <;> simp [RefS, fitsbS, costS]
  | succ d ih =>
    intro D D' h
    refine ⟨?_, ?_, ?_⟩ <;> funext ts <;> simp only [RefS, fitsbS, costS]
    · exact (scan_congrS tbl _ _ _ ih ts.length D D' ts h).1
    · exact (scan_congrS tbl _ _ _ ih ts.length D D' ts h).2.1
    · exact (scan_congrS tbl _ _ _ ih ts.length D D' ts h).2.2

/-- at top level (`no_expand = [None]`) nothing is disabled -/
theorem RefS_top (tbl : Table) (d : Nat) (ts : List Tok) : RefS tbl d [none] ts = RefS tbl d [] ts := by
  rw [(ref_congrS tbl d [none] [] (eqv_none [])).1]
theorem fitsbS_top (tbl : Table) (d : Nat) (ts : List Tok) : fitsbS tbl d [none] ts = fitsbS tbl d [] ts := by
  rw [(ref_congrS tbl d [none] [] (eqv_none [])).2.1]
theorem costS_top (tbl : Table) (d : Nat) (ts : List Tok) : costS tbl d [none] ts = costS tbl d [] ts := by
  rw [(ref_congrS tbl d [none] [] (eqv_none [])).2.2]



end CbiVerif.MX
