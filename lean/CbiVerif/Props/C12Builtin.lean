import CbiVerif.Props.C12
/-!
# C12 — the non-vacuity examples of `Props/C12.lean` evaluated on the *regenerated* built-in table

Not an obligation of the check (a legitimate edit of the shipped `*.toml` values would change these expected
values); built by `./setup.sh` / `lake build CbiVerif`.  The table theorems that every edit must keep true
(`builtin_valid`, `builtin_aliases_resolve`, `builtin_actions_supported`) are in `Props/C12.lean`.
-/
namespace CbiVerif.C12.Builtin
open CbiVerif.Compilers CbiVerif.Compilers.Spec CbiVerif.Gen.Compilers CbiVerif.C12


/-- `icpx -fsycl -fopenmp`: `icpx` resolves through its alias to `icx`; two configurations — the default pass
with both modes, the default SYCL device pass with the pass's defines and its `sycl` mode -/
example : emulate builtinMap {} "icpx" ["-fsycl", "-fopenmp", "-DX", "a.cpp"] =
    .ok ([⟨"sycl-spir64", ["X", "__SYCL_DEVICE_ONLY__", "__SPIR__", "__SPIRV__", "SYCL_LANGUAGE_VERSION"], [], []⟩,
          ⟨"default", ["X", "SYCL_LANGUAGE_VERSION", "_OPENMP"], [], []⟩], []) := by decide

/-- `-fsycl-targets=` replaces the default device pass by the listed ones (store_split with format) -/
example : (emulate builtinMap {} "icx" ["-fsycl-targets=spir64_gen,nvptx64-nvidia-cuda", "a.cpp"]).toOption.map
      (fun r => r.1.map (·.passName)) = some ["sycl-spir64_gen", "sycl-nvptx64-nvidia-cuda", "default"] := by decide

/-- `nvcc`: implicit `-D__NVCC__ -D__CUDACC__`, default pass `sm_70`; `--gpu-architecture` overrides it
(regex results supplied as a table), an undeclared architecture is reported and yields no configuration -/
example : emulate builtinMap {} "nvcc" ["x.cu"] =
    .ok ([⟨"sm_70", ["__NVCC__", "__CUDACC__", "__CUDA_ARCH__=700"], [], []⟩,
          ⟨"default", ["__NVCC__", "__CUDACC__"], [], []⟩], []) := by decide

example : emulate builtinMap { table := [(("--gpu-architecture", "sm_80,sm_60"), ["80", "60"])] } "nvcc"
      ["--gpu-architecture=sm_80,sm_60", "-fopenmp", "x.cu"] =
    .ok ([⟨"sm_80", ["__NVCC__", "__CUDACC__", "__CUDA_ARCH__=800"], [], []⟩,
          ⟨"default", ["__NVCC__", "__CUDACC__", "_OPENMP"], [], []⟩], [.badPass "sm_60"]) := by decide

/-- end to end on the regenerated table, regex computed by the model (no table supplied) -/
example : (emulateRe builtinMap [] "nvcc" ["--gpu-architecture=sm_80,sm_60", "x.cu"]).toOption.map
      (fun r => (r.1.map (·.passName), r.2)) = some (["sm_80", "default"], [.badPass "sm_60"]) := by decide

/-- alias outcomes on a table extended by a user file: chain through a built-in alias, loop, dangling target -/
def userAliases : UserFile := .defs [("c++", { aliasOf := some "g++" }), ("a", { aliasOf := some "b" }),
  ("b", { aliasOf := some "c" }), ("c", { aliasOf := some "b" }), ("d", { aliasOf := some "nope" })]

example : (match resolve (loadCompilers builtinFiles userAliases).1 "c++" with | .found c => c.parser.map (·.flags) | _ => []) =
    [["-fopenmp"]] := by decide
example : resolve (loadCompilers builtinFiles userAliases).1 "a" = .loop := by decide
example : resolve (loadCompilers builtinFiles userAliases).1 "d" = .unknownTarget "nope" := by decide
example : resolve (loadCompilers builtinFiles userAliases).1 "cl" = .notRecognized := by decide

/-- the hypotheses of `user_extends_builtin` hold for the built-in table and a user file that extends `nvcc`
and adds a compiler; the extended `nvcc` keeps its rules and passes and gains the option -/
def userExt : List (String × Definition) :=
  [("nvcc", { options := some ["-DEXTRA"] }), ("mycc", { options := some ["-DMY"] })]
example : (loadBuiltin builtinFiles []).2 = true ∧ userExt.all (·.2.valid) = true ∧ (userExt.map (·.1)).Nodup := by decide
example : (emulate (loadCompilers builtinFiles (.defs userExt)).1 {} "nvcc" ["x.cu"]).toOption.map (fun r => r.1.map (·.defines)) =
    some [["__NVCC__", "__CUDACC__", "EXTRA", "__CUDA_ARCH__=700"], ["__NVCC__", "__CUDACC__", "EXTRA"]] := by decide

end CbiVerif.C12.Builtin
