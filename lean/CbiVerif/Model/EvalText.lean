import CbiVerif.Model.EvalBridge
import CbiVerif.Model.LexLayout
/-! C02, text level: descriptors of a parse tree that the text-level theorems (`Props/C02Text.lean`) use as hypotheses and
    the driver (op `layoutx`) reports per generated case.  Core Lean only. -/
namespace CbiVerif.EvalBridge
open CbiVerif.CExpr

/-- the tree contains no `defined` operator (which the macro expander replaces before the evaluator runs) -/
def noDefined : CExpr.Ast → Bool
  | .defd _ _ => false
  | .lit _ | .chr _ | .ident _ => true
  | .paren a => noDefined a
  | .un _ a => noDefined a
  | .bin _ l r => noDefined l && noDefined r
  | .tern c t e => noDefined c && noDefined t && noDefined e

end CbiVerif.EvalBridge
