import CbiVerif.Lemmas.Regex
/-! completeness of the back-tracking matcher and of the `findall` scan (helper lemmas for `Props/C12RegexComplete.lean`) -/
namespace CbiVerif.Regex

/-- a continuation that always fails makes the matcher fail -/
theorem matchRe_none {R : Type} (r : Re) (s : List Char) (caps : Caps) : matchRe r s caps (fun _ _ => (none : Option R)) = none := by
  cases h : matchRe r s caps (fun _ _ => (none : Option R)) with
  | none => rfl
  | some x => obtain ⟨_, _, _, hk⟩ := matchRe_sound r s caps _ x h; simp at hk

/-- what a match leaves unread is not longer than the text -/
theorem Match.length_le {r : Re} {s s' : List Char} (h : Match r s s') : s'.length ≤ s.length := by
  obtain ⟨w, hw⟩ := h.suffix
  rw [hw]; simp

theorem Match.eq_of_length {r : Re} {s s' : List Char} (h : Match r s s') (hl : ¬ s'.length < s.length) : s' = s := by
  obtain ⟨w, hw⟩ := h.suffix
  have : w.length = 0 := by rw [hw] at hl; simp only [List.length_append] at hl; omega
  have : w = [] := List.eq_nil_of_length_eq_zero this
  rw [hw, this]; rfl

/-- the fuel of the repetition loop is irrelevant once it covers the text -/
theorem starLoop_fuel {R : Type} (r : Re) (k : Cont R) : ∀ (n m : Nat) (s : List Char) (caps : Caps),
    s.length ≤ n → s.length ≤ m →
    starLoop (fun s0 c0 k0 => matchRe r s0 c0 k0) n s caps k = starLoop (fun s0 c0 k0 => matchRe r s0 c0 k0) m s caps k := by
  intro n
  induction n with
  | zero =>
    intro m s caps hn _
    have : s = [] := List.eq_nil_of_length_eq_zero (by omega)
    subst this
    cases m with
    | zero => rfl
    | succ m =>
      simp only [starLoop]
      have : (fun (s' : List Char) (caps' : Caps) => if s'.length < ([] : List Char).length then
          starLoop (fun s0 c0 k0 => matchRe r s0 c0 k0) m s' caps' k else none) = fun _ _ => none := by
        funext s' caps'; simp
      rw [this, matchRe_none]
  | succ n ih =>
    intro m s caps hn hm
    cases m with
    | zero =>
      have : s = [] := List.eq_nil_of_length_eq_zero (by omega)
      subst this
      simp only [starLoop]
      have : (fun (s' : List Char) (caps' : Caps) => if s'.length < ([] : List Char).length then
          starLoop (fun s0 c0 k0 => matchRe r s0 c0 k0) n s' caps' k else none) = fun _ _ => none := by
        funext s' caps'; simp
      rw [this, matchRe_none]
    | succ m =>
      simp only [starLoop]
      have : (fun (s' : List Char) (caps' : Caps) => if s'.length < s.length then
          starLoop (fun s0 c0 k0 => matchRe r s0 c0 k0) n s' caps' k else none) =
          (fun (s' : List Char) (caps' : Caps) => if s'.length < s.length then
          starLoop (fun s0 c0 k0 => matchRe r s0 c0 k0) m s' caps' k else none) := by
        funext s' caps'
        by_cases hl : s'.length < s.length
        · simp only [hl, if_true]; exact ih m s' caps' (by omega) (by omega)
        · simp [hl]
      rw [this]

/-- completeness in continuation form: when the language has a match `s ↦ s'` and the continuation accepts `s'`
    (whatever the groups), the matcher succeeds -/
theorem matchRe_complete {r : Re} {s s' : List Char} (h : Match r s s') :
    ∀ {R : Type} (caps : Caps) (k : Cont R), (∀ caps', (k s' caps').isSome = true) → (matchRe r s caps k).isSome = true := by
  induction h with
  | empty s => intro R caps k hk; simpa [matchRe] using hk caps
  | chr c s => intro R caps k hk; simpa [matchRe] using hk caps
  | any c s hc => intro R caps k hk; simpa [matchRe, hc] using hk caps
  | cls neg items c s hc => intro R caps k hk; simpa [matchRe, hc] using hk caps
  | seq _ _ ih1 ih2 =>
    intro R caps k hk
    simp only [matchRe]
    exact ih1 caps _ (fun c1 => ih2 c1 k hk)
  | altL _ ih =>
    intro R caps k hk
    simp only [matchRe]
    have := ih caps k hk
    cases hm : matchRe _ _ caps k with
    | none => rw [hm] at this; simp at this
    | some x => rfl
  | @altR a b s s1 _ ih =>
    intro R caps k hk
    simp only [matchRe]
    cases hm : matchRe a s caps k with
    | none => exact ih caps k hk
    | some x => rfl
  | star0 r s =>
    intro R caps k hk
    simp only [matchRe]
    cases hn : s.length with
    | zero => simpa [starLoop] using hk caps
    | succ n =>
      simp only [starLoop]
      cases matchRe r s caps _ with
      | none => exact hk caps
      | some x => rfl
  | @starS r s s1 s2 hm1 hm2 ih1 ih2 =>
    intro R caps k hk
    by_cases hl : s1.length < s.length
    · simp only [matchRe]
      cases hn : s.length with
      | zero => omega
      | succ n =>
        simp only [starLoop]
        have hb := ih1 caps (fun s' caps' => if s'.length < s.length then
            starLoop (fun s0 c0 k0 => matchRe r s0 c0 k0) n s' caps' k else none) (by
          intro c1
          simp only [hl, if_true]
          have := ih2 c1 k hk
          simp only [matchRe] at this
          rw [starLoop_fuel r k n s1.length s1 c1 (by omega) (Nat.le_refl _)]
          exact this)
        cases hm : matchRe r s caps _ with
        | none => rw [hm] at hb; simp at hb
        | some x => rfl
    · have := hm1.eq_of_length hl
      subst this
      exact ih2 caps k hk
  | @plus r s s1 s2 _ _ ih1 ih2 =>
    intro R caps k hk
    simp only [matchRe]
    refine ih1 caps _ (fun c1 => ?_)
    have := ih2 c1 k hk
    simpa only [matchRe] using this
  | opt0 r s =>
    intro R caps k hk
    simp only [matchRe]
    cases matchRe r s caps k with
    | none => exact hk caps
    | some x => rfl
  | optS _ ih =>
    intro R caps k hk
    simp only [matchRe]
    have := ih caps k hk
    cases hm : matchRe _ _ caps k with
    | none => rw [hm] at this; simp at this
    | some x => rfl
  | group _ ih =>
    intro R caps k hk
    simp only [matchRe]
    exact ih caps _ (fun c1 => hk _)
  | eol s hs =>
    intro R caps k hk
    simp only [matchRe]
    have : (s.isEmpty || s == ['\n']) = true := by
      rcases hs with h | h <;> subst h <;> decide
    simpa [this] using hk caps

/-- one match attempt: it succeeds whenever the language has a match that the attempt may report -/
theorem matchAt_complete (r : Re) (adv : Bool) (s s' : List Char) (h : Match r s s')
    (hadv : adv = true → s'.length ≠ s.length) : (matchAt r adv s).isSome = true := by
  apply matchRe_complete h
  intro caps'
  by_cases ha : adv = true
  · simp [fin, ha, hadv ha]
  · simp [fin, ha]

/-! ## the leftmost search -/

/-- "the language has a match at this position that a match attempt with `adv` may report" -/
def Reportable (r : Re) (adv : Bool) (s : List Char) : Prop := ∃ s', Match r s s' ∧ (adv = true → s'.length ≠ s.length)

theorem matchAt_isSome_iff (r : Re) (adv : Bool) (s : List Char) : (matchAt r adv s).isSome = true ↔ Reportable r adv s := by
  constructor
  · intro h
    cases hm : matchAt r adv s with
    | none => rw [hm] at h; simp at h
    | some y => exact ⟨y.1, (matchAt_sound r adv s y.1 y.2 hm).1, (matchAt_sound r adv s y.1 y.2 hm).2⟩
  · rintro ⟨s', hm, ha⟩; exact matchAt_complete r adv s s' hm ha

/-- `search` answers the leftmost position that has a reportable match (`adv` constrains position 0 only) -/
theorem search_leftmost (r : Re) : ∀ (s : List Char) (off : Nat) (adv : Bool) st sAt rest caps,
    search r off s adv = some (st, sAt, rest, caps) →
    ∃ k, st = off + k ∧ k ≤ s.length ∧ sAt = s.drop k ∧ matchAt r (adv && k == 0) sAt = some (rest, caps) ∧
      ∀ j, j < k → ¬ Reportable r (adv && j == 0) (s.drop j) := by
  intro s
  induction s with
  | nil =>
    intro off adv st sAt rest caps h
    simp only [search] at h
    cases hm : matchAt r adv [] with
    | none => simp [hm] at h
    | some y =>
      obtain ⟨s', c'⟩ := y
      simp only [hm] at h
      have h := Option.some.inj h
      simp only [Prod.mk.injEq] at h
      obtain ⟨h1, h2, h3, h4⟩ := h
      subst h1 h2 h3 h4
      exact ⟨0, rfl, Nat.le_refl _, rfl, by simpa using hm, fun j hj => absurd hj (Nat.not_lt_zero _)⟩
  | cons a t ih =>
    intro off adv st sAt rest caps h
    simp only [search] at h
    cases hm : matchAt r adv (a :: t) with
    | none =>
      simp only [hm] at h
      obtain ⟨k, hk1, hk2, hk3, hk4, hk5⟩ := ih _ _ _ _ _ _ h
      refine ⟨k + 1, by omega, by simp; omega, by simpa using hk3, ?_, ?_⟩
      · have : (adv && (k + 1 == 0)) = (false && k == 0) := by simp
        rw [this]; exact hk4
      · intro j hj
        cases j with
        | zero =>
          intro hr
          have := (matchAt_isSome_iff r adv (a :: t)).mpr (by simpa using hr)
          rw [hm] at this; simp at this
        | succ j =>
          have := hk5 j (by omega)
          simpa using this
    | some y =>
      obtain ⟨s', c'⟩ := y
      simp only [hm] at h
      have h := Option.some.inj h
      simp only [Prod.mk.injEq] at h
      obtain ⟨h1, h2, h3, h4⟩ := h
      subst h1 h2 h3 h4
      exact ⟨0, rfl, Nat.zero_le _, rfl, by simpa using hm, fun j hj => absurd hj (Nat.not_lt_zero _)⟩

/-- `search` answers `none` only when no position has a reportable match -/
theorem search_none (r : Re) : ∀ (s : List Char) (off : Nat) (adv : Bool), search r off s adv = none →
    ∀ j, j ≤ s.length → ¬ Reportable r (adv && j == 0) (s.drop j) := by
  intro s
  induction s with
  | nil =>
    intro off adv h j hj
    have : j = 0 := by simpa using hj
    subst this
    intro hr
    have := (matchAt_isSome_iff r adv []).mpr (by simpa using hr)
    simp only [search] at h
    cases hm : matchAt r adv [] with
    | none => rw [hm] at this; simp at this
    | some y => simp [hm] at h
  | cons a t ih =>
    intro off adv h j hj
    simp only [search] at h
    cases hm : matchAt r adv (a :: t) with
    | some y => simp [hm] at h
    | none =>
      simp only [hm] at h
      cases j with
      | zero =>
        intro hr
        have := (matchAt_isSome_iff r adv (a :: t)).mpr (by simpa using hr)
        rw [hm] at this; simp at this
      | succ j =>
        have := ih _ _ h j (by simpa using hj)
        simpa using this

/-! ## the scan reports every match start that is not inside an earlier hit -/

/-- a position is accounted for by a hit: it is the start of the hit or lies strictly inside it -/
def Hit.covers (h : Hit) (p : Nat) : Prop := h.start = p ∨ (h.start < p ∧ p < h.start + h.text.length)

theorem scan_complete (r : Re) : ∀ (fuel off : Nat) (s : List Char) (adv : Bool),
    2 * s.length + (if adv then 0 else 1) < fuel →
    ∀ j, j ≤ s.length → Reportable r (adv && j == 0) (s.drop j) → ∃ h ∈ scan r fuel off s adv, h.covers (off + j) := by
  intro fuel
  induction fuel with
  | zero => intro off s adv hf; omega
  | succ fuel ih =>
    intro off s adv hf j hj hr
    simp only [scan]
    cases hs : search r off s adv with
    | none => exact absurd hr (search_none r s off adv hs j hj)
    | some y =>
      obtain ⟨st, sAt, rest, caps⟩ := y
      simp only []
      obtain ⟨k, hk1, hk2, hk3, hk4, hk5⟩ := search_leftmost r s off adv st sAt rest caps hs
      obtain ⟨hmatch, hadv⟩ := matchAt_sound r _ sAt rest caps hk4
      obtain ⟨w, hw⟩ := hmatch.suffix
      have hlen : sAt.length - rest.length = w.length := by rw [hw]; simp
      have htake : sAt.take (sAt.length - rest.length) = w := by rw [hlen, hw]; simp
      have hdrop : s.drop (k + w.length) = rest := by
        rw [← List.drop_drop, ← hk3, hw]; simp
      have hkl : k + w.length ≤ s.length := by
        have : sAt.length = s.length - k := by rw [hk3]; simp
        rw [hw] at this; simp at this; omega
      have hrl : rest.length = s.length - (k + w.length) := by rw [← hdrop]; simp
      rw [htake, hlen]
      by_cases hjk : j < k
      · exact absurd hr (hk5 j hjk)
      · by_cases hjk2 : j = k
        · exact ⟨_, List.mem_cons_self, Or.inl (by simp [hk1, hjk2])⟩
        · by_cases hin : j < k + w.length
          · exact ⟨_, List.mem_cons_self, Or.inr ⟨by simp [hk1]; omega, by simp [hk1]; omega⟩⟩
          · -- the position lies in what the rest of the scan sees
            have hwk : w.length = 0 → adv = false ∨ 0 < k := by
              intro hw0
              cases adv with
              | false => exact Or.inl rfl
              | true =>
                right
                apply Nat.pos_of_ne_zero
                intro hk0
                have := hadv (by simp [hk0])
                apply this
                rw [hw]; simp [hw0]
            have hfuel : 2 * rest.length + (if (w.length == 0) = true then 0 else 1) < fuel := by
              rw [hrl]
              by_cases hw0 : w.length = 0
              · simp only [hw0, beq_self_eq_true, if_true]
                rcases hwk hw0 with ha | hk0
                · subst ha; simp at hf; omega
                · cases adv <;> simp at hf <;> omega
              · have : (w.length == 0) = false := by simpa using hw0
                simp only [this]
                cases adv <;> simp at hf ⊢ <;> omega
            have hj' : j - (k + w.length) ≤ rest.length := by rw [hrl]; omega
            have hrep : Reportable r ((w.length == 0) && (j - (k + w.length) == 0)) (rest.drop (j - (k + w.length))) := by
              have e : rest.drop (j - (k + w.length)) = s.drop j := by
                rw [← hdrop, List.drop_drop]; congr 1; omega
              rw [e]
              obtain ⟨s', hm, _⟩ := hr
              refine ⟨s', hm, ?_⟩
              intro hc
              exfalso
              simp only [Bool.and_eq_true, beq_iff_eq] at hc
              omega
            obtain ⟨h, hh, hcov⟩ := ih (st + w.length) rest (w.length == 0) hfuel _ hj' hrep
            refine ⟨h, List.mem_cons_of_mem _ hh, ?_⟩
            have e : st + w.length + (j - (k + w.length)) = off + j := by omega
            rw [e] at hcov
            exact hcov

end CbiVerif.Regex
