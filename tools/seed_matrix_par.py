#!/venv/bin/python
"""seed_matrix_par.py [-j N] [--only=m9,m10] [--tier=quick] [--cross] [PROP ...]

Parallel form of seed_matrix.py.  Every worker owns a private copy of /verif (with its build output,
under /tmp/smx_<k>/verif) and runs ./check there against a scratch worktree of /repo HEAD with one
seeded change applied (CBI_REPO), so that neither /repo nor /verif/lean's regenerated tables are
touched and workers cannot disturb each other.  Outcomes are recorded in /verif/seeded/<id>/meta.json
(checks_run) by the parent process only.  --cross additionally runs the checks named in the seed's
meta.json under "also" (neighbouring properties)."""
import json, os, shutil, subprocess, sys, tempfile, time
from concurrent.futures import ThreadPoolExecutor
from pathlib import Path
from queue import Queue

V = Path("/verif")
args = sys.argv[1:]
J = 6
if "-j" in args:
    i = args.index("-j"); J = int(args[i + 1]); del args[i:i + 2]
props = [a for a in args if not a.startswith("--")]
only = [a.split("=")[1].split(",") for a in args if a.startswith("--only=")]
tier = ([a.split("=")[1] for a in args if a.startswith("--tier=")] or ["quick"])[0]
also = [a.split("=")[1].split(",") for a in args if a.startswith("--also=")]
missed_only = "--missed" in args
names = [a.split("=")[1].split(",") for a in args if a.startswith("--seeds=")]
noself = "--noself" in args

jobs = []
for sd in sorted(p for p in (V / "seeded").iterdir() if p.is_dir() and (p / "meta.json").exists()):
    meta = json.loads((sd / "meta.json").read_text())
    pid = meta["property"]
    if props and pid not in props:
        continue
    if only and sd.name.split("-")[1] not in only[0]:
        continue
    if names and sd.name not in names[0]:
        continue
    if missed_only and any(c.get("caught") for c in meta.get("checks_run", [])):
        continue
    chks = ([] if noself else [pid]) + [c for c in (also[0] if also else []) if c != pid]
    if "--all-checks" in args:
        chks = [f"C{i:02d}" for i in range(1, 19) if f"C{i:02d}" != pid]
    for chk in chks:
        jobs.append((sd, chk))

workers = Queue()
for k in range(min(J, len(jobs))):
    w = Path(f"/tmp/smx_{k}")
    shutil.rmtree(w, ignore_errors=True)
    w.mkdir(parents=True)
    subprocess.run(["cp", "-r", str(V), str(w / "verif")], check=True)
    shutil.rmtree(w / "verif" / ".git", ignore_errors=True)
    workers.put(w)
subprocess.run(["git", "-C", "/repo", "worktree", "prune"])


def run(job):
    sd, chk = job
    w = workers.get()
    wt = w / "repo"
    try:
        subprocess.run(["git", "-C", "/repo", "worktree", "add", "-q", "--detach", str(wt), "HEAD"], check=True)
        a = subprocess.run(["git", "-C", str(wt), "apply", str(sd / "patch.diff")], capture_output=True, text=True)
        if a.returncode != 0:
            return sd, chk, dict(check=f"./check {chk} {tier}", exit=2, caught=False, how="patch does not apply", first_lines=[a.stderr[:200]])
        t0 = time.time()
        try:
            r = subprocess.run(["./check", chk, tier], cwd=w / "verif", capture_output=True, text=True, timeout=2400,
                               env=dict(os.environ, CBI_REPO=str(wt)))
        except subprocess.TimeoutExpired:
            r = subprocess.CompletedProcess([], 2, "  check timed out after 2400 s\n", "")
        vio = [l for l in r.stdout.splitlines() if l.startswith("VIOLATION")]
        caught = r.returncode == 1 and bool(vio)
        how = "not caught"
        if caught:
            how = "no-failing-input-found" if vio[0].rstrip().endswith("no-failing-input-found") else "violation with concrete replay"
        elif r.returncode == 2:
            how = "check failed internally (exit 2)"
        detail = [l.strip()[:300] for l in r.stdout.splitlines() if l.startswith("  ")][:2]
        if r.returncode == 2:
            detail = [l[:300] for l in (r.stdout + r.stderr).splitlines()[-3:]]
        return sd, chk, dict(check=f"./check {chk} {tier}", exit=r.returncode, caught=caught, how=how, first_lines=detail,
                             seconds=round(time.time() - t0))
    finally:
        subprocess.run(["git", "-C", "/repo", "worktree", "remove", "--force", str(wt)], capture_output=True)
        shutil.rmtree(wt, ignore_errors=True)
        workers.put(w)


with ThreadPoolExecutor(J) as ex:
    for sd, chk, entry in ex.map(run, jobs):
        meta = json.loads((sd / "meta.json").read_text())
        meta["checks_run"] = [e for e in meta.get("checks_run", []) if e.get("check") != entry["check"]] + [entry]
        (sd / "meta.json").write_text(json.dumps(meta, indent=1))
        print(f"{sd.name:12s} {chk} {entry['how']:34s} {entry.get('seconds','')}s {entry['first_lines'][:1]}", flush=True)
for k in range(J):
    shutil.rmtree(f"/tmp/smx_{k}", ignore_errors=True)
subprocess.run(["git", "-C", "/repo", "worktree", "prune"])
