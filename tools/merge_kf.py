#!/venv/bin/python
"""merge_kf.py <agent name> [PROP ...]: copy the known_findings.json entries of the given properties from the agent copy."""
import json, sys
name=sys.argv[1]; props=sys.argv[2:]
src=json.load(open(f"/tmp/ag_{name}/verif/known_findings.json"))["findings"]
dst=json.load(open("/verif/known_findings.json"))
have={(f["property"],f["id"],f["status"]) for f in dst["findings"]}
n=0
for f in src:
    if f["property"] in props and (f["property"],f["id"],f["status"]) not in have:
        dst["findings"].append(f); n+=1
json.dump(dst,open("/verif/known_findings.json","w"),indent=1)
print("merged",n,"entries")
