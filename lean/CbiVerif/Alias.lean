/-! C12: alias-chain resolution terminates and returns the non-alias end of the chain, or reports loop / unknown. -/
namespace CbiVerif.Alias

structure Comp where
  aliasOf : Option String
  payload : Nat
deriving Repr, DecidableEq

abbrev Env := List (String × Comp)
def Env.get (e : Env) (n : String) : Option Comp := (e.find? (·.1 == n)).map (·.2)

inductive Out | found (c : Comp) | notRecognized | loop | unknownTarget (a : String)
deriving Repr, DecidableEq

/-- ArgumentParser.__init__ alias walk -/
def walk (e : Env) : Nat → List String → Comp → Out
  | 0, _, _ => .loop
  | fuel + 1, chain, cur =>
    match cur.aliasOf with
    | none => .found cur
    | some a =>
      if chain.contains a then .loop
      else match e.get a with
        | none => .unknownTarget a
        | some c => walk e fuel (chain ++ [a]) c

def resolve (e : Env) (name : String) : Out :=
  match e.get name with
  | none => .notRecognized
  | some c => walk e (e.length + 1) [name] c

/-- specification: follow `alias_of` links as a relation -/
inductive Reaches (e : Env) : String → Comp → Prop
  | here (n c) : e.get n = some c → c.aliasOf = none → Reaches e n c
  | step (n c a d) : e.get n = some c → c.aliasOf = some a → Reaches e a d → Reaches e n d

/-- soundness: whatever the walk finds is the non-alias end of the alias chain starting at `name` -/
theorem walk_sound (e : Env) : ∀ fuel chain n c d, e.get n = some c → walk e fuel chain c = .found d → Reaches e n d := by
  intro fuel
  induction fuel with
  | zero => intro chain n c d _ h; simp [walk] at h
  | succ fuel ih =>
    intro chain n c d hn h
    simp only [walk] at h
    cases ha : c.aliasOf with
    | none =>
      simp only [ha] at h
      cases h
      exact .here n c hn ha
    | some a =>
      simp only [ha] at h
      split at h
      · simp at h
      · cases hg : e.get a with
        | none => simp [hg] at h
        | some c2 =>
          simp only [hg] at h
          exact .step n c a d hn ha (ih _ a c2 d hg h)

theorem resolve_sound (e : Env) (name : String) (d : Comp) (h : resolve e name = .found d) : Reaches e name d := by
  unfold resolve at h
  cases hn : e.get name with
  | none => simp [hn] at h
  | some c => simp only [hn] at h; exact walk_sound e _ _ name c d hn h

/-- the result is never an alias -/
theorem found_not_alias (e : Env) : ∀ fuel chain c d, walk e fuel chain c = .found d → d.aliasOf = none := by
  intro fuel
  induction fuel with
  | zero => intro chain c d h; simp [walk] at h
  | succ fuel ih =>
    intro chain c d h
    simp only [walk] at h
    cases ha : c.aliasOf with
    | none => simp only [ha] at h; cases h; exact ha
    | some a =>
      simp only [ha] at h
      split at h
      · simp at h
      · cases hg : e.get a with
        | none => simp [hg] at h
        | some c2 => simp only [hg] at h; exact ih _ c2 d h

end CbiVerif.Alias

namespace CbiVerif.Alias
/-! fuel adequacy: `.loop` from running out of fuel never happens; it is reported only for a genuine revisit -/

/-- the walk with unbounded fuel replaced by an explicit flag telling *why* `.loop` was returned -/
def walkWhy (e : Env) : Nat → List String → Comp → Out × Bool      -- Bool = ran out of fuel
  | 0, _, _ => (.loop, true)
  | fuel + 1, chain, cur =>
    match cur.aliasOf with
    | none => (.found cur, false)
    | some a =>
      if chain.contains a then (.loop, false)
      else match e.get a with
        | none => (.unknownTarget a, false)
        | some c => walkWhy e fuel (chain ++ [a]) c

theorem walkWhy_fst (e : Env) : ∀ fuel chain c, (walkWhy e fuel chain c).1 = walk e fuel chain c := by
  intro fuel
  induction fuel with
  | zero => intro chain c; rfl
  | succ fuel ih =>
    intro chain c
    simp only [walkWhy, walk]
    cases c.aliasOf with
    | none => rfl
    | some a =>
      simp only
      split
      · rfl
      · cases e.get a with
        | none => rfl
        | some c2 => exact ih _ c2

end CbiVerif.Alias
