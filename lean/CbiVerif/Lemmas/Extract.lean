import CbiVerif.Spec.Extract
/-! C11 helper lemmas about the property-level extractor alone. -/
set_option linter.unusedSimpArgs false
namespace CbiVerif.ExtractLemmas
open CbiVerif.Extract

theorem Lists.append_empty (l : Lists) : l.append {} = l := by
  cases l; simp [Lists.append]

theorem Lists.empty_append (l : Lists) : Lists.append {} l = l := by
  cases l; simp [Lists.append]

theorem Lists.append_assoc (a b c : Lists) : (a.append b).append c = a.append (b.append c) := by
  simp [Lists.append]

theorem Lists.add_eq (l : Lists) (f : Flag) (v : List Char) : l.add f v = l.append (Lists.add {} f v) := by
  cases f <;> simp [Lists.add, Lists.append]

/-- the accumulator of the scan is a prefix of its result -/
theorem scan_acc : ∀ (xs : List (List Char)) (sp : Option Flag) (l : Lists),
    scan sp l xs = l.append (scan sp {} xs)
  | [], sp, l => by cases sp <;> simp [scan, Lists.append_empty]
  | a :: rest, some f, l => by
    simp only [scan]
    rw [scan_acc rest none (l.add f a), scan_acc rest none (Lists.add {} f a), Lists.add_eq l f a, Lists.append_assoc]
  | a :: rest, none, l => by
    simp only [scan]
    cases hr : reading a with
    | other => exact scan_acc rest none l
    | sep f => exact scan_acc rest (some f) l
    | att f v =>
      simp only []
      rw [scan_acc rest none (l.add f v), scan_acc rest none (Lists.add {} f v), Lists.add_eq l f v, Lists.append_assoc]

theorem scan_append : ∀ (xs ys : List (List Char)) (sp : Option Flag) (l : Lists),
    completeFrom sp xs = true → scan sp l (xs ++ ys) = scan none (scan sp l xs) ys
  | [], ys, none, l, _ => by simp [scan]
  | [], ys, some f, l, h => by simp [completeFrom] at h
  | a :: rest, ys, some f, l, h => by
    simp only [completeFrom] at h
    simp only [List.cons_append, scan]
    exact scan_append rest ys none _ h
  | a :: rest, ys, none, l, h => by
    simp only [completeFrom] at h
    simp only [List.cons_append, scan]
    cases hr : reading a with
    | other => simp only [hr] at h; exact scan_append rest ys none _ h
    | sep f => simp only [hr] at h; exact scan_append rest ys (some f) _ h
    | att f v => simp only [hr] at h; exact scan_append rest ys none _ h

/-- a complete prefix contributes its own lists, the rest is read independently -/
theorem lists_append (xs ys : List (List Char)) (h : Complete xs) :
    lists (xs ++ ys) = (lists xs).append (lists ys) := by
  unfold lists
  rw [scan_append xs ys none {} h, scan_acc ys none (scan none {} xs)]

theorem complete_append : ∀ (xs ys : List (List Char)) (sp : Option Flag),
    completeFrom sp xs = true → completeFrom none ys = true → completeFrom sp (xs ++ ys) = true
  | [], ys, none, _, h2 => by simpa using h2
  | [], ys, some f, h, _ => by simp [completeFrom] at h
  | a :: rest, ys, some f, h, h2 => by
    simp only [completeFrom] at h
    simp only [List.cons_append, completeFrom]
    exact complete_append rest ys none h h2
  | a :: rest, ys, none, h, h2 => by
    simp only [completeFrom] at h
    simp only [List.cons_append, completeFrom]
    cases hr : reading a with
    | other => simp only [hr] at h ⊢; exact complete_append rest ys none h h2
    | sep f => simp only [hr] at h ⊢; exact complete_append rest ys (some f) h h2
    | att f v => simp only [hr] at h ⊢; exact complete_append rest ys none h h2

theorem stripPrefix_append : ∀ (p r : List Char), stripPrefix p (p ++ r) = some r
  | [], r => by simp [stripPrefix]
  | p :: ps, r => by simp [stripPrefix, stripPrefix_append ps r]

theorem reading_sep (f : Flag) : reading f.text = .sep f := by cases f <;> decide

/-- a flag with a non-empty attached remainder is read as that flag and that remainder -/
theorem reading_att (f : Flag) (v : List Char) (hv : v ≠ []) : reading (f.text ++ v) = .att f v := by
  cases v with
  | nil => exact absurd rfl hv
  | cons c cs =>
    cases f <;> simp [reading, readingFrom, allFlags, Flag.text, stripPrefix]

theorem lists_item (it : Item) (h : it.WF) :
    Complete it.render ∧ ∀ g, (lists it.render).get g = (it.value? g).toList := by
  cases it with
  | sep f v =>
    constructor
    · simp [Complete, Item.render, completeFrom, reading_sep]
    · intro g
      simp only [lists, Item.render, scan, reading_sep, Item.value?]
      cases f <;> cases g <;> simp [Lists.add, Lists.get]
  | att f v =>
    have hr := reading_att f v h
    constructor
    · simp [Complete, Item.render, completeFrom, hr]
    · intro g
      simp only [lists, Item.render, scan, hr, Item.value?]
      cases f <;> cases g <;> simp [Lists.add, Lists.get]
  | other u =>
    have hr : reading u = .other := h
    constructor
    · simp [Complete, Item.render, completeFrom, hr]
    · intro g
      simp only [lists, Item.render, scan, hr, Item.value?]
      cases g <;> simp [Lists.get]

theorem Lists.get_append (a b : Lists) (g : Flag) : (a.append b).get g = a.get g ++ b.get g := by
  cases g <;> simp [Lists.append, Lists.get]

theorem lists_items : ∀ (items : List Item), (∀ it ∈ items, it.WF) →
    Complete (renderAll items) ∧ ∀ g, (lists (renderAll items)).get g = items.filterMap (Item.value? g)
  | [], _ => ⟨by simp [Complete, renderAll, completeFrom], by intro g; cases g <;> simp [renderAll, lists, scan, Lists.get]⟩
  | it :: rest, h => by
    have hit := lists_item it (h it (by simp))
    have ih := lists_items rest (fun x hx => h x (by simp [hx]))
    have e : renderAll (it :: rest) = it.render ++ renderAll rest := by simp [renderAll]
    rw [e]
    constructor
    · exact complete_append _ _ none hit.1 ih.1
    · intro g
      rw [lists_append _ _ hit.1, Lists.get_append, hit.2 g, ih.2 g]
      cases hv : it.value? g <;> simp [List.filterMap_cons, hv]

end CbiVerif.ExtractLemmas
