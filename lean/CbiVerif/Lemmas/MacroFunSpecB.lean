import CbiVerif.Lemmas.MacroFunSpecA
/-! # C03, function-like fragment against the specification, part B: reference `Ref` = `Spec.Prosser.expand`

`confb` is the (decidable) additional fragment condition under which the recursive reference `Ref` (which the stack machine is
proved to compute, `C03.funlike_partial`) and Prosser's hide-set algorithm produce the same spellings:

* every call has exactly as many arguments as the macro has parameters (the specification rejects anything else, 6.10.3 p.4;
  `fitsb` only asks for *enough* arguments);
* the arguments of every call met during the expansion contain no macro name (`inertb`) and are at most `L` tokens long
  (the specification expands an argument with the fuel that is left, so `L` is what must be left at the end).

The first condition is forced by the standard.  The second is what keeps all tokens of a list under one hide set: without it
`Ref` and Prosser's algorithm really differ (`C03.ref_vs_prosser_witness`: a function-like name left over by the expansion of
an argument carries the hide set of that expansion when it is finally called; gcc decides like `Ref` there — C11 6.10.3.4 p.4
leaves the nesting unspecified). -/
namespace CbiVerif.MX
open CbiVerif.PP
open CbiVerif.Spec.Prosser (T K Macros Unspec)

/-- 6.10.3 p.4: as many arguments as parameters; `F()` calls a macro without parameters -/
def arityOk (ps : List String) (args : List (List Tok)) : Bool :=
  (ps.isEmpty && decide (args.length = 1) && (args.headD []).isEmpty) || decide (args.length = ps.length)

def scanConf (tbl : Table) (L : Nat) (ex : NoExp → List Tok → List Tok) (conf : NoExp → List Tok → Bool) : Nat → NoExp → List Tok → Bool
  | 0, _, _ => true
  | _ + 1, _, [] => true
  | n + 1, D, t :: ts =>
    if t.kind != .ident then scanConf tbl L ex conf n D ts
    else if !t.expandable || D.contains (some t.text) then scanConf tbl L ex conf n D ts
    else
      match tbl.get t.text with
      | none => scanConf tbl L ex conf n D ts
      | some m =>
        match m.args with
        | none => conf (some m.name :: D) (fixpw m.replacement t.pw) && scanConf tbl L ex conf n D ts
        | some ps =>
          match callOf ts with
          | none => scanConf tbl L ex conf n D ts
          | some (args, rest) =>
            arityOk ps args && args.all (fun a => decide (a.length ≤ L) && a.all (inertb tbl)) &&
            conf (some m.name :: D) (fixpw (substRef ps (args.map (ex (none :: D))) m.replacement) t.pw) &&
            scanConf tbl L ex conf n D rest

/-- **the additional fragment condition for conformance to the specification** (see the header) -/
def confb (tbl : Table) (L : Nat) : Nat → NoExp → List Tok → Bool
  | 0, _, _ => true
  | d + 1, D, ts => scanConf tbl L (Ref tbl d) (confb tbl L d) ts.length D ts

/-- tables of the comparison: macros keyed by their own name, replacement lists of comparable tokens -/
structure ConfTbl (tbl : Table) : Prop where
  named : ∀ n m, tbl.get n = some m → m.name = n
  toks : ∀ n m, tbl.get n = some m → ∀ t ∈ m.replacement, CTok tbl t

def confTblb (tbl : Table) : Bool :=
  tbl.all (fun e => e.2.name == e.1) && tbl.all (fun e => e.2.replacement.all (ctokb tbl))

theorem confTbl_of_check (tbl : Table) (h : confTblb tbl = true) : ConfTbl tbl := by
  simp only [confTblb, Bool.and_eq_true] at h
  obtain ⟨h2, h3⟩ := h
  refine ⟨?_, ?_⟩
  · intro n m hm
    obtain ⟨e, he, rfl, rfl⟩ := get_mem tbl n m hm
    simpa using (List.all_eq_true.mp h2) e he
  · intro n m hm t ht
    obtain ⟨e, he, rfl, rfl⟩ := get_mem tbl n m hm
    exact ctok_of_check tbl t ((List.all_eq_true.mp ((List.all_eq_true.mp h3) e he)) t ht)

/-! ## the expansion of a list without macro names: the same tokens, some of them painted -/
def pmark (D : NoExp) (t : Tok) : Tok :=
  if t.kind != .ident then t else if !t.expandable || D.contains (some t.text) then paint t else t

theorem inert_scan_map (tbl : Table) (ex : NoExp → List Tok → List Tok) : ∀ (n : Nat) (D : NoExp) (a : List Tok), a.length ≤ n →
    (∀ t ∈ a, Inert tbl t) → scanRef tbl ex n D a = a.map (pmark D) := by
  intro n
  induction n with
  | zero =>
    intro D a hn _
    have : a = [] := by cases a with | nil => rfl | cons x xs => simp at hn
    subst this; simp [scanRef]
  | succ n ih =>
    intro D a hn hin
    cases a with
    | nil => simp [scanRef]
    | cons x xs =>
      have hn' : xs.length ≤ n := by simp at hn; omega
      have i1 := ih D xs hn' (fun t ht => hin t (by simp [ht]))
      have hx := hin x (by simp)
      simp only [scanRef, List.map_cons, pmark, i1]
      by_cases hk : (x.kind != TKind.ident) = true
      · simp only [hk, if_true]
      · have hki : x.kind = .ident := by simpa using hk
        have hk' : (x.kind != TKind.ident) = false := by simpa using hk
        simp only [hk', Bool.false_eq_true, if_false, hx.2 hki]
        by_cases hq : (!x.expandable || D.contains (some x.text)) = true
        · simp only [hq, if_true]
        · have hq' : (!x.expandable || D.contains (some x.text)) = false := by simpa using hq
          simp only [hq', Bool.false_eq_true, if_false]

theorem pmark_cases (D : NoExp) (t : Tok) : pmark D t = t ∨ pmark D t = paint t := by
  unfold pmark
  split
  · exact Or.inl rfl
  · split
    · exact Or.inr rfl
    · exact Or.inl rfl

theorem inert_ref_map (tbl : Table) (d : Nat) (D : NoExp) (a : List Tok) (h : ∀ t ∈ a, Inert tbl t) :
    ∃ g : Tok → Tok, (∀ t, g t = t ∨ g t = paint t) ∧ Ref tbl d D a = a.map g := by
  cases d with
  | zero => exact ⟨id, fun t => Or.inl rfl, by simp [Ref]⟩
  | succ d =>
    refine ⟨pmark D, pmark_cases D, ?_⟩
    simp only [Ref]
    exact inert_scan_map tbl _ a.length D a (Nat.le_refl _) h

theorem inert_ref_spec (tbl : Table) (d : Nat) (D : NoExp) (a : List Tok) (h : ∀ t ∈ a, Inert tbl t) (hs : List String) :
    (Ref tbl d D a).map (toSpec hs) = a.map (toSpec hs) := by
  obtain ⟨g, hg, e⟩ := inert_ref_map tbl d D a h
  rw [e, List.map_map]
  apply List.map_congr_left
  intro t _
  rcases hg t with e | e <;> simp [e, toSpec_paint]

theorem inert_ref_ctok (tbl : Table) (d : Nat) (D : NoExp) (a : List Tok) (h : ∀ t ∈ a, Inert tbl t) (hc : ∀ t ∈ a, CTok tbl t) :
    ∀ t ∈ Ref tbl d D a, CTok tbl t := by
  obtain ⟨g, hg, e⟩ := inert_ref_map tbl d D a h
  rw [e]
  intro t ht
  obtain ⟨x, hx, rfl⟩ := List.mem_map.mp ht
  rcases hg x with e | e <;> rw [e]
  · exact hc x hx
  · exact (hc x hx).paint (h x hx)

/-! ## binding the collected arguments -/
theorem paramIdx_nil (tok : Tok) : paramIdx [] tok = none := by
  simp [paramIdx, List.idxOf?]

theorem bind_ok (sm : Spec.Prosser.Macro) (ps : List String) (c : Spec.Prosser.Call) (hs : List String) (args : List (List Tok))
    (hpar : sm.params = some ps) (hv : sm.variadic = false) (hc : c.args = args.map (·.map (toSpec hs)))
    (har : arityOk ps args = true) :
    ∃ A, Spec.Prosser.bindArgs sm c = .ok A ∧
      (∀ tok i, paramIdx ps tok = some i → A.getD i [] = (args.getD i []).map (toSpec hs)) ∧
      (∀ i, ∃ a, A.getD i [] = a.map (toSpec hs) ∧ (a = [] ∨ a ∈ args)) := by
  simp only [arityOk, Bool.or_eq_true, Bool.and_eq_true, decide_eq_true_eq, List.isEmpty_iff] at har
  by_cases h0 : ps = [] ∧ args.length = 1 ∧ args.headD [] = []
  · obtain ⟨rfl, h1, h2⟩ := h0
    refine ⟨[], ?_, ?_, ?_⟩
    · obtain ⟨x, rfl⟩ : ∃ x, args = [x] := by
        cases args with
        | nil => simp at h1
        | cons x xs => cases xs with
          | nil => exact ⟨x, rfl⟩
          | cons y ys => simp at h1
      simp only [List.headD_cons] at h2
      subst h2
      simp [Spec.Prosser.bindArgs, hpar, hv, hc]
    · intro tok i hi; rw [paramIdx_nil] at hi; cases hi
    · intro i; exact ⟨[], by simp, Or.inl rfl⟩
  · have hlen : args.length = ps.length := by
      rcases har with ⟨⟨h1, h2⟩, h3⟩ | h
      · exact absurd ⟨h1, h2, h3⟩ h0
      · exact h
    refine ⟨c.args, ?_, ?_, ?_⟩
    · have hl : c.args.length = ps.length := by rw [hc]; simpa using hlen
      have hne : ¬ (ps.length = 0 ∧ c.args.length = 1) := by omega
      simp only [Spec.Prosser.bindArgs, hpar, hv, Bool.false_eq_true, if_false, Option.getD_some, hl]
      by_cases hz : ps.length = 0
      · have : ¬ (ps.length = 1) := by omega
        simp [hz]
      · simp [hz]
    · intro tok i _; rw [hc]; exact getD_map_toSpec args hs i
    · intro i
      rw [hc, getD_map_toSpec]
      rcases getD_nil_or_mem args i with h | h
      · exact ⟨[], by rw [h], Or.inl rfl⟩
      · exact ⟨_, rfl, Or.inr h⟩

/-- what `splitArgs` returns is made of the tokens it was given -/
theorem splitArgs_all (P : Tok → Prop) : ∀ (r : List Tok) (args : List (List Tok)) (cur : List Tok) (depth : Nat)
    (args' : List (List Tok)) (rest : List Tok), splitArgs r args cur depth = some (args', rest) →
    (∀ x ∈ args, ∀ t ∈ x, P t) → (∀ t ∈ cur, P t) → (∀ t ∈ r, P t) → (∀ x ∈ args', ∀ t ∈ x, P t) ∧ (∀ t ∈ rest, P t) := by
  intro r
  induction r with
  | nil => intro args cur depth args' rest h; simp [splitArgs] at h
  | cons tok r ih =>
    intro args cur depth args' rest h ha hc hr
    have htok := hr tok (by simp)
    have hr' : ∀ t ∈ r, P t := fun t ht => hr t (by simp [ht])
    have hcur' : ∀ t ∈ cur ++ [tok], P t := by
      intro t ht
      rcases List.mem_append.mp ht with h | h
      · exact hc t h
      · simp at h; subst h; exact htok
    have hargs' : ∀ x ∈ args ++ [cur], ∀ t ∈ x, P t := by
      intro x hx
      rcases List.mem_append.mp hx with h | h
      · exact ha x h
      · simp at h; subst h; exact hc
    simp only [splitArgs] at h
    split at h
    · exact ih _ _ _ _ _ h hargs' (by simp) hr'
    · split at h
      · exact ih _ _ _ _ _ h ha hcur' hr'
      · split at h
        · split at h
          · simp only [Option.some.injEq, Prod.mk.injEq] at h
            obtain ⟨rfl, rfl⟩ := h
            exact ⟨hargs', hr'⟩
          · exact ih _ _ _ _ _ h ha hcur' hr'
        · exact ih _ _ _ _ _ h ha hcur' hr'

/-! ## the simulation -/
theorem ref_spec (tbl : Table) (hT : ConfTbl tbl) (L : Nat) :
    ∀ (d : Nat) (D : NoExp) (ts : List Tok) (hs : List String), Agree D hs → (∀ t ∈ ts, CTok tbl t) →
      fitsb tbl d D ts = true → confb tbl L d D ts = true →
      ∃ (c : Nat) (R : List T), c ≤ cost tbl d D ts ∧ R.map (·.text) = (Ref tbl d D ts).map spellTok ∧
        ∀ (f : Nat) (top : Bool) (rest out : List T), L < f →
          Spec.Prosser.expand (specTableF tbl) (f + c) top (ts.map (toSpec hs) ++ rest) out
            = Spec.Prosser.expand (specTableF tbl) f top rest (out ++ R) := by
  intro d
  induction d with
  | zero =>
    intro D ts hs _ _ hf _
    have : ts = [] := by simpa [fitsb] using hf
    subst this
    exact ⟨0, [], by simp, by simp [Ref], by intro f top rest out _; simp⟩
  | succ d ihd =>
    intro D ts hs hag hct hf hcf
    simp only [fitsb, confb] at hf hcf
    simp only [cost, Ref]
    suffices H : ∀ (n : Nat) (ts : List Tok), ts.length ≤ n → (∀ t ∈ ts, CTok tbl t) →
        scanFit tbl (Ref tbl d) (fitsb tbl d) n D ts = true → scanConf tbl L (Ref tbl d) (confb tbl L d) n D ts = true →
        ∃ (c : Nat) (R : List T), c ≤ scanCost tbl (Ref tbl d) (cost tbl d) n D ts ∧
          R.map (·.text) = (scanRef tbl (Ref tbl d) n D ts).map spellTok ∧
          ∀ (f : Nat) (top : Bool) (rest out : List T), L < f →
            Spec.Prosser.expand (specTableF tbl) (f + c) top (ts.map (toSpec hs) ++ rest) out
              = Spec.Prosser.expand (specTableF tbl) f top rest (out ++ R) from H ts.length ts (Nat.le_refl _) hct hf hcf
    intro n
    induction n with
    | zero =>
      intro ts hn _ _ _
      have : ts = [] := by cases ts with | nil => rfl | cons a as => simp at hn
      subst this
      exact ⟨0, [], by simp, by simp [scanRef], by intro f top rest out _; simp⟩
    | succ n ih =>
      intro ts hn hct hf hcf
      cases ts with
      | nil => exact ⟨0, [], by simp, by simp [scanRef], by intro f top rest out _; simp⟩
      | cons a as =>
        have hn' : as.length ≤ n := by simp at hn; omega
        have hca := hct a (by simp)
        have hct' : ∀ t ∈ as, CTok tbl t := fun t ht => hct t (by simp [ht])
        simp only [scanFit, Bool.and_eq_true] at hf
        obtain ⟨_, hf⟩ := hf
        simp only [scanConf] at hcf
        have hdef : Spec.Prosser.isDefinedTok (toSpec hs a) = false := isDef_toSpec hs a hca.nodef
        -- a token that is copied
        have adv : ∀ (a' : Tok), spellTok a' = spellTok a →
            scanFit tbl (Ref tbl d) (fitsb tbl d) n D as = true → scanConf tbl L (Ref tbl d) (confb tbl L d) n D as = true →
            (∀ (f : Nat) (top : Bool) (rest out : List T),
              Spec.Prosser.expand (specTableF tbl) (f + 1) top (toSpec hs a :: (as.map (toSpec hs) ++ rest)) out
                = Spec.Prosser.expand (specTableF tbl) f top (as.map (toSpec hs) ++ rest) (out ++ [toSpec hs a])) →
            ∃ (c : Nat) (R : List T), c ≤ 1 + scanCost tbl (Ref tbl d) (cost tbl d) n D as ∧
              R.map (·.text) = (a' :: scanRef tbl (Ref tbl d) n D as).map spellTok ∧
              ∀ (f : Nat) (top : Bool) (rest out : List T), L < f →
                Spec.Prosser.expand (specTableF tbl) (f + c) top ((a :: as).map (toSpec hs) ++ rest) out
                  = Spec.Prosser.expand (specTableF tbl) f top rest (out ++ R) := by
          intro a' hsp hf2 hcf2 hstep
          obtain ⟨c2, R2, hc2, hR2, hx2⟩ := ih as hn' hct' hf2 hcf2
          refine ⟨c2 + 1, toSpec hs a :: R2, by omega, ?_, ?_⟩
          · simp only [List.map_cons, hR2, hsp]; rfl
          · intro f top rest out hL
            have e : f + (c2 + 1) = (f + c2) + 1 := by omega
            rw [e]
            simp only [List.map_cons, List.cons_append]
            rw [hstep, hx2 f top rest _ hL]
            simp
        simp only [scanRef, scanCost]
        by_cases hk : (a.kind != TKind.ident) = true
        · rw [if_pos hk] at hf hcf
          simp only [hk, if_true]
          refine adv a rfl hf hcf ?_
          intro f top rest out
          apply step_copy _ _ _ _ _ _ hdef
          have : (kindOf a.kind != K.id) = true := by
            have := kindOf_id a.kind
            simp only [bne, this] at hk ⊢; exact hk
          simp [toSpec, this]
        · have hk' : (a.kind != TKind.ident) = false := by simpa using hk
          have hki : a.kind = .ident := by simpa using hk
          have hsp : spellTok a = a.text := spellTok_ident a hki
          have hkid : (kindOf a.kind != K.id) = false := by simp [hki, kindOf]
          have hcont : D.contains (some a.text) = hs.contains a.text := hag _
          rw [if_neg hk] at hf hcf
          simp only [hk', Bool.false_eq_true, if_false]
          by_cases hq : (!a.expandable || D.contains (some a.text)) = true
          · rw [if_pos hq] at hf hcf
            simp only [hq, if_true]
            refine adv (paint a) (spellTok_paint a) hf hcf ?_
            intro f top rest out
            by_cases hh : hs.contains a.text = true
            · apply step_copy _ _ _ _ _ _ hdef
              show (kindOf a.kind != K.id || hs.contains (spellTok a)) = true
              rw [hsp, hh]; simp
            · have hh' : hs.contains a.text = false := by simpa using hh
              have hcond : ((toSpec hs a).kind != K.id || (toSpec hs a).hs.contains (toSpec hs a).text) = false := by
                show (kindOf a.kind != K.id || hs.contains (spellTok a)) = false
                rw [hsp, hkid, hh']; rfl
              have hne : a.expandable = false := by
                rw [hcont, hh'] at hq; simpa using hq
              have hnone : tbl.get a.text = none := by
                rcases hca.live with h | h
                · rw [h] at hne; cases hne
                · exact h hki
              apply step_nomacro _ _ _ _ _ _ hdef hcond
              show Macros.get (specTableF tbl) (spellTok a) = none
              rw [hsp]; exact specTableF_get_none tbl _ hnone
          · have hq' : (!a.expandable || D.contains (some a.text)) = false := by simpa using hq
            have hnc : hs.contains a.text = false := by
              rw [← hcont]; simp only [Bool.or_eq_false_iff] at hq'; exact hq'.2
            have hcond : ((toSpec hs a).kind != K.id || (toSpec hs a).hs.contains (toSpec hs a).text) = false := by
              show (kindOf a.kind != K.id || hs.contains (spellTok a)) = false
              rw [hsp, hkid, hnc]; rfl
            rw [if_neg hq] at hf hcf
            simp only [hq', Bool.false_eq_true, if_false]
            cases hm : tbl.get a.text with
            | none =>
              simp only [hm] at hf hcf
              refine adv a rfl hf hcf ?_
              intro f top rest out
              apply step_nomacro _ _ _ _ _ _ hdef hcond
              show Macros.get (specTableF tbl) (spellTok a) = none
              rw [hsp]; exact specTableF_get_none tbl _ hm
            | some m =>
              simp only [hm] at hf hcf
              dsimp only
              have hname := hT.named _ _ hm
              have hbp := hT.toks _ _ hm
              obtain ⟨sm, hget, hpar, hvar, hbody⟩ := specTableF_get_some tbl _ m hm
              have hget' : Macros.get (specTableF tbl) (toSpec hs a).text = some sm := by
                show Macros.get (specTableF tbl) (spellTok a) = some sm
                rw [hsp]; exact hget
              have hag' : Agree (some m.name :: D) (Spec.Prosser.union hs [a.text]) := by
                rw [hname]; exact agree_step D hs a.text hag
              have e1 : (toSpec hs a).hs = hs := rfl
              have e2 : (toSpec hs a).text = a.text := hsp
              have e3 : (toSpec hs a).ws = a.pw := rfl
              cases hargs : m.args with
              | none =>
                simp only [hargs, Bool.and_eq_true] at hf hcf
                dsimp only
                obtain ⟨hf1, hf2⟩ := hf
                obtain ⟨hcf1, hcf2⟩ := hcf
                obtain ⟨c2, R2, hc2, hR2, hx2⟩ := ih as hn' hct' hf2 hcf2
                obtain ⟨c1, R1, hc1, hR1, hx1⟩ := ihd (some m.name :: D) (fixpw m.replacement a.pw) (Spec.Prosser.union hs [a.text]) hag'
                  (all_fixpw (CTok tbl) (fun _ w h => h.pw w) _ _ hbp) hf1 hcf1
                refine ⟨c2 + c1 + 1, R1 ++ R2, by omega, by simp only [List.map_append, hR1, hR2], ?_⟩
                intro f top rest out hL
                have e : f + (c2 + c1 + 1) = ((f + c2) + c1) + 1 := by omega
                have h5 : ∀ x ∈ sm.body, Spec.Prosser.isP x "##" = false := by
                  rw [hbody]
                  intro x hx
                  obtain ⟨y, hy, rfl⟩ := List.mem_map.mp hx
                  exact isP_toSpec [] y (hbp y hy).nocat
                rw [e]
                simp only [List.map_cons, List.cons_append]
                rw [step_macro _ _ _ _ _ _ sm hdef hcond hget' (by rw [hpar, hargs]) h5, hbody, e1, e2, e3, rep_eq,
                  hx1 (f + c2) top _ out (by omega), hx2 f top rest _ hL]
                simp
              | some ps =>
                simp only [hargs] at hf hcf
                dsimp only
                have hpar' : sm.params = some ps := by rw [hpar, hargs]
                cases hcall : callOf as with
                | none =>
                  simp only [hcall, Bool.and_eq_true] at hf hcf
                  dsimp only
                  obtain ⟨hx, hf2⟩ := hf
                  refine adv a rfl hf2 hcf ?_
                  intro f top rest out
                  cases as with
                  | nil => simp at hx
                  | cons x xs =>
                    simp only [bne_iff_ne, ne_eq] at hx
                    have hpx : Spec.Prosser.isP (toSpec hs x) "(" = false := by
                      rw [isP_paren tbl hs x (hct' x (by simp)) "(" (Or.inl rfl)]; simpa using hx
                    simp only [List.map_cons, List.cons_append]
                    exact step_bare _ _ _ _ _ _ _ sm ps hdef hcond hget' hpar' hpx
                | some ar =>
                  obtain ⟨args, rest'⟩ := ar
                  dsimp only
                  simp only [hcall, Bool.and_eq_true, decide_eq_true_eq, List.all_eq_true] at hf hcf
                  obtain ⟨⟨⟨_, hfa⟩, hf1⟩, hf2⟩ := hf
                  obtain ⟨⟨⟨har, hinert⟩, hcf1⟩, hcf2⟩ := hcf
                  have hrl := callOf_length as args rest' hcall
                  -- the shape of the call
                  obtain ⟨lp, r, rfl, hlp, hsplit⟩ : ∃ lp r, as = lp :: r ∧ dtext lp = "(" ∧ splitArgs r [] [] 1 = some (args, rest') := by
                    cases as with
                    | nil => simp [callOf] at hcall
                    | cons lp r =>
                      simp only [callOf] at hcall
                      split at hcall
                      · rename_i h; exact ⟨lp, r, rfl, by simpa using h, hcall⟩
                      · cases hcall
                  have hctr : ∀ t ∈ r, CTok tbl t := fun t ht => hct' t (by simp [ht])
                  obtain ⟨hargC, hctrest⟩ := splitArgs_all (CTok tbl) r [] [] 1 args rest' hsplit (by simp) (by simp) hctr
                  have hargI : ∀ x ∈ args, ∀ t ∈ x, Inert tbl t := fun x hx t ht =>
                    inert_of_check tbl t ((hinert x hx).2 t ht)
                  have hargL : ∀ x ∈ args, x.length ≤ L := fun x hx => (hinert x hx).1
                  -- the rest of the list
                  obtain ⟨c2, R2, hc2, hR2, hx2⟩ := ih rest' (by omega) hctrest hf2 hcf2
                  -- the substituted replacement list
                  have hrepC : ∀ t ∈ fixpw (substRef ps (args.map (Ref tbl d (none :: D))) m.replacement) a.pw, CTok tbl t := by
                    apply all_fixpw (CTok tbl) (fun _ w h => h.pw w)
                    apply all_substRef (CTok tbl) (fun _ w h => h.pw w) ps _ _ hbp
                    intro e he t ht
                    obtain ⟨x, hx, rfl⟩ := List.mem_map.mp he
                    exact inert_ref_ctok tbl d (none :: D) x (hargI x hx) (hargC x hx) t ht
                  obtain ⟨c1, R1, hc1, hR1, hx1⟩ := ihd (some m.name :: D) _ (Spec.Prosser.union hs [a.text]) hag' hrepC hf1 hcf1
                  refine ⟨c2 + c1 + 1, R1 ++ R2, by omega, by simp only [List.map_append, hR1, hR2], ?_⟩
                  intro f top rest out hL
                  have e : f + (c2 + c1 + 1) = ((f + c2) + c1) + 1 := by omega
                  rw [e]
                  simp only [List.map_cons, List.cons_append]
                  -- the specification collects the same arguments
                  obtain ⟨commas', rp, hcol, hrp⟩ := collect_split tbl hs r [] [] 0 args rest' hsplit hctr rest []
                  simp only [List.map_nil] at hcol
                  have hpl : Spec.Prosser.isP (toSpec hs lp) "(" = true := by
                    rw [isP_paren tbl hs lp (hct' lp (by simp)) "(" (Or.inl rfl), hlp]; decide
                  have hnd : (args.map (·.map (toSpec hs))).any (·.any Spec.Prosser.isDefinedTok) = false := by
                    rw [Bool.eq_false_iff]
                    intro h
                    simp only [List.any_eq_true, List.mem_map] at h
                    obtain ⟨y, ⟨x, hx, hxy⟩, z, hz, hdz⟩ := h
                    subst hxy
                    obtain ⟨t, ht, rfl⟩ := List.mem_map.mp hz
                    rw [isDef_toSpec hs t (hargI x hx t ht).1] at hdz; cases hdz
                  obtain ⟨A, hbind, hA1, hA2⟩ := bind_ok sm ps
                    ⟨args.map (·.map (toSpec hs)), commas', rp, rest'.map (toSpec hs) ++ rest⟩ hs args hpar' hvar rfl har
                  have hex : ∀ i, (fun a => Spec.Prosser.expand (specTableF tbl) (f + c2 + c1) false a []) (A.getD i []) = .ok (A.getD i []) := by
                    intro i
                    obtain ⟨x, hx1', hx2'⟩ := hA2 i
                    show Spec.Prosser.expand (specTableF tbl) (f + c2 + c1) false (A.getD i []) [] = .ok (A.getD i [])
                    rw [hx1']
                    rcases hx2' with rfl | hmem
                    · have := spec_inert tbl hs [] (f + c2 + c1) false [] (by simp; omega) (by simp)
                      simpa using this
                    · have := spec_inert tbl hs x (f + c2 + c1) false [] (by have := hargL x hmem; omega) (hargI x hmem)
                      simpa using this
                  have hsub := subst_fun (fun a => Spec.Prosser.expand (specTableF tbl) (f + c2 + c1) false a []) ps A hex m.replacement (m.replacement.length + 1) [] false
                    (fun t ht => ⟨(hbp t ht).nohash, (hbp t ht).nocat⟩) (Nat.lt_succ_self _)
                  rw [step_call _ _ _ _ _ _ _ sm ps _ A [] _ hdef hcond hget' hpar' hpl hcol hnd hbind
                    (by rw [hbody, List.length_map]; exact hsub)]
                  simp only [List.nil_append, e1, e2, e3, hrp, inter_self]
                  have hmapE : ∀ tok i, paramIdx ps tok = some i → ∃ X : List Tok, A.getD i [] = X.map (toSpec hs) ∧
                      ((args.map (Ref tbl d (none :: D))).getD i []).map (toSpec (Spec.Prosser.union hs [a.text]))
                        = X.map (toSpec (Spec.Prosser.union hs [a.text])) := by
                    intro tok i hi
                    refine ⟨args.getD i [], hA1 tok i hi, ?_⟩
                    rw [List.getD_eq_getElem?_getD, List.getD_eq_getElem?_getD, List.getElem?_map]
                    cases hgi : args[i]? with
                    | none => simp
                    | some x =>
                      simp only [Option.map_some, Option.getD_some]
                      exact inert_ref_spec tbl d (none :: D) x (hargI x (List.mem_of_getElem? hgi)) _
                  rw [specSubst_map ps A (args.map (Ref tbl d (none :: D))) hs (Spec.Prosser.union hs [a.text])
                    (union_union_self hs a.text) hmapE m.replacement, setWs_map_toSpec,
                    hx1 (f + c2) top _ out (by omega), hx2 f top rest _ hL]
                  simp

end CbiVerif.MX
