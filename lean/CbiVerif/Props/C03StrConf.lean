import CbiVerif.Props.C03Stringify
import CbiVerif.Lemmas.MacroStrSpec
/-! # C03 — `#` against the specification: `Lexer.stringify` and `MacroFunction.replace` conform to C11 6.10.3.1 / 6.10.3.2

Part of the open statement `StrcatConformsFull` (`Props/C03Strcat.lean`): its non-recursive component.  Model `M` = `PP.stringify`
and `MX.replaceFn` (what `MX.strcatPass` / `MX.cbiExpand` execute for `# param`; the recursion around them is discharged by
`strcat_partial`); specification `S` = `Spec.Prosser.stringize` and `Spec.Prosser.subst` on the same tokens seen as specification
tokens (`MX.toSpec []`).

* `stringify_conforms` (full, for the argument class `StrArgOk`): whenever the specification assigns a string literal to `# param`,
  `Lexer.stringify` returns that token (kind, spelling, white-space flag).  Two independent components are compared
  (`Lemmas/MacroStrSpec.lean`): the spelling between the quotes (`sanitized_str` and the blank rule against `escapeLit` and the blank
  rule of 6.10.3.2p2, `specBody_eq`) and the two lexers on `"` + spelling + `"` (`lexString_of_lexQuoted`);
* `tokenizeOne_in_class`, `tokenize_in_class`, `stringify_conforms_lexed`: every token the lexer makes satisfies the token half of
  `StrArgOk`, so for lexed arguments no hypothesis is left;
* `D45_fixed`, `D45_fixed_stringify`: finding D45 (a string literal or `#` spelling that ends in an escaped backslash) is repaired —
  `StrArgOk` has lost its second clause, `lexString_of_lexQuoted` its last-character hypothesis;
* `replaceFn_hash_conforms_partial`: replacement lists with `#` and without `##` — `replace` and `subst` return the same tokens
  whenever both return; `replaceFn_hash_total_partial`: under `replaceReady`, `replace` returns whenever `subst` does; `hex_identity` discharges its hypothesis about the "complete macro expansion" for arguments without macro
  names; `ReplaceFnConformsFull` (open, kept visible): the same with `##`.
The driver ops `c03stringify` / `c03replace` (`Drv/C03StrConf.lean`) evaluate exactly these definitions; `harness/props/c03_strconf.py`
compares the real code with them and with the specification. -/
namespace CbiVerif.C03
open CbiVerif.PP CbiVerif.MX CbiVerif.MX.StrSpec
open CbiVerif.Spec.Prosser (T K stringize lexOne lexQuoted)

theorem strBody_eq_match (ts : List Tok) : strBody ts = bodyOf ts := by
  cases ts <;> rfl

/-- the specification's lexer on a text that begins with `"` -/
theorem lexOne_quote (x : List Char) : lexOne ('"' :: x) false =
    (lexQuoted.go '"' (x.length + 1) ['"'] x).map fun (t, r) => (⟨.str, String.ofList t, false, []⟩, r) := by
  simp [lexOne, CbiVerif.Spec.Prosser.lexNumber, lexQuoted, CbiVerif.Spec.Prosser.isIdStart]

/-- the code's lexer on a text that begins with `"`, when `string_constant` succeeds -/
theorem tokenizeOne_quote (x t r : List Char) (h : lexString.go (x.length + 1) [] x = some (t, r)) :
    tokenizeOne ('"' :: x) false = some (⟨.str, String.ofList t, false, true⟩, r) := by
  unfold tokenizeOne
  rw [CbiVerif.LexRT.lexNumber_none '"' x (by decide) (by decide), CbiVerif.LexRT.lexChar_none '"' x (by decide)]
  simp [lexString, h]

/-- **`#` conforms to C11 6.10.3.2p2**: for every argument of the class `StrArgOk`, whenever the specification assigns a string
    literal to `# param` (the spelling is a valid string literal — otherwise the behaviour is undefined), `Lexer.stringify` returns
    a token, and it is that token: same kind, same spelling, same white-space flag. -/
theorem stringify_conforms (ts : List Tok) (st : T) (hok : StrArgOk ts)
    (hspec : stringize (ts.map (toSpec [])) = .ok st) :
    ∃ t, stringify ts = some t ∧ toSpec [] t = st := by
  have hcls : ∀ t ∈ ts, tokOk t = true := hok
  unfold stringize at hspec
  rw [specBody_eq ts hcls, ← strBody_eq_match] at hspec
  have hl : ("\"" ++ strBody ts ++ "\"").toList = '"' :: ((strBody ts).toList ++ ['"']) := by
    simp [String.toList_append, q1]
  have hm : stringify ts = (tokenizeOne ("\"" ++ strBody ts ++ "\"").toList false).map (·.1) := stringify_spelling ts
  simp only [hl, lexOne_quote] at hspec
  rw [hm, hl]
  generalize hx : (strBody ts).toList ++ ['"'] = x at hspec
  cases hgo : lexQuoted.go '"' (x.length + 1) ['"'] x with
  | none => simp [hgo] at hspec
  | some pr =>
    obtain ⟨chars, rest⟩ := pr
    cases rest with
    | cons a b => simp [hgo] at hspec
    | nil =>
      simp [hgo] at hspec
      obtain ⟨m, hm1, hm2⟩ := lexString_of_lexQuoted (x.length + 1) x ['"'] [] chars hgo (x.length + 1) (by omega)
      rw [tokenizeOne_quote x m [] (by simpa using hm2)]
      refine ⟨_, rfl, ?_⟩
      rw [← hspec, hm1]
      simp only [toSpec, kindOf, spellTok]
      congr 1
      apply String.toList_inj.mp
      simp [String.toList_append, q1]

/-- **every token the lexer makes is in the class**: `Lexer.tokenize_one` (arguments, replacement lists, the results of `#` and
    `##` are made of its tokens) and `Lexer.tokenize` never produce a string literal with an unescaped `"` in its text -/
theorem tokenizeOne_in_class (s : List Char) (pw : Bool) (t : Tok) (r : List Char) (h : tokenizeOne s pw = some (t, r)) :
    tokOk t = true := tokenizeOne_tokOk s pw t r h

theorem tokenize_in_class (text : String) : ∀ t ∈ tokenize text, tokOk t = true := tokenize_tokOk text

/-- **`#` conforms, arguments made by the lexer**: no hypothesis about the argument is left -/
theorem stringify_conforms_lexed (text : String) (st : T)
    (hspec : stringize ((tokenize text).map (toSpec [])) = .ok st) :
    ∃ t, stringify (tokenize text) = some t ∧ toSpec [] t = st :=
  stringify_conforms _ st (tokenize_in_class text) hspec

/-- non-vacuity: an argument with repeated blanks, a string literal with an escaped quote and a character constant `'\\'` is in
    the class, and the specification assigns it a string literal -/
example : StrArgOk (tokenize "a  + \"q\\\"\" '\\\\'") ∧
    (stringize ((tokenize "a  + \"q\\\"\" '\\\\'").map (toSpec []))).toOption.map (·.text)
      = some "\"a + \\\"q\\\\\\\"\\\" '\\\\\\\\'\"" := by decide +kernel

/-- the same for the empty argument and for a backslash that is not the last character (`a \\ b`) -/
example : StrArgOk [] ∧ (stringize []).toOption.map (·.text) = some "\"\"" ∧ StrArgOk (tokenize "a \\\\ b") ∧
    (stringize ((tokenize "a \\\\ b").map (toSpec []))).toOption.map (·.text) = some "\"a \\\\ b\"" := by decide +kernel

/-- **finding D45 repaired, `#` operands**: an argument whose spelling ends in a backslash (`\\\\`: two stray backslashes; `a \\\\`)
    is in the class now; model = specification: `"\\\\"` is one string literal (before the repair `Lexer.stringify` returned the
    punctuator `"`, because `Lexer.string_constant` paired a backslash only with a following `"` and read the closing quote as escaped) -/
theorem D45_fixed_stringify :
    (stringize ((tokenize "\\\\").map (toSpec []))).toOption.map (·.text) = some "\"\\\\\"" ∧
    (stringify (tokenize "\\\\")).map spellTok = some "\"\\\\\"" ∧ StrArgOk (tokenize "\\\\") ∧
    (stringify (tokenize "a \\\\")).map spellTok = some "\"a \\\\\"" := by decide +kernel

/-- **finding D45 repaired, well-formed input**: a string literal that ends in an escaped backslash (`"a\\\\"`) is one token for
    `Lexer.string_constant` as for the specification (and gcc); under `#` its quotes and backslashes are escaped; `"a\\\\\\"b"` and
    `"\\\\\\\\"` likewise.  (Before the repair: `"`, `a`, `\\`, `\\`, `"`, `x`, and `""` under `#`.) -/
theorem D45_fixed :
    expandText [] [] "\"a\\\\\" x" = .ok ["\"a\\\\\"", "x"] ∧
    specText [] "\"a\\\\\" x" = some ["\"a\\\\\"", "x"] ∧
    expandText [] ["STR(x) #x"] "STR(\"a\\\\\")" = .ok ["\"\\\"a\\\\\\\\\\\"\""] ∧
    specText ["STR(x) #x"] "STR(\"a\\\\\")" = some ["\"\\\"a\\\\\\\\\\\"\""] ∧
    expandText [] [] "\"a\\\\\\\"b\" \"\\\\\\\\\" y" = .ok ["\"a\\\\\\\"b\"", "\"\\\\\\\\\"", "y"] ∧
    specText [] "\"a\\\\\\\"b\" \"\\\\\\\\\" y" = some ["\"a\\\\\\\"b\"", "\"\\\\\\\\\"", "y"] := by
  decide +kernel

/-! ## `MacroFunction.replace` against `Spec.Prosser.subst`: replacement lists with `#`, without `##` -/
open CbiVerif.Spec.Prosser (subst Unspec)

/-- **what remains open** (kept visible, not claimed): the same statement for every replacement list, `##` included (it needs the
    two lexers to agree on pasted spellings: `PP.tokenizeOne` against `Spec.Prosser.lexOne` in `glue`) -/
def ReplaceFnConformsFull : Prop :=
  ∀ (m : Macro) (params : List String) (ia : List Arg) (ex : List T → Except Unspec (List T)) (r : List Tok) (out : List T),
    m.args = some params → m.variadic = false → m.hasStrcat = true →
    (∀ t ∈ m.replacement, (t.text = "#" ∨ t.text = "##") → kindOf t.kind = .punct) →
    (∀ a ∈ ia, StrArgOk a.raw) →
    (∀ a ∈ ia, ∀ e, a.exp = some e → ∃ eS, ex (a.raw.map (toSpec [])) = .ok eS ∧ eS.map er = e.map (toSpec [])) →
    replaceFn m ia = .ok r →
    subst ex (some params) (ia.map fun a => a.raw.map (toSpec [])) (m.replacement.length + 1) (m.replacement.map (toSpec [])) [] false
      = .ok out →
    out.map er = r.map (toSpec [])

/-- **`replace` conforms to C11 6.10.3.1 / 6.10.3.2 on replacement lists with `#` and without `##`**: for a function-like,
    non-variadic macro whose replacement list holds no `##` and spells `#` only as an operator token (`hashBodyTok`; the other case is
    finding D42), for arguments of the class `StrArgOk`, and for any "complete macro expansion" `ex` of the specification that
    agrees with the pre-expansions the expander hands over (kinds, spellings, white space): whenever `MacroFunction.replace`
    returns a token list and `Spec.Prosser.subst` (run with the fuel `Spec.Prosser.expand` grants) returns one, they are the same
    tokens — kind, spelling and white-space flag of every token (hide sets, which only the specification has, are forgotten). -/
theorem replaceFn_hash_conforms_partial (m : Macro) (params : List String) (ia : List Arg)
    (ex : List T → Except Unspec (List T)) (r : List Tok) (out : List T)
    (hargs : m.args = some params) (hvar : m.variadic = false) (hcat : m.hasStrcat = true)
    (hbody : ∀ t ∈ m.replacement, hashBodyTok t = true)
    (hstrargs : ∀ a ∈ ia, StrArgOk a.raw)
    (hex : ∀ a ∈ ia, ∀ e, a.exp = some e → ∃ eS, ex (a.raw.map (toSpec [])) = .ok eS ∧ eS.map er = e.map (toSpec []))
    (hm : replaceFn m ia = .ok r)
    (hs : subst ex (some params) (ia.map fun a => a.raw.map (toSpec [])) (m.replacement.length + 1)
      (m.replacement.map (toSpec [])) [] false = .ok out) :
    out.map er = r.map (toSpec []) := by
  unfold replaceFn at hm
  simp only [hargs, Option.getD_some, hvar, Bool.false_eq_true, if_false, hcat, if_true] at hm
  cases hp : strcatPass params ia (m.replacement.length + 1) m.replacement [] false false false with
  | error e => simp [hp] at hm
  | ok res' =>
    simp only [hp] at hm
    obtain ⟨r0, rb, ob, h1, h2, h3, h4⟩ := hash_conf_aux ex params ia _ rfl
      (fun i a e ha he => hex a (List.mem_of_getElem? ha) e he)
      (fun i a st ha hz => stringify_conforms a.raw st (hstrargs a (List.mem_of_getElem? ha)) hz)
      (m.replacement.length + 1) m.replacement [] false false [] (m.replacement.length + 1) res' r out hbody
      (by omega) (by omega) hp hm hs
    simp [substArgs] at h1
    subst h1
    simpa [h2, h3] using h4

/-- **`replace` returns whenever the specification does, and returns the same** (replacement lists with `#`, without `##`): under
    the hypotheses of `replaceFn_hash_conforms_partial` and `replaceReady` (every `#` is followed by a parameter — a constraint of
    C11 6.10.3.2p1 —, every parameter has its argument, a parameter used outside `#` comes with its pre-expansion), if
    `Spec.Prosser.subst` returns `out` then `MacroFunction.replace` returns a token list, and it is `out` (kinds, spellings,
    white-space flags) -/
theorem replaceFn_hash_total_partial (m : Macro) (params : List String) (ia : List Arg)
    (ex : List T → Except Unspec (List T)) (out : List T)
    (hargs : m.args = some params) (hvar : m.variadic = false) (hcat : m.hasStrcat = true)
    (hbody : ∀ t ∈ m.replacement, hashBodyTok t = true)
    (hstrargs : ∀ a ∈ ia, StrArgOk a.raw)
    (hex : ∀ a ∈ ia, ∀ e, a.exp = some e → ∃ eS, ex (a.raw.map (toSpec [])) = .ok eS ∧ eS.map er = e.map (toSpec []))
    (hready : replaceReady params ia (m.replacement.length + 1) m.replacement = true)
    (hs : subst ex (some params) (ia.map fun a => a.raw.map (toSpec [])) (m.replacement.length + 1)
      (m.replacement.map (toSpec [])) [] false = .ok out) :
    ∃ r, replaceFn m ia = .ok r ∧ out.map er = r.map (toSpec []) := by
  obtain ⟨add, rb, h1, h2⟩ := hash_ready_aux ex params ia _ rfl
    (fun i a st ha hz => stringify_conforms a.raw st (hstrargs a (List.mem_of_getElem? ha)) hz)
    (m.replacement.length + 1) m.replacement [] false false [] (m.replacement.length + 1) (m.replacement.length + 1) out hbody
    (by omega) (by omega) (by omega) hready hs
  have hm : replaceFn m ia = .ok rb := by
    unfold replaceFn
    simp only [hargs, Option.getD_some, hvar, Bool.false_eq_true, if_false, hcat, if_true, h1, List.nil_append, h2]
  exact ⟨rb, hm, replaceFn_hash_conforms_partial m params ia ex rb out hargs hvar hcat hbody hstrargs hex hm hs⟩

/-- arguments handed over with their own tokens as pre-expansion, against the identity as "complete macro expansion" (what both
    sides do when the arguments hold no macro names): the hypothesis about `ex` holds -/
theorem hex_identity (raws : List (List Tok)) :
    ∀ a ∈ raws.map (fun ts => (⟨ts, some ts⟩ : Arg)), ∀ e, a.exp = some e →
      ∃ eS, (fun x => (Except.ok x : Except Unspec (List T))) (a.raw.map (toSpec [])) = .ok eS ∧ eS.map er = e.map (toSpec []) := by
  intro a ha e he
  simp only [List.mem_map] at ha
  obtain ⟨ts, _, rfl⟩ := ha
  cases he
  exact ⟨_, rfl, by simp [er, toSpec]⟩

/-- the decidable hypotheses of `replaceFn_hash_conforms_partial` and `replaceFn_hash_total_partial` on a concrete definition and concrete argument texts (lexer and
    `#define` parser included; arguments as in `hex_identity`), both sides successful with the spellings `expect` -/
def inHashFragment (defn : String) (argTexts : List String) (expect : List String) : Bool :=
  match defineLine ("#define " ++ defn) with
  | .ok m =>
    let ia : List Arg := (argTexts.map tokenize).map fun ts => ⟨ts, some ts⟩
    m.args.isSome && !m.variadic && m.hasStrcat && m.replacement.all hashBodyTok && ia.all (fun a => decide (StrArgOk a.raw)) &&
      replaceReady (m.args.getD []) ia (m.replacement.length + 1) m.replacement &&
      (match replaceFn m ia with | .ok r => r.map spellTok == expect | _ => false) &&
      (match subst (fun x => .ok x) m.args (ia.map fun a => a.raw.map (toSpec [])) (m.replacement.length + 1)
          (m.replacement.map (toSpec [])) [] false with
       | .ok out => out.map (·.text) == expect | _ => false)
  | .error _ => false

/-- non-vacuity: `#` twice, a parameter used plainly and under `#`, blanks and literals in the arguments -/
example : inHashFragment "M(x,y) #x y + x #y" ["a  +  'c'", "\"s\\n\" 1"]
    ["\"a + 'c'\"", "\"s\\n\"", "1", "+", "a", "+", "'c'", "\"\\\"s\\\\n\\\" 1\""] = true := by decide +kernel

end CbiVerif.C03
