import Lean.Data.Json
import CbiVerif.Spec.RegexPrio
import CbiVerif.Spec.RegexShapes
/-! driver op for the priority specification of `Spec/RegexPrio.lean` (C12, stream `models`): the declarative
    enumeration `allMatches` / `firstMatch` / `specFindall` is executed and compared with CPython's `re` -/
open Lean
namespace CbiVerif.Drv.RegexSpec
open CbiVerif.Regex

def jstrs (l : List String) : Json := Json.arr (l.map Json.str).toArray

def pairs (j : Json) (k : String) : List (String × String) :=
  (((j.getObjValAs? (Array Json) k).toOption.getD #[]).toList).map fun e => match e with
    | Json.arr a => ((a[0]!).getStr?.toOption.getD "", (a[1]!).getStr?.toOption.getD "")
    | _ => ("", "")

def suffixes : List Char → List (List Char)
  | [] => [[]]
  | c :: t => (c :: t) :: suffixes t

/-- {"op":"re_spec","cases":[[pattern,value],..]} → per case {"unsupported":why} or
    {"groups":n, "fragment":bool, "literal":bool, "findall":[[..],..],
     "at":[ null | [length of the preferred match at this position, [group texts]] for every position 0..|value| ]} -/
def handleSpec (j : Json) : Json :=
  Json.mkObj [("results", Json.arr ((pairs j "cases").map fun (p, v) =>
    match parse p with
    | .error (.unsupported w) => Json.mkObj [("unsupported", w)]
    | .ok (r, ng) =>
      Json.mkObj [("groups", ng), ("fragment", Json.bool (inFragment r)),
        ("literal", Json.bool (p.toList.all fun c => !isMeta c)),
        ("findall", Json.arr ((specFindall r ng v.toList).map fun m => jstrs (m.map String.ofList)).toArray),
        ("at", Json.arr ((suffixes v.toList).map fun s =>
          match firstMatch r false s with
          | none => Json.null
          | some (s', caps) =>
            Json.arr #[Json.num (s.length - s'.length : Nat),
                       jstrs ((List.range ng).map fun i => String.ofList (capOf caps (i + 1)))]).toArray)]).toArray)]

def handlers : List (String × (Json → Json)) := [("re_spec", handleSpec)]

end CbiVerif.Drv.RegexSpec
