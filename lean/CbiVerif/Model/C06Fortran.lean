import CbiVerif.Model.C06Compose
import CbiVerif.Model.FCond
import CbiVerif.Model.Path
import CbiVerif.Spec.FortranNodes
import CbiVerif.Generated.Tables
/-!
C06, composed — code bases that hold C-family AND free-form Fortran files.

`Model/C06Compose.lean` composes the C05 parser model with the C01 associator and the C06 report models for C/C++ texts.
Here the front end is chosen per file BY ITS EXTENSION, as `get_file_source(path)` does
(`FileLanguage(path).get_language()`: `os.path.splitext(path)[1]` looked up in the GENERATED table `Gen.languageExts`):

* `c` / `c++`        → `C06C.parseSrc` (unchanged: C05 `CClean.parseFile` + `attach`);
* `fortran-free`     → `fParseSrc`: C17's `Fortran.fortranSource` (`c_file_source(directives_only=True)` feeding
                       `fortran_file_source`), `Fortran.group` (the loop of `FileParser.parse_file`), `Fortran.pnodeOf`
                       (`DirectiveParser.parse` per directive node) — i.e. `Fortran.fortranPNodes`, the node list
                       `C17.conditionals_as_C` is about — and the tree build of `SourceTree.insert`;
* `fortran-fixed`, no known extension → `RuntimeError("Could not determine language of …")`, as the code;
* `asm`              → NOT modelled here (no model of `asm_file_source` in this composition): the model raises, the code
                       does not; the correspondence stream never generates such a file.

Everything behind the node list is language independent in the code (`ParserState.associate`, `get_setmap`, the coverage
export) and is the SAME definition here: `analyseG parse` is `C06C.analyse` with the parser as a parameter (`runPlat`,
`platsOf`, `mkRec` are those of `C06C`), `C06C.analyse = analyseG (fun f => parseSrc f.text)` by `rfl`, and
`analyseL = analyseG parseSrcL` is what the driver executes (op `c06text`).

Reference side: for a Fortran file the counted lines are those of C17's reference scanner (`Fortran.refText`) under C17's
guard (inside `WF`, no line of finding class F-C17-1), grouped as `Spec/FortranNodes.lean` groups them; for a C-family file
C05's (`CLexRef`) under C05's guard.

Core Lean only.
-/
namespace CbiVerif.C06L
open CbiVerif.SM CbiVerif.C06C

/-- which line source `get_file_source` picks -/
inductive Lang | cFamily | fortranFree | asm | unsupported
deriving DecidableEq, Repr, Inhabited

/-- `FileLanguage(path).get_language()` followed by the dispatch of `get_file_source`, over the generated table -/
def langOfExt (ext : String) : Lang :=
  match (CbiVerif.Gen.languageExts.find? fun le => le.2.contains ext).map (·.1) with
  | some "c" => .cFamily
  | some "c++" => .cFamily
  | some "fortran-free" => .fortranFree
  | some "asm" => .asm
  | _ => .unsupported

/-- the language of a file of the code base (path components below the root) -/
def langOf (path : List String) : Lang := langOfExt (CbiVerif.Path.splitextExt (CbiVerif.Path.name path))

/-- a Fortran node in the shape of the C05 node (kind, `lines`, `num_lines`) -/
def fNode (n : Fortran.Node) : CClean.Node :=
  ⟨if n.isDir then .directive else .code, n.lines, n.numLines⟩

/-- `FileParser(path).parse_file()` of a free-form Fortran text: the node list of C17 (`Fortran.fortranPNodes`, see
    `fParseSrc_pnodes`) together with `lines` / `num_lines` of every node; the source tree is built while the file is parsed,
    so a stray `#elif/#else/#endif` raises whether or not a platform compiles the file. -/
def fParseSrc (t : List Char) : Except PP.Err Parsed :=
  match Fortran.fortranSource (String.ofList t) with
  | .error e => .error (Fortran.errOf e)
  | .ok lls =>
    match (Fortran.group lls).mapM Fortran.pnodeOf with
    | .error e => .error e
    | .ok pn =>
      if (Cond.build (PP.labels pn)).isNone then .error .type_ else .ok ⟨(Fortran.group lls).map fNode, pn⟩

/-- `get_file_source(path)(open(path))` + `FileParser.parse_file`, by the language of the file -/
def parseSrcL (f : SrcFile) : Except PP.Err Parsed :=
  match langOf f.path with
  | .cFamily => parseSrc f.text
  | .fortranFree => fParseSrc f.text
  | .asm => .error (.runtime "asm sources are not modelled in this composition")
  | .unsupported => .error (.runtime "Could not determine language of the file.")

/-- `C06C.analyse` with the parser as a parameter: every file is parsed first, then every entry of every platform is
    associated (`C06C.runPlat`); the first exception ends the analysis -/
def analyseG (parse : SrcFile → Except PP.Err Parsed) (files : List SrcFile) (plats : List Plat) :
    Except PP.Err (List FileRec) :=
  match mapE parse files with
  | .error e => .error e
  | .ok ps =>
    match mapE (runPlat files ps) plats with
    | .error e => .error e
    | .ok pr => .ok ((files.zip ps).map (mkRec pr))

/-- `finder.find(rootdir, codebase, configuration)` for a code base of C-family and free-form Fortran files -/
def analyseL (files : List SrcFile) (plats : List Plat) : Except PP.Err (List FileRec) :=
  analyseG parseSrcL files plats

/-! ## reference side -/

/-- C17's guard: the reference scanner accepts the text and no line is of finding class F-C17-1 -/
def fguard (t : List Char) : Bool :=
  match Fortran.refText (String.ofList t) with
  | some r => r.all fun x => !x.2
  | none => false

/-- the lines C17's reference counts (`[]` outside its `WF`) -/
def fcounted (t : List Char) : List Nat :=
  match Fortran.refText (String.ofList t) with
  | some r => Fortran.countedLines r
  | none => []

/-- the guard of the file's language: C05's for a C-family file, C17's for a Fortran file -/
def guardL (f : SrcFile) : Bool :=
  match langOf f.path with
  | .cFamily => C06C.guard f.text
  | .fortranFree => fguard f.text
  | _ => false

/-- the counted lines of the file by the specification of its language -/
def countedL (f : SrcFile) : List Nat :=
  match langOf f.path with
  | .cFamily => CLexRef.countedLines f.text
  | .fortranFree => fcounted f.text
  | _ => []

/-- the groups (is a directive, lines) of the file by the specification of its language -/
def specNodesL (f : SrcFile) : List (Bool × List Nat) :=
  match langOf f.path with
  | .cFamily => CLexRef.nodes f.text
  | .fortranFree => Fortran.refNodes (String.ofList f.text)
  | _ => []

/-- number of physical lines of the file as its line source reads them -/
def physLines (f : SrcFile) : Nat :=
  match langOf f.path with
  | .fortranFree => (Fortran.splitLines (String.ofList f.text)).length
  | _ => (CbiVerif.CText.rawLines f.text).length

/-- the per-line attribution the property speaks about, from the specifications: every counted line of the text, grouped as
    the specification of the file's language groups them, with the platforms whose reference run keeps its group -/
def specLineAttrL (plats : List Plat) (f : SrcFile) (pn : List PP.PNode) : List (Nat × Key) :=
  (specNodesL f).zipIdx.flatMap fun x => x.1.2.map fun l => (l, specPlats plats f.path pn x.2)

end CbiVerif.C06L
