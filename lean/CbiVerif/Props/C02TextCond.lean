import CbiVerif.Props.C02Text
import CbiVerif.Lemmas.MacroObjTop
import CbiVerif.Lemmas.ExpandPP
/-!
# C02 — text → lexer → macro expander → evaluator, for object-like macro tables

`text_main_partial` (`Props/C02Text.lean`) composes the lexer model with the evaluator model.  The end-to-end models of
C01/C04/C08/C10/C17/C18 run the macro expander in between: the value of a controlling expression is
`PP.condValue tbl (tokenize text)` = `MX.cbiExpand` then `Eval.evaluatePP`.  `text_cond_partial` proves that composition for
every table of object-like macros (`TblOK`, any size below the nesting limit, recursive definitions included) that defines
none of the identifiers of the expression: the expander then returns the lexed tokens unchanged
(`C03.object_like_partial`'s lemma `expandWith_obj`, and `E_id` below) and the evaluator gives the C truth value.
-/
namespace CbiVerif.C02
open CbiVerif.PP CbiVerif.Climb CbiVerif.CExpr CbiVerif.Eval CbiVerif.EvalBridge CbiVerif.LexLayout CbiVerif.MX

/-- the recursive expansion leaves a token list alone when its tokens are expandable and none names a macro -/
theorem E_id (tbl : Table) (d : Nat) (ts : List Tok) (h : ∀ t ∈ ts, t.expandable = true ∧ tbl.get t.text = none) :
    E tbl (d + 1) [] ts = ts := by
  induction ts with
  | nil => simp [E]
  | cons t ts ih =>
    have ht := h t (by simp)
    have ih' := ih (fun t' m => h t' (by simp [m]))
    rw [E]
    by_cases hk : (t.kind != TKind.ident) = true
    · simp only [hk, if_true, ih']
    · simp only [hk, Bool.false_eq_true, if_false, ht.1, Bool.not_true, List.contains_nil, Bool.or_self, ht.2, ih']

theorem flag_mem (p : Bool) (gs : List (List Char)) (ts : List Tok) :
    ∀ t ∈ flag p gs ts, t.expandable = true ∧ ∃ t' ∈ ts, t.text = t'.text := by
  induction ts generalizing gs p with
  | nil => intro t ht; cases gs <;> simp [flag] at ht
  | cons x ts ih =>
    intro t ht
    match gs, ht with
    | [], ht => simp [flag] at ht
    | g :: gs', ht =>
      simp only [flag, List.mem_cons] at ht
      rcases ht with rfl | ht
      · exact ⟨rfl, x, by simp, rfl⟩
      · obtain ⟨h1, t', hm, h2⟩ := ih _ gs' t ht
        exact ⟨h1, t', by simp [hm], h2⟩

/-- **Text → lexer → expander → evaluator (proved part of `text_main`).**  Hypotheses of `text_main_partial`, a table of
    object-like macros below the nesting limit, and no token of the expression names a macro of the table or is spelled
    `defined`: the value `PP.condValue` the end-to-end models give to the TEXT, in every admissible layout, is the ISO C
    truth value of the tree. -/
theorem text_cond_partial (tbl : Table) (hT : TblOK tbl) (hsz : tbl.length + 2 < CbiVerif.Gen.maxLevel)
    (env : Env) (a : CExpr.Ast) (v : CExpr.Val) (w : Layout)
    (hg : a.grammatical = true) (hc : a.constsOK = true) (hk8 : usesBigUnsuffixed a = false)
    (hv : cEval env a = some v) (hl : LexSource.lexable a = true) (hd : noDefined a = true)
    (hfree : ∀ t ∈ renderSrc a, tbl.get t.text = none ∧ t.text ≠ "defined")
    (hw : admissible w (renderSrc a) = true) :
    condValue tbl (tokenize (layout w (renderSrc a))) = .ok v.truth := by
  have hev := (text_main_partial env a v w hg hc hk8 hv hl hd hw).2
  have hlex := lexer_reads_source_layout a hl w hw
  have hmem := flag_mem (!w.lead.isEmpty) w.gaps (renderSrc a)
  have hnd : NoDef (flagged w (renderSrc a)) := by
    intro t ht
    obtain ⟨_, t', hm, e⟩ := hmem t ht
    rw [e]; exact (hfree t' hm).2
  have hid : E tbl (tbl.length + 1) [] (flagged w (renderSrc a)) = flagged w (renderSrc a) := by
    refine E_id tbl _ _ ?_
    intro t ht
    obtain ⟨h1, t', hm, e⟩ := hmem t ht
    exact ⟨h1, by rw [e]; exact (hfree t' hm).1⟩
  have hx : cbiExpand tbl (flagged w (renderSrc a)) = .ok (flagged w (renderSrc a)) := by
    unfold cbiExpand
    rw [expandWith_obj realCfg tbl hT _ hnd hsz (fuelFor tbl _) (by unfold fuelFor; omega), hid]
  rw [hlex] at hev ⊢
  rw [condValue_of_expand tbl _ _ hx, hev]

/-- non-vacuity: a mutually recursive object-like table that does not define `X`; the expression of `C02Text` in its tight
    and in its loose layout -/
def tblT : Table :=
  [("AA", ⟨"AA", none, false, false, [], [⟨.ident, "BB", false, true⟩]⟩),
   ("BB", ⟨"BB", none, false, false, [], [⟨.ident, "AA", false, true⟩, ⟨.num, "1", true, true⟩]⟩)]

example : TblOK tblT ∧ tblT.length + 2 < CbiVerif.Gen.maxLevel ∧
    (∀ t ∈ renderSrc sampleT, tblT.get t.text = none ∧ t.text ≠ "defined") ∧
    condValue tblT (tokenize (layout (tight (renderSrc sampleT)) (renderSrc sampleT))) = .ok true ∧
    condValue tblT (tokenize (layout wLoose (renderSrc sampleT))) = .ok true := by
  refine ⟨tblOK_of_check _ (by decide +kernel), by decide, by decide +kernel, by decide +kernel, by decide +kernel⟩

end CbiVerif.C02
