import CbiVerif.Spec.CPreproc
/-! Executable check of the well-formedness hypothesis of C04.include_semantics: "the label list of a
file is the line list of a structured program".  It is the reference machine's own verdict: run the flat
ISO C machine (`Spec/CPreproc.lean`) with a trivial semantics and ask for `wellNested` (no stray
`#elif/#else/#endif`, nothing after `#else`, every `#if` closed), plus the normal form of the labels.
`C01.structured_of_wellNested` turns a `true` answer into the hypothesis (`Props/C04.wfCheck_sound`). -/
namespace CbiVerif.MF
open CbiVerif.Cond

/-- payloads of code / `#else` / `#endif` lines are 0 (`Lbl.normal`, as a Bool) -/
def normalB (l : Lbl) : Bool :=
  match l.kind with
  | .code | .elsek | .endk => l.pay == 0
  | _ => true

def trivSem : Sem Unit := ⟨fun _ _ => (true, ()), fun _ _ => ()⟩

/-- is `ls` the line list of a structured program? -/
def wfCheck (ls : List Lbl) : Bool :=
  ls.all normalB && (reference trivSem () ls).wellNested

end CbiVerif.MF
