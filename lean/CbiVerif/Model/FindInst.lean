import CbiVerif.PP.Find
import CbiVerif.Model.FindFold
/-!
`finder.find` as an INSTANCE of the generic double fold `FindFold.findG`:
the single-command analysis is the body of the inner loop of `finder.find`
(fresh `Platform`, `-I`, `-D`, `-include` files, then the file itself), built from the
executable preprocessor model `CbiVerif.PP` (`assocFile`, `Platform.findInclude`,
`PState.insertFile`, `macroFromDefinitionString`).

What is modelled differently from the code, on purpose:
* the parse cache `ParserState.trees` is not threaded from one command to the next:
  every command starts from an empty `PState` and parses what it needs
  (`insertFile`).  In the code the cache is shared by all commands and platforms.  That the
  shared cache is unobservable is PROVED for the total model with the explicit cache,
  `Model/FindCache.lean` (`C08.cache_transparent_partial`, `C08.find_cached_eq_findG_partial`),
  up to finding F-C08-1 = D19; that the tokens stored in the cache are never modified is what
  the correspondence check tests (finding F-C08-2, repaired).
* the up-front parse of every code-base file and every entry file is kept only as the
  error check `prepare` (an unparsable file aborts the run).
* the platform's name is only used by `associate`; the single-command analysis runs under
  a dummy name and the real name is attached by `FindFold.associate`.

Core Lean only.
-/
namespace CbiVerif.FindInst
open CbiVerif.PP CbiVerif.FindFold

/-- a node of a parsed file: (canonical path, index in parse order) -/
abbrev NodeKey := String × Nat

/-- `ParserState.insert_file` on an empty cache, as an error check -/
def parseOne (fs : FSMap) (f : String) : Except Err Unit :=
  match (({} : PState).insertFile fs f).err with
  | some e => .error e
  | none => .ok ()

/-- "Build a tree for each unique file for all platforms": fails iff some file fails -/
def prepare (fs : FSMap) : List String → Except Err Unit
  | [] => .ok ()
  | f :: rest =>
    match parseOne fs f with
    | .error e => .error e
    | .ok _ => prepare fs rest

/-- `Platform(p, rootdir)`; `add_include_path` for every -I; `define` for every -D
(the first definition of a name wins) -/
def freshPlatform (e : Entry) : Except Err Platform :=
  let rec go (ds : List String) (plat : Platform) : Except Err Platform :=
    match ds with
    | [] => .ok plat
    | d :: rest =>
      match macroFromDefinitionString d with
      | .error er => .error er
      | .ok m =>
        go rest (if (plat.tbl.get m.name).isNone then { plat with tbl := plat.tbl ++ [(m.name, m)] } else plat)
  go e.defines { name := "", incPaths := e.includePaths }

/-- one `-include` file: found relative to the source file's directory, parsed, associated
(unless `#pragma once` put it on the platform's once-list) -/
def forcedInclude (fs : FSMap) (e : Entry) (w : World) (inc : String) : World :=
  if w.st.err.isSome then w else
  let (found, p2) := w.plat.findInclude fs inc (dirname e.file) false
  let w := { w with plat := p2 }
  match found with
  | some f =>
    -- `elif file_platform.process_include(include_file)`: a file on the once-list is not processed again
    if w.plat.skip.contains f then w else
    let w := { w with st := w.st.insertFile fs f }
    if w.st.err.isNone then assocFile fs f w else w
  | none => w

/-- the body of the inner loop of `finder.find` for ONE database entry, from a fresh state:
which nodes are visited and which warnings are logged (or the exception raised) -/
def analyseEntry (fs : FSMap) (e : Entry) : Except Err (Out NodeKey Warn) :=
  match freshPlatform e with
  | .error er => .error er
  | .ok plat =>
    let st0 := ({} : PState).insertFile fs e.file
    let w0 : World := { st := st0, plat := plat }
    let w1 := e.includeFiles.foldl (forcedInclude fs e) w0
    let w2 := if w1.st.err.isNone then assocFile fs e.file w1 else w1
    match w2.st.err with
    | some er => .error er
    | none => .ok { keys := w2.st.assoc.map (·.1), warns := w2.st.warns }

/-- the files named by the database entries -/
def filesOf (config : Config Entry) : List String := (jobs config).map (·.2.file)

/-- `finder.find(rootdir, codebase, configuration)` -/
def findI (fs : FSMap) (codebase : List String) (config : Config Entry) :
    Except Err (Acc NodeKey Warn) :=
  match prepare fs (codebase ++ filesOf config) with
  | .error e => .error e
  | .ok _ => findG (analyseEntry fs) config

/-- the property's reference for the same inputs: stateless union of single-command analyses -/
def specI (fs : FSMap) (codebase : List String) (config : Config Entry) :
    Except Err (Acc NodeKey Warn) :=
  match prepare fs (codebase ++ filesOf config) with
  | .error e => .error e
  | .ok _ => specFind (analyseEntry fs) config

end CbiVerif.FindInst
