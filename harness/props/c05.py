"""C05 — a physical line is counted iff it holds code outside comments.

Implementation: codebasin.file_source.c_file_source (on an in-memory stream) and
                codebasin.file_parser.FileParser(path).parse_file() (node list, root.total_sloc)
Model (Lean):   CbiVerif.CClean  (one_space_line / c_cleaner / c_file_source / LineGroup folding)
Spec  (Lean):   CbiVerif.CLexRef (splice -> decomment -> counted lines / logical lines / nodes, wf, k1, k2)
                driver op "clex" returns {"model": ..., "spec": ...}; "clex_isspace" the str.isspace table
Oracle (thorough): gcc -E on identifier-tagged texts validates the spec itself.
"""
from __future__ import annotations

import itertools
import json
import multiprocessing as mp
import os
import random
import re
import subprocess

from harness import core
from harness.props import c05_impl as I
from harness.props import c05_raw as RAW

ALPHA = "a \n/*\"'\\#"
F1, F2 = "F-C05-1", "F-C05-2"


# --------------------------------------------------------------------------
# judging one text
# --------------------------------------------------------------------------
def phys_lines(text: str, univ: bool):
    if univ:
        text = text.replace("\r\n", "\n").replace("\r", "\n")
    ls = text.split("\n")
    if ls and ls[-1] == "":
        ls.pop()
    return ls


def f1_explains(lines, n, missed: bool) -> bool:
    """F-C05-1 classifier for one disagreeing physical line n (1-based)."""
    if missed:  # counted by the spec, not by the implementation: the line ends in "/" + backslash
        return n <= len(lines) and lines[n - 1].endswith("/\\")
    # counted by the implementation only: the "/" of an earlier line ending in "/\" was carried here
    m = n - 1
    while m >= 1 and lines[m - 1] == "\\":
        m -= 1
    return m >= 1 and lines[m - 1].endswith("/\\")


def f2_explains(lines, n, missed: bool) -> bool:
    """F-C05-2 classifier: line counted by the implementation only; it consists of white space
    (plus the continuation backslash) and the spec says it lies inside a literal (checked by caller)."""
    if missed or n > len(lines):
        return False
    body = lines[n - 1]
    if body.endswith("\\"):
        body = body[:-1]
    return body != "" and body.strip(" \t\v\f\r") == ""


def strip_lines(lg, drop):
    out = []
    for d, ls in lg:
        ls2 = [n for n in ls if n not in drop]
        if ls2:
            out.append([d, ls2])
    return out


def merge_code(lg):
    """node view of a logical-line list (directive lines alone, runs of code merged)"""
    out = []
    for d, ls in lg:
        if not d and out and not out[-1][0]:
            out[-1] = [False, out[-1][1] + ls]
        else:
            out.append([d, list(ls)])
    return out


def _norm_src(src):
    """the flushed text of a logical line is compared up to leading/trailing blanks (they never matter to the
    lexer that consumes it; the category is compared separately)"""
    if "lines" not in src:
        return src
    return dict(src, lines=[[l[0], l[1].strip(" "), l[2], l[3], l[4]] + list(l[5:6]) for l in src["lines"]])


def _has_isdir(isrc):
    """the implementation exposes parse_file's directive test on a yielded line (FileParser.is_directive)"""
    return all(len(l) > 5 and l[5] is not None for l in isrc.get("lines", []))


def _drop_isdir(src):
    if "lines" not in src:
        return src
    return dict(src, lines=[l[:5] for l in src["lines"]])


def judge(text: str, rep: dict, isrc: dict, ipar: dict, univ: bool):
    """Compare implementation / model / spec for one text.
    Returns (corr_breaks, findings, violations, info):
      corr_breaks: list of (op, impl, model); findings: set of finding ids whose classifier explains an
      implementation-vs-spec difference; violations: list of messages."""
    m, s = rep["model"], rep["spec"]
    corr, finds, viol = [], set(), []
    if isrc is not None:
        msrc = m["source"]
        if not _has_isdir(isrc):
            isrc, msrc = _drop_isdir(isrc), _drop_isdir(msrc)
        if _norm_src(isrc) != _norm_src(msrc):
            corr.append(("clex.source", isrc, msrc))
    if ipar is not None and ipar != m["parse"]:
        corr.append(("clex.parse", ipar, m["parse"]))
    info = {"wf": s["wf"], "nontrivial": False}
    if not s["wf"]:
        return corr, finds, viol, info
    info["nontrivial"] = bool(s["counted"]) and ("//" in text or "/*" in text or "\\\n" in text or "\\\r" in text)
    lines = phys_lines(text, univ)
    drop = set()
    # --- c_file_source level
    if isrc is not None:
        if "exc" in isrc:
            if s["k1"] and isrc["exc"] == "RuntimeError:not-top-level" and lines and lines[-1].endswith("/\\"):
                finds.add(F1)  # cannot happen for wf texts (no final splice); kept for completeness
            else:
                viol.append(f"c_file_source raises {isrc['exc']} on a well-formed text")
        else:
            ic, sc = set(isrc["counted"]), set(s["counted"])
            if isrc["counted"] != sorted(ic):
                viol.append(f"counted lines not strictly increasing: {isrc['counted']}")
            for n in sorted(ic ^ sc):
                missed = n in sc
                if f1_explains(lines, n, missed):
                    finds.add(F1)
                    drop.add(n)
                elif s["k2"] and f2_explains(lines, n, missed):
                    finds.add(F2)
                    drop.add(n)
                else:
                    viol.append(
                        f"line {n} is {'not ' if missed else ''}counted by c_file_source but the specification says "
                        f"{'it holds code' if missed else 'nothing survives on it'} (counted {sorted(ic)} vs {sorted(sc)})")
            slg = s["logical"]
            if _has_isdir(isrc):
                ilg = [[l[5], l[0]] for l in isrc["lines"]]
            else:  # only the extents can be compared here; the node list below carries the directive test
                ilg = [[False, l[0]] for l in isrc["lines"]]
                slg = [[False, ls] for _, ls in slg]
            if strip_lines(ilg, drop) != strip_lines(slg, drop):
                if drop:
                    # the carried "/" may also move a logical-line boundary: accept only if the node view agrees
                    if merge_code(strip_lines(ilg, drop)) != merge_code(strip_lines(slg, drop)):
                        viol.append(f"logical lines {ilg} differ from the specification's {slg}")
                else:
                    viol.append(f"logical lines (directive?, lines) {ilg} differ from the specification's {slg}")
            if isrc["total"] != len(isrc["counted"]):
                viol.append(f"total_sloc {isrc['total']} != number of counted lines {len(isrc['counted'])}")
            if isrc["phys"] != len(lines):
                viol.append(f"total_physical_lines {isrc['phys']} != {len(lines)}")
    # --- parse_file level
    if ipar is not None:
        if "exc" in ipar:
            if isrc is not None and "exc" in isrc:
                pass  # already reported
            else:
                viol.append(f"parse_file raises {ipar['exc']} on a well-formed text")
        else:
            nd = [[n[0], n[1]] for n in ipar["nodes"]]
            flat = [x for n in nd for x in n[1]]
            if flat != sorted(set(flat)):
                viol.append(f"node.lines not strictly increasing / a line counted twice: {nd}")
            if any(x < 1 or x > len(lines) for x in flat):
                viol.append(f"node.lines outside 1..{len(lines)}: {nd}")
            if any(n[2] != len(n[1]) or n[2] < 1 for n in ipar["nodes"]):
                viol.append(f"num_lines != len(lines) or < 1: {ipar['nodes']}")
            if ipar["total_sloc"] != len(flat):
                viol.append(f"total_sloc {ipar['total_sloc']} != sum of node lines {len(flat)}")
            d2 = set(drop)
            for n in sorted(set(flat) ^ set(s["counted"])):
                missed = n in s["counted"]
                if f1_explains(lines, n, missed):
                    finds.add(F1)
                    d2.add(n)
                elif s["k2"] and f2_explains(lines, n, missed):
                    finds.add(F2)
                    d2.add(n)
                elif isrc is None:
                    viol.append(f"line {n}: parse_file nodes {nd} vs specification {s['nodes']}")
            if merge_code(strip_lines(nd, d2)) != merge_code(strip_lines(s["nodes"], d2)):
                viol.append(f"node list (directive?, lines) {nd} differs from the specification's {s['nodes']}")
            elif not d2 and nd != s["nodes"]:
                viol.append(f"node list (directive?, lines) {nd} differs from the specification's {s['nodes']}")
    return corr, finds, viol, info


def observe(text: str, univ: bool, want_source=True, want_parse=True):
    isrc = I.impl_source(text) if (want_source and not univ) else None
    ipar = I.impl_parse(text) if want_parse else None
    return isrc, ipar


# --------------------------------------------------------------------------
# exhaustive enumeration (worker processes)
# --------------------------------------------------------------------------
def _texts_with_prefix(prefix: str, maxlen: int):
    yield prefix
    for L in range(1, maxlen - len(prefix) + 1):
        for tup in itertools.product(ALPHA, repeat=L):
            yield prefix + "".join(tup)


def _worker(args):
    prefix, maxlen, exact_only = args
    drv = core.Driver()
    out = {"n": 0, "wf": 0, "nontrivial": 0, "dist": {}, "corr": [], "finds": {}, "viol": [], "samples": []}
    try:
        if exact_only:
            texts_iter = iter([prefix])
        else:
            texts_iter = _texts_with_prefix(prefix, maxlen)
        while True:
            chunk = list(itertools.islice(texts_iter, 4000))
            if not chunk:
                break
            reps = drv.batch([{"op": "clex", "text": t, "univ": False} for t in chunk])
            for t, rep in zip(chunk, reps):
                isrc, ipar = observe(t, False)
                corr, finds, viol, info = judge(t, rep, isrc, ipar, False)
                out["n"] += 1
                key = "len=%d" % len(t)
                out["dist"][key] = out["dist"].get(key, 0) + 1
                if info["wf"]:
                    out["wf"] += 1
                    if info["nontrivial"]:
                        out["nontrivial"] += 1
                        if len(out["samples"]) < 2:
                            out["samples"].append(t)
                for op, im, mo in corr:
                    if len(out["corr"]) < 5:
                        out["corr"].append([op, t, im, mo])
                for f in finds:
                    out["finds"].setdefault(f, t)
                for v in viol:
                    if len(out["viol"]) < 5:
                        out["viol"].append([v, t])
    finally:
        drv.close()
    return out


def exhaustive(ctx, maxlen: int, procs: int = 16):
    """all texts of length <= maxlen over ALPHA, split by 2-character prefix"""
    jobs = [("", 0, True)] + [(c, 1, True) for c in ALPHA]
    jobs += [(a + b, maxlen, False) for a in ALPHA for b in ALPHA]
    if maxlen < 2:
        jobs = [("", 0, True)] + [(c, 1, True) for c in ALPHA][: 9 if maxlen >= 1 else 0]
    with mp.get_context("fork").Pool(min(procs, os.cpu_count() or 1)) as pool:
        results = pool.map(_worker, jobs, chunksize=1)
    total = 0
    for r in results:
        total += r["n"]
        ctx.evaluations += r["n"]
        for k, v in r["dist"].items():
            ctx.dist["exhaustive:" + k] += v
        ctx.dist["exhaustive:wf"] += r["wf"]
        ctx.extra["exhaustive_nontrivial"] = ctx.extra.get("exhaustive_nontrivial", 0) + r["nontrivial"]
        for t in r["samples"]:
            ctx.sample({"text": t, "origin": "exhaustive"})
        for op, t, im, mo in r["corr"]:
            ctx.corr_break(op, {"text": t, "univ": False, "origin": "exhaustive"}, im, mo)
        for f, t in r["finds"].items():
            _known(ctx, f, {"text": t, "univ": False, "origin": "exhaustive"})
        for v, t in r["viol"]:
            ctx.violation(v, {"text": t, "univ": False, "origin": "exhaustive"})
    return total


def _known(ctx, fid, case):
    """an implementation-vs-spec difference explained by a recorded finding's classifier"""
    ctx.classify(case, f"difference in class {fid} but the finding is not recorded as known", [(fid, lambda c: True)])


# --------------------------------------------------------------------------
# random token-level texts
# --------------------------------------------------------------------------
IDENT = ["x", "y1", "foo", "BAR", "_z", "if", "define", "a"]
PUNCT = [";", "(", ")", "{", "}", "+", "-", "=", "<", ">", ",", "*", "/", "%", "&", "|", "!", "?", ":", ".", "[", "]", "~", "^"]
STR_PIECES = ["x", " ", "//", "/*", "*/", "\\\"", "\\\\", "'", "#", "\\n", "y z", "\t", "/", "*"]
CHR = ["'a'", "'\"'", "'\\''", "'/'", "'*'", "'\\\\'", "'\\n'", "'\\x41'", "'\\101'", "'#'", "' '", "'\\\"'"]
CMT_PIECES = ["c", " ", "\"", "'", "//", "/*", "* ", "*", "/", "#", "\\", "don't", "\"open", "x y"]
# no conditional directives here: an #if swallowed by a comment would unbalance the tree (SourceTree.insert
# then fails, which is C01's subject); FIXED holds a balanced conditional
DIRECTIVES = ["define X 1", "define F(a) a", "include <x.h>", "include \"y.h\"", "pragma once", "pragma omp parallel",
              "undef X", "error no", "line 7", "", "unknown_directive z", "define S \"//\"", "define C '\"'",
              "define D a ## b", "define E(x) #x", "warning w", "define G /* c */ g", "include <a//b.h>"]


def gen_string(rng):
    return '"' + "".join(rng.choice(STR_PIECES) for _ in range(rng.randint(0, 4))) + '"'


def gen_block_comment(rng, multiline=True):
    body = "".join(rng.choice(CMT_PIECES + (["\n"] * 2 if multiline else [])) for _ in range(rng.randint(0, 6)))
    body = body.replace("*/", "* /")
    return "/*" + body + "*/"


def gen_line_comment(rng):
    body = "".join(rng.choice(CMT_PIECES) for _ in range(rng.randint(0, 4)))
    if body.endswith("\\") and rng.random() < 0.7:
        body += " "
    return "//" + body


def gen_code_tokens(rng, n):
    out = []
    for _ in range(n):
        r = rng.random()
        if r < 0.30:
            out.append(rng.choice(IDENT))
        elif r < 0.40:
            out.append(str(rng.randint(0, 99)))
        elif r < 0.58:
            out.append(rng.choice(PUNCT))
        elif r < 0.68:
            out.append(gen_string(rng))
        elif r < 0.76:
            out.append(rng.choice(CHR))
        elif r < 0.88:
            out.append(gen_block_comment(rng))
        elif r < 0.92:
            out.append("#")
        else:
            out.append(rng.choice([" ", "  ", "\t", "\f", "\v"]))
    return out


def join_tokens(rng, toks):
    """glue tokens with random white space / continuations; identifiers and numbers are kept apart"""
    s = ""
    for t in toks:
        sep = rng.choice(["", " ", " ", "  ", "\t", "\\\n", " \\\n", "\\\n ", "\\\n\\\n"]) if s else rng.choice(["", " ", "\t"])
        if s and sep == "" and (s[-1].isalnum() or s[-1] == "_") and (t[0].isalnum() or t[0] == "_"):
            sep = " "
        if s and sep == "" and s[-1] == "/" and t[0] in "/*":
            sep = " "
        if s and sep == "" and s[-1] == "*" and t[0] == "/":
            sep = " "
        if s and sep == "" and s[-1] == "\\":
            sep = " "
        s += sep + t
    return s


def gen_text(rng, hostile=False):
    """token-level C-like text, <= 40 physical lines"""
    lines = []
    nlog = rng.randint(1, 14)
    for _ in range(nlog):
        r = rng.random()
        if r < 0.22:
            d = rng.choice(DIRECTIVES)
            lead = rng.choice(["", "", " ", "\t", "/* c */", "/* a\nb */ ", "  /**/"])
            mid = rng.choice(["", "", " ", "\\\n", " /* x */ "])
            body = d
            if rng.random() < 0.4 and " " in d:
                i = d.index(" ")
                body = d[:i] + rng.choice([" \\\n ", " /* c */ ", " \\\n"]) + d[i + 1:]
            tail = rng.choice(["", "", " ", " // c", " /* t */", " /* m\n m */", " \\\n"])
            lines.append(lead + "#" + mid + body + tail)
        elif r < 0.26:
            lines.append(rng.choice(["", " ", "\t", "\\", " \\", "/**/", "//", "// c \\\n still comment"]))
        elif r < 0.30:
            # first token `##` (code, F-C05-3 repaired) next to look-alikes whose first token is `#` (directives)
            lines.append(rng.choice(["", " ", "\t", "/* c */", "/**/ "]) +
                         rng.choice(["##", "## x", "##define X 1", "#\\\n#", "#\\\n# define Y", "###", "## /* c */ y \\\n z",
                                     "# #", "#/**/#", "# ## x", "#/* c\n */# z", "#\\\n #", "##\\\n", "## // c"]))
        else:
            toks = gen_code_tokens(rng, rng.randint(1, 7))
            s = join_tokens(rng, toks)
            if rng.random() < 0.3:
                s += rng.choice([" ", ""]) + gen_line_comment(rng)
            lines.append(s)
    if hostile:  # ill-formed or finding-class ingredients: only model = implementation is required there
        k = rng.randrange(len(lines) + 1)
        lines.insert(k, rng.choice(['"open', "'", "x \\ y", "/* never closed", "a/\\", "'/\\", '"a\\\n  \\\n b"', "##x",
                                     "'//'", "'ab'", "\x1c", "\xa0#define Q", "x\x85", "a\\"]))
    text = "\n".join(lines)
    if len(text.split("\n")) > 40:
        text = "\n".join(text.split("\n")[:40])
    if rng.random() < 0.85:
        text += "\n"
    return text


# --------------------------------------------------------------------------
# gcc oracle (validates the specification)
# --------------------------------------------------------------------------
def gcc_ident_lines(text: str, d):
    """Replace every maximal letter/digit/underscore run by a unique identifier, run `gcc -E`, and map the
    surviving identifiers back to physical lines.  Returns (lines, stderr) or None if gcc is unavailable."""
    ids = {}
    out = []
    line = 1
    i = 0
    k = 0
    while i < len(text):
        c = text[i]
        if c.isalnum() or c == "_":
            j = i
            while j < len(text) and (text[j].isalnum() or text[j] == "_"):
                j += 1
            if text[i:j] == "pragma":
                out.append("pragma")
            else:
                k += 1
                name = "q%dq" % k
                ids[name] = line
                out.append(name)
            i = j
        else:
            if c == "\n":
                line += 1
            out.append(c)
            i += 1
    p = os.path.join(str(d), "o.c")
    with open(p, "w", newline="") as f:
        f.write("".join(out))
    try:
        r = subprocess.run(["gcc", "-E", "-P", "-undef", "-nostdinc", "-fno-extended-identifiers", "-x", "c", p],
                           capture_output=True, text=True, timeout=20)
    except (FileNotFoundError, subprocess.TimeoutExpired):
        return None
    found = set(ids[m] for m in re.findall(r"q\d+q", r.stdout) if m in ids)
    return sorted(found), r.stderr, r.returncode


def gen_oracle_text(rng):
    """directive-free token text (plus #pragma lines, which gcc -E passes through)"""
    lines = []
    for _ in range(rng.randint(1, 10)):
        r = rng.random()
        if r < 0.12:
            lines.append(rng.choice(["", " ", "/* c */ "]) + "#pragma " + rng.choice(["once", "omp parallel", "x /* c */ y", "a \\\n b"]))
        elif r < 0.2:
            lines.append(rng.choice(["", " ", "/**/", "// c", "// c \\\n still"]))
        else:
            toks = [t for t in gen_code_tokens(rng, rng.randint(1, 7)) if t != "#"]
            s = join_tokens(rng, toks or ["x"])
            if rng.random() < 0.3:
                s += " " + gen_line_comment(rng)
            lines.append(s)
    return "\n".join(lines) + "\n"


def oracle_round(ctx, drv, n):
    bad = 0
    with core.Scratch() as d:
        for _ in range(n):
            t = gen_oracle_text(ctx.rng)
            if re.search(r"\\[ \t\f\v]+\n", t):
                continue  # gcc extension: backslash, white space, newline is also a splice
            rep = drv.ask({"op": "clex", "text": t, "univ": False})
            s = rep["spec"]
            g = gcc_ident_lines(t, d)
            if g is None:
                ctx.notes.append("gcc not available: oracle skipped")
                return
            lines, err, rc = g
            ctx.count(key="oracle:gcc")
            if not s["wf"]:
                ctx.dist["oracle:not-wf"] += 1
                continue
            if err.strip() or rc != 0:
                # gcc diagnoses something the spec accepts: the only tolerated case is a warning-free reading
                ctx.dist["oracle:gcc-diagnostic"] += 1
                if "error" in err or rc != 0:
                    bad += 1
                    ctx.notes.append(f"SPEC-VS-GCC: gcc rejects a text the spec calls well-formed: {t!r}: {err[:200]}")
                continue
            if lines != s["ident_lines"]:
                bad += 1
                ctx.notes.append(f"SPEC-VS-GCC: identifier lines {lines} (gcc) vs {s['ident_lines']} (spec) on {t!r}")
    if bad:
        raise RuntimeError("the specification disagrees with gcc -E on %d text(s): %s" % (bad, ctx.notes[-1]))


# --------------------------------------------------------------------------
# entry points
# --------------------------------------------------------------------------
def check_isspace(ctx, drv):
    model = set(drv.ask({"op": "clex_isspace"}))
    real = set(n for n in range(0x110000) if chr(n).isspace())
    ctx.count(key="isspace-table")
    if model != real:
        ctx.corr_break("clex_isspace", {"codepoints": sorted(model ^ real)[:20]}, sorted(real - model)[:10], sorted(model - real)[:10])


def check_one(ctx, drv, text, univ, origin):
    rep = drv.ask({"op": "clex", "text": text, "univ": univ})
    isrc, ipar = observe(text, univ)
    corr, finds, viol, info = judge(text, rep, isrc, ipar, univ)
    case = {"text": text, "univ": univ, "origin": origin}
    nl = text.count("\n")
    ctx.count(key=f"{origin}:lines<={10 * (nl // 10 + 1)}")
    if info["wf"]:
        ctx.dist[origin + ":wf"] += 1
        if info["nontrivial"]:
            ctx.nontrivial.add(text)
            ctx.sample(case, cap=8)
        for k in ("k1", "k2"):
            if rep["spec"][k]:
                ctx.dist[origin + ":" + k] += 1
    for op, im, mo in corr:
        ctx.corr_break(op, case, im, mo)
    for f in finds:
        _known(ctx, f, case)
    for v in viol:
        ctx.violation(v, case)
    return rep, isrc, ipar


def shrink(drv, text, univ, budget=600):
    """delta-debugging on lines, then on characters, keeping 'the implementation contradicts the specification'"""
    calls = [0]

    def bad(t):
        calls[0] += 1
        rep = drv.ask({"op": "clex", "text": t, "univ": univ})
        isrc, ipar = observe(t, univ)
        return bool(judge(t, rep, isrc, ipar, univ)[2])

    def ddmin(units, joiner):
        n = 2
        while len(units) >= 2 and calls[0] < budget:
            size = max(1, len(units) // n)
            removed = False
            for i in range(0, len(units), size):
                cand = units[:i] + units[i + size:]
                if cand and bad(joiner(cand)):
                    units = cand
                    n = max(n - 1, 2)
                    removed = True
                    break
                if calls[0] >= budget:
                    break
            if not removed:
                if size == 1:
                    break
                n = min(len(units), n * 2)
        return units

    if not bad(text):
        return text
    lines = text.split("\n")
    lines = ddmin(lines, lambda u: "\n".join(u))
    text = "\n".join(lines)
    chars = ddmin(list(text), lambda u: "".join(u))
    return "".join(chars)


def minimise_violations(ctx, drv):
    """shrink the first few violating texts and put the smallest first"""
    seen = set()
    out = []
    for what, case in ctx.violations:
        key = case.get("text")
        if key in seen or len(out) >= 3 or "text" not in case:
            continue
        seen.add(key)
        small = shrink(drv, case["text"], bool(case.get("univ", False)))
        rep = drv.ask({"op": "clex", "text": small, "univ": bool(case.get("univ", False))})
        isrc, ipar = observe(small, bool(case.get("univ", False)))
        viol = judge(small, rep, isrc, ipar, bool(case.get("univ", False)))[2]
        c2 = dict(case, text=small, shrunk_from=case["text"])
        for v in viol[:2] or [what]:
            out.append((v, c2))
    if out:
        out.sort(key=lambda wc: len(wc[1]["text"]))
        ctx.violations[:] = out + [wc for wc in ctx.violations if wc[1].get("text") not in seen]


FIXED = [
    "", "\n", "a", "a\n", "/* c */\n", "a /* c */ b\n", "// c\n", "a // c\n", "\"//\" x\n", "'\"' // c\n",
    "#define X 1\n", " # define X \\\n 1\n", "/* c */ #define X\n", "a \\\n b\n", "/* a\n b\n */ c\n",
    "\"a\\\"//\" b\n", "'\\'' /* c */\n", "x = '/' ; // c\n", "a /\\\n b\n", "\"a\\\n  \\\n b\"\n", "## a\n",
    "#/**/# a\n", "# /* c \n */ define X\n", "a/**/b\n", "a/*\n*/#define X\n", "a\r\nb // c\r\n", "a\t/*\f*/\v b\n",
    "'\\x41' '\\101' // c\n", "/\\\n/ comment\nx\n", "/\\\n* c */ x\n", "x /* c *\\\n/ y\n", "// c \\\n still\nz\n",
    "#define A \"/*\"\n#define B '\"'\ncode\n", "#if 1\nx\n#else\ny\n#endif\n", "a\\\n", "/* open\n", "\"open\n",
]


def run(ctx, drv):
    import time
    _t0 = time.time()
    def lap(label):
        ctx.extra.setdefault("phase_seconds", {})[label] = round(time.time() - _t0, 1)
    ctx.rule = (
        "texts over {a, space, newline, / * \" ' \\ #}: ALL texts of length <= 6 (quick) / <= 7 (thorough, 16 processes) "
        "are run through c_file_source and parse_file and compared with the Lean model (every field) and, when "
        "well-formed, with the Lean specification (counted lines, logical lines, node list, total_sloc); plus random "
        "token-level texts (<= 40 lines: multi-line comments, literals holding comment markers and escaped quotes, "
        "continuations, directives after comments, tabs/FF/VT, CRLF through parse_file's universal-newline decoding). "
        "distinct_nontrivial = distinct well-formed texts with >= 1 comment marker or continuation and >= 1 counted line "
        "(random part: counted as a set; exhaustive part: every text is distinct, see exhaustive_nontrivial).")
    ctx.assumptions += [
        "well-formed (wf) = valid pp-token sequence with comments: no unterminated literal/comment, no stray backslash, "
        "no file-final backslash, no empty character constant, no // or /* inside a multi-character constant, and only "
        "C white space (Python-only spaces U+001C-1F, U+0085, U+00A0, ... excluded)",
        "trigraphs/digraphs (%:, ??=) are not modelled (the property's alphabet has none); C++11 raw string literals are "
        "outside the specification's C reading of phase 3: stream `rawstr` judges them with g++ -E and reports the "
        "implementation's miscounts under the recorded finding F-C05-4",
        "parse_file is observed with file_parser.open replaced by an in-memory universal-newline stream; a sample goes "
        "through real temporary files and must agree",
        "node kind is observed as DirectiveNode vs CodeNode; which directive class was built is C01/C03 territory",
    ]
    if drv is None:
        ctx.notes.append("model driver unavailable: only implementation-vs-spec invariants that need no driver would run")
        return
    I.mods()
    # corpus first
    for f in sorted((core.VERIF / "corpus" / "C05").glob("*.json")):
        c = json.loads(f.read_text())
        check_one(ctx, drv, c["text"], bool(c.get("univ", False)), "corpus")
    check_isspace(ctx, drv)
    for t in FIXED:
        check_one(ctx, drv, t, "\r" in t, "fixed")
    # witnesses of the recorded findings are replayed on the implementation
    for k in ctx.known:
        w = k.get("witness", {})
        if "text" in w and k.get("id") != RAW.F4:   # F-C05-4 is judged by g++, not by the specification (stream rawstr)
            check_one(ctx, drv, w["text"], False, "witness")
    # exhaustive
    big = ctx.thorough() or ctx.budget_scale > 1
    maxlen = int(os.environ.get("VERIF_C05_MAXLEN", "0")) or (7 if big else 6)
    n = exhaustive(ctx, maxlen)
    lap("exhaustive")
    ctx.exhaustive = True
    ctx.extra["exhaustive_bound"] = f"all {n} texts of length <= {maxlen} over {ALPHA!r}"
    # random
    nrand = ctx.n(2500, 40000)
    with core.Scratch() as d:
        for i in range(nrand):
            t = gen_text(ctx.rng, hostile=(i % 5 == 4))
            univ = False
            if i % 7 == 3:
                t = t.replace("\n", "\r\n") if ctx.rng.random() < 0.7 else t.replace("\n", "\r", 1)
                univ = True
            rep, isrc, ipar = check_one(ctx, drv, t, univ, "random-crlf" if univ else "random")
            if i % 25 == 0:  # the in-memory stream must behave like a real file
                real = I.impl_parse_file(t, d)
                ctx.count(key="real-file")
                if real != ipar:
                    ctx.violation(f"parse_file on a real file {real} differs from the in-memory observation {ipar}",
                                  {"text": t, "univ": True, "origin": "real-file"})
    lap("random")
    # oracle
    if ctx.thorough():
        oracle_round(ctx, drv, ctx.n(0, 1500))
    else:
        oracle_round(ctx, drv, 40)
    lap("oracle")
    # C++11 raw string literals, judged by g++ -E (finding class F-C05-4: outside the C reading of the specification)
    with core.Scratch() as d:
        ctx.extra["rawstr_judged"] = RAW.run_stream(ctx, drv, ctx.n(120, 1500), d)
    lap("rawstr")
    if ctx.violations:
        minimise_violations(ctx, drv)
    ctx.extra["distinct_nontrivial_total"] = len(ctx.nontrivial) + ctx.extra.get("exhaustive_nontrivial", 0)
    # fold the exhaustive count into the reported number (all exhaustive texts are distinct from each other;
    # random texts are longer than the exhaustive bound with overwhelming probability and are de-duplicated by set)
    for j in range(ctx.extra.get("exhaustive_nontrivial", 0)):
        ctx.nontrivial.add(("exhaustive", j))


def run_texts(ctx, drv, texts, origin):
    """batch version of check_one (driver batches of 2000 texts); stops after the first violations"""
    n = 0
    it = iter(texts)
    while True:
        chunk = list(itertools.islice(it, 2000))
        if not chunk:
            break
        reps = drv.batch([{"op": "clex", "text": t, "univ": False} for t in chunk])
        for t, rep in zip(chunk, reps):
            isrc, ipar = observe(t, False)
            corr, finds, viol, info = judge(t, rep, isrc, ipar, False)
            n += 1
            ctx.evaluations += 1
            ctx.dist[origin] += 1
            case = {"text": t, "univ": False, "origin": origin}
            for op, im, mo in corr:
                if len(ctx.corr_breaks) < 20:
                    ctx.corr_break(op, case, im, mo)
            for f in finds:
                _known(ctx, f, case)
            for v in viol:
                ctx.violation(v, case)
        if len(ctx.violations) >= 5:
            break
    return n


def table_search(ctx, drv):
    """texts aimed at the cells where the transition table regenerated from the running `c_cleaner` /
    `c_file_source` differs from the Lean model's cells (harness/props/clean_diff.py)"""
    from harness.props import clean_diff

    sus = clean_diff.c_suspects(drv)
    if sus["error"]:
        ctx.notes.append("search: the transition table cannot be regenerated: " + sus["error"][:300])
    if sus["cells"]:
        ctx.notes.append(f"search: code and model differ in {len(sus['cells'])}{'+' if len(sus['cells']) >= 40 else ''} "
                         f"table cell(s), e.g. " + " | ".join(sus["cells"][:4]))
        ctx.extra["table_diff_cells"] = sus["cells"]
    if not sus["stacks"]:
        return 0
    n = run_texts(ctx, drv, clean_diff.c_biased_texts(sus), "search-table-cells")
    ctx.notes.append(f"search: {n} texts aimed at {len(sus['stacks'])} cleaner stack(s) with differing cells")
    return n


def search(ctx, drv):
    """failing-input search after a broken obligation / correspondence: first texts aimed at the differing
    cells of the regenerated transition table, then larger exhaustive bound, 8x random"""
    if drv is None:
        return
    I.mods()
    table_search(ctx, drv)
    if ctx.violations:
        minimise_violations(ctx, drv)
        return
    n = exhaustive(ctx, 7)
    ctx.notes.append(f"search: exhaustive bound raised to 7 ({n} texts)")
    for i in range(ctx.n(2500, 40000)):
        t = gen_text(ctx.rng, hostile=(i % 5 == 4))
        check_one(ctx, drv, t, False, "search")
    if ctx.violations:
        minimise_violations(ctx, drv)


def replay(ctx, drv, case):
    I.mods()
    text, univ = case["text"], bool(case.get("univ", False))
    out = {"text": text, "implementation": {"c_file_source": None if univ else I.impl_source(text), "parse_file": I.impl_parse(text)}}
    if case.get("origin") == "rawstr":
        with core.Scratch() as d:
            out["gxx_E_code_lines"] = RAW.gxx_code_lines(text, d)
        out["has_raw_string_literal"] = RAW.has_raw_string(text)
    if drv is not None:
        rep = drv.ask({"op": "clex", "text": text, "univ": univ})
        out["model"] = rep["model"]
        out["spec"] = rep["spec"]
        corr, finds, viol, info = judge(text, rep, out["implementation"]["c_file_source"], out["implementation"]["parse_file"], univ)
        out["verdict"] = {"violations": viol, "known_findings": sorted(finds), "correspondence_breaks": [c[0] for c in corr]}
    return out
