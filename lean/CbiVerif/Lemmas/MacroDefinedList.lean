import CbiVerif.Lemmas.MacroObjTop
import CbiVerif.Lemmas.MacroDefined
/-! # `defined` in ANY position of a whole token list (object-like tables)

`Lemmas/MacroDefined.lean` proves what ONE loop iteration does with `defined X` / `defined ( X )`; `Lemmas/MacroObj.lean`
(`sim`) runs the stream-stack machine over whole token lists that contain no `defined`.  This file closes the gap: for every
table of object-like macros and every token list in which each `defined` is followed by an identifier or by `( identifier )`
(`defOK`), the machine `MX.step`, started on the outermost stream, reaches the exhausted stream whose tokens (holes removed)
are `ED tbl d ts`:

* `defined X` / `defined ( X )` ↦ the ONE number token `1` / `0` read from the table (`X` is consumed, never expanded),
* every other token ↦ its recursive object-like expansion `E` (`Lemmas/MacroObj.lean`).

The outermost stream keeps holes (`None`) where `defined`, `(` and `X` were consumed, so the invariant speaks about a
prefix `P : List (Option Tok)`; a macro expansion in between splices its child stream and thereby removes the holes
collected so far (`splice_holes`).  Stated for the machine as it is (`adv = true`). -/
namespace CbiVerif.MX
open CbiVerif.PP

/-- the token the expander treats as the `defined` operator -/
def isDef (t : Tok) : Bool := t.kind == .ident && t.text == "defined"

/-- what `defined X` / `defined ( X )` is replaced by: `1` / `0` from the table, with `prev_white` of `X` -/
def defTok (tbl : Table) (x : Tok) : Tok := numTok (isDefined tbl x.text) x.pw

/-- reference: `defined` decided from the table, everything else expanded by `E` (nothing disabled at top level) -/
def ED (tbl : Table) (d : Nat) : List Tok → List Tok
  | [] => []
  | t :: ts =>
    if isDef t then
      match ts with
      | [] => []
      | x :: rest =>
        if x.text == "(" then
          match rest with
          | [] => []
          | [_] => []
          | i :: _ :: rest' => defTok tbl i :: ED tbl d rest'
        else defTok tbl x :: ED tbl d rest
    else E tbl d [] [t] ++ ED tbl d ts
termination_by structural ts => ts

/-- every `defined` is followed by an identifier or by `(`, an identifier and `)` -/
def defOK : List Tok → Bool
  | [] => true
  | t :: ts =>
    if isDef t then
      match ts with
      | [] => false
      | x :: rest =>
        if x.text == "(" then
          match rest with
          | [] => false
          | [_] => false
          | i :: p :: rest' => i.kind == .ident && p.text == ")" && defOK rest'
        else x.kind == .ident && defOK rest
    else defOK ts
termination_by structural ts => ts

theorem ED_nil (tbl : Table) (d : Nat) : ED tbl d [] = [] := by simp [ED]

theorem ED_other (tbl : Table) (d : Nat) (t : Tok) (ts : List Tok) (h : isDef t = false) :
    ED tbl d (t :: ts) = E tbl d [] [t] ++ ED tbl d ts := by
  rw [ED.eq_def]; simp [h]

theorem ED_plain (tbl : Table) (d : Nat) (t x : Tok) (rest : List Tok) (h : isDef t = true) (hx : x.text ≠ "(") :
    ED tbl d (t :: x :: rest) = defTok tbl x :: ED tbl d rest := by
  rw [ED.eq_def]; simp [h, hx]

theorem ED_paren (tbl : Table) (d : Nat) (t lp i rp : Tok) (rest : List Tok) (h : isDef t = true) (hlp : lp.text = "(") :
    ED tbl d (t :: lp :: i :: rp :: rest) = defTok tbl i :: ED tbl d rest := by
  rw [ED]; simp [h, hlp]

theorem defOK_other (t : Tok) (ts : List Tok) (h : isDef t = false) : defOK (t :: ts) = defOK ts := by
  rw [defOK.eq_def]; simp [h]

theorem defOK_plain (t x : Tok) (rest : List Tok) (h : isDef t = true) (hx : x.text ≠ "(") :
    defOK (t :: x :: rest) = (x.kind == .ident && defOK rest) := by
  rw [defOK.eq_def]; simp [h, hx]

theorem defOK_paren (t lp i rp : Tok) (rest : List Tok) (h : isDef t = true) (hlp : lp.text = "(") :
    defOK (t :: lp :: i :: rp :: rest) = (i.kind == .ident && rp.text == ")" && defOK rest) := by
  rw [defOK]; simp [h, hlp]

/-- outside the operands of `defined`, no expandable identifier names a macro of the table (then the table is never
    consulted except by `defined`, whatever kind of macros it holds) -/
def noMacro (tbl : Table) : List Tok → Bool
  | [] => true
  | t :: ts =>
    if isDef t then
      match ts with
      | [] => true
      | x :: rest =>
        if x.text == "(" then
          match rest with
          | [] => true
          | [_] => true
          | _ :: _ :: rest' => noMacro tbl rest'
        else noMacro tbl rest
    else !(t.kind == .ident && t.expandable && (tbl.get t.text).isSome) && noMacro tbl ts
termination_by structural ts => ts

theorem noMacro_other (tbl : Table) (t : Tok) (ts : List Tok) (h : isDef t = false) :
    noMacro tbl (t :: ts) = (!(t.kind == .ident && t.expandable && (tbl.get t.text).isSome) && noMacro tbl ts) := by
  rw [noMacro.eq_def]; simp [h]

theorem noMacro_plain (tbl : Table) (t x : Tok) (rest : List Tok) (h : isDef t = true) (hx : x.text ≠ "(") :
    noMacro tbl (t :: x :: rest) = noMacro tbl rest := by
  rw [noMacro.eq_def]; simp [h, hx]

theorem noMacro_paren (tbl : Table) (t lp i rp : Tok) (rest : List Tok) (h : isDef t = true) (hlp : lp.text = "(") :
    noMacro tbl (t :: lp :: i :: rp :: rest) = noMacro tbl rest := by
  rw [noMacro]; simp [h, hlp]

/-- the three shapes of a well-formed list -/
theorem defOK_cases (t : Tok) (ts : List Tok) (h : defOK (t :: ts) = true) :
    (isDef t = false ∧ defOK ts = true) ∨
    (isDef t = true ∧ ∃ x rest, ts = x :: rest ∧ x.text ≠ "(" ∧ x.kind = .ident ∧ defOK rest = true) ∨
    (isDef t = true ∧ ∃ lp i rp rest, ts = lp :: i :: rp :: rest ∧ lp.text = "(" ∧ i.kind = .ident ∧ rp.text = ")" ∧
      defOK rest = true) := by
  cases hd : isDef t with
  | false => rw [defOK_other t ts hd] at h; exact .inl ⟨rfl, h⟩
  | true =>
    right
    match ts, h with
    | [], h => rw [defOK] at h; simp [hd] at h
    | x :: rest, h =>
      by_cases hx : x.text = "("
      · right
        match rest, h with
        | [], h => rw [defOK] at h; simp [hd, hx] at h
        | [_], h => rw [defOK] at h; simp [hd, hx] at h
        | i :: rp :: rest', h =>
          rw [defOK_paren t x i rp rest' hd hx] at h
          simp only [Bool.and_eq_true, beq_iff_eq] at h
          exact ⟨rfl, x, i, rp, rest', rfl, hx, h.1.1, h.1.2, h.2⟩
      · left
        rw [defOK_plain t x rest hd hx] at h
        simp only [Bool.and_eq_true, beq_iff_eq] at h
        exact ⟨rfl, x, rest, rfl, hx, h.1, h.2⟩

/-! ## the machine -/

theorem filterSome_snoc_none (P : List (Option Tok)) : filterSome (P ++ [none]) = filterSome P := by
  simp [filterSome, List.filterMap_append]

theorem filterSome_snoc_some (P : List (Option Tok)) (t : Tok) : filterSome (P ++ [some t]) = filterSome P ++ [t] := by
  simp [filterSome, List.filterMap_append]

/-- an exhausted child stream is spliced into a stream that has holes: the holes disappear -/
theorem splice_holes (P : List (Option Tok)) (as R : List Tok) (pr : Bool) :
    splice true ⟨P ++ none :: as.map some, P.length + 1, pr⟩ ⟨R.map some, R.length, false⟩
      = ⟨(filterSome P ++ R).map some ++ as.map some, ((filterSome P ++ R).map some).length, pr⟩ := by
  have h1 : (P ++ none :: as.map some).take (P.length + 1) = P ++ [none] := take_hole P none (as.map some)
  have h2 : (P ++ none :: as.map some).drop (P.length + 1) = as.map some := drop_hole P none (as.map some)
  simp only [splice, h1, h2, filterSome_snoc_none, filterSome_map, if_true, List.map_append, List.length_append,
    List.length_map, List.append_assoc]

/-- the last two iterations of a top-level run (any `Cfg`): the only stream is exhausted, `expand` returns it without holes -/
theorem run_exhausted' (c : Cfg) (tbl : Table) (L : List (Option Tok)) (n : Nat) (hn : n ≥ L.length) :
    run c tbl 2 ⟨[⟨L, n, false⟩], [none], [], none⟩ = .ok (filterSome L) := by
  have h1 : step c tbl ⟨[⟨L, n, false⟩], [none], [], none⟩ = .cont ⟨[], [], [], some (filterSome L)⟩ := by
    simp [step, eopState, hn]
  have h2 : step c tbl ⟨[], [], [], some (filterSome L)⟩ = .done (filterSome L) := by simp [step]
  simp only [run, h1, h2]

theorem E_single_nil (tbl : Table) (d : Nat) (D : NoExp) : E tbl d D [] = [] := by
  cases d <;> simp [E]

/-- what the simulation needs to know about the table when a macro IS expanded: object-like, bodies bounded, nesting
    budget `d + 1` never exhausted and below the limit -/
def ObjCtx (c : Cfg) (tbl : Table) (B d : Nat) : Prop :=
  TblOK tbl ∧ BodiesLe tbl B ∧ d + 2 < c.lim ∧ ∀ ts', Fits tbl (d + 1) [none] ts'

/-- **`defined` anywhere in the outermost stream.**  From the outermost stream positioned before `ts` (holes allowed in the
    part already scanned) the machine reaches the exhausted stream whose tokens are those already scanned followed by
    `ED tbl (d+1) ts`, within `|ts| · Cb B (d+1)` iterations, without error and without overflow. -/
theorem simD (c : Cfg) (hadv : c.adv = true) (tbl : Table) (B : Nat) (F : List Frame) (d : Nat) :
    ∀ (n : Nat) (ts : List Tok) (P : List (Option Tok)), ts.length ≤ n → defOK ts = true →
    (noMacro tbl ts = true ∨ ObjCtx c tbl B d) →
    ∃ k P', k ≤ ts.length * Cb B (d + 1) ∧
      runK c tbl k ⟨[⟨P ++ ts.map some, P.length, false⟩], [none], F, none⟩
        = some ⟨[⟨P', P'.length, false⟩], [none], F, none⟩ ∧
      filterSome P' = filterSome P ++ ED tbl (d + 1) ts := by
  intro n
  induction n with
  | zero =>
    intro ts P hn _ _
    have : ts = [] := List.eq_nil_of_length_eq_zero (by omega)
    subst this
    exact ⟨0, P, by simp, by simp [runK], by simp [ED_nil]⟩
  | succ n ih =>
    intro ts P hn hok hobj
    cases ts with
    | nil => exact ⟨0, P, by simp, by simp [runK], by simp [ED_nil]⟩
    | cons t ts =>
      have hC := Cb_pos B (d + 1)
      simp only [List.length_cons] at hn
      rcases defOK_cases t ts hok with ⟨hd, hok'⟩ | ⟨hd, x, rest, rfl, hxp, hxk, hok'⟩ | ⟨hd, lp, i, rp, rest, rfl, hlp, hik, hrp, hok'⟩
      · -- an ordinary token: the object-like simulation
        have hobj' : noMacro tbl ts = true ∨ ObjCtx c tbl B d := hobj.imp_left (fun h => by
          rw [noMacro_other tbl t ts hd] at h; simp only [Bool.and_eq_true] at h; exact h.2)
        have hmul : (ts.length + 1) * Cb B (d + 1) = ts.length * Cb B (d + 1) + Cb B (d + 1) := Nat.succ_mul _ _
        have hnl : ¬ (P.length ≥ (P ++ some t :: ts.map some).length) := by simp
        have hidx : (P ++ some t :: ts.map some)[P.length]? = some (some t) := getElem?_mid P _ (some t)
        -- one step that leaves a (possibly painted) token `t'` in place and advances
        have advance : ∀ t' : Tok, E tbl (d + 1) [] [t] = [t'] →
            step c tbl ⟨[⟨P ++ some t :: ts.map some, P.length, false⟩], [none], F, none⟩
              = .cont ⟨[⟨P ++ some t' :: ts.map some, P.length + 1, false⟩], [none], F, none⟩ →
            ∃ k P', k ≤ (t :: ts).length * Cb B (d + 1) ∧
              runK c tbl k ⟨[⟨P ++ (t :: ts).map some, P.length, false⟩], [none], F, none⟩
                = some ⟨[⟨P', P'.length, false⟩], [none], F, none⟩ ∧
              filterSome P' = filterSome P ++ ED tbl (d + 1) (t :: ts) := by
          intro t' hE hit
          obtain ⟨k, P', hkb, hk, hf⟩ := ih ts (P ++ [some t']) (by omega) hok' hobj'
          refine ⟨k + 1, P', by simp only [List.length_cons]; omega, ?_, ?_⟩
          · simp only [runK, List.map_cons, hit]
            rw [shift]
            exact hk
          · rw [hf, ED_other tbl _ t ts hd, hE, filterSome_snoc_some]; simp
        by_cases hk : (t.kind != TKind.ident) = true
        · apply advance t
          · rw [E]; simp [hk, E_single_nil]
          · simp only [step, hnl, if_false, hidx, hk, if_true]
        · have hk' : (t.kind != TKind.ident) = false := by simpa using hk
          have hki : t.kind = .ident := by simpa using hk
          have hd' : (t.text == "defined") = false := by
            simp only [isDef, hki, beq_self_eq_true, Bool.true_and] at hd; exact hd
          by_cases he : t.expandable = true
          · have hq' : (!t.expandable || ([none] : NoExp).contains (some t.text)) = false := by simp [he]
            have hq0 : (!t.expandable || ([] : NoExp).contains (some t.text)) = false := by simp [he]
            cases hm : tbl.get t.text with
            | none =>
              apply advance t
              · rw [E]; simp only [hk', Bool.false_eq_true, if_false, hq0, hm, E_single_nil]
              · simp only [step, hnl, if_false, hidx, hk', Bool.false_eq_true, hd', hq', hm]
            | some m =>
              have hctx : ObjCtx c tbl B d := by
                rcases hobj with hnm | h
                · rw [noMacro_other tbl t ts hd] at hnm; simp [hki, he, hm] at hnm
                · exact h
              obtain ⟨hT, hB, hlim, hfit⟩ := hctx
              have hobj := hT.objLike _ _ hm
              have hf2 := hfit [t]
              simp only [Fits] at hf2
              have hfitc := hf2.2 hki hq' m hm
              -- the expansion of the macro body in a child stream
              let R := E tbl d [some m.name, none] (fixpw m.replacement t.pw)
              have hRE : E tbl d [some m.name] (fixpw m.replacement t.pw) = R :=
                E_congr tbl d _ _ _ (by intro x; simp)
              have hE : E tbl (d + 1) [] [t] = R := by
                rw [E]; simp only [hk', Bool.false_eq_true, if_false, hq0, hm, E_single_nil, List.append_nil, hRE]
              have hpush : step c tbl ⟨[⟨P ++ some t :: ts.map some, P.length, false⟩], [none], F, none⟩
                  = .cont ⟨[⟨(fixpw m.replacement t.pw).map some, 0, false⟩,
                      ⟨P ++ none :: ts.map some, P.length + 1, false⟩], [some m.name, none], F, none⟩ := by
                have hov : ¬ (([] : List Helper).length + 2 ≥ c.lim) := by simp; omega
                simp only [step, hnl, if_false, hidx, hk', Bool.false_eq_true, hd', hq', hm, hobj, hov, set_mid']
              obtain ⟨k1, hk1b, hk1⟩ := sim c tbl hT B hB F d [some m.name, none] (fixpw m.replacement t.pw) []
                [⟨P ++ none :: ts.map some, P.length + 1, false⟩] false
                (noDef_fixpw _ _ (hT.noDef _ _ hm)) hfitc (by simp; omega)
              simp only [List.nil_append, List.length_nil] at hk1
              have hpop : step c tbl ⟨[⟨R.map some, R.length, false⟩, ⟨P ++ none :: ts.map some, P.length + 1, false⟩],
                    [some m.name, none], F, none⟩
                  = .cont ⟨[⟨(filterSome P ++ R).map some ++ ts.map some, ((filterSome P ++ R).map some).length, false⟩],
                      [none], F, none⟩ := by
                have : R.length ≥ (R.map some).length := by simp
                simp only [step, this, if_true, Bool.false_eq_true, if_false, hadv, splice_holes, List.tail_cons]
              obtain ⟨k2, P', hk2b, hk2, hf⟩ := ih ts ((filterSome P ++ R).map some) (by omega) hok' hobj'
              have s1 : runK c tbl 1 ⟨[⟨P ++ (t :: ts).map some, P.length, false⟩], [none], F, none⟩
                  = some ⟨[⟨(fixpw m.replacement t.pw).map some, 0, false⟩,
                      ⟨P ++ none :: ts.map some, P.length + 1, false⟩], [some m.name, none], F, none⟩ := by
                simp only [runK, List.map_cons, hpush]
              have s3 : runK c tbl 1 ⟨[⟨R.map some, R.length, false⟩, ⟨P ++ none :: ts.map some, P.length + 1, false⟩],
                    [some m.name, none], F, none⟩
                  = some ⟨[⟨(filterSome P ++ R).map some ++ ts.map some, ((filterSome P ++ R).map some).length, false⟩],
                      [none], F, none⟩ := by
                simp only [runK, hpop]
              have hk1' : k1 ≤ B * Cb B d := by
                rw [fixpw_length] at hk1b
                exact Nat.le_trans hk1b (Nat.mul_le_mul_right _ (hB _ _ hm))
              have hCb : Cb B (d + 1) = B * Cb B d + B * Lb B d + 3 := rfl
              refine ⟨1 + (k1 + (1 + k2)), P', by simp only [List.length_cons]; omega, ?_, ?_⟩
              · exact runK_add c tbl 1 _ _ _ _ s1 (runK_add c tbl k1 _ _ _ _ hk1 (runK_add c tbl 1 _ _ _ _ s3 hk2))
              · rw [hf, ED_other tbl _ t ts hd, hE, filterSome_map]; simp
          · have he' : t.expandable = false := by simpa using he
            apply advance (paint t)
            · rw [E]; simp [hk', he', E_single_nil]
            · simp only [step, hnl, if_false, hidx, hk', Bool.false_eq_true, hd', he', Bool.not_false, Bool.true_or, if_true,
                set_mid']
      · -- `defined X`
        have hdk : t.kind = .ident := by simp only [isDef, Bool.and_eq_true, beq_iff_eq] at hd; exact hd.1
        have hdt : t.text = "defined" := by simp only [isDef, Bool.and_eq_true, beq_iff_eq] at hd; exact hd.2
        have hst := step_defined_plain c tbl P (rest.map some) [] [none] F false t x hdk hdt hxk hxp
        simp only [List.length_cons] at hn
        obtain ⟨k, P', hkb, hk, hf⟩ := ih rest (P ++ [none, some (defTok tbl x)]) (by omega) hok'
          (hobj.imp_left (fun h => by rw [noMacro_plain tbl t x rest hd hxp] at h; exact h))
        have hmul : (rest.length + 1 + 1) * Cb B (d + 1) = rest.length * Cb B (d + 1) + 2 * Cb B (d + 1) := by
          rw [Nat.add_assoc, Nat.add_mul]
        refine ⟨k + 1, P', by simp only [List.length_cons]; omega, ?_, ?_⟩
        · simp only [runK, List.map_cons, hst]
          have : (⟨P ++ none :: some (numTok (isDefined tbl x.text) x.pw) :: rest.map some, P.length + 2, false⟩ : Helper)
              = ⟨(P ++ [none, some (defTok tbl x)]) ++ rest.map some, (P ++ [none, some (defTok tbl x)]).length, false⟩ := by
            simp [defTok]
          rw [this]; exact hk
        · rw [hf, ED_plain tbl _ t x rest hd hxp]; simp [filterSome, List.filterMap_append]
      · -- `defined ( X )`
        have hdk : t.kind = .ident := by simp only [isDef, Bool.and_eq_true, beq_iff_eq] at hd; exact hd.1
        have hdt : t.text = "defined" := by simp only [isDef, Bool.and_eq_true, beq_iff_eq] at hd; exact hd.2
        have hst := step_defined_paren c tbl P (rest.map some) [] [none] F false t lp i rp hdk hdt hlp hik hrp
        simp only [List.length_cons] at hn
        obtain ⟨k, P', hkb, hk, hf⟩ := ih rest (P ++ [none, none, none, some (defTok tbl i)]) (by omega) hok'
          (hobj.imp_left (fun h => by rw [noMacro_paren tbl t lp i rp rest hd hlp] at h; exact h))
        have hmul : (rest.length + 1 + 1 + 1 + 1) * Cb B (d + 1) = rest.length * Cb B (d + 1) + 4 * Cb B (d + 1) := by
          rw [Nat.add_assoc, Nat.add_assoc, Nat.add_assoc, Nat.add_mul]
        refine ⟨k + 1, P', by simp only [List.length_cons]; omega, ?_, ?_⟩
        · simp only [runK, List.map_cons, hst]
          have : (⟨P ++ none :: none :: none :: some (numTok (isDefined tbl i.text) i.pw) :: rest.map some, P.length + 4, false⟩ : Helper)
              = ⟨(P ++ [none, none, none, some (defTok tbl i)]) ++ rest.map some,
                  (P ++ [none, none, none, some (defTok tbl i)]).length, false⟩ := by
            simp [defTok]
          rw [this]; exact hk
        · rw [hf, ED_paren tbl _ t lp i rp rest hd hlp]; simp [filterSome, List.filterMap_append]

/-- **`defined` anywhere**: `expandWith` returns `ED` whenever limit and fuel are large enough — for every table of
    object-like macros, and for EVERY table when no expandable identifier outside the operands of `defined` names a macro -/
theorem expandWith_objD (c : Cfg) (hadv : c.adv = true) (tbl : Table) (ts : List Tok) (hok : defOK ts = true)
    (hobj : (noMacro tbl ts = true ∧ c.lim ≠ 0) ∨ (TblOK tbl ∧ tbl.length + 2 < c.lim))
    (fuel : Nat) (hfuel : ts.length * Cb (bodyMax tbl) (tbl.length + 1) + 2 ≤ fuel) :
    expandWith c tbl fuel ts = .ok (ED tbl (tbl.length + 1) ts) := by
  unfold expandWith
  have h0 : ¬ (c.lim = 0) := by
    rcases hobj with h | h
    · exact h.2
    · omega
  simp only [h0, if_false]
  cases ts with
  | nil => simp [ED_nil]
  | cons a as =>
    simp only [List.isEmpty_cons, Bool.false_eq_true, if_false]
    have hobj' : noMacro tbl (a :: as) = true ∨ ObjCtx c tbl (bodyMax tbl) tbl.length :=
      hobj.imp (fun h => h.1) (fun h => ⟨h.1, bodiesLe_bodyMax tbl, h.2, fun ts' => fits_top tbl h.1 _ ts'⟩)
    obtain ⟨k, P', hkb, hk, hf⟩ := simD c hadv tbl (bodyMax tbl) [] tbl.length (a :: as).length (a :: as) [] (Nat.le_refl _) hok hobj'
    simp only [List.nil_append, List.length_nil] at hk
    have hk' : runK c tbl k (initState (a :: as)) = some ⟨[⟨P', P'.length, false⟩], [none], [], none⟩ := hk
    have hrun := run_of_runK c tbl k 2 _ _ hk'
    rw [run_exhausted' c tbl P' P'.length (Nat.le_refl _)] at hrun
    have hf' : filterSome P' = ED tbl (tbl.length + 1) (a :: as) := by simpa [filterSome] using hf
    rw [hf'] at hrun
    exact run_mono_fuel c tbl (k + 2) _ _ hrun fuel (by omega)

theorem realCfg_lim_ne_zero : realCfg.lim ≠ 0 := by
  have : CbiVerif.Gen.maxLevel ≠ 0 := by decide
  simpa only [realCfg] using this

/-- the model of `MacroExpander(platform).expand` on a whole token list with `defined` operators, object-like tables -/
theorem cbiExpand_objD (tbl : Table) (hT : TblOK tbl) (ts : List Tok) (hok : defOK ts = true)
    (hsz : tbl.length + 2 < CbiVerif.Gen.maxLevel) : cbiExpand tbl ts = .ok (ED tbl (tbl.length + 1) ts) := by
  unfold cbiExpand
  exact expandWith_objD realCfg rfl tbl ts hok (.inr ⟨hT, hsz⟩) (fuelFor tbl ts) (by unfold fuelFor; omega)

/-- … and for EVERY table (function-like macros, `defined` in replacement lists, any size) when no expandable identifier
    outside the operands of `defined` names a macro -/
theorem cbiExpand_noMacro (tbl : Table) (ts : List Tok) (hok : defOK ts = true) (hnm : noMacro tbl ts = true) :
    cbiExpand tbl ts = .ok (ED tbl (tbl.length + 1) ts) := by
  unfold cbiExpand
  exact expandWith_objD realCfg rfl tbl ts hok (.inl ⟨hnm, realCfg_lim_ne_zero⟩) (fuelFor tbl ts) (by unfold fuelFor; omega)

end CbiVerif.MX
