#!/bin/bash
# seed_try.sh <seed-id> <PROP> [tier] : run ./check PROP against seeded/<seed-id>/patch.diff in a scratch worktree (CBI_REPO)
cd "$(dirname "$0")/.."; sd=$1; p=$2; tier=${3:-quick}; wt=/tmp/seedtry_$$
git -C /repo worktree add -q --detach $wt HEAD || exit 2
git -C $wt apply $PWD/seeded/$sd/patch.diff || { git -C /repo worktree remove --force $wt; exit 2; }
CBI_REPO=$wt ./check $p $tier 2>&1 | grep -E "^VIOLATION|^  |quick:|thorough:" | cut -c1-400 | head -8
git -C /repo worktree remove --force $wt
/venv/bin/python tools/gen_tables.py /repo >/dev/null
