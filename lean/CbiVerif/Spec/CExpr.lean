/-!
Specification for C02: the value ISO C (C11 6.6, 6.10.1p4) gives to a `#if` controlling expression.

Written from the standard (and gcc's documented choices where C leaves a choice), not from the code:

* all signed operands have type `intmax_t`, all unsigned ones `uintmax_t` — 64 bits (`BitVec 64` + flag);
* usual arithmetic conversions (6.3.1.8): if either operand is unsigned both are converted to unsigned
  (conversion = reinterpretation of the 64 bits, 6.3.1.3p2);
* `/ %` truncate toward zero (6.5.5p6); relational, equality, logical operators and `!` yield the
  signed values 0 or 1 (6.5.8p6, 6.5.9p3, 6.5.13p3, 6.5.14p3, 6.5.3.3p5);
* `&&`, `||`, `?:` do not evaluate their dead operand (6.5.13p4, 6.5.14p4, 6.5.15p4); the type of
  `c ? t : e` is the common type of `t` and `e` whichever is selected (6.5.15p5);
* shifts have the type of the promoted left operand (6.5.7p3);
* `none` = undefined behaviour in an *evaluated* position, or something gcc diagnoses there:
  division by zero, `INTMAX_MIN / -1` (6.5.5p5-6), shift count negative or ≥ 64 (6.5.7p3), left shift
  of a negative value or with a non-representable result (6.5.7p4), signed overflow of `+ - *` and of
  unary `-` (6.5p5);
* implementation-defined, fixed as gcc/x86-64 does: `>>` of a negative value is arithmetic (6.5.7p5),
  plain `char` is signed and 8 bits wide (so `'\377' = -1`), binary literals `0b…` are accepted;
* integer constants (6.4.4.1p5 with 6.10.1p4): unsigned iff `u` suffix, or octal/hex/binary and the
  value exceeds INTMAX_MAX; a constant that fits neither (or a decimal one without `u` above
  INTMAX_MAX, which gcc diagnoses) has no value, wherever it stands;
* character constants (6.4.4.4): one c-char, a simple escape, `\ooo` (1–3 digits) or `\xh…`, value
  ≤ 255, type `int` (signed);
* (validated against `gcc -E` in the thorough tier, with one recorded deviation of gcc from ISO C: gcc
  gives an UNEVALUATED `l / 0`, `l % 0` the type of `l` alone, so `1 ? 1 : (1 % 0u)` is signed for gcc;
  the standard — and this specification, and the code under verification — make it unsigned)
* an identifier left after macro expansion is 0; `defined X` / `defined(X)` is 1 or 0 (6.10.1p1,p4).

Core Lean only (runs in the native driver).
-/
namespace CbiVerif.CExpr

/-! ### values -/

structure Val where
  unsigned : Bool
  bits : BitVec 64
deriving DecidableEq, Repr, Inhabited

def Val.ofBool (b : Bool) : Val := ⟨false, if b then 1#64 else 0#64⟩
def Val.truth (v : Val) : Bool := v.bits != 0#64
/-- the mathematical value -/
def Val.toInt (v : Val) : Int := if v.unsigned then (v.bits.toNat : Int) else v.bits.toInt

def intMin : Int := -9223372036854775808
def intMax : Int := 9223372036854775807
def uintMax : Nat := 18446744073709551615
/-- representable in `intmax_t` -/
def inS (z : Int) : Bool := decide (intMin ≤ z) && decide (z ≤ intMax)

/-! ### operators -/

inductive UnOp | neg | pos | lnot | bnot
deriving DecidableEq, Repr, Inhabited
inductive BinOp | mul | div | mod | add | sub | shl | shr | lt | gt | le | ge | eq | ne | band | bxor | bor | land | lor
deriving DecidableEq, Repr, Inhabited

def UnOp.all : List UnOp := [.neg, .pos, .lnot, .bnot]
def BinOp.all : List BinOp := [.mul, .div, .mod, .add, .sub, .shl, .shr, .lt, .gt, .le, .ge, .eq, .ne, .band, .bxor, .bor, .land, .lor]

def UnOp.sym : UnOp → String
  | .neg => "-" | .pos => "+" | .lnot => "!" | .bnot => "~"
def BinOp.sym : BinOp → String
  | .mul => "*" | .div => "/" | .mod => "%" | .add => "+" | .sub => "-" | .shl => "<<" | .shr => ">>"
  | .lt => "<" | .gt => ">" | .le => "<=" | .ge => ">=" | .eq => "==" | .ne => "!=" | .band => "&"
  | .bxor => "^" | .bor => "|" | .land => "&&" | .lor => "||"

/-- binding strength of the C grammar, 6.5.5 (multiplicative, tightest) … 6.5.14 (logical OR); the
    conditional operator (6.5.15) is level 1, unary operators 12, primary expressions 13 -/
def BinOp.prec : BinOp → Nat
  | .mul | .div | .mod => 11
  | .add | .sub => 10
  | .shl | .shr => 9
  | .lt | .gt | .le | .ge => 8
  | .eq | .ne => 7
  | .band => 6 | .bxor => 5 | .bor => 4 | .land => 3 | .lor => 2

/-- the C operator table in the code's format (token, level, right-associative): all binary operators
    associate to the left, `?:` to the right -/
def cBinaryTable : List (String × Nat × Bool) :=
  ("?", 1, true) :: BinOp.all.map fun o => (o.sym, o.prec, false)
def cUnaryTable : List (String × Nat × Bool) := UnOp.all.map fun o => (o.sym, 12, true)

def cUn (op : UnOp) (a : Val) : Option Val :=
  match op with
  | .neg => if !a.unsigned && a.bits.toInt == intMin then none else some ⟨a.unsigned, -a.bits⟩
  | .pos => some a
  | .lnot => some (Val.ofBool (a.bits == 0#64))
  | .bnot => some ⟨a.unsigned, ~~~a.bits⟩

/-- shift count: the right operand's own value, must be in 0..63 -/
def shiftCount (b : Val) : Option Nat :=
  if !b.unsigned && decide (b.bits.toInt < 0) then none
  else if b.bits.toNat ≥ 64 then none else some b.bits.toNat

/-- a binary operator applied to two *evaluated* operands -/
def cBin (op : BinOp) (a b : Val) : Option Val :=
  let u := a.unsigned || b.unsigned
  let x := a.bits
  let y := b.bits
  match op with
  | .add => if u || inS (x.toInt + y.toInt) then some ⟨u, x + y⟩ else none
  | .sub => if u || inS (x.toInt - y.toInt) then some ⟨u, x - y⟩ else none
  | .mul => if u || inS (x.toInt * y.toInt) then some ⟨u, x * y⟩ else none
  | .div =>
    if y == 0#64 then none
    else if u then some ⟨true, x / y⟩
    else if x.toInt == intMin && y.toInt == -1 then none
    else some ⟨false, x.sdiv y⟩
  | .mod =>
    if y == 0#64 then none
    else if u then some ⟨true, x % y⟩
    else if x.toInt == intMin && y.toInt == -1 then none
    else some ⟨false, x.srem y⟩
  | .shl =>
    match shiftCount b with
    | none => none
    | some n =>
      if a.unsigned then some ⟨true, x <<< n⟩
      else if decide (0 ≤ x.toInt) && inS (x.toInt * 2 ^ n) then some ⟨false, x <<< n⟩ else none
  | .shr =>
    match shiftCount b with
    | none => none
    | some n => if a.unsigned then some ⟨true, x >>> n⟩ else some ⟨false, x.sshiftRight n⟩
  | .lt => some (Val.ofBool (if u then x.ult y else x.slt y))
  | .gt => some (Val.ofBool (if u then y.ult x else y.slt x))
  | .le => some (Val.ofBool (if u then x.ule y else x.sle y))
  | .ge => some (Val.ofBool (if u then y.ule x else y.sle x))
  | .eq => some (Val.ofBool (x == y))
  | .ne => some (Val.ofBool (x != y))
  | .band => some ⟨u, x &&& y⟩
  | .bxor => some ⟨u, x ^^^ y⟩
  | .bor => some ⟨u, x ||| y⟩
  | .land => some (Val.ofBool (x != 0#64 && y != 0#64))
  | .lor => some (Val.ofBool (x != 0#64 || y != 0#64))

/-! ### integer constants -/

inductive Base | dec | oct | hex | bin
deriving DecidableEq, Repr, Inhabited
def Base.radix : Base → Nat
  | .dec => 10 | .oct => 8 | .hex => 16 | .bin => 2

/-- one digit: its value and whether a letter digit is spelled in upper case -/
structure Digit where
  val : Fin 16
  upper : Bool
deriving DecidableEq, Repr, Inhabited

inductive USuf | none | u | U
deriving DecidableEq, Repr, Inhabited
inductive LSuf | none | l | L | ll | LL
deriving DecidableEq, Repr, Inhabited
/-- integer-suffix (6.4.4.1): unsigned-suffix and long/long-long-suffix in either order -/
structure Suffix where
  u : USuf
  len : LSuf
  uFirst : Bool
deriving DecidableEq, Repr, Inhabited

structure Lit where
  base : Base
  prefixUpper : Bool        -- `0X` / `0B`
  digits : List Digit       -- most significant first; for octal: the digits after the leading `0`
  suffix : Suffix
deriving DecidableEq, Repr, Inhabited

def Digit.char (d : Digit) : Char :=
  if d.val.val < 10 then Char.ofNat (48 + d.val.val)
  else if d.upper then Char.ofNat (55 + d.val.val) else Char.ofNat (87 + d.val.val)

def USuf.chars : USuf → List Char
  | .none => [] | .u => ['u'] | .U => ['U']
def LSuf.chars : LSuf → List Char
  | .none => [] | .l => ['l'] | .L => ['L'] | .ll => ['l', 'l'] | .LL => ['L', 'L']
def Suffix.chars (s : Suffix) : List Char :=
  if s.uFirst then s.u.chars ++ s.len.chars else s.len.chars ++ s.u.chars
def Suffix.isUnsigned (s : Suffix) : Bool := s.u != .none

def Lit.prefixChars (l : Lit) : List Char :=
  match l.base with
  | .dec => []
  | .oct => ['0']
  | .hex => ['0', if l.prefixUpper then 'X' else 'x']
  | .bin => ['0', if l.prefixUpper then 'B' else 'b']

def Lit.chars (l : Lit) : List Char := l.prefixChars ++ l.digits.map Digit.char ++ l.suffix.chars
def Lit.spell (l : Lit) : String := String.ofList l.chars

/-- syntactically an integer constant of its base -/
def Lit.valid (l : Lit) : Bool :=
  l.digits.all (fun d => d.val.val < l.base.radix) &&
  (match l.base with
   | .dec => (match l.digits with | d :: _ => d.val.val != 0 | [] => false)
   | .oct => true
   | .hex => !l.digits.isEmpty
   | .bin => !l.digits.isEmpty)

def Lit.value (l : Lit) : Nat := l.digits.foldl (fun acc d => acc * l.base.radix + d.val.val) 0

/-- value and type of an integer constant in `#if` (none: too large / diagnosed by gcc) -/
def cLiteral (l : Lit) : Option Val :=
  let n := l.value
  if l.suffix.isUnsigned then (if n ≤ uintMax then some ⟨true, BitVec.ofNat 64 n⟩ else none)
  else if (n : Int) ≤ intMax then some ⟨false, BitVec.ofNat 64 n⟩
  else if l.base != .dec && n ≤ uintMax then some ⟨true, BitVec.ofNat 64 n⟩
  else none

/-! ### character constants -/

inductive CharLit
  | plain (c : Char)            -- any printable ASCII member of the source character set except ' and \
  | simple (c : Char)           -- \' \" \? \\ \a \b \f \n \r \t \v
  | octal (ds : List (Fin 8))   -- \o \oo \ooo
  | hex (ds : List Digit)       -- \xh…
deriving DecidableEq, Repr, Inhabited

def simpleEscape : Char → Option Nat
  | '\'' => some 39 | '"' => some 34 | '?' => some 63 | '\\' => some 92
  | 'a' => some 7 | 'b' => some 8 | 'f' => some 12 | 'n' => some 10
  | 'r' => some 13 | 't' => some 9 | 'v' => some 11
  | _ => none

/-- the `unsigned char` code of the constant (none: not a character constant / out of range) -/
def CharLit.code : CharLit → Option Nat
  | .plain c => if 32 ≤ c.toNat && c.toNat < 127 && c != '\'' && c != '\\' then some c.toNat else none
  | .simple c => simpleEscape c
  | .octal ds =>
    let n := ds.foldl (fun acc d => acc * 8 + d.val) 0
    if 1 ≤ ds.length && ds.length ≤ 3 && n ≤ 255 then some n else none
  | .hex ds =>
    let n := ds.foldl (fun acc d => acc * 16 + d.val.val) 0
    if 1 ≤ ds.length && n ≤ 255 then some n else none

/-- plain `char` is signed: codes ≥ 128 are negative -/
def cChar (c : CharLit) : Option Val :=
  c.code.map fun (n : Nat) => ⟨false, BitVec.ofInt 64 (if n ≥ 128 then (n : Int) - 256 else (n : Int))⟩

/-- the characters between the quotes -/
def CharLit.chars : CharLit → List Char
  | .plain c => [c]
  | .simple c => ['\\', c]
  | .octal ds => '\\' :: ds.map fun d => Char.ofNat (48 + d.val)
  | .hex ds => '\\' :: 'x' :: ds.map Digit.char

/-! ### expressions -/

/-- parse trees of the C grammar (parentheses explicit) -/
inductive Ast
  | lit (l : Lit)
  | chr (c : CharLit)
  | ident (name : String)                 -- identifier left after macro expansion
  | defd (name : String) (paren : Bool)   -- `defined X` / `defined(X)`
  | paren (a : Ast)
  | un (op : UnOp) (a : Ast)
  | bin (op : BinOp) (l r : Ast)
  | tern (c t e : Ast)
deriving Repr, Inhabited

/-- the set of defined macro names -/
abbrev Env := String → Bool

/-- static type: is the expression unsigned? -/
def Ast.utype : Ast → Bool
  | .lit l => match cLiteral l with | some v => v.unsigned | none => false
  | .chr _ => false
  | .ident _ => false
  | .defd _ _ => false
  | .paren a => a.utype
  | .un op a => match op with | .lnot => false | _ => a.utype
  | .bin op l r =>
    match op with
    | .land | .lor | .lt | .gt | .le | .ge | .eq | .ne => false
    | .shl | .shr => l.utype
    | _ => l.utype || r.utype
  | .tern _ t e => t.utype || e.utype

/-- the value of the expression; `none` = undefined in an evaluated position -/
def cEval (env : Env) : Ast → Option Val
  | .lit l => cLiteral l
  | .chr c => cChar c
  | .ident _ => some ⟨false, 0#64⟩
  | .defd n _ => some (Val.ofBool (env n))
  | .paren a => cEval env a
  | .un op a =>
    match cEval env a with
    | some x => cUn op x
    | none => none
  | .bin .land l r =>
    match cEval env l with
    | none => none
    | some x =>
      if x.bits == 0#64 then some (Val.ofBool false)
      else match cEval env r with
        | some y => some (Val.ofBool (y.bits != 0#64))
        | none => none
  | .bin .lor l r =>
    match cEval env l with
    | none => none
    | some x =>
      if x.bits != 0#64 then some (Val.ofBool true)
      else match cEval env r with
        | some y => some (Val.ofBool (y.bits != 0#64))
        | none => none
  | .bin op l r =>
    match cEval env l, cEval env r with
    | some x, some y => cBin op x y
    | _, _ => none
  | .tern c t e =>
    match cEval env c with
    | none => none
    | some x =>
      match (if x.bits != 0#64 then cEval env t else cEval env e) with
      | some v => some ⟨t.utype || e.utype, v.bits⟩
      | none => none

/-- every integer and character constant of the expression has a value (also in dead operands:
    gcc diagnoses an over-large constant wherever it stands) -/
def Ast.constsOK : Ast → Bool
  | .lit l => l.valid && (cLiteral l).isSome
  | .chr c => (cChar c).isSome
  | .ident _ => true
  | .defd _ _ => true
  | .paren a => a.constsOK
  | .un _ a => a.constsOK
  | .bin _ l r => l.constsOK && r.constsOK
  | .tern c t e => c.constsOK && t.constsOK && e.constsOK

/-! ### the grammar, as binding levels -/

def Ast.level : Ast → Nat
  | .lit _ | .chr _ | .ident _ | .defd _ _ | .paren _ => 13
  | .un _ _ => 12
  | .bin op _ _ => op.prec
  | .tern _ _ _ => 1

/-- `a` is a parse tree of the C grammar: unary operands are cast-expressions, the left operand of a
    binary operator of level p is of level ≥ p and the right one of level ≥ p+1 (left associativity),
    the condition of `?:` is a logical-OR-expression, its second operand any expression and its
    third a conditional-expression (right associativity) -/
def Ast.grammatical : Ast → Bool
  | .lit _ | .chr _ | .ident _ | .defd _ _ => true
  | .paren a => a.grammatical
  | .un _ a => a.grammatical && decide (12 ≤ a.level)
  | .bin op l r => l.grammatical && r.grammatical && decide (op.prec ≤ l.level) && decide (op.prec + 1 ≤ r.level)
  | .tern c t e => c.grammatical && t.grammatical && e.grammatical && decide (2 ≤ c.level)

/-- well-formed input of the property: a parse tree whose constants are legal and whose evaluated
    positions are free of undefined behaviour -/
def Ast.wf (env : Env) (a : Ast) : Bool := a.grammatical && a.constsOK && (cEval env a).isSome

end CbiVerif.CExpr
