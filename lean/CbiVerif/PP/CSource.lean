import CbiVerif.PP.Eval
/-! Character-level model of file_source.one_space_line / c_cleaner / c_file_source and file_parser grouping. -/
namespace CbiVerif.PP

/-- str.isspace for ASCII plus the C1/Latin-1 cases that matter -/
def pyIsSpace (c : Char) : Bool :=
  let n := c.toNat
  (9 ≤ n && n ≤ 13) || (28 ≤ n && n ≤ 32) || n == 133 || n == 160

structure OSL where
  parts : List Char := []
  trailing : Bool := false
deriving Repr, Inhabited

def OSL.appendChar (o : OSL) (c : Char) : OSL :=
  if !pyIsSpace c then { parts := o.parts ++ [c], trailing := false }
  else if !o.trailing then { parts := o.parts ++ [' '], trailing := true } else o
def OSL.appendSpace (o : OSL) : OSL :=
  if !o.trailing then { parts := o.parts ++ [' '], trailing := true } else o
def OSL.appendNonspace (o : OSL) (c : Char) : OSL := { parts := o.parts ++ [c], trailing := false }
def OSL.join (o other : OSL) : OSL :=
  match other.parts with
  | [] => o
  | p :: ps =>
    if p == ' ' && o.trailing then { parts := o.parts ++ ps, trailing := other.trailing }
    else { parts := o.parts ++ other.parts, trailing := other.trailing }

inductive Cat | srcNonblank | blank | cppDirective deriving DecidableEq, Repr, Inhabited

def OSL.category (o : OSL) : Cat :=
  match o.parts with
  | [] => .blank
  | [c] => if c == ' ' then .blank else if c == '#' then .cppDirective else .srcNonblank
  | a :: b :: _ => if (a == ' ' && b == '#') || a == '#' then .cppDirective else .srcNonblank

inductive CMode | top | dir | dq | sq | esc | slash | lineC | blockC | blockStar
deriving DecidableEq, Repr, Inhabited

structure CClean where
  state : List CMode := [.top]     -- head = state[-1]
  directivesOnly : Bool := false
deriving Repr, Inhabited

/-- one dispatch of `process`; returns (cleaner, buffer, putback?, return?) -/
def cStep1 (cl : CClean) (ob : OSL) (c : Char) : Except Err (CClean × OSL × Bool × Bool) :=
  match cl.state with
  | [] => .error .index
  | .top :: r =>
    if cl.directivesOnly then
      if c == '\\' then .ok ({ cl with state := .esc :: .top :: r }, ob.appendNonspace c, false, false)
      else if c == '#' && ob.category == .blank then .ok ({ cl with state := .dir :: .top :: r }, ob.appendNonspace c, false, false)
      else .ok (cl, ob.appendChar c, false, false)
    else
      if c == '\\' then .ok ({ cl with state := .esc :: .top :: r }, ob.appendNonspace c, false, false)
      else if c == '/' then .ok ({ cl with state := .slash :: .top :: r }, ob, false, false)
      else if c == '"' then .ok ({ cl with state := .dq :: .top :: r }, ob.appendNonspace c, false, false)
      else if c == '\'' then .ok ({ cl with state := .sq :: .top :: r }, ob.appendNonspace c, false, false)
      else if c == '#' && ob.category == .blank then .ok ({ cl with state := .dir :: .top :: r }, ob.appendNonspace c, false, false)
      else .ok (cl, ob.appendChar c, false, false)
  | .dir :: r =>
    if c == '\\' then .ok ({ cl with state := .esc :: .dir :: r }, ob.appendNonspace c, false, false)
    else if c == '/' then .ok ({ cl with state := .slash :: .dir :: r }, ob, false, false)
    else if c == '"' then .ok ({ cl with state := .dq :: .dir :: r }, ob.appendNonspace c, false, false)
    else if c == '\'' then .ok ({ cl with state := .sq :: .dir :: r }, ob.appendNonspace c, false, false)
    else .ok (cl, ob.appendChar c, false, false)
  | .dq :: r =>
    if c == '\\' then .ok ({ cl with state := .esc :: .dq :: r }, ob.appendNonspace c, false, false)
    else if c == '"' then .ok ({ cl with state := r }, ob.appendNonspace c, false, false)
    else .ok (cl, ob.appendNonspace c, false, false)
  | .sq :: r =>
    if c == '\\' then .ok ({ cl with state := .esc :: .sq :: r }, ob.appendNonspace c, false, false)
    else if c == '/' then .ok ({ cl with state := .slash :: .sq :: r }, ob, false, false)
    else if c == '\'' then .ok ({ cl with state := r }, ob.appendNonspace c, false, false)
    else .ok (cl, ob.appendNonspace c, false, false)
  | .slash :: r =>
    if c == '/' then .ok ({ cl with state := .lineC :: r }, ob, false, false)
    else if c == '*' then .ok ({ cl with state := .blockC :: r }, ob, false, false)
    else .ok ({ cl with state := r }, ob.appendChar '/', true, false)
  | .blockC :: r =>
    if c == '*' then .ok ({ cl with state := .blockStar :: .blockC :: r }, ob, false, false) else .ok (cl, ob, false, false)
  | .blockStar :: r =>
    if c == '/' then
      match r with
      | .blockC :: r2 => .ok ({ cl with state := r2 }, ob.appendSpace, false, false)
      | _ => .error (.runtime "Inconsistent parser state")
    else if c != '*' then
      match r with
      | .blockC :: _ => .ok ({ cl with state := r }, ob, false, false)
      | _ => .error (.runtime "Inconsistent parser state")
    else .ok (cl, ob, false, false)
  | .esc :: r => .ok ({ cl with state := r }, ob.appendNonspace c, false, false)
  | .lineC :: _ => .ok (cl, ob, false, true)

/-- c_cleaner.process -/
def cProcess (cl : CClean) (ob : OSL) : List Char → Except Err (CClean × OSL)
  | [] => .ok (cl, ob)
  | c :: cs => do
    let (cl1, ob1, pb, ret) ← cStep1 cl ob c
    if ret then return (cl1, ob1)
    if pb then
      let (cl2, ob2, _, ret2) ← cStep1 cl1 ob1 c
      if ret2 then return (cl2, ob2)
      cProcess cl2 ob2 cs
    else cProcess cl1 ob1 cs

def cLogicalNewline (cl : CClean) (ob : OSL) : Except Err (CClean × OSL) :=
  match cl.state with
  | .lineC :: _ => .ok ({ cl with state := [.top] }, ob.appendSpace)
  | .slash :: _ => .ok ({ cl with state := [.top] }, ob.appendNonspace '/')
  | .sq :: _ => .ok ({ cl with state := [.top] }, ob)
  | .dq :: _ => .ok ({ cl with state := [.top] }, ob)
  | .blockStar :: r =>
    match r with
    | .blockC :: _ => .ok ({ cl with state := r }, ob)
    | _ => .error (.runtime "Inconsistent parser state")
  | .dir :: _ => .ok ({ cl with state := [.top] }, ob)
  | _ => .ok (cl, ob)

/-- a logical line as yielded by the file source -/
structure LLine where
  start : Nat
  stop : Nat          -- current_physical_end (exclusive)
  lines : List Nat
  sloc : Nat
  text : String
  cat : Cat
deriving Repr, Inhabited

/-- `FileParser.is_directive`: category `CPP_DIRECTIVE` and `not flushed_line.lstrip(" ").startswith("##")`
    (a logical line whose first token is `##` is code; before the repair of F-C05-3 it made `parse_file` raise) -/
def isDirectiveLine (cat : Cat) (text : List Char) : Bool :=
  cat == .cppDirective && !((text.dropWhile (· == ' ')).take 2 == ['#', '#'])

def LLine.isDirective (l : LLine) : Bool := isDirectiveLine l.cat l.text.toList

structure SrcState where
  cl : CClean
  cur : OSL := {}            -- current_logical_line
  physStart : Nat := 1
  lines : List Nat := []
  out : List LLine := []
  totalSloc : Nat := 0

/-- Python's text-mode line iteration for "\n" newlines: pieces keep their newline flag -/
def splitLines (s : String) : List (List Char × Bool) :=
  let rec go (fuel : Nat) (cs : List Char) (cur : List Char) (acc : List (List Char × Bool)) : List (List Char × Bool) :=
    match fuel with
    | 0 => acc
    | fuel + 1 =>
      match cs with
      | [] => if cur.isEmpty then acc else acc ++ [(cur, false)]
      | '\n' :: r => go fuel r [] (acc ++ [(cur, true)])
      | c :: r => go fuel r (cur ++ [c]) acc
  go (s.length + 1) s.toList [] []

/-- c_file_source: returns logical lines, total sloc, number of physical lines -/
def cFileSource (text : String) (directivesOnly : Bool := false) : Except Err (List LLine × Nat × Nat) := do
  let phys := splitLines text
  let mut st : SrcState := { cl := { directivesOnly := directivesOnly } }
  let mut n := 0
  for (content, hasNl) in phys do
    n := n + 1
    let mut body := content
    if !hasNl then
      if body.getLast? == some '\\' then throw (.runtime "file seems to end in \\ with no newline!")
    let continued := body.getLast? == some '\\'
    if continued then body := body.dropLast
    let (cl1, ob1) ← cProcess st.cl {} body
    let mut cl := cl1
    let mut ob := ob1
    if !continued && cl.state.head? != some .blockC then
      let (cl2, ob2) ← cLogicalNewline cl ob
      cl := cl2; ob := ob2
    let lines := if ob.category != .blank then st.lines ++ [n] else st.lines
    let cur := st.cur.join ob
    if !continued && cl.state.head? != some .blockC then
      let ll : LLine := ⟨st.physStart, n + 1, lines, lines.length, String.ofList cur.parts, cur.category⟩
      let out := if cur.category != .blank then st.out ++ [ll] else st.out
      st := { cl := cl, cur := {}, physStart := n + 1, lines := [], out := out, totalSloc := st.totalSloc + lines.length }
    else
      st := { st with cl := cl, cur := cur, lines := lines }
  -- end of file
  let ll : LLine := ⟨st.physStart, n + 1, st.lines, st.lines.length, String.ofList st.cur.parts, st.cur.category⟩
  let out := if st.cur.category != .blank then st.out ++ [ll] else st.out
  if st.cl.state != [.top] then throw (.runtime "Parser must end at top level without 'relaxed' mode.")
  return (out, st.totalSloc + st.lines.length, n)

end CbiVerif.PP
