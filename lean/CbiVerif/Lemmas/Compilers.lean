import CbiVerif.Spec.Compilers
import Batteries.Data.List.Perm
/-! helper lemmas for C12 -/
namespace CbiVerif.Compilers
open CbiVerif.Compilers.Spec

/-! ### association lists -/

theorem lookup_cons {α} (k' : String) (v' : α) (r : List (String × α)) (k : String) :
    lookup ((k', v') :: r) k = if k' == k then some v' else lookup r k := rfl

theorem dictSet_cons {α} (k' : String) (v' : α) (r : List (String × α)) (k : String) (v : α) :
    dictSet ((k', v') :: r) k v = if k' == k then (k, v) :: r else (k', v') :: dictSet r k v := rfl

theorem lookup_dictSet_same {α} (l : List (String × α)) (k : String) (v : α) : lookup (dictSet l k v) k = some v := by
  induction l with
  | nil => simp [dictSet, lookup]
  | cons hd tl ih =>
    obtain ⟨k', v'⟩ := hd
    rw [dictSet_cons]
    cases h : (k' == k) with
    | true => simp [lookup_cons]
    | false => simp [lookup_cons, h, ih]

theorem lookup_dictSet_other {α} (l : List (String × α)) (k k2 : String) (v : α) (hne : k ≠ k2) :
    lookup (dictSet l k v) k2 = lookup l k2 := by
  have hkk : (k == k2) = false := by simpa using hne
  induction l with
  | nil => simp [dictSet, lookup, hkk]
  | cons hd tl ih =>
    obtain ⟨k', v'⟩ := hd
    rw [dictSet_cons]
    cases h : (k' == k) with
    | true =>
      have hk : k' = k := by simpa using h
      subst hk
      simp [lookup_cons, hkk]
    | false =>
      simp only [lookup_cons, ih, Bool.false_eq_true, if_false]

theorem lookup_some_mem_keys {α} (l : List (String × α)) (k : String) (v : α) (h : lookup l k = some v) :
    k ∈ l.map (·.1) := by
  induction l with
  | nil => simp [lookup] at h
  | cons hd tl ih =>
    obtain ⟨k', v'⟩ := hd
    rw [lookup_cons] at h
    cases hk : (k' == k) with
    | true =>
      have : k' = k := by simpa using hk
      simp [this]
    | false =>
      simp only [hk, Bool.false_eq_true, if_false] at h
      simp only [List.map_cons, List.mem_cons]
      exact Or.inr (ih h)

theorem lookup_none_of_not_mem {α} (l : List (String × α)) (k : String) (h : k ∉ l.map (·.1)) : lookup l k = none := by
  cases hl : lookup l k with
  | none => rfl
  | some v => exact absurd (lookup_some_mem_keys l k v hl) h

theorem hasKey_dictSet_same {α} (l : List (String × α)) (k : String) (v : α) : hasKey (dictSet l k v) k = true := by
  simp [hasKey, lookup_dictSet_same]

/-! ### de-duplication -/

theorem dedupAux_cons (seen : List String) (y : String) (r : List String) :
    dedupAux seen (y :: r) = if seen.contains y then dedupAux seen r else y :: dedupAux (seen ++ [y]) r := rfl

theorem mem_dedupAux (seen l : List String) (x : String) : x ∈ dedupAux seen l ↔ x ∈ l ∧ x ∉ seen := by
  induction l generalizing seen with
  | nil => simp [dedupAux]
  | cons y r ih =>
    rw [dedupAux_cons]
    cases hs : seen.contains y with
    | true =>
      have hy : y ∈ seen := by simpa using hs
      simp only [if_true, ih, List.mem_cons]
      constructor
      · rintro ⟨h1, h2⟩; exact ⟨Or.inr h1, h2⟩
      · rintro ⟨h1 | h1, h2⟩
        · subst h1; exact absurd hy h2
        · exact ⟨h1, h2⟩
    | false =>
      have hy : y ∉ seen := by
        intro hm
        have : seen.contains y = true := by simpa using hm
        rw [hs] at this; exact Bool.noConfusion this
      simp only [Bool.false_eq_true, if_false, List.mem_cons, ih, List.mem_append, List.mem_singleton, List.not_mem_nil, or_false]
      constructor
      · rintro (h | ⟨h1, h2⟩)
        · subst h; exact ⟨Or.inl rfl, hy⟩
        · exact ⟨Or.inr h1, fun h => h2 (Or.inl h)⟩
      · rintro ⟨h1 | h1, h2⟩
        · exact Or.inl h1
        · by_cases hxy : x = y
          · exact Or.inl hxy
          · exact Or.inr ⟨h1, fun h => h.elim h2 hxy⟩

theorem mem_dedup (l : List String) (x : String) : x ∈ dedup l ↔ x ∈ l := by
  simp [dedup, mem_dedupAux]

theorem nodup_dedupAux (seen l : List String) : (dedupAux seen l).Nodup := by
  induction l generalizing seen with
  | nil => simp [dedupAux]
  | cons y r ih =>
    rw [dedupAux_cons]
    cases hs : seen.contains y with
    | true => simpa using ih seen
    | false =>
      simp only [Bool.false_eq_true, if_false]
      refine List.nodup_cons.mpr ⟨?_, ih _⟩
      intro h
      have := (mem_dedupAux (seen ++ [y]) r y).mp h
      exact this.2 (by simp)

theorem nodup_dedup (l : List String) : (dedup l).Nodup := nodup_dedupAux [] l

/-! ### alias walk -/

theorem Spec.Path.snoc {cs : CompilerMap} {n m a : String} {p : List String} (h : Path cs n p m) (l : Link cs m a) :
    Path cs n (p ++ [a]) a := by
  induction h with
  | nil n => exact .cons l (.nil a)
  | cons l0 _ ih => exact .cons l0 (ih l)

/-- a duplicate-free list of known names is no longer than the table (pigeonhole) -/
theorem chain_length_le (cs : CompilerMap) (chain : List String) (hnd : chain.Nodup)
    (hsub : ∀ x ∈ chain, x ∈ cs.map (·.1)) : chain.length ≤ cs.length := by
  have := (List.subperm_of_subset hnd hsub).length_le
  simpa using this

/-- invariant of the `while` loop: `name :: p` is `alias_chain`, it is duplicate free, consists of known
    names, stands at `m` whose definition is `cur`, and the remaining fuel covers the unseen names -/
theorem walk_outcome (cs : CompilerMap) (name : String) : ∀ (fuel : Nat) (p : List String) (m : String) (cur : Compiler),
    Path cs name p m → lookup cs m = some cur → (name :: p).Nodup → (∀ x ∈ name :: p, x ∈ cs.map (·.1)) →
    cs.length < fuel + (p.length + 1) → Outcome cs name (walk cs fuel (name :: p) cur) := by
  intro fuel
  induction fuel with
  | zero =>
    intro p m cur _ _ hnd hsub hlen
    have := chain_length_le cs (name :: p) hnd hsub
    simp at this hlen
    omega
  | succ fuel ih =>
    intro p m cur hpath hm hnd hsub hlen
    have hbound : p.length < cs.length := by
      have := chain_length_le cs (name :: p) hnd hsub
      simp at this
      omega
    simp only [walk]
    cases ha : aliasTarget cur with
    | none => exact ⟨p, m, hpath, hbound, hm, ha⟩
    | some a =>
      simp only
      have hlink : Link cs m a := ⟨cur, hm, ha⟩
      cases hc : (name :: p).contains a with
      | true =>
        simp only [if_true]
        exact ⟨p, m, a, hpath, hbound, hlink, by simpa using hc⟩
      | false =>
        simp only [Bool.false_eq_true, if_false]
        have hnot : a ∉ name :: p := by
          intro hmem
          have : (name :: p).contains a = true := by simpa using hmem
          rw [hc] at this; exact Bool.noConfusion this
        cases hg : lookup cs a with
        | none => exact ⟨p, m, hpath, hbound, hlink, hg⟩
        | some c2 =>
          simp only
          have key : name :: p ++ [a] = name :: (p ++ [a]) := rfl
          rw [key]
          apply ih (p ++ [a]) a c2 (hpath.snoc hlink) hg
          · rw [← key, List.nodup_append]
            refine ⟨hnd, by simp, ?_⟩
            intro x hx y hy
            simp at hy; subst hy
            intro heq; subst heq
            exact hnot hx
          · intro x hx
            rw [← key] at hx
            rcases List.mem_append.mp hx with h | h
            · exact hsub x h
            · simp at h; subst h; exact lookup_some_mem_keys cs _ c2 hg
          · simp; omega

theorem resolve_outcome (cs : CompilerMap) (name : String) : Outcome cs name (resolve cs name) := by
  unfold resolve
  cases h : lookup cs name with
  | none => exact h
  | some c =>
    simp only
    apply walk_outcome cs name (cs.length + 1) [] name c (.nil name) h (by simp)
    · intro x hx; simp at hx; subst hx; exact lookup_some_mem_keys cs _ c h
    · simp only [List.length_nil]; omega

/-- alias links are functional -/
theorem Link.unique {cs : CompilerMap} {n a b : String} (h1 : Link cs n a) (h2 : Link cs n b) : a = b := by
  obtain ⟨c1, l1, t1⟩ := h1
  obtain ⟨c2, l2, t2⟩ := h2
  rw [l1] at l2; cases l2
  rw [t1] at t2; cases t2; rfl

/-! ### the walk's answer is the only justified one -/

/-- two alias paths from the same name: the shorter is a prefix of the longer -/
theorem Path.prefix {cs : CompilerMap} {n m m' : String} {p q : List String} (h1 : Path cs n p m) (h2 : Path cs n q m')
    (hlen : p.length ≤ q.length) : ∃ s, q = p ++ s ∧ Path cs m s m' := by
  induction h1 generalizing q with
  | nil n => exact ⟨q, rfl, h2⟩
  | @cons n a m p l0 _ ih =>
    cases h2 with
    | nil => simp at hlen
    | @cons _ a' _ q' l1 hq =>
      have : a' = a := Link.unique l1 l0
      subst this
      obtain ⟨s, hs, hp⟩ := ih hq (by simpa using hlen)
      exact ⟨s, by rw [hs]; rfl, hp⟩

def StuckAt (cs : CompilerMap) (name : String) (p : List String) (x : String) : Prop :=
  Path cs name p x ∧ ∀ a, ¬ Link cs x a

theorem StuckAt.unique {cs : CompilerMap} {name x y : String} {p q : List String}
    (h1 : StuckAt cs name p x) (h2 : StuckAt cs name q y) : p = q ∧ x = y := by
  have key : ∀ {p q x y}, StuckAt cs name p x → StuckAt cs name q y → p.length ≤ q.length → p = q ∧ x = y := by
    intro p q x y h1 h2 hlen
    obtain ⟨s, hs, hp⟩ := Path.prefix h1.1 h2.1 hlen
    cases hp with
    | nil => exact ⟨by simp [hs], rfl⟩
    | cons l _ => exact absurd l (h1.2 _)
  rcases Nat.le_total p.length q.length with h | h
  · exact key h1 h2 h
  · obtain ⟨a, b⟩ := key h2 h1 h; exact ⟨a.symm, b.symm⟩

def Cyclic (cs : CompilerMap) (name : String) : Prop :=
  ∃ S : List String, name ∈ S ∧ ∀ x ∈ S, ∃ b, Link cs x b ∧ b ∈ S

theorem loop_closed {cs : CompilerMap} {n m a : String} {q : List String} (hp : Path cs n q m) (hl : Link cs m a)
    (S : List String) (hsub : ∀ x ∈ n :: q, x ∈ S) (ha : a ∈ S) : ∀ x ∈ n :: q, ∃ b, Link cs x b ∧ b ∈ S := by
  induction hp with
  | nil n =>
    intro x hx
    simp at hx; subst hx
    exact ⟨a, hl, ha⟩
  | @cons n a0 m q' l0 _ ih =>
    intro x hx
    rcases List.mem_cons.mp hx with h | h
    · subst h
      exact ⟨a0, l0, hsub a0 (by simp)⟩
    · exact ih hl (fun y hy => hsub y (List.mem_cons_of_mem _ hy)) x h

theorem Cyclic.stays {cs : CompilerMap} {S : List String} (hS : ∀ x ∈ S, ∃ b, Link cs x b ∧ b ∈ S)
    {n m : String} {p : List String} (hp : Path cs n p m) (hn : n ∈ S) : m ∈ S := by
  induction hp with
  | nil n => exact hn
  | @cons n a m p l0 _ ih =>
    obtain ⟨b, lb, hb⟩ := hS n hn
    have : a = b := Link.unique l0 lb
    subst this
    exact ih hb

theorem Cyclic.not_stuck {cs : CompilerMap} {name x : String} {p : List String} (hc : Cyclic cs name)
    (hs : StuckAt cs name p x) : False := by
  obtain ⟨S, hn, hS⟩ := hc
  have hx := Cyclic.stays hS hs.1 hn
  obtain ⟨b, lb, _⟩ := hS x hx
  exact hs.2 b lb

theorem not_link_of_lookup_none {cs : CompilerMap} {x : String} (h : lookup cs x = none) : ∀ a, ¬ Link cs x a := by
  rintro a ⟨c, hc, _⟩
  rw [h] at hc; cases hc

theorem not_link_of_nonalias {cs : CompilerMap} {x : String} {d : Compiler} (h : lookup cs x = some d)
    (hd : aliasTarget d = none) : ∀ a, ¬ Link cs x a := by
  rintro a ⟨c, hc, ht⟩
  rw [h] at hc; cases hc
  rw [hd] at ht; cases ht

/-- normal form of an outcome -/
inductive Fate (cs : CompilerMap) (name : String) : Resolved → Prop
  | nr : StuckAt cs name [] name → lookup cs name = none → Fate cs name .notRecognized
  | found (p m d) : StuckAt cs name p m → lookup cs m = some d → Fate cs name (.found d)
  | unknown (p a) : StuckAt cs name (p ++ [a]) a → lookup cs a = none → Fate cs name (.unknownTarget a)
  | loop : Cyclic cs name → Fate cs name .loop

theorem fate_of_outcome {cs : CompilerMap} {name : String} {r : Resolved} (h : Outcome cs name r) : Fate cs name r := by
  cases r with
  | notRecognized => exact .nr ⟨.nil name, not_link_of_lookup_none h⟩ h
  | found d =>
    obtain ⟨p, m, hp, _, hm, hd⟩ := h
    exact .found p m d ⟨hp, not_link_of_nonalias hm hd⟩ hm
  | unknownTarget a =>
    obtain ⟨p, m, hp, _, hl, ha⟩ := h
    exact .unknown p a ⟨hp.snoc hl, not_link_of_lookup_none ha⟩ ha
  | loop =>
    obtain ⟨p, m, a, hp, _, hl, ha⟩ := h
    exact .loop ⟨name :: p, by simp, loop_closed hp hl (name :: p) (fun _ h => h) ha⟩

theorem Fate.unique {cs : CompilerMap} {name : String} {r1 r2 : Resolved} (h1 : Fate cs name r1) (h2 : Fate cs name r2) :
    r1 = r2 := by
  cases h1 with
  | nr s1 l1 =>
    cases h2 with
    | nr _ _ => rfl
    | found p m d s2 l2 =>
      obtain ⟨_, hx⟩ := StuckAt.unique s1 s2
      subst hx; rw [l1] at l2; cases l2
    | unknown p a s2 _ =>
      obtain ⟨hp, _⟩ := StuckAt.unique s1 s2
      simp at hp
    | loop c => exact (c.not_stuck s1).elim
  | found p m d s1 l1 =>
    cases h2 with
    | nr s2 l2 =>
      obtain ⟨_, hx⟩ := StuckAt.unique s1 s2
      subst hx; rw [l1] at l2; cases l2
    | found p' m' d' s2 l2 =>
      obtain ⟨_, hx⟩ := StuckAt.unique s1 s2
      subst hx; rw [l1] at l2; cases l2; rfl
    | unknown p' a s2 l2 =>
      obtain ⟨_, hx⟩ := StuckAt.unique s1 s2
      subst hx; rw [l1] at l2; cases l2
    | loop c => exact (c.not_stuck s1).elim
  | unknown p a s1 l1 =>
    cases h2 with
    | nr s2 _ =>
      obtain ⟨hp, _⟩ := StuckAt.unique s1 s2
      simp at hp
    | found p' m' d' s2 l2 =>
      obtain ⟨_, hx⟩ := StuckAt.unique s1 s2
      subst hx; rw [l1] at l2; cases l2
    | unknown p' a' s2 _ =>
      obtain ⟨_, hx⟩ := StuckAt.unique s1 s2
      subst hx; rfl
    | loop c => exact (c.not_stuck s1).elim
  | loop c =>
    cases h2 with
    | nr s2 _ => exact (c.not_stuck s2).elim
    | found _ _ _ s2 _ => exact (c.not_stuck s2).elim
    | unknown _ _ s2 _ => exact (c.not_stuck s2).elim
    | loop _ => rfl

theorem outcome_unique (cs : CompilerMap) (name : String) (r : Resolved) (h : Outcome cs name r) : resolve cs name = r :=
  Fate.unique (fate_of_outcome (resolve_outcome cs name)) (fate_of_outcome h)

/-! ### pass / mode composition -/

/-- the `for mode_name in modes:` loop in closed form -/
theorem foldl_modeStep (c : Compiler) (ms : List String) (cfg : PPConfig) (logs : List Log) :
    ms.foldl (modeStep c) (cfg, logs) =
      ({ passName := cfg.passName
         defines := cfg.defines ++ (declaredModes c ms).flatMap (·.defines)
         includePaths := cfg.includePaths ++ (declaredModes c ms).flatMap (·.includePaths)
         includeFiles := cfg.includeFiles ++ (declaredModes c ms).flatMap (·.includeFiles) },
       logs ++ ((ms.filter fun m => !hasKey c.modes m).map Log.badMode)) := by
  induction ms generalizing cfg logs with
  | nil => simp [declaredModes]
  | cons m r ih =>
    simp only [List.foldl_cons, modeStep]
    cases hm : lookup c.modes m with
    | none =>
      simp only
      rw [ih]
      simp [declaredModes, hm, hasKey, List.filter_cons]
    | some md =>
      simp only
      rw [ih]
      simp [declaredModes, hm, hasKey, List.filter_cons, PPConfig.update, List.append_assoc]

theorem buildPass_eq (c : Compiler) (base : PPConfig) (active : List String) (p : String) :
    buildPass c base active p = (specConfig c base active p, specLogs c active p) := by
  unfold buildPass specConfig specLogs
  cases hp : (p == "default") with
  | true =>
    simp only [if_true]
    rw [foldl_modeStep]
    simp [configOf]
  | false =>
    simp only [Bool.false_eq_true, if_false]
    cases hl : lookup c.passes p with
    | none => simp
    | some pd =>
      simp only [Option.map_some]
      rw [foldl_modeStep]
      simp [configOf, PPConfig.update, List.append_assoc]

theorem compose_eq (c : Compiler) (st : PState) :
    compose c st = ((selectedPasses st).filterMap (specConfig c (baseConfig st) (activeModes st)),
                    (selectedPasses st).flatMap (specLogs c (activeModes st))) := by
  unfold compose
  have : (selectedPasses st).map (buildPass c (baseConfig st) (activeModes st)) =
      (selectedPasses st).map fun p => (specConfig c (baseConfig st) (activeModes st) p, specLogs c (activeModes st) p) := by
    apply List.map_congr_left; intro p _; exact buildPass_eq c _ _ p
  simp only [this]
  simp [List.filterMap_map, List.flatMap_map, Function.comp_def]

theorem specConfig_passName (c : Compiler) (base : PPConfig) (active : List String) (p : String) (cfg : PPConfig)
    (h : specConfig c base active p = some cfg) : cfg.passName = p := by
  unfold specConfig at h
  cases hp : (p == "default") with
  | true => simp [hp, configOf] at h; rw [← h]
  | false =>
    simp only [hp, Bool.false_eq_true, if_false] at h
    cases hl : lookup c.passes p with
    | none => simp [hl] at h
    | some pd => simp [hl, configOf] at h; rw [← h]

theorem specConfig_isSome (c : Compiler) (base : PPConfig) (active : List String) (p : String) :
    (specConfig c base active p).isSome = (p == "default" || hasKey c.passes p) := by
  unfold specConfig hasKey
  cases hp : (p == "default") with
  | true => simp
  | false => cases hl : lookup c.passes p <;> simp

theorem compose_congr (c1 c2 : Compiler) (hm : c1.modes = c2.modes) (hp : c1.passes = c2.passes) :
    compose c1 = compose c2 := by
  funext st
  rw [compose_eq, compose_eq]
  unfold specConfig specLogs declaredModes hasKey
  rw [hm, hp]

/-- only the parser rules, modes and passes of a compiler matter to `parse_args`, and its implicit options
    are read as a suffix of the command line -/
theorem parseArgs_options (c1 c2 : Compiler) (hr : c1.parser = c2.parser) (hm : c1.modes = c2.modes)
    (hp : c1.passes = c2.passes) (mt : Matches) (argv : List String) :
    parseArgs c1 mt argv = parseArgs { c2 with options := [] } mt (argv ++ c1.options) := by
  unfold parseArgs
  simp only [List.append_nil]
  rw [hr, compose_congr c1 { c2 with options := [] } hm hp]

instance instDecEqExcept {ε α} [DecidableEq ε] [DecidableEq α] : DecidableEq (Except ε α)
  | .ok a, .ok b => if h : a = b then isTrue (by rw [h]) else isFalse (by intro e; cases e; exact h rfl)
  | .error a, .error b => if h : a = b then isTrue (by rw [h]) else isFalse (by intro e; cases e; exact h rfl)
  | .ok _, .error _ => isFalse (by intro e; cases e)
  | .error _, .ok _ => isFalse (by intro e; cases e)

/-! ### merging the user file into the built-in table -/

theorem lookup_foldl_dictSet {α} (name : α → String) (l : List α) (init : List (String × α)) (k : String) :
    lookup (l.foldl (fun s x => dictSet s (name x) x) init) k = overridden name init l k := by
  induction l generalizing init with
  | nil => simp [overridden, lastBy]
  | cons x r ih =>
    simp only [List.foldl_cons]
    rw [ih]
    unfold overridden lastBy
    simp only [List.reverse_cons, List.find?_append]
    cases hr : r.reverse.find? (fun y => name y == k) with
    | some y => simp
    | none =>
      simp only [Option.none_or, List.find?_cons, List.find?_nil]
      cases hx : (name x == k) with
      | true =>
        have : name x = k := by simpa using hx
        simp [← this, lookup_dictSet_same]
      | false =>
        have : name x ≠ k := by simpa using hx
        simp [lookup_dictSet_other _ _ _ _ this]

theorem mergeModes_fst (ms : List ModeDef) (st : List (String × ModeDef) × List Log) :
    (mergeModes ms st).1 = ms.foldl (fun s m => dictSet s m.name m) st.1 := by
  unfold mergeModes
  induction ms generalizing st with
  | nil => rfl
  | cons m r ih => simp only [List.foldl_cons]; rw [ih]

theorem mergePasses_fst (ps : List PassDef) (st : List (String × PassDef) × List Log) :
    (mergePasses ps st).1 = ps.foldl (fun s p => dictSet s p.name p) st.1 := by
  unfold mergePasses
  induction ps generalizing st with
  | nil => rfl
  | cons m r ih => simp only [List.foldl_cons]; rw [ih]

theorem extendCompiler_extends (c : Compiler) (d : Definition) : Extends c d (extendCompiler c d).1 := by
  unfold extendCompiler
  refine ⟨rfl, rfl, rfl, ?_, ?_⟩
  · intro k
    show lookup (mergeModes (d.modes.getD []) (c.modes, [])).1 k = _
    rw [mergeModes_fst]; exact lookup_foldl_dictSet (fun m : ModeDef => m.name) _ _ k
  · intro k
    show lookup (mergePasses (d.passes.getD []) (c.passes, [])).1 k = _
    rw [mergePasses_fst]; exact lookup_foldl_dictSet (fun p : PassDef => p.name) _ _ k

/-- what one table of the user file does to the compiler it names -/
def mergedDef (old : Option Compiler) (d : Definition) : Compiler :=
  match old with
  | none => fromToml d
  | some c =>
    match d.aliasOf with
    | some _ => fromToml d
    | none => (extendCompiler { c with aliasOf := none } d).1

theorem mergeOne_same (st : CompilerMap × List Log) (name : String) (d : Definition) :
    lookup (mergeOne st (name, d)).1 name = some (mergedDef (lookup st.1 name) d) := by
  obtain ⟨cs, logs⟩ := st
  cases hl : lookup cs name with
  | none => simp only [mergeOne, mergedDef, hl, lookup_dictSet_same]
  | some c =>
    cases ha : d.aliasOf with
    | some a => simp only [mergeOne, mergedDef, hl, ha, lookup_dictSet_same]
    | none => simp only [mergeOne, mergedDef, hl, ha, lookup_dictSet_same]

theorem mergeOne_other (st : CompilerMap × List Log) (nd : String × Definition) (k : String) (h : nd.1 ≠ k) :
    lookup (mergeOne st nd).1 k = lookup st.1 k := by
  obtain ⟨cs, logs⟩ := st
  obtain ⟨name, d⟩ := nd
  cases hl : lookup cs name with
  | none => simp only [mergeOne, hl, lookup_dictSet_other _ _ _ _ h]
  | some c =>
    cases ha : d.aliasOf with
    | some a => simp only [mergeOne, hl, ha, lookup_dictSet_other _ _ _ _ h]
    | none => simp only [mergeOne, hl, ha, lookup_dictSet_other _ _ _ _ h]

theorem foldl_mergeOne_other (l : List (String × Definition)) (st : CompilerMap × List Log) (k : String)
    (h : k ∉ l.map (·.1)) : lookup (l.foldl mergeOne st).1 k = lookup st.1 k := by
  induction l generalizing st with
  | nil => rfl
  | cons nd r ih =>
    simp only [List.map_cons, List.mem_cons, not_or] at h
    simp only [List.foldl_cons]
    rw [ih _ h.2, mergeOne_other _ _ _ (fun e => h.1 e.symm)]

/-- TOML tables have distinct names: each user table acts exactly once, on what the built-ins say -/
theorem foldl_mergeOne_mem (l : List (String × Definition)) (st : CompilerMap × List Log) (name : String) (d : Definition)
    (hnd : (l.map (·.1)).Nodup) (hmem : (name, d) ∈ l) :
    lookup (l.foldl mergeOne st).1 name = some (mergedDef (lookup st.1 name) d) := by
  induction l generalizing st with
  | nil => simp at hmem
  | cons nd r ih =>
    simp only [List.map_cons, List.nodup_cons] at hnd
    simp only [List.foldl_cons]
    rcases List.mem_cons.mp hmem with h | h
    · subst h
      rw [foldl_mergeOne_other r _ name hnd.1]
      exact mergeOne_same st name d
    · have hne : nd.1 ≠ name := by
        intro e
        apply hnd.1
        rw [e]
        exact List.mem_map.mpr ⟨(name, d), h, rfl⟩
      rw [ih _ hnd.2 h, mergeOne_other _ _ _ hne]

/-! ### one entry per pass, attribution -/

theorem attr_inner {Node} (uses : Entry → Node → Bool) (nodes : List Node) (pname : String) (es : List Entry)
    (acc : List (Node × String)) (x : Node × String) :
    x ∈ es.foldl (fun acc e => acc ++ (nodes.filter (uses e)).map fun n => (n, pname)) acc ↔
      x ∈ acc ∨ (x.2 = pname ∧ x.1 ∈ nodes ∧ ∃ e ∈ es, uses e x.1 = true) := by
  induction es generalizing acc with
  | nil => simp
  | cons e r ih =>
    simp only [List.foldl_cons]
    rw [ih]
    simp only [List.mem_append, List.mem_map, List.mem_filter, List.mem_cons]
    constructor
    · rintro ((h | ⟨n, ⟨hn, hu⟩, rfl⟩) | ⟨h1, h2, e', he', hu⟩)
      · exact Or.inl h
      · exact Or.inr ⟨rfl, hn, e, Or.inl rfl, hu⟩
      · exact Or.inr ⟨h1, h2, e', Or.inr he', hu⟩
    · rintro (h | ⟨h1, h2, e', he' | he', hu⟩)
      · exact Or.inl (Or.inl h)
      · subst he'
        exact Or.inl (Or.inr ⟨x.1, ⟨h2, hu⟩, by rw [← h1]⟩)
      · exact Or.inr ⟨h1, h2, e', he', hu⟩

theorem attr_outer {Node} (uses : Entry → Node → Bool) (nodes : List Node) (config : List (String × List Entry))
    (acc : List (Node × String)) (x : Node × String) :
    x ∈ config.foldl (fun acc pe => pe.2.foldl (fun acc e => acc ++ (nodes.filter (uses e)).map fun n => (n, pe.1)) acc) acc ↔
      x ∈ acc ∨ (x.1 ∈ nodes ∧ ∃ es, (x.2, es) ∈ config ∧ ∃ e ∈ es, uses e x.1 = true) := by
  induction config generalizing acc with
  | nil => simp
  | cons pe r ih =>
    simp only [List.foldl_cons]
    rw [ih, attr_inner]
    simp only [List.mem_cons]
    constructor
    · rintro ((h | ⟨h1, h2, h3⟩) | ⟨h2, es, hes, h3⟩)
      · exact Or.inl h
      · exact Or.inr ⟨h2, pe.2, Or.inl (by rw [h1]), h3⟩
      · exact Or.inr ⟨h2, es, Or.inr hes, h3⟩
    · rintro (h | ⟨h2, es, hes | hes, h3⟩)
      · exact Or.inl (Or.inl h)
      · have h1 : x.2 = pe.1 := by rw [← hes]
        have h4 : es = pe.2 := by rw [← hes]
        exact Or.inl (Or.inr ⟨h1, h2, h4 ▸ h3⟩)
      · exact Or.inr ⟨h2, es, hes, h3⟩

theorem mem_loadDatabase (cs : CompilerMap) (mt : Matches) (cmds : List Command) (es : List Entry) (logs : List Log)
    (h : loadDatabase cs mt cmds = .ok (es, logs)) (e : Entry) :
    e ∈ es ↔ ∃ cmd ∈ cmds, ∃ cfgs l, emulate cs mt cmd.argv0 cmd.argv = .ok (cfgs, l) ∧ e ∈ entriesOf cmd cfgs := by
  induction cmds generalizing es logs with
  | nil => simp [loadDatabase] at h; simp [h.1]
  | cons cmd r ih =>
    simp only [loadDatabase] at h
    cases he : emulate cs mt cmd.argv0 cmd.argv with
    | error err => simp [he] at h
    | ok v =>
      obtain ⟨cfgs, l⟩ := v
      simp only [he] at h
      cases hr : loadDatabase cs mt r with
      | error err => simp [hr] at h
      | ok w =>
        obtain ⟨es2, l2⟩ := w
        simp only [hr] at h
        have hes : es = entriesOf cmd cfgs ++ es2 := by
          injection h with h; exact (Prod.mk.inj h).1.symm
        subst hes
        rw [List.mem_append, ih es2 l2 hr]
        constructor
        · rintro (h1 | ⟨c, hc, cf, l', h2, h3⟩)
          · exact ⟨cmd, List.mem_cons_self, cfgs, l, he, h1⟩
          · exact ⟨c, List.mem_cons_of_mem _ hc, cf, l', h2, h3⟩
        · rintro ⟨c, hc, cf, l', h2, h3⟩
          rcases List.mem_cons.mp hc with hc | hc
          · subst hc
            rw [he] at h2
            injection h2 with h2
            have : cfgs = cf := (Prod.mk.inj h2).1
            subst this
            exact Or.inl h3
          · exact Or.inr ⟨c, hc, cf, l', h2, h3⟩

/-! ### single steps of the argument loop -/

theorem classify_exact (t : List Opt) (f : String) (o : Opt) (c : Char) (r : List Char)
    (hf : f.toList = '-' :: c :: r) (ho : findOpt t f = some o) : classify t f = .opt f o none := by
  unfold classify
  simp only [hf, ho]
  simp

theorem splitEq_spec : ∀ (l acc v : List Char), '=' ∉ l → splitEq (l ++ '=' :: v) acc = some (acc.reverse ++ l, v) := by
  intro l
  induction l with
  | nil => intro acc v _; simp [splitEq]
  | cons c cs ih =>
    intro acc v h
    have hc : (c == '=') = false := by
      have : c ≠ '=' := fun e => h (by simp [e])
      simpa using this
    have hcs : '=' ∉ cs := fun e => h (by simp [e])
    simp only [List.cons_append, splitEq, hc, Bool.false_eq_true, if_false]
    rw [ih _ _ hcs]
    simp

theorem classify_eq (t : List Opt) (fl vl : List Char) (o : Opt) (c : Char) (r : List Char)
    (hf : fl = '-' :: c :: r) (hne : '=' ∉ fl)
    (hnone : findOpt t (String.ofList (fl ++ '=' :: vl)) = none)
    (ho : findOpt t (String.ofList fl) = some o) :
    classify t (String.ofList (fl ++ '=' :: vl)) = .opt (String.ofList fl) o (some (String.ofList vl)) := by
  unfold classify
  simp only [String.toList_ofList, hnone]
  subst hf
  simp only [List.cons_append]
  have := splitEq_spec ('-' :: c :: r) [] vl hne
  simp only [List.cons_append, List.reverse_nil, List.nil_append] at this
  simp only [this, ho, Option.map_some]
  simp

theorem const_flag_step (t : List Opt) (mt : Matches) (f : String) (flags : List String) (dest const : String)
    (c : Char) (r : List Char) (hf : f.toList = '-' :: c :: r)
    (ho : findOpt t f = some ⟨flags, .zero, .appendConst dest const⟩) (rest : List String) (st : PState) :
    runArgs t mt (f :: rest) false st = runArgs t mt rest false ({ st with absorbing := false }.appendTo dest const) := by
  rw [runArgs.eq_def]
  simp only [Bool.false_eq_true, if_false, classify_exact t f _ c r hf ho]
  simp [consumeOpt, takeAction, Except.map]

theorem eq_flag_step (t : List Opt) (mt : Matches) (fl vl : List Char) (o : Opt) (c : Char) (r : List Char)
    (hf : fl = '-' :: c :: r) (hne : '=' ∉ fl)
    (hnone : findOpt t (String.ofList (fl ++ '=' :: vl)) = none)
    (ho : findOpt t (String.ofList fl) = some o) (hn : o.nargs = .one) (rest : List String) (st : PState) :
    runArgs t mt (String.ofList (fl ++ '=' :: vl) :: rest) false st =
      (match takeAction mt { st with absorbing := false } (String.ofList fl) o (some (String.ofList vl)) with
       | .error e => .error e
       | .ok st1 => runArgs t mt rest false st1) := by
  rw [runArgs.eq_def]
  simp only [Bool.false_eq_true, if_false, classify_eq t fl vl o c r hf hne hnone ho]
  simp only [consumeOpt, hn, Option.map_some, String.toList_ofList]
  cases takeAction mt { st with absorbing := false } (String.ofList fl) o (some (String.ofList vl)) with
  | error e => simp [Except.map]
  | ok s => simp [Except.map]

theorem sep_flag_step (t : List Opt) (mt : Matches) (f b : String) (o : Opt) (c : Char) (r : List Char)
    (hf : f.toList = '-' :: c :: r) (ho : findOpt t f = some o) (hn : o.nargs = .one)
    (hb : isPositional t b = true) (rest : List String) (st : PState) :
    runArgs t mt (f :: b :: rest) false st =
      (match takeAction mt { st with absorbing := false } f o (some b) with
       | .error e => .error e
       | .ok st1 => runArgs t mt rest false st1) := by
  rw [runArgs.eq_def]
  simp only [Bool.false_eq_true, if_false, classify_exact t f _ c r hf ho]
  simp only [consumeOpt, hn, hb, if_true, Option.map_none]
  cases takeAction mt { st with absorbing := false } f o (some b) with
  | error e => simp [Except.map]
  | ok s =>
    simp only [Except.map]
    rw [runArgs.eq_def]
    simp
theorem storeSplit_passes (mt : Matches) (st : PState) (f : String) (flags : List String) (sep fmt : Option String)
    (v : String) (parts vs : List String) (h1 : pySplit v sep = .ok parts) (h2 : mapM' (substitute fmt) parts = .ok vs) :
    takeAction mt st f ⟨flags, .one, .storeSplit "passes" sep fmt⟩ (some v) =
      .ok { st with passesByFlag := dictSet st.passesByFlag (flags.headD f) vs } := by
  simp [takeAction, h1, h2]

end CbiVerif.Compilers
