import CbiVerif.Lemmas.MacroFunSim
import CbiVerif.Lemmas.MacroStrRef
/-! # C03, function-like macros with `#` / `##`: the stream-stack machine `MX.step` computes the recursive reference `RefS`

The simulation of `Lemmas/MacroFunSim.lean` with the substituted replacement list given by `MX.replaceFn` (the model of
`MacroFunction.replace`, `#` / `##` pass included) instead of the plain substitution: no hypothesis about the table is left
(variadic macros must not be called: `fitsbS`). -/
namespace CbiVerif.MX
open CbiVerif.PP

/-- one level of scanning, given the simulation for the next lower budget -/
theorem scan_simS (c : Cfg) (tbl : Table) (hadv : c.adv = true) (d : Nat) (ex : NoExp → List Tok → List Tok)
    (fit : NoExp → List Tok → Bool) (cost : NoExp → List Tok → Nat) (hsim : SimAt c tbl d ex fit cost) (hex0 : ∀ D, ex D [] = []) :
    ∀ (n : Nat) (D : NoExp) (ts : List Tok) (P : List (Option Tok)) (S : List Helper) (pr : Bool) (F : List Frame),
      ts.length ≤ n → scanFitS tbl ex fit n D ts = true → S.length + (d + 1) + 1 < c.lim →
      ∃ k P', k ≤ scanCostS tbl ex cost n D ts ∧ filterSome P' = filterSome P ++ scanRefS tbl ex n D ts ∧
        runK c tbl k ⟨⟨P ++ ts.map some, P.length, pr⟩ :: S, D, F, none⟩ = some ⟨⟨P', P'.length, pr⟩ :: S, D, F, none⟩ := by
  intro n
  induction n with
  | zero =>
    intro D ts P S pr F hn _ _
    have : ts = [] := by cases ts with | nil => rfl | cons a as => simp at hn
    subst this
    exact ⟨0, P, by simp, by simp [scanRefS], by simp [runK]⟩
  | succ n ih =>
    intro D ts P S pr F hn hfit hlim
    cases ts with
    | nil => exact ⟨0, P, by simp, by simp [scanRefS], by simp [runK]⟩
    | cons a as =>
      have hn' : as.length ≤ n := by simp at hn; omega
      simp only [scanFitS, Bool.and_eq_true] at hfit
      obtain ⟨hndef, hfit⟩ := hfit
      have hd' : (a.text == "defined") = false := by simpa using hndef
      -- a token that stays (possibly painted) and the scan moves on
      have advance : ∀ a' : Tok, scanRefS tbl ex (n + 1) D (a :: as) = a' :: scanRefS tbl ex n D as →
          scanCostS tbl ex cost (n + 1) D (a :: as) = 1 + scanCostS tbl ex cost n D as →
          scanFitS tbl ex fit n D as = true →
          step c tbl ⟨⟨P ++ some a :: as.map some, P.length, pr⟩ :: S, D, F, none⟩
            = .cont ⟨⟨(P ++ [some a']) ++ as.map some, (P ++ [some a']).length, pr⟩ :: S, D, F, none⟩ →
          ∃ k P', k ≤ scanCostS tbl ex cost (n + 1) D (a :: as) ∧
            filterSome P' = filterSome P ++ scanRefS tbl ex (n + 1) D (a :: as) ∧
            runK c tbl k ⟨⟨P ++ (a :: as).map some, P.length, pr⟩ :: S, D, F, none⟩ = some ⟨⟨P', P'.length, pr⟩ :: S, D, F, none⟩ := by
        intro a' hE hC hf hstep
        obtain ⟨k, P', hk, hp, hrun⟩ := ih D as (P ++ [some a']) S pr F hn' hf hlim
        refine ⟨1 + k, P', by rw [hC]; omega, ?_, ?_⟩
        · rw [hp, hE, filterSome_append]; simp [filterSome]
        · rw [runK_succ, List.map_cons, hstep]; exact hrun
      by_cases hk : (a.kind != TKind.ident) = true
      · rw [if_pos hk] at hfit
        exact advance a (by simp only [scanRefS, hk, if_true]) (by simp only [scanCostS, hk, if_true]) hfit
          (mstep_nonident c tbl P _ S D F pr a hk)
      · have hk' : (a.kind != TKind.ident) = false := by simpa using hk
        rw [if_neg hk] at hfit
        by_cases hq : (!a.expandable || D.contains (some a.text)) = true
        · rw [if_pos hq] at hfit
          exact advance (paint a) (by simp only [scanRefS, hk', Bool.false_eq_true, if_false, hq, if_true])
            (by simp only [scanCostS, hk', Bool.false_eq_true, if_false, hq, if_true]) hfit
            (mstep_paint c tbl P _ S D F pr a hk' hd' hq)
        · have hq' : (!a.expandable || D.contains (some a.text)) = false := by simpa using hq
          rw [if_neg hq] at hfit
          cases hm : tbl.get a.text with
          | none =>
            simp only [hm] at hfit
            exact advance a (by simp only [scanRefS, hk', Bool.false_eq_true, if_false, hq', hm])
              (by simp only [scanCostS, hk', Bool.false_eq_true, if_false, hq', hm]) hfit
              (mstep_nomacro c tbl P _ S D F pr a hk' hd' hq' hm)
          | some m =>
            simp only [hm] at hfit
            cases hargs : m.args with
            | none =>
              simp only [hargs, Bool.and_eq_true] at hfit
              obtain ⟨hfb, hfr⟩ := hfit
              have hE : scanRefS tbl ex (n + 1) D (a :: as)
                  = ex (some m.name :: D) (fixpw m.replacement a.pw) ++ scanRefS tbl ex n D as := by
                simp only [scanRefS, hk', Bool.false_eq_true, if_false, hq', hm, hargs]
              have hC : scanCostS tbl ex cost (n + 1) D (a :: as)
                  = cost (some m.name :: D) (fixpw m.replacement a.pw) + 2 + scanCostS tbl ex cost n D as := by
                simp only [scanCostS, hk', Bool.false_eq_true, if_false, hq', hm, hargs]
              have hpush := mstep_obj c tbl P (as.map some) S D F pr a m hk' hd' hq' hm hargs (by omega)
              obtain ⟨k1, P1, hk1, hp1, hrun1⟩ := hsim (some m.name :: D) (fixpw m.replacement a.pw) []
                (⟨(P ++ [none]) ++ as.map some, (P ++ [none]).length, pr⟩ :: S) false F hfb (by simp only [List.length_cons]; omega)
              simp only [List.nil_append, List.length_nil] at hrun1
              have hp1' : filterSome P1 = ex (some m.name :: D) (fixpw m.replacement a.pw) := by simpa [filterSome] using hp1
              have hpop := mstep_pop c tbl hadv P1 (P ++ [none]) as S (some m.name) D F pr
              obtain ⟨k2, P', hk2, hp2, hrun2⟩ := ih D as ((filterSome (P ++ [none]) ++ filterSome P1).map some) S pr F hn' hfr hlim
              refine ⟨1 + (k1 + (1 + k2)), P', by rw [hC]; omega, ?_, ?_⟩
              · rw [hp2, hE, filterSome_map, filterSome_snoc_none, hp1', List.append_assoc]
              · rw [runK_succ, List.map_cons, hpush]
                simp only [contK]
                rw [runK_trans c tbl k1 _ _ _ hrun1, runK_succ, hpop]
                exact hrun2
            | some ps =>
              simp only [hargs] at hfit
              cases hcall : callOf as with
              | none =>
                simp only [hcall, Bool.and_eq_true] at hfit
                obtain ⟨hx, hfr⟩ := hfit
                cases as with
                | nil => simp at hx
                | cons x r =>
                  simp only at hx
                  exact advance a (by simp only [scanRefS, hk', Bool.false_eq_true, if_false, hq', hm, hargs, hcall])
                    (by simp only [scanCostS, hk', Bool.false_eq_true, if_false, hq', hm, hargs, hcall]) hfr
                    (mstep_bare c tbl P _ S D F pr a x m ps hk' hd' hq' hm hargs hx)
              | some ar =>
                obtain ⟨args, rest⟩ := ar
                simp only [hcall] at hfit
                cases hrr : replRef m (ex (none :: D)) args with
                | none => simp [hrr] at hfit
                | some repl =>
                simp only [hrr, Bool.and_eq_true, List.all_eq_true, Bool.not_eq_true'] at hfit
                obtain ⟨⟨⟨hplain1, hfa⟩, hfb⟩, hfr⟩ := hfit
                have hrl := callOf_length as args rest hcall
                have hnr : rest.length ≤ n := by omega
                cases as with
                | nil => simp [callOf] at hcall
                | cons lp r =>
                  simp only [callOf] at hcall
                  by_cases hlp : (dtext lp == "(") = true
                  · rw [if_pos hlp] at hcall
                    have hlp' : dtext lp = "(" := by simpa using hlp
                    let body := fixpw repl a.pw
                    have hE : scanRefS tbl ex (n + 1) D (a :: lp :: r)
                        = ex (some m.name :: D) body ++ scanRefS tbl ex n D rest := by
                      simp only [scanRefS, hk', Bool.false_eq_true, if_false, hq', hm, hargs, callOf, hlp, if_true, hcall, hrr, body]
                    have hC : scanCostS tbl ex cost (n + 1) D (a :: lp :: r)
                        = (args.map fun x => cost (none :: D) x + 2).sum + cost (some m.name :: D) body + 2
                          + scanCostS tbl ex cost n D rest := by
                      simp only [scanCostS, hk', Bool.false_eq_true, if_false, hq', hm, hargs, callOf, hlp, if_true, hcall, hrr, body]
                    obtain ⟨P2, hp2, hstep⟩ := mstep_call c tbl P S D F pr a lp r m ps args rest hk' hd' hq' hm hargs hplain1 hlp' hcall
                    have hrepl : replaceFn m ([] ++ argList m (ex (none :: D)) args ([] : List Arg).length) = .ok repl := by
                      simp only [replRef] at hrr
                      simp only [List.nil_append, List.length_nil]
                      cases hrf : replaceFn m (argList m (ex (none :: D)) args 0) with
                      | ok r0 => simp only [hrf, Option.some.injEq] at hrr; rw [hrr]
                      | error e0 => simp [hrf] at hrr
                    obtain ⟨kp, hkp, hrunp⟩ := procArgs_sim c tbl d ex fit cost hsim hex0 a.pw m hplain1
                      ⟨P2 ++ rest.map some, P2.length, pr⟩ S D F (by omega) args [] _ hfa hrepl
                    obtain ⟨k3, P3, hk3, hp3, hrun3⟩ := hsim (some m.name :: D) body []
                      (⟨P2 ++ rest.map some, P2.length, pr⟩ :: S) false F hfb (by simp only [List.length_cons]; omega)
                    simp only [List.nil_append, List.length_nil] at hrun3
                    have hp3' : filterSome P3 = ex (some m.name :: D) body := by simpa [filterSome] using hp3
                    have hpop := mstep_pop c tbl hadv P3 P2 rest S (some m.name) D F pr
                    obtain ⟨k4, P', hk4, hp4, hrun4⟩ := ih D rest ((filterSome P2 ++ filterSome P3).map some) S pr F hnr hfr hlim
                    refine ⟨1 + (kp + (k3 + (1 + k4))), P', by rw [hC]; omega, ?_, ?_⟩
                    · rw [hp4, hE, filterSome_map, hp2, hp3', List.append_assoc]
                    · rw [runK_succ, List.map_cons, List.map_cons, hstep]
                      cases hout : processArgs c a.pw m args [] ⟨⟨P2 ++ rest.map some, P2.length, pr⟩ :: S, D, F, none⟩ with
                      | cont s1 =>
                        rw [hout] at hrunp
                        simp only [contK] at hrunp ⊢
                        rw [runK_trans c tbl kp _ _ _ hrunp, runK_trans c tbl k3 _ _ _ hrun3, runK_succ, hpop]
                        exact hrun4
                      | done x => rw [hout] at hrunp; simp [contK] at hrunp
                      | err x => rw [hout] at hrunp; simp [contK] at hrunp
                  · rw [if_neg hlp] at hcall; cases hcall

theorem RefS_nil (tbl : Table) (d : Nat) (D : NoExp) : RefS tbl d D [] = [] := by
  cases d <;> simp [RefS, scanRefS]

/-- **C03 (function-like fragment)**: the machine computes the reference, for every nesting budget -/
theorem fsimS (c : Cfg) (tbl : Table) (hadv : c.adv = true) :
    ∀ d, SimAt c tbl d (RefS tbl d) (fitsbS tbl d) (costS tbl d) := by
  intro d
  induction d with
  | zero =>
    intro D ts P S pr F hfit _
    have : ts = [] := by simpa [fitsbS] using hfit
    subst this
    exact ⟨0, P, by simp, by simp [RefS], by simp [runK]⟩
  | succ d ih =>
    intro D ts P S pr F hfit hlim
    simp only [fitsbS] at hfit
    simp only [RefS, costS]
    exact scan_simS c tbl hadv d _ _ _ ih (RefS_nil tbl d) ts.length D ts P S pr F (Nat.le_refl _) hfit hlim

/-- top level: `expandWith` returns the reference whenever limit and fuel are large enough -/
theorem expandWith_str (c : Cfg) (tbl : Table) (hadv : c.adv = true) (d : Nat) (ts : List Tok)
    (hfit : fitsbS tbl d [none] ts = true) (hlim : d + 1 < c.lim) (fuel : Nat) (hfuel : costS tbl d [none] ts + 2 ≤ fuel) :
    expandWith c tbl fuel ts = .ok (RefS tbl d [none] ts) := by
  unfold expandWith
  have h0 : ¬ (c.lim = 0) := by omega
  simp only [h0, if_false]
  cases ts with
  | nil => simp [RefS_nil]
  | cons a as =>
    simp only [List.isEmpty_cons, Bool.false_eq_true, if_false]
    obtain ⟨k, P', hk, hp, hrun⟩ := fsimS c tbl hadv d [none] (a :: as) [] [] false [] hfit (by simpa using hlim)
    simp only [List.nil_append, List.length_nil] at hrun
    have hp' : filterSome P' = RefS tbl d [none] (a :: as) := by simpa [filterSome] using hp
    have hrun' := run_of_runK c tbl k 2 _ _ hrun
    rw [run_final' c tbl P' 0, hp'] at hrun'
    exact run_mono_fuel c tbl (k + 2) _ _ hrun' fuel (by omega)



end CbiVerif.MX
