import CbiVerif.PP.CSource
/-! Single-file end-to-end model: parse_file → DirectiveParser.parse → SourceTree.insert → ParserState.associate. -/
namespace CbiVerif.PP

inductive NKind | code | ifk | elifk | elsek | endk | define | undef | include | pragma | unrecognized
deriving DecidableEq, Repr, Inhabited

structure PNode where
  kind : NKind
  lines : List Nat
  toks : List Tok := []        -- payload: expression tokens / define body etc. (tokens after the directive name)
  name : String := ""          -- macro name for define/undef
  margs : Option (List String) := none
deriving Repr, Inhabited

def mkTok (k : TKind) (s : String) (pw : Bool) : Tok := ⟨k, s, pw, true⟩

/-- DirectiveParser.parse for one directive logical line -/
def parseDirective (text : String) (lines : List Nat) : Except Err PNode :=
  match tokenize text with
  | h :: rest =>
    if !(h.kind == .op && h.text == "#") then .error (.parse "Not a directive.")
    else
      let unrec : PNode := { kind := .unrecognized, lines := lines }
      match rest with
      | d :: r =>
        if d.kind != .ident then .ok unrec
        else if d.text == "define" then
          match macroDefinition r with
          | some (n, args, body) => .ok { kind := .define, lines := lines, toks := body, name := n, margs := args }
          | none => .ok unrec
        else if d.text == "undef" then
          match r with
          | i :: _ => if i.kind == .ident then .ok { kind := .undef, lines := lines, name := i.text } else .ok unrec
          | [] => .ok unrec
        else if d.text == "include" then .ok { kind := .include, lines := lines, toks := r }
        else if d.text == "ifdef" then
          match r with
          | i :: _ => if i.kind == .ident then
              .ok { kind := .ifk, lines := lines, toks := [mkTok .ident "defined" true, mkTok .punct "(" false, i, mkTok .punct ")" false] }
            else .ok unrec
          | [] => .ok unrec
        else if d.text == "ifndef" then
          match r with
          | i :: _ => if i.kind == .ident then
              .ok { kind := .ifk, lines := lines, toks := [mkTok .op "!" true, mkTok .ident "defined" false, mkTok .punct "(" false, i, mkTok .punct ")" false] }
            else .ok unrec
          | [] => .ok unrec
        else if d.text == "if" then .ok { kind := .ifk, lines := lines, toks := r }
        else if d.text == "elif" then .ok { kind := .elifk, lines := lines, toks := r }
        else if d.text == "else" then .ok { kind := .elsek, lines := lines }
        else if d.text == "endif" then .ok { kind := .endk, lines := lines }
        else if d.text == "pragma" then .ok { kind := .pragma, lines := lines, toks := r }
        else .ok unrec
      | [] => .ok unrec
  | [] => .error .index

/-- FileParser.parse_file: node list in source order -/
def parseFile (text : String) : Except Err (List PNode) := do
  let (lls, _, _) ← cFileSource text
  let mut nodes : List PNode := []
  let mut code : List Nat := []
  let mut codeOpen := false
  for ll in lls do
    if ll.cat == .cppDirective then
      if codeOpen then
        nodes := nodes ++ [{ kind := .code, lines := code }]
        code := []; codeOpen := false
      let n ← parseDirective ll.text ll.lines
      nodes := nodes ++ [n]
    else
      code := code ++ ll.lines; codeOpen := true
  if codeOpen then nodes := nodes ++ [{ kind := .code, lines := code }]
  return nodes

/-! tree building (zipper model of SourceTree.insert) over node indices -/
inductive PTree | node (idx : Nat) (kids : List PTree)
deriving Repr, Inhabited

structure Frame where
  idx : Nat
  opens : Bool
  kids : List PTree

structure Zip where
  rootKids : List PTree
  spine : List Frame

def Zip.up (z : Zip) : Zip :=
  match z.spine with
  | [] => z
  | [f] => { rootKids := z.rootKids ++ [.node f.idx f.kids], spine := [] }
  | f :: g :: rest => { z with spine := { g with kids := g.kids ++ [.node f.idx f.kids] } :: rest }

def Zip.walk : Nat → Zip → Zip
  | 0, z => z
  | n + 1, z => match z.spine with
    | [] => z
    | f :: _ => if f.opens then z else Zip.walk n z.up

def isStart (k : NKind) : Bool := k == .ifk
def isCont (k : NKind) : Bool := k == .elifk || k == .elsek
def isEnd (k : NKind) : Bool := k == .endk

def Zip.insert (z : Zip) (idx : Nat) (k : NKind) : Except Err Zip :=
  let fr : Frame := ⟨idx, isStart k || isCont k, []⟩
  match z.spine with
  | [] => .ok { z with spine := [fr] }
  | f :: _ =>
    if isCont k || isEnd k then
      let zw := z.walk z.spine.length
      match zw.spine with
      | [] => .error .type_          -- reached the root: `None.add_child`
      | _ =>
        let z' := zw.up
        .ok { z' with spine := fr :: z'.spine }
    else if f.opens then .ok { z with spine := fr :: z.spine }
    else let z' := z.up; .ok { z' with spine := fr :: z'.spine }

def Zip.closeAll : Nat → Zip → List PTree
  | 0, z => z.rootKids
  | n + 1, z => match z.spine with | [] => z.rootKids | _ => Zip.closeAll n z.up

def buildTree (nodes : List PNode) : Except Err (List PTree) := do
  let mut z : Zip := ⟨[], []⟩
  for (n, i) in nodes.zipIdx do
    z ← z.insert i n.kind
  return Zip.closeAll (z.spine.length + 1) z

/-! association -/
structure AEnv where
  tbl : Table := []
  err : Option Err := none
  taken : List Bool := []
  attributed : List Nat := []     -- node indices visited

def evalCond (env : AEnv) (toks : List Tok) : Bool × AEnv :=
  match env.err with
  | some _ => (false, env)
  | none =>
    match runExpand env.tbl toks with
    | .ok ts => match evaluate ts with
      | .ok b => (b, env)
      | .error e => (false, { env with err := some e })
    | .error e => (false, { env with err := some e })
    | .sig s => (false, { env with err := some (.other s) })

mutual
partial def visit (nodes : Array PNode) (env : AEnv) : PTree → AEnv
  | .node idx kids =>
    match env.err with
    | some _ => env
    | none =>
      let n := nodes[idx]!
      let env := { env with attributed := env.attributed ++ [idx] }
      match n.kind with
      | .code | .include | .pragma | .unrecognized => env
      | .define =>
        match makeMacro n.name n.margs n.toks with
        | .ok m => if (env.tbl.get n.name).isSome then env else { env with tbl := env.tbl ++ [(n.name, m)] }
        | .error e => { env with err := some e }
      | .undef => { env with tbl := env.tbl.filter (·.1 != n.name) }
      | .endk => { env with taken := env.taken.tail }
      | .ifk =>
        let (a, env) := evalCond env n.toks
        let env := { env with taken := a :: env.taken }
        if a then visitList nodes env kids else env
      | .elifk =>
        match env.taken with
        | [] => { env with err := some .index }
        | t :: ts =>
          if t then env else
            let (a, env) := evalCond env n.toks
            let env := { env with taken := a :: ts }
            if a then visitList nodes env kids else env
      | .elsek =>
        match env.taken with
        | [] => { env with err := some .index }
        | t :: ts => if t then env else visitList nodes { env with taken := true :: ts } kids
partial def visitList (nodes : Array PNode) (env : AEnv) : List PTree → AEnv
  | [] => env
  | t :: ts => visitList nodes (visit nodes env t) ts
end

/-- analyse one file with `-D` definitions: per node (kind, lines, attributed) -/
def analyseFile (text : String) (defs : List String) : Except Err (List (NKind × List Nat × Bool)) := do
  let nodes ← parseFile text
  let mut tbl : Table := []
  for d in defs do
    let m ← macroFromDefinitionString d
    if (tbl.get m.name).isNone then tbl := tbl ++ [(m.name, m)]
  let trees ← buildTree nodes
  let env := visitList nodes.toArray { tbl := tbl } trees
  match env.err with
  | some e => throw e
  | none => return (nodes.zipIdx).map fun (n, i) => (n.kind, n.lines, env.attributed.contains i)

end CbiVerif.PP
