import CbiVerif.Model.FindInc
import CbiVerif.Model.FindInst
/-! # C04 — the two executable multi-file engines on one request (`Props/C04Engines.lean`, op `engines`)

`Inc.find` (`Model/FindInc.lean`: `Cond.Tree` walked by `Cond.visitList`, fuel = include depth, attribution recorded
per file after the walk) and `Exclude.findRef` (`Model/Exclude.lean`: `PTree` walked by `visitRef`, fuel per step,
attribution recorded at every node) under the record `Exclude.sem` that ops `c10find` / `c08find` run.

This file holds what the driver evaluates and the theorems talk about: the attribution *set* of an association
list (`Has`, executable form `triples`), the decidable side condition `EngOK`, and the pair of runs.  Core Lean only. -/
namespace CbiVerif.Engines
open CbiVerif.PP CbiVerif.Exclude

/-- the association map of both engines: (file, node index) ↦ platforms, insertion order -/
abbrev AssocL := List ((String × Nat) × List String)

/-- node `i` of file `f` is attributed to platform `p` -/
def Has (a : AssocL) (f : String) (i : Nat) (p : String) : Prop := ∃ e ∈ a, e.1 = (f, i) ∧ p ∈ e.2

/-- the attributions as a list of triples (executable form of `Has`) -/
def triples (a : AssocL) : List (String × Nat × String) := a.flatMap fun e => e.2.map fun p => (e.1.1, e.1.2, p)

/-- equality of two triple lists as sets -/
def sameSet (x y : List (String × Nat × String)) : Bool := x.all y.contains && y.all x.contains

/-- **decidable side condition of the agreement theorem**: no symbolic links; no existing file is Fortran or
assembler by extension (one language class); the compiled files are C-family by extension; no command has `-include` files -/
def EngOK (fs : Inc.FS) (cfg : List (String × List Entry)) : Bool :=
  fs.links.isEmpty && FindInst.CFam fs.files &&
  cfg.all fun pe => pe.2.all fun e => extClass e.file == some .c && e.includeFiles.isEmpty

/-- the engine of `c08find` / `c10find` (cache-free form, `C10.find_eq_ref`) on a request of op `findinc` -/
def runExclude (fs : Inc.FS) (cfg : List (String × List Entry)) (n : Nat) : Local := findRef (sem fs.files) n cfg

/-- both runs are non-error runs (implies that neither fuel was exhausted: both failures are sticky) -/
def bothOkOf (x : Local) (i : Inc.PState) : Bool := x.err.isNone && i.err.isNone
def bothOk (fs : Inc.FS) (cb : List String) (cfg : List (String × List Entry)) (n fuel : Nat) : Bool :=
  bothOkOf (runExclude fs cfg n) (Inc.find fs cb cfg fuel)

/-- the conclusion of `C04.engines_agree_partial`, evaluated -/
def agreeOf (x : Local) (i : Inc.PState) : Bool := sameSet (triples x.assoc) (triples i.assoc)
def agree (fs : Inc.FS) (cb : List String) (cfg : List (String × List Entry)) (n fuel : Nat) : Bool :=
  agreeOf (runExclude fs cfg n) (Inc.find fs cb cfg fuel)

end CbiVerif.Engines
