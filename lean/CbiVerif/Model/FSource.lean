import CbiVerif.Model.FClean
/-!
Model of the Fortran path of `codebasin/file_source.py` and `file_parser.py`:

* `dStep1`/`dProcess`/`dNewline`/`dLoop` = `c_cleaner(directives_only=True)` and
  `c_file_source(fp, directives_only=True)`: the C pass that only understands
  preprocessor directive lines (white-space merging, `\`-splicing, comments and
  quotes inside directives); it yields the non-blank C logical lines (`CL`).
* `fLoop` = `fortran_file_source`: directive lines cut the Fortran logical line
  and are passed through, every other C logical line goes through
  `fortran_cleaner.process` (`procLine`) and is joined to the current Fortran
  logical line until the cleaner is no longer in `CONTINUING_FROM_SOL`.
* `group` = the loop of `FileParser.parse_file`: consecutive code lines form one
  `CodeNode`, each directive its own node (`lines`, `num_lines`).

Physical extents (`start_line`/`end_line`) are not part of C17 and not modelled.
Core Lean only.
-/
namespace CbiVerif.Fortran

inductive FErr
  | notTop          -- "Parser must end at top level without 'relaxed' mode."
  | eofBackslash    -- "file seems to end in \ with no newline!"
  | inconsistent    -- "Inconsistent parser state. ..."
deriving DecidableEq, Repr, Inhabited

/-! ## the C pass in `directives_only` mode -/

inductive DMode | top | dir | dq | sq | esc | slash | lineC | blockC | blockStar
deriving DecidableEq, Repr, Inhabited

/-- `append_char` -/
def emitChar (c : Char) : Emit := if pyIsSpace c then .sp else .ns c

/-- one dispatch of `c_cleaner.process` with `directives_only=True`;
result: state, buffer, putback?, return? -/
def dStep1 (st : List DMode) (ob : OSL) (c : Char) : Except FErr (List DMode × OSL × Bool × Bool) :=
  match st with
  | [] => .error .inconsistent
  | .top :: r =>
    if c == '\\' then .ok (.esc :: .top :: r, ob.add (.ns c), false, false)
    else if c == '#' && ob.blank then .ok (.dir :: .top :: r, ob.add (.ns c), false, false)
    else .ok (st, ob.add (emitChar c), false, false)
  | .dir :: r =>
    if c == '\\' then .ok (.esc :: .dir :: r, ob.add (.ns c), false, false)
    else if c == '/' then .ok (.slash :: .dir :: r, ob, false, false)
    else if c == '"' then .ok (.dq :: .dir :: r, ob.add (.ns c), false, false)
    else if c == '\'' then .ok (.sq :: .dir :: r, ob.add (.ns c), false, false)
    else .ok (st, ob.add (emitChar c), false, false)
  | .dq :: r =>
    if c == '\\' then .ok (.esc :: .dq :: r, ob.add (.ns c), false, false)
    else if c == '"' then .ok (r, ob.add (.ns c), false, false)
    else .ok (st, ob.add (.ns c), false, false)
  | .sq :: r =>
    if c == '\\' then .ok (.esc :: .sq :: r, ob.add (.ns c), false, false)
    else if c == '/' then .ok (.slash :: .sq :: r, ob, false, false)
    else if c == '\'' then .ok (r, ob.add (.ns c), false, false)
    else .ok (st, ob.add (.ns c), false, false)
  | .slash :: r =>
    if c == '/' then .ok (.lineC :: r, ob, false, false)
    else if c == '*' then .ok (.blockC :: r, ob, false, false)
    else .ok (r, ob.add (emitChar '/'), true, false)
  | .blockC :: r =>
    if c == '*' then .ok (.blockStar :: .blockC :: r, ob, false, false) else .ok (st, ob, false, false)
  | .blockStar :: r =>
    if c == '/' then
      match r with
      | .blockC :: r2 => .ok (r2, ob.add .sp, false, false)
      | _ => .error .inconsistent
    else if c != '*' then
      match r with
      | .blockC :: _ => .ok (r, ob, false, false)
      | _ => .error .inconsistent
    else .ok (st, ob, false, false)
  | .esc :: r => .ok (r, ob.add (.ns c), false, false)
  | .lineC :: _ => .ok (st, ob, false, true)

/-- `c_cleaner.process` -/
def dProcess (st : List DMode) (ob : OSL) : List Char → Except FErr (List DMode × OSL)
  | [] => .ok (st, ob)
  | c :: cs =>
    match dStep1 st ob c with
    | .error e => .error e
    | .ok (st1, ob1, pb, ret) =>
      if ret then .ok (st1, ob1)
      else if pb then
        match dStep1 st1 ob1 c with
        | .error e => .error e
        | .ok (st2, ob2, _, ret2) => if ret2 then .ok (st2, ob2) else dProcess st2 ob2 cs
      else dProcess st1 ob1 cs

/-- `c_cleaner.logical_newline` -/
def dNewline (st : List DMode) (ob : OSL) : Except FErr (List DMode × OSL) :=
  match st with
  | .lineC :: _ => .ok ([.top], ob.add .sp)
  | .slash :: _ => .ok ([.top], ob.add (.ns '/'))
  | .sq :: _ => .ok ([.top], ob)
  | .dq :: _ => .ok ([.top], ob)
  | .blockStar :: r =>
    match r with
    | .blockC :: _ => .ok (r, ob)
    | _ => .error .inconsistent
  | .dir :: _ => .ok ([.top], ob)
  | _ => .ok (st, ob)

/-- a non-blank C logical line: the physical lines counted for it and its cleaned text -/
structure CL where
  lines : List Nat
  text : List Char
deriving Repr, Inhabited, DecidableEq

/-- Python's text-mode line iteration (after universal-newline decoding): pieces and
whether they ended in a newline -/
def splitLinesAux : List Char → List Char → List (List Char × Bool)
  | [], cur => if cur.isEmpty then [] else [(cur.reverse, false)]
  | '\n' :: r, cur => (cur.reverse, true) :: splitLinesAux r []
  | c :: r, cur => splitLinesAux r (c :: cur)

def splitLines (s : String) : List (List Char × Bool) := splitLinesAux s.toList []

def emitCL (cur : OSL) (lines : List Nat) : List CL :=
  if category cur.parts == .blank then [] else [⟨lines, cur.parts⟩]

/-- the `for physical_line_num, line in enumerate(fp, start=1)` loop of `c_file_source`
and the code after it.  `n` = lines read so far. -/
def dLoop (st : List DMode) (cur : OSL) (lines : List Nat) (n : Nat) :
    List (List Char × Bool) → Except FErr (List CL)
  | [] => if st == [.top] then .ok (emitCL cur lines) else .error .notTop
  | (content, hasNl) :: rest =>
    let continued := content.getLast? == some '\\'
    if !hasNl && continued then .error .eofBackslash
    else
      let body := if continued then content.dropLast else content
      match dProcess st {} body with
      | .error e => .error e
      | .ok (st1, ob1) =>
        match (if !continued && st1.head? != some .blockC then dNewline st1 ob1 else .ok (st1, ob1)) with
        | .error e => .error e
        | .ok (st2, ob2) =>
          let flush := !continued && st2.head? != some .blockC
          let lines2 := if ob2.blank then lines else lines ++ [n + 1]
          let cur2 := cur.join ob2
          if flush then (dLoop st2 {} [] (n + 1) rest).map (emitCL cur2 lines2 ++ ·)
          else dLoop st2 cur2 lines2 (n + 1) rest

/-- `c_file_source(fp, directives_only=True)` -/
def dPass (phys : List (List Char × Bool)) : Except FErr (List CL) := dLoop [.top] {} [] 0 phys

/-! ## fortran_file_source -/

/-- a logical line as yielded by `fortran_file_source` -/
structure LL where
  lines : List Nat
  text : List Char
  isDir : Bool        -- `category == "CPP_DIRECTIVE"`
deriving Repr, Inhabited, DecidableEq

def isDirText (t : List Char) : Bool := category t == .cppDirective

/-- a logical line assembled from statement lines is yielded unless blank, and is NEVER a directive
    (`curr_line.physical_update(..., statement=True)`: the repair of F-C17-2 — before it the category of the joined buffer
    decided, so a statement beginning with lone `&` lines and continuing with `&#...` read as a directive) -/
def emitLL (cur : OSL) (lines : List Nat) : List LL :=
  if category cur.parts == .blank then [] else [⟨lines, cur.parts, false⟩]

/-- the `while True` loop of `fortran_file_source` over the C logical lines, and the code after it -/
def fLoop (s : FSt) (cur : OSL) (lines : List Nat) : List CL → Except FErr (List LL)
  | [] => if s.stack == [.top] then .ok (emitLL cur lines) else .error .notTop
  | cl :: rest =>
    if isDirText cl.text then
      (fLoop s {} [] rest).map ((emitLL cur lines ++ [⟨cl.lines, cl.text, true⟩]) ++ ·)
    else
      let r := procLine s cl.text
      let lines2 := if r.2.blank then lines else lines ++ cl.lines
      let cur2 := cur.join r.2
      if r.1.stack.head? == some .cfs then fLoop r.1 cur2 lines2 rest
      else (fLoop r.1 {} [] rest).map (emitLL cur2 lines2 ++ ·)

def fPass (cls : List CL) : Except FErr (List LL) := fLoop {} {} [] cls

/-- `fortran_file_source(open(path))` -/
def fortranSource (text : String) : Except FErr (List LL) :=
  match dPass (splitLines text) with
  | .error e => .error e
  | .ok cls => fPass cls

/-! ## FileParser.parse_file (node list in source order) -/

structure Node where
  isDir : Bool
  lines : List Nat
  numLines : Nat
  body : List (List Char)
deriving Repr, Inhabited, DecidableEq

def mkCode (ls : List LL) : Node :=
  ⟨false, ls.flatMap (·.lines), (ls.map (·.lines.length)).sum, ls.map (·.text)⟩

/-- `FileParser.is_directive(logical_line)`: the category is `CPP_DIRECTIVE` and
    `not flushed_line.lstrip(" ").startswith("##")` — a yielded line whose first token is `##` is code (before the repair
    of F-C05-3 `DirectiveParser.parse` raised `ParseError("Not a directive.")` on it for the whole file) -/
def LL.isDirective (l : LL) : Bool := l.isDir && !((l.text.dropWhile (· == ' ')).take 2 == ['#', '#'])

/-- `acc` = the open code group (logical lines, in order) -/
def groupAux (acc : List LL) : List LL → List Node
  | [] => if acc.isEmpty then [] else [mkCode acc]
  | l :: rest =>
    if l.isDirective then
      (if acc.isEmpty then [] else [mkCode acc]) ++ ⟨true, l.lines, l.lines.length, [l.text]⟩ :: groupAux [] rest
    else groupAux (acc ++ [l]) rest

def group (lls : List LL) : List Node := groupAux [] lls

/-- all physical lines counted for a file = `lines` of all its nodes -/
def countedOf (lls : List LL) : List Nat := lls.flatMap (·.lines)

/-! ## derived views used in the statements of the C17 theorems -/

/-- per C logical line: is it counted (directive, or the cleaner's buffer for it is non-blank) -/
def flagsFrom (s : FSt) : List (List Char) → List Bool
  | [] => []
  | t :: ts =>
    if isDirText t then true :: flagsFrom s ts
    else (!(procLine s t).2.blank) :: flagsFrom (procLine s t).1 ts

/-- cleaner state after the whole list -/
def finalState (s : FSt) : List (List Char) → FSt
  | [] => s
  | t :: ts => if isDirText t then finalState s ts else finalState (procLine s t).1 ts

/-- cleaner state in front of line `i` -/
def stateAt (s : FSt) : List (List Char) → Nat → FSt
  | [], _ => s
  | _ :: _, 0 => s
  | t :: ts, i + 1 => if isDirText t then stateAt s ts i else stateAt (procLine s t).1 ts i

/-- the physical lines of the flagged C logical lines -/
def select : List Bool → List CL → List Nat
  | b :: bs, cl :: cls => (if b then cl.lines else []) ++ select bs cls
  | _, _ => []

def nodesLines (ns : List Node) : List Nat := ns.flatMap (·.lines)


end CbiVerif.Fortran
