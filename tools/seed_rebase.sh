#!/bin/bash
# seed_rebase.sh <seed dir> '<sed expr>' <file> : re-create patch.diff of a seeded change against the current /repo HEAD
# (used when a later fix: commit changed the context lines), then re-verify it.
d=$(realpath $1); wt=/tmp/seedrb_$$
git -C /repo worktree add -q --detach $wt HEAD
(cd $wt && sed -i "$2" "$3" && git diff > $d/patch.diff)
git -C /repo worktree remove --force $wt
/verif/tools/seed_verify.sh $d
