import CbiVerif.Props.C11
/-! # C11 — `-U NAME`: the definitions in force

With `-U` an option the argument parser knows (`_UndefineAction`, fix of finding F-C01-2) the property's "exactly the
macro definitions given with -D, in command-line order" is read as a compiler reads the command line: the
definitions in force after processing `-D` / `-U` left to right (`Spec/Extract.lean`).  `-U` in both spellings is
inside `Extract.Tame`, so `C11.main`, `C11Full.main_full`, `full_refines_lr`, `unknown_ignored`,
`attached_eq_separate` (stated for every flag, hence also `-UX` = `-U X`), `positionals_never_disturb` cover it.
This file adds what is specific to `-U`. -/
namespace CbiVerif.C11
open CbiVerif.Argparse CbiVerif.Extract CbiVerif.ArgvLemmas CbiVerif.ExtractLemmas

/-- what `-U n` alone says -/
theorem lists_undef (n : List Char) : lists [Flag.U.text, n] = { undefs := [n] } := by
  simp [lists, scan, reading_sep, Lists.add, nil_surviving]

theorem complete_undef (n : List Char) : Complete [Flag.U.text, n] := by
  simp [Complete, completeFrom, reading_sep]

/-- **undefine_exact** — the definitions of `xs -U n ys`: those of `xs` that neither this `-U` nor a `-U` in `ys`
names, followed by those of `ys`; every other list is untouched by the `-U`. -/
theorem undefine_exact (xs ys : Argv) (n : List Char) (hc : Complete xs) :
    (extract (xs ++ [Flag.U.text, n] ++ ys)).defines =
      surviving (lists xs).defines (n :: (lists ys).undefs) ++ (lists ys).defines ∧
    (extract (xs ++ [Flag.U.text, n] ++ ys)).includePaths = (extract (xs ++ ys)).includePaths ∧
    (extract (xs ++ [Flag.U.text, n] ++ ys)).includeFiles = (extract (xs ++ ys)).includeFiles := by
  have hc2 : Complete (xs ++ [Flag.U.text, n]) := complete_append _ _ none hc (complete_undef n)
  unfold extract
  rw [lists_append _ ys hc2, lists_append xs _ hc, lists_append xs ys hc, lists_undef]
  simp only [Lists.result, Lists.append, List.append_nil, surviving_surviving, List.singleton_append]
  exact ⟨trivial, trivial, trivial⟩

/-- **undefine_cancels** — after `… -D X[=v] … -U X …`: (1) a definition of `X` that is in force at the end was
made *after* the `-U X` (so with no later `-D X`, `X` is not among the defines, whatever came before); (2) every
definition in force in the part after the `-U X` — in particular a later `-D X=w` — is in force at the end
(a later `-D` re-defines). -/
theorem undefine_cancels (xs ys : Argv) (n : List Char) (hc : Complete xs) :
    (∀ d ∈ (extract (xs ++ [Flag.U.text, n] ++ ys)).defines, Extract.macroName d = n → d ∈ (extract ys).defines) ∧
    (∀ d ∈ (extract ys).defines, d ∈ (extract (xs ++ [Flag.U.text, n] ++ ys)).defines) := by
  rw [(undefine_exact xs ys n hc).1]
  constructor
  · intro d hd hn
    rcases List.mem_append.mp hd with h | h
    · exfalso
      have h2 := (List.mem_filter.mp h).2
      simp [hn] at h2
    · exact h
  · intro d hd
    exact List.mem_append.mpr (Or.inr hd)

/-- with no `-D X` after it, `-U X` leaves `X` undefined -/
theorem undefine_cancels_all (xs ys : Argv) (n : List Char) (hc : Complete xs)
    (hys : ∀ d ∈ (extract ys).defines, Extract.macroName d ≠ n) :
    ∀ d ∈ (extract (xs ++ [Flag.U.text, n] ++ ys)).defines, Extract.macroName d ≠ n := by
  intro d hd hn
  exact hys d ((undefine_cancels xs ys n hc).1 d hd hn) hn

/-- non-vacuity, and the three orders the compilers distinguish: `-DX -UX` (undefined), `-UX -DX` (defined),
`-DX=1 -UX -DX=2` (`X=2`), in both spellings, other definitions untouched -/
example :
    Complete ["-DX".toList, "-D".toList, "Y=1".toList] ∧
    extract (["-DX".toList, "-D".toList, "Y=1".toList] ++ [Flag.U.text, "X".toList] ++ ["-O2".toList]) =
      ⟨["Y=1".toList], [], []⟩ ∧
    extract ["-UX".toList, "-DX".toList] = ⟨["X".toList], [], []⟩ ∧
    extract ["-DX=1".toList, "-UX".toList, "-DX=2".toList] = ⟨["X=2".toList], [], []⟩ ∧
    extract ["-DX(a)=a".toList, "-DXY".toList, "-U".toList, "X".toList] = ⟨["XY".toList], [], []⟩ ∧
    Tame ["-DX=1".toList, "-UX".toList, "-D".toList, "X=2".toList, "-U".toList, "Z".toList] := by decide

/-- **undefine_of_undefined_is_noop** — `-U X` where no definition of `X` is in force changes nothing (in
particular `-U X` before the first `-D X`, or for a macro never defined). -/
theorem undefine_of_undefined_is_noop (xs ys : Argv) (n : List Char) (hc : Complete xs)
    (hn : ∀ d ∈ (lists xs).defines, Extract.macroName d ≠ n) :
    extract (xs ++ [Flag.U.text, n] ++ ys) = extract (xs ++ ys) := by
  have hc2 : Complete (xs ++ [Flag.U.text, n]) := complete_append _ _ none hc (complete_undef n)
  have hs : surviving (lists xs).defines [n] = (lists xs).defines := by
    simp only [surviving, List.filter_eq_self, List.contains_cons, List.contains_nil, Bool.or_false, Bool.not_eq_true',
      beq_eq_false_iff_ne]
    exact hn
  unfold extract
  rw [lists_append _ ys hc2, lists_append xs _ hc, lists_append xs ys hc, lists_undef]
  simp only [Lists.result, Lists.append, List.append_nil, hs]

example : Complete ["-UX".toList, "-DY".toList] ∧ (∀ d ∈ (lists ["-UX".toList, "-DY".toList]).defines, Extract.macroName d ≠ "X".toList) ∧
    extract (["-UX".toList, "-DY".toList] ++ [Flag.U.text, "X".toList] ++ ["-DX".toList]) = ⟨["Y".toList, "X".toList], [], []⟩ := by
  decide

/-- the hypothesis is needed: when a definition of `X` is in force, `-U X` removes it -/
example : extract (["-DX".toList] ++ [Flag.U.text, "X".toList] ++ []) ≠ extract (["-DX".toList] ++ []) := by decide

/-! ### the same for the parser model (= the code, by the correspondence check) -/

/-- **undefine_cancels_model** — on a tame command line `xs -U n ys` the parser model returns a configuration whose
defines contain no definition of `n` made before the `-U n`, and every definition in force in `ys`. -/
theorem undefine_cancels_model (xs ys : Argv) (n : List Char) (hc : Complete xs)
    (ht : Tame (xs ++ [Flag.U.text, n] ++ ys)) :
    ∃ r, argparseModel (xs ++ [Flag.U.text, n] ++ ys) = .ok r ∧
      (∀ d, Val.str d ∈ r.defines → Extract.macroName d = n → d ∈ (extract ys).defines) ∧
      (∀ d ∈ (extract ys).defines, Val.str d ∈ r.defines) ∧ Val.emptyList ∉ r.defines := by
  refine ⟨_, main _ ht, ?_, ?_, ?_⟩
  · intro d hd hn
    simp only [toModel, List.mem_map, Val.str.injEq, exists_eq_right] at hd
    exact (undefine_cancels xs ys n hc).1 d hd hn
  · intro d hd
    simp only [toModel, List.mem_map, Val.str.injEq, exists_eq_right]
    exact (undefine_cancels xs ys n hc).2 d hd
  · simp [toModel]

theorem undefine_of_undefined_is_noop_model (xs ys : Argv) (n : List Char) (hc : Complete xs)
    (hn : ∀ d ∈ (lists xs).defines, Extract.macroName d ≠ n)
    (h1 : Tame (xs ++ [Flag.U.text, n] ++ ys)) (h2 : Tame (xs ++ ys)) :
    argparseModel (xs ++ [Flag.U.text, n] ++ ys) = argparseModel (xs ++ ys) := by
  rw [main _ h1, main _ h2, undefine_of_undefined_is_noop xs ys n hc hn]

example : Tame (["-UX".toList, "-DY".toList] ++ [Flag.U.text, "X".toList] ++ ["-DX".toList]) ∧
    Tame (["-UX".toList, "-DY".toList] ++ ["-DX".toList]) := by decide

/-- `-UX` and `-U X` mean the same (instance of `attached_eq_separate`, which is stated for every flag) -/
theorem undefine_attached_eq_separate (xs ys : Argv) (n : List Char) (hn : n ≠ []) (hc : Complete xs) :
    extract (xs ++ [Flag.U.text ++ n] ++ ys) = extract (xs ++ [Flag.U.text, n] ++ ys) :=
  attached_eq_separate xs ys .U n hn hc

/-! ### where the code leaves the compilers' reading of `-U` (the shapes stay outside `Tame`) -/

/-- D36 for `-U`: `-U=X` undefines `X` (argparse drops the `=`); D23 for `-U`: `-U--` hands the action an empty list
(no definition is cancelled); and `_UndefineAction` raises `TypeError` on the `[]` that `-D--` stores -/
theorem witness_undef_shapes :
    (Tag.D36 ∈ classes ["-DX".toList, "-U=X".toList] ∧ argparseModel ["-DX".toList, "-U=X".toList] = .ok ⟨[], [], []⟩) ∧
    (Tag.D23 ∈ classes ["-DX".toList, "-U--".toList] ∧
      argparseModel ["-DX".toList, "-U--".toList] = .ok ⟨[.str "X".toList], [], []⟩) ∧
    (Tag.D23 ∈ classes ["-D--".toList, "-UX".toList] ∧ argparseModel ["-D--".toList, "-UX".toList] = .error .typeError) := by
  decide

end CbiVerif.C11
