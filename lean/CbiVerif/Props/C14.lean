import CbiVerif.Model.Order
import CbiVerif.Lemmas.Order
import CbiVerif.Lemmas.OrderSort
import CbiVerif.Lemmas.OrderDups
import Batteries.Data.List.Perm

/-!
# C14 — results are deterministic and independent of enumeration order

The iteration orders the Python runtime chooses (set / frozenset / dict iteration
under a random string-hash seed, directory enumeration, order of the
`[platform.*]` tables) are explicit list arguments of the model
(`CbiVerif/Model/Order.lean`); every theorem quantifies over **all**
permutations of those lists.  Floats are an arbitrary carrier with arbitrary,
law-free operations (`FloatOps`), so the statements hold for IEEE doubles in
particular.

The model follows the code after the repairs D26–D29, D34, D36 (commits a8dca66 … 5d7f56c).  The
last section keeps, for the record, witnesses that the *former* definitions (clearly named
`…Unsorted`, `…SetOrder`, `…Pinned`, `…LenOnly`) were order dependent.
-/
namespace CbiVerif.C14
open CbiVerif.Order

/-! ## platform sets -/

/-- two listings denote the same frozenset iff their canonical forms coincide -/
theorem canon_eq_iff (a b : List String) : canon a = canon b ↔ ∀ x, x ∈ a ↔ x ∈ b :=
  canon_eq_iff'

/-! ## per-line attribution: a union of sets -/

/-- the platforms attributed to a node do not depend on the order in which platforms, database
entries and nodes are processed … -/
theorem attribution_perm {events events' : List Visit} (h : events.Perm events')
    (file : String) (node : Nat) : assocOf events file node = assocOf events' file node :=
  assocOf_congr (fun _ => h.mem_iff) file node

/-- … nor on how often a node is visited: only the *set* of (platform, node) visits matters, and the
attributed set is exactly the set of visiting platforms -/
theorem attribution_set {events events' : List Visit} (h : ∀ v, v ∈ events ↔ v ∈ events')
    (file : String) (node : Nat) :
    assocOf events file node = assocOf events' file node ∧
    ∀ p, p ∈ assocOf events file node ↔ (⟨p, file, node⟩ : Visit) ∈ events :=
  ⟨assocOf_congr h file node, fun _ => mem_assocOf⟩

example : assocOf [⟨"gpu", "a.c", 1⟩, ⟨"cpu", "a.c", 1⟩, ⟨"cpu", "a.c", 2⟩, ⟨"gpu", "a.c", 1⟩] "a.c" 1
    = ["cpu", "gpu"] := by decide +kernel

/-! ## setmap -/

/-- `get_setmap` as a function of the contribution list: permuting the contributions (files in any
enumeration order, nodes in any order) and listing each association set in any internal order gives
the same key → count map; only the dict insertion order changes (`List.Perm` of the entries). -/
theorem setmap_perm {cs cs' : List (PSet × Nat)} (h : (cs.map norm).Perm (cs'.map norm)) :
    (getSetmap cs).Perm (getSetmap cs') ∧
    (∀ k, lookup (getSetmap cs) k = lookup (getSetmap cs') k) ∧
    (keys (getSetmap cs)).Nodup := by
  refine ⟨getSetmap_perm_norm h, fun k => ?_, nodup_keys_getSetmap cs⟩
  rw [lookup_getSetmap, lookup_getSetmap, contribSum_eq_norm, contribSum_eq_norm, (h.map _).sum_nat]

/-- files enumerated in any order (`os.scandir` / `rglob`) -/
theorem setmap_perm_files {files files' : List (List (PSet × Nat))} (h : files.Perm files') :
    (getSetmap (contribs files)).Perm (getSetmap (contribs files')) :=
  (setmap_perm ((h.flatten).map norm)).1

/-- … and, independently, the nodes of each file in any order -/
theorem setmap_perm_nodes {files files' : List (List (PSet × Nat))}
    (h : List.Forall₂ (fun f f' => f.Perm f') files files') :
    (getSetmap (contribs files)).Perm (getSetmap (contribs files')) :=
  (setmap_perm ((List.Perm.flatten_congr h).map norm)).1

/-- … and each association set iterated in any order (string-hash seed): the very same dict,
insertion order included -/
theorem setmap_perm_names {cs cs' : List (PSet × Nat)}
    (h : List.Forall₂ (fun c c' => c.1.Perm c'.1 ∧ c.2 = c'.2) cs cs') :
    getSetmap cs = getSetmap cs' := by
  have e : ∀ l : List (PSet × Nat),
      getSetmap l = (l.map norm).foldl (fun sm c => addTo c.1 c.2 sm) [] := by
    intro l; simp only [getSetmap, List.foldl_map, norm]
  have : cs.map norm = cs'.map norm := by
    induction h with
    | nil => rfl
    | cons hc _ ih =>
      simp only [List.map_cons, ih, norm]
      rw [canon_perm hc.1, hc.2]
  rw [e, e, this]

example : getSetmap [(["gpu", "cpu"], 2), ([], 1), (["cpu", "gpu"], 3)] = [(["cpu", "gpu"], 5), ([], 1)] := by
  decide +kernel
example : (List.map norm [(["gpu", "cpu"], 2), ([], 1)]).Perm (List.map norm [([], 1), (["cpu", "gpu"], 2)]) := by
  decide +kernel

/-! ## summary table -/

/-- the sort key `(len(s), sorted(s))` is a total order on platform sets: transitive, total and
antisymmetric — i.e. injective: two sets that compare equal are the same set -/
theorem summary_key_total :
    (∀ a b c : PSet, keyLe a b → keyLe b c → keyLe a c) ∧
    (∀ a b : PSet, keyLe a b || keyLe b a) ∧
    (∀ a b : PSet, keyLe (canon a) (canon b) → keyLe (canon b) (canon a) → ∀ x, x ∈ a ↔ x ∈ b) :=
  ⟨keyLe_trans, keyLe_total, fun _ _ h1 h2 => canon_eq_iff'.mp (keyLe_antisymm _ _ h1 h2)⟩

/-- the printed rows are the same list for every insertion order of the setmap (any dict whose keys
are distinct as sets) -/
theorem summary_rows_perm {F : Type} (ops : FloatOps F) {sm sm' : Setmap}
    (hkeys : (sm.map fun e => canon e.1).Nodup) (h : sm.Perm sm') :
    summaryRows ops sm = summaryRows ops sm' :=
  summaryRowsWith_perm ops entryLe_trans entryLe_total (entryLe_antisymm_on hkeys) h

/-- end to end: the table printed for an analysis does not depend on the enumeration order -/
theorem summary_rows_of_contribs {F : Type} (ops : FloatOps F) {cs cs' : List (PSet × Nat)}
    (h : (cs.map norm).Perm (cs'.map norm)) :
    summaryRows ops (getSetmap cs) = summaryRows ops (getSetmap cs') :=
  summary_rows_perm ops (nodup_canon_keys_getSetmap cs) (setmap_perm h).1

example : ((([(["b"], 1), (["a"], 2), (["a", "b"], 3)] : Setmap).map fun e => canon e.1)).Nodup := by
  decide +kernel

/-! ## metrics, for every float arithmetic -/

/-- For EVERY `add`/`div`/`mul` on an arbitrary carrier (no law assumed — IEEE doubles in particular),
every permutation of the setmap entries and every order `o`, `o'` in which the runtime lists the
platform set: the four metric lines are the same. -/
theorem metrics_perm_anyfloat {F : Type} (ops : FloatOps F) {sm sm' : Setmap} (h : sm.Perm sm')
    {o o' : List String} (ho : ∀ x, x ∈ o ↔ x ∈ o') :
    metricLines ops sm o = metricLines ops sm' o' := by
  have hd : divergence ops sm = divergence ops sm' := by
    unfold divergence; rw [platformsSorted_perm h, divergenceOn_perm' ops h]
  have hc : coverage ops sm = coverage ops sm' := by
    unfold coverage; rw [platformsSorted_perm h, coverageOf_perm' ops h]
  simp only [metricLines, hd, hc, averageCoverage_congr ops h ho, total_perm h]

/-- in particular for a permuted listing of the platform set -/
theorem metrics_perm_anyfloat_perm {F : Type} (ops : FloatOps F) {sm sm' : Setmap} (h : sm.Perm sm')
    {o o' : List String} (ho : o.Perm o') : metricLines ops sm o = metricLines ops sm' o' :=
  metrics_perm_anyfloat ops h (fun _ => ho.mem_iff)

/-- every distance and the whole distance matrix (rows and columns in sorted platform order) -/
theorem distance_matrix_perm_anyfloat {F : Type} (ops : FloatOps F) {sm sm' : Setmap} (h : sm.Perm sm') :
    distanceMatrix ops sm = distanceMatrix ops sm' ∧ ∀ p q, distance ops sm p q = distance ops sm' p q := by
  refine ⟨?_, fun p q => distance_perm' ops h p q⟩
  unfold distanceMatrix
  rw [platformsSorted_perm h]
  have : ∀ p q, distance ops sm p q = distance ops sm' p q := fun p q => distance_perm' ops h p q
  simp only [this]

/-- `average_coverage` with an explicit `platforms` argument (cbi-tree columns): only the set matters -/
theorem average_coverage_perm_anyfloat {F : Type} (ops : FloatOps F) {sm sm' : Setmap} (h : sm.Perm sm')
    {ps ps' : List String} (hp : ∀ x, x ∈ ps ↔ x ∈ ps') :
    averageCoverage ops sm ps = averageCoverage ops sm' ps' :=
  averageCoverage_congr ops h hp

example : (([(["A"], 1), (["B"], 2)] : Setmap)).Perm [(["B"], 2), (["A"], 1)] := List.Perm.swap _ _ _

/-! ## duplicates -/

/-- For every enumeration order of the files, every iteration order of the `remaining` sets
(`pick`, `pick'`) and every digest function (`hash`, `hash'`): the duplicate groups are the same
**set of sets** — exactly the content-equality classes with at least two members, each once —
and the printed report (`sorted(sorted(m) for m in matches)`) is the same list. -/
theorem dups_perm {P C H H' : Type} [DecidableEq C] [DecidableEq H] [DecidableEq H']
    (content : P → C) (hash : C → H) (hash' : C → H')
    (pick pick' : List P → List P) (hpick : ∀ l, (pick l).Perm l) (hpick' : ∀ l, (pick' l).Perm l)
    {files files' : List P} (hnd : files.Nodup) (h : files.Perm files')
    (ple : P → P → Bool) (gle : List P → List P → Bool)
    (ptrans : ∀ a b c, ple a b → ple b c → ple a c) (ptotal : ∀ a b, ple a b || ple b a)
    (pantisymm : ∀ a b, ple a b → ple b a → a = b)
    (gtrans : ∀ a b c, gle a b → gle b c → gle a c) (gtotal : ∀ a b, gle a b || gle b a)
    (gantisymm : ∀ a b, gle a b → gle b a → a = b) :
    IsClassPartition content files (findDuplicates pick content hash files) ∧
    SameGroups (findDuplicates pick content hash files) (findDuplicates pick' content hash' files') ∧
    printedDuplicates ple gle (findDuplicates pick content hash files) =
      printedDuplicates ple gle (findDuplicates pick' content hash' files') := by
  have s1 := findDuplicates_spec pick hpick content hash files hnd
  have s2 := findDuplicates_spec pick' hpick' content hash' files' (h.nodup_iff.mp hnd)
  exact ⟨s1, sameGroups_of_partitions (fun _ => h.mem_iff) s1 s2,
    printedSorted_eq ptrans ptotal pantisymm gtrans gtotal gantisymm (fun _ => h.mem_iff) s1 s2⟩

/-- instance for paths as `pathlib` orders them (component lists compared as Python lists): the printed
Duplicates report is one and the same list for every enumeration, pop and hash order -/
theorem dups_printed_paths {C H H' : Type} [DecidableEq C] [DecidableEq H] [DecidableEq H']
    (content : PathParts → C) (hash : C → H) (hash' : C → H')
    (pick pick' : List PathParts → List PathParts)
    (hpick : ∀ l, (pick l).Perm l) (hpick' : ∀ l, (pick' l).Perm l)
    {files files' : List PathParts} (hnd : files.Nodup) (h : files.Perm files') :
    printedDuplicates pathLe pathGroupLe (findDuplicates pick content hash files) =
      printedDuplicates pathLe pathGroupLe (findDuplicates pick' content hash' files') :=
  (dups_perm content hash hash' pick pick' hpick hpick' hnd h pathLe pathGroupLe
    pathLe_trans pathLe_total pathLe_antisymm pathGroupLe_trans pathGroupLe_total pathGroupLe_antisymm).2.2

example : (List.reverse [1, 2, 3]).Perm [1, 2, 3] := List.reverse_perm _
example : findDuplicates (P := Nat) List.reverse (fun p => p % 3) (fun c => c % 2) [0, 1, 2, 3, 4, 6]
    = [[6, 3, 0], [4, 1]] := by decide

/-! ## coverage export -/

/-- `coverage.json` is the same list of records for every enumeration order of the files
(file names are distinct) -/
theorem coverage_perm {P : Type} (recordOf : P → CovRecord) {files files' : List P}
    (hnd : (files.map fun f => (recordOf f).file).Nodup) (h : files.Perm files') :
    covExport recordOf files = covExport recordOf files' := by
  unfold covExport
  apply mergeSort_eq_of_perm covLe_trans covLe_total _ (h.map _)
  intro a ha b hb h1 h2
  have hfile : a.file = b.file := by
    simp only [covLe, decide_eq_true_eq] at h1 h2
    exact le_antisymm h1 h2
  have hnd' : ((files.map recordOf).map (·.file)).Nodup := by
    simpa [List.map_map, Function.comp_def] using hnd
  exact List.inj_on_of_nodup_map hnd' ha hb hfile

example : (List.map (fun f => (CovRecord.mk f "" [] []).file) ["b.c", "a.c"]).Nodup := by decide

/-! ## file tree: figures of a directory node -/

/-- the setmap of a tree node (hence its SLOC and coverage columns, by `metrics_perm_anyfloat` /
`average_coverage_perm_anyfloat`) does not depend on the enumeration order of the files; the order of
sibling rows is not a listed result and is left free -/
theorem tree_node_perm {P : Type} (under : P → Bool) (contribOf : P → List (PSet × Nat))
    {files files' : List P} (h : files.Perm files') :
    (nodeSetmap under contribOf files).Perm (nodeSetmap under contribOf files') :=
  (setmap_perm ((((h.filter under).flatMap_right contribOf)).map norm)).1

/-! ## defines contributed by compiler modes -/

/-- The code as it is (`list(dict.fromkeys(args.modes))`) involves no set: the defines are a function of
the command line alone.  It agrees with what the former set-iterating code computed under ANY
iteration order `setOrder` of the set of active modes, whenever that former result was well defined
(no two active modes give one macro different bodies). -/
theorem mode_defines_conservative (cmdline : List Def) (table : String → List Def)
    (flags setOrder : List String) (hnd : setOrder.Nodup) (hm : ∀ m, m ∈ setOrder ↔ m ∈ flags)
    (hc : Consistent ((firstOcc flags).flatMap table)) (name : String) :
    definedAs (modeDefines cmdline table flags) name =
      definedAs (modeDefinesSetOrder cmdline (setOrder.map table)) name := by
  unfold modeDefines modeDefinesSetOrder
  have hp : (firstOcc flags).Perm setOrder :=
    perm_of_nodup_same_mem (nodup_firstOcc flags) hnd (fun x => by rw [mem_firstOcc, hm])
  have hf : ((firstOcc flags).flatMap table).Perm (setOrder.map table).flatten := by
    rw [← List.flatMap_def]; exact hp.flatMap_right table
  rw [definedAs_append, definedAs_append, definedAs_perm hc hf name]

/-- repeating a mode flag or interleaving other flags does not matter beyond the order of first
activation: the mode list is duplicate free and has exactly the activated modes -/
theorem mode_list_spec (flags : List String) :
    (firstOcc flags).Nodup ∧ ∀ m, m ∈ firstOcc flags ↔ m ∈ flags :=
  ⟨nodup_firstOcc flags, fun _ => mem_firstOcc⟩

/-- the hypothesis of `mode_defines_conservative` as the driver computes it -/
theorem mode_defines_classifier (ds : List Def) : consistentB ds = true ↔ Consistent ds :=
  consistentB_iff ds

example : Consistent (List.flatten [[("_OPENMP", "1")], [("SYCL_LANGUAGE_VERSION", "1")]]) := by
  unfold Consistent; decide
example : firstOcc ["openmp", "sycl", "openmp"] = ["openmp", "sycl"] := by decide

/-! ## the former definitions were order dependent (repaired findings, for the record) -/

/-- "addition" that keeps its left operand unless that is the start value: no law holds -/
def witnessOps : FloatOps Nat :=
  { ofNat := id, add := fun a b => if a = 0 then b else a, div := fun a _ => a,
    mul := fun a _ => a, zero := 0, hundred := 100, nan := 0 }

/-- D36, before 5d7f56c: `average_coverage` summed in set-iteration order — two listings of the same
platform set give different values for law-free addition -/
theorem avg_unsorted_order_witness :
    averageCoverageUnsorted witnessOps [(["A"], 1), (["B"], 2)] ["A", "B"] ≠
    averageCoverageUnsorted witnessOps [(["A"], 1), (["B"], 2)] ["B", "A"] := by decide

/-- … whereas the current definition gives the same value for the same two listings -/
example : averageCoverage witnessOps [(["A"], 1), (["B"], 2)] ["A", "B"] =
    averageCoverage witnessOps [(["A"], 1), (["B"], 2)] ["B", "A"] := by decide +kernel

/-- D34, before 9c35d6c: two modes defining `X` differently — the value depended on the set order -/
theorem mode_defines_setorder_witness :
    definedAs (modeDefinesSetOrder [] [[("X", "1")], [("X", "2")]]) "X" ≠
    definedAs (modeDefinesSetOrder [] [[("X", "2")], [("X", "1")]]) "X" := by decide

/-- D28, before 6255f9a: a group was printed in the iteration order of a `set` … -/
theorem dups_unsorted_print_witness :
    printedDuplicatesUnsorted (P := Nat) id [[1, 2]] ≠ printedDuplicatesUnsorted List.reverse [[1, 2]] := by
  decide

/-- … and the groups in first-occurrence (enumeration) order of their digests -/
theorem dups_unsorted_group_order_witness :
    findDuplicates (P := Nat) id (fun p => p % 2) id [0, 1, 2, 3] ≠
    findDuplicates (P := Nat) id (fun p => p % 2) id [1, 0, 2, 3] := by decide

/-- D29, before 2ec5e5c: `coverage.json` listed its records in enumeration order -/
theorem coverage_unsorted_order_witness :
    covExportUnsorted (fun f : String => ⟨f, "", [], []⟩) ["a.c", "b.c"] ≠
    covExportUnsorted (fun f : String => ⟨f, "", [], []⟩) ["b.c", "a.c"] := by decide

/-- D26, before a8dca66: with the key `len(s)` two insertion orders printed different tables -/
theorem summary_lenonly_witness :
    summaryRowsWith entryLeLenOnly witnessOps [(["A"], 1), (["B"], 2)] ≠
    summaryRowsWith entryLeLenOnly witnessOps [(["B"], 2), (["A"], 1)] := by
  have h1 : ([(["A"], 1), (["B"], 2)] : Setmap).mergeSort entryLeLenOnly = [(["A"], 1), (["B"], 2)] :=
    List.mergeSort_of_pairwise (by decide +kernel)
  have h2 : ([(["B"], 2), (["A"], 1)] : Setmap).mergeSort entryLeLenOnly = [(["B"], 2), (["A"], 1)] :=
    List.mergeSort_of_pairwise (by decide +kernel)
  unfold summaryRowsWith
  rw [h1, h2]
  decide +kernel

/-- D27, before a8ef00c: one float addition per setmap entry is order dependent for law-free `add` -/
theorem distance_pinned_witness :
    distancePinned witnessOps [(["A"], 1), (["B"], 2)] "A" "B" ≠
    distancePinned witnessOps [(["B"], 2), (["A"], 1)] "A" "B" := by decide

end CbiVerif.C14
