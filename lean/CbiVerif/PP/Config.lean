import CbiVerif.PP.Argv
import CbiVerif.PP.Find
/-! Model of config.ArgumentParser (alias resolution, passes / modes) and config.load_database (with D24/D25 repairs). -/
namespace CbiVerif.Config
open CbiVerif.Argv CbiVerif.PP

structure ModeDef where
  defines : List String := []
  includePaths : List String := []
  includeFiles : List String := []
deriving Repr, Inhabited

structure PassDef extends ModeDef where
  modes : List String := []
deriving Repr, Inhabited

structure Compiler where
  aliasOf : Option String := none
  options : List String := []
  rules : List Opt := []
  defaults : List (String × List String) := []      -- flag0 ↦ default passes
  modes : List (String × ModeDef) := []
  passes : List (String × PassDef) := []
deriving Repr, Inhabited

inductive Log | notRecognized (name : String) | aliasLoop (name : String) | aliasUnknown (name alias_ : String)
  | unrecognizedArgs (args : List String) | badPass (p : String) | badMode (m : String) | missingFile (p : String)
deriving Repr, DecidableEq

/-- ArgumentParser.__init__: returns the compiler definition to use -/
def resolveCompiler (cs : List (String × Compiler)) (name : String) : Compiler × List Log :=
  match (cs.find? (·.1 == name)).map (·.2) with
  | none => ({}, [.notRecognized name])
  | some c0 =>
    let rec walk (fuel : Nat) (chain : List String) (cur : Compiler) : Compiler × List Log :=
      match fuel with
      | 0 => ({}, [.aliasLoop name])
      | fuel + 1 =>
        match cur.aliasOf with
        | none => (cur, [])
        | some a =>
          if chain.contains a then ({}, [.aliasLoop name])
          else match (cs.find? (·.1 == a)).map (·.2) with
            | none => ({}, [.aliasUnknown name a])
            | some c => walk fuel (chain ++ [a]) c
    -- NB: when the walk fails after `name` itself was a non-alias... it cannot: non-alias returns at once
    walk (cs.length + 1) [name] c0

structure PPConfig where
  passName : String
  defines : List String
  includePaths : List String
  includeFiles : List String
deriving Repr, Inhabited, DecidableEq

/-- ArgumentParser.parse_args -/
def parseArgs (c : Compiler) (argv : List String) (matches_ : String → String → List String) :
    Except PErr (List PPConfig × List Log) := do
  let ns0 : NS := { lists := [("defines", []), ("include_paths", []), ("system_include_paths", []), ("include_files", []), ("modes", []), ("passes", [])],
                    passesByFlag := c.defaults }
  let (ns, extras) ← parseKnown (baseTable ++ c.rules) ns0 (argv ++ c.options) matches_
  let logs0 : List Log := if extras.isEmpty then [] else [.unrecognizedArgs extras]
  let dedup (l : List String) : List String := l.foldl (fun acc x => if acc.contains x then acc else acc ++ [x]) []
  let modes := dedup (ns.get "modes")
  let passes := dedup (ns.get "passes" ++ ns.passesByFlag.flatMap (·.2) ++ ["default"])
  let mut out : List PPConfig := []
  let mut logs := logs0
  for p in passes do
    let mut cfg : PPConfig := ⟨p, ns.get "defines", ns.get "include_paths" ++ ns.get "system_include_paths", ns.get "include_files"⟩
    let mut ms := modes
    let mut skip := false
    if p != "default" then
      match (c.passes.find? (·.1 == p)).map (·.2) with
      | none => logs := logs ++ [.badPass p]; skip := true
      | some pd =>
        cfg := { cfg with defines := cfg.defines ++ pd.defines, includePaths := cfg.includePaths ++ pd.includePaths, includeFiles := cfg.includeFiles ++ pd.includeFiles }
        ms := pd.modes
    if !skip then
      for m in ms do
        match (c.modes.find? (·.1 == m)).map (·.2) with
        | none => logs := logs ++ [.badMode m]
        | some md =>
          cfg := { cfg with defines := cfg.defines ++ md.defines, includePaths := cfg.includePaths ++ md.includePaths, includeFiles := cfg.includeFiles ++ md.includeFiles }
      out := out ++ [cfg]
  return (out, logs)

def sourceExts : List String := [".f90", ".F90", ".f", ".ftn", ".fpp", ".F", ".FOR", ".FTN", ".FPP", ".c", ".h", ".c++", ".cxx", ".cpp", ".cc", ".hpp", ".hxx", ".h++", ".hh", ".inc", ".inl", ".tcc", ".icc", ".ipp", ".cu", ".cuh", ".cl", ".s", ".S", ".asm"]

/-- pathlib suffix of the final component -/
def suffix (p : String) : String :=
  let base := (p.splitOn "/").getLast!
  let b := base.toList
  match (List.range b.length).reverse.find? (fun i => b[i]! == '.') with
  | some i => if i == 0 || i == b.length - 1 then "" else String.ofList (b.drop i)     -- leading dot / trailing dot: no suffix
  | none => ""

def basename (p : String) : String := (p.splitOn "/").getLast!

structure Command where
  file : String
  directory : Option String
  arguments : List String
deriving Repr, Inhabited

/-- config.load_database (after D24/D25): entries in order; `exists_` answers os.path.exists -/
def loadDatabase (cs : List (String × Compiler)) (root : String) (exists_ : String → Bool) (db : List Command)
    (matches_ : String → String → List String) : Except PErr (List (PPConfig × String) × List Log) := do
  let mut out : List (PPConfig × String) := []
  let mut logs : List Log := []
  for cmd in db do
    if cmd.arguments.isEmpty || !sourceExts.contains (suffix cmd.file) then continue
    let filedir := match cmd.directory with
      | none => root
      | some d => if d.startsWith "/" then d else normpath (joinPath root d)
    let path := normpath (joinPath filedir cmd.file)
    if !exists_ path then logs := logs ++ [.missingFile path]; continue
    let (comp, l1) := resolveCompiler cs (basename (cmd.arguments.headD ""))
    logs := logs ++ l1
    let (cfgs, l2) ← parseArgs comp cmd.arguments.tail matches_
    logs := logs ++ l2
    for cfg in cfgs do
      out := out ++ [({ cfg with includePaths := cfg.includePaths.map fun f => normpath (joinPath filedir f) }, path)]
  return (out, logs)

end CbiVerif.Config
