import CbiVerif.Spec.RegexPrio
import CbiVerif.Lemmas.RegexComplete
/-! the matcher against the priority enumeration `allMatches` (helper lemmas for `Props/C12RegexComplete.lean`) -/
namespace CbiVerif.Regex

theorem findSome?_congr' {α β : Type} {f g : α → Option β} : ∀ (l : List α), (∀ x ∈ l, f x = g x) → l.findSome? f = l.findSome? g := by
  intro l
  induction l with
  | nil => intro _; rfl
  | cons a t ih =>
    intro h
    simp only [List.findSome?_cons, h a (by simp), ih (fun x hx => h x (by simp [hx]))]

theorem findSome?_flatMap' {α β γ : Type} (g : α → List β) (f : β → Option γ) : ∀ (l : List α),
    (l.flatMap g).findSome? f = l.findSome? (fun x => (g x).findSome? f) := by
  intro l
  induction l with
  | nil => rfl
  | cons a t ih =>
    simp only [List.flatMap_cons, List.findSome?_append, List.findSome?_cons, ih]
    cases (g a).findSome? f <;> rfl

theorem findSome?_one {α β : Type} (f : α → Option β) (a : α) : [a].findSome? f = f a := by
  simp only [List.findSome?_cons, List.findSome?_nil]
  cases f a <;> rfl

/-- an expression that is not nullable consumes at least one character -/
theorem Match.consumes {r : Re} {s s' : List Char} (h : Match r s s') : nullable r = false → s'.length < s.length := by
  induction h with
  | empty s => intro hn; simp [nullable] at hn
  | chr c s => intro _; simp
  | any c s _ => intro _; simp
  | cls _ _ c s _ => intro _; simp
  | @seq a b s s1 s2 h1 h2 ih1 ih2 =>
    intro hn
    have l1 := h1.length_le
    have l2 := h2.length_le
    simp only [nullable, Bool.and_eq_false_iff] at hn
    rcases hn with hn | hn
    · have := ih1 hn; omega
    · have := ih2 hn; omega
  | altL _ ih => intro hn; simp only [nullable, Bool.or_eq_false_iff] at hn; exact ih hn.1
  | altR _ ih => intro hn; simp only [nullable, Bool.or_eq_false_iff] at hn; exact ih hn.2
  | star0 r s => intro hn; simp [nullable] at hn
  | starS _ _ _ _ => intro hn; simp [nullable] at hn
  | plus h1 h2 ih1 _ =>
    intro hn
    have l2 := h2.length_le
    simp only [nullable] at hn
    have := ih1 hn; omega
  | opt0 r s => intro hn; simp [nullable] at hn
  | optS _ _ => intro hn; simp [nullable] at hn
  | group _ ih => intro hn; simp only [nullable] at hn; exact ih hn
  | eol s _ => intro hn; simp [nullable] at hn

/-! ## every listed match is a match of the language -/

theorem starAll_sound (r : Re) (body : List Char → Caps → List MRes)
    (hb : ∀ s caps x, x ∈ body s caps → Match r s x.1) :
    ∀ n s caps x, x ∈ starAll body n s caps → Match (.star r) s x.1 := by
  intro n
  induction n with
  | zero => intro s caps x hx; simp only [starAll, List.mem_singleton] at hx; subst hx; exact .star0 r s
  | succ n ih =>
    intro s caps x hx
    simp only [starAll, List.mem_append, List.mem_flatMap, List.mem_singleton] at hx
    rcases hx with ⟨y, hy, hx⟩ | hx
    · exact .starS (hb _ _ _ hy) (ih _ _ _ hx)
    · subst hx; exact .star0 r s

theorem allMatches_sound (r : Re) : ∀ (s : List Char) (caps : Caps) (x : MRes), x ∈ allMatches r s caps → Match r s x.1 := by
  induction r with
  | empty => intro s caps x hx; simp only [allMatches, List.mem_singleton] at hx; subst hx; exact .empty s
  | chr c =>
    intro s caps x hx
    cases s with
    | nil => simp [allMatches] at hx
    | cons a t =>
      simp only [allMatches] at hx
      by_cases hc : (a == c) = true
      · simp only [hc, if_true, List.mem_singleton] at hx
        have : a = c := by simpa using hc
        subst this; subst hx; exact .chr a t
      · simp [hc] at hx
  | any =>
    intro s caps x hx
    cases s with
    | nil => simp [allMatches] at hx
    | cons a t =>
      simp only [allMatches] at hx
      by_cases hc : (a != '\n') = true
      · simp only [hc, if_true, List.mem_singleton] at hx
        subst hx; exact .any a t (by simpa using hc)
      · simp [hc] at hx
  | cls neg items =>
    intro s caps x hx
    cases s with
    | nil => simp [allMatches] at hx
    | cons a t =>
      simp only [allMatches] at hx
      by_cases hc : classTest neg items a = true
      · simp only [hc, if_true, List.mem_singleton] at hx
        subst hx; exact .cls neg items a t hc
      · simp [hc] at hx
  | seq a b iha ihb =>
    intro s caps x hx
    simp only [allMatches, List.mem_flatMap] at hx
    obtain ⟨y, hy, hx⟩ := hx
    exact .seq (iha _ _ _ hy) (ihb _ _ _ hx)
  | alt a b iha ihb =>
    intro s caps x hx
    simp only [allMatches, List.mem_append] at hx
    rcases hx with hx | hx
    · exact .altL (iha _ _ _ hx)
    · exact .altR (ihb _ _ _ hx)
  | star r ih =>
    intro s caps x hx
    simp only [allMatches] at hx
    exact starAll_sound r _ (fun s caps x hx => ih s caps x hx) _ _ _ _ hx
  | plus r ih =>
    intro s caps x hx
    simp only [allMatches, List.mem_flatMap] at hx
    obtain ⟨y, hy, hx⟩ := hx
    exact .plus (ih _ _ _ hy) (starAll_sound r _ (fun s caps x hx => ih s caps x hx) _ _ _ _ hx)
  | opt r ih =>
    intro s caps x hx
    simp only [allMatches, List.mem_append, List.mem_singleton] at hx
    rcases hx with hx | hx
    · exact .optS (ih _ _ _ hx)
    · subst hx; exact .opt0 r s
  | group i r ih =>
    intro s caps x hx
    simp only [allMatches, List.mem_map] at hx
    obtain ⟨y, hy, hx⟩ := hx
    subst hx
    exact .group (ih s caps y hy)
  | eol =>
    intro s caps x hx
    simp only [allMatches] at hx
    by_cases hc : (s.isEmpty || s == ['\n']) = true
    · simp only [hc, if_true, List.mem_singleton] at hx
      subst hx
      refine .eol s ?_
      cases s with
      | nil => exact Or.inl rfl
      | cons a t => right; simpa using hc
    · simp [hc] at hx

/-! ## the matcher returns the first listed match that its continuation accepts -/

theorem starLoop_eq_first {R : Type} (r : Re) (hn : nullable r = false)
    (ih : ∀ (s : List Char) (caps : Caps) (k : Cont R), matchRe r s caps k = (allMatches r s caps).findSome? (fun x => k x.1 x.2))
    (k : Cont R) : ∀ (n : Nat) (s : List Char) (caps : Caps), s.length ≤ n →
    starLoop (fun s0 c0 k0 => matchRe r s0 c0 k0) n s caps k =
      (starAll (fun s0 c0 => allMatches r s0 c0) n s caps).findSome? (fun x => k x.1 x.2) := by
  intro n
  induction n with
  | zero => intro s caps _; simp only [starLoop, starAll, findSome?_one]
  | succ n ihn =>
    intro s caps hl
    have e2 : matchRe r s caps (fun s' caps' => if s'.length < s.length then
        starLoop (fun s0 c0 k0 => matchRe r s0 c0 k0) n s' caps' k else none) =
        (allMatches r s caps).findSome? (fun x => (starAll (fun s0 c0 => allMatches r s0 c0) n x.1 x.2).findSome? (fun x => k x.1 x.2)) := by
      rw [ih s caps]
      apply findSome?_congr'
      intro x hx
      have hlt := (allMatches_sound r s caps x hx).consumes hn
      simp only [hlt, if_true]
      exact ihn x.1 x.2 (by omega)
    simp only [starLoop, starAll, List.findSome?_append, findSome?_one, findSome?_flatMap']
    rw [e2]
    cases (allMatches r s caps).findSome? _ <;> rfl

theorem matchRe_eq_first {R : Type} (r : Re) : inFragment r = true → ∀ (s : List Char) (caps : Caps) (k : Cont R),
    matchRe r s caps k = (allMatches r s caps).findSome? (fun x => k x.1 x.2) := by
  induction r with
  | empty => intro _ s caps k; simp only [matchRe, allMatches, findSome?_one]
  | chr c =>
    intro _ s caps k
    cases s with
    | nil => simp [matchRe, allMatches]
    | cons a t => by_cases hc : (a == c) = true <;> simp [matchRe, allMatches, hc]
  | any =>
    intro _ s caps k
    cases s with
    | nil => simp [matchRe, allMatches]
    | cons a t => by_cases hc : (a != '\n') = true <;> simp [matchRe, allMatches, hc]
  | cls neg items =>
    intro _ s caps k
    cases s with
    | nil => simp [matchRe, allMatches]
    | cons a t => by_cases hc : classTest neg items a = true <;> simp [matchRe, allMatches, hc]
  | seq a b iha ihb =>
    intro hf s caps k
    simp only [inFragment, Bool.and_eq_true] at hf
    simp only [matchRe, allMatches, findSome?_flatMap', iha hf.1]
    apply findSome?_congr'
    intro x _
    exact ihb hf.2 x.1 x.2 k
  | alt a b iha ihb =>
    intro hf s caps k
    simp only [inFragment, Bool.and_eq_true] at hf
    simp only [matchRe, allMatches, List.findSome?_append, iha hf.1, ihb hf.2]
    cases (allMatches a s caps).findSome? _ <;> rfl
  | star r ih =>
    intro hf s caps k
    simp only [inFragment, Bool.and_eq_true, Bool.not_eq_true'] at hf
    simp only [matchRe, allMatches]
    exact starLoop_eq_first r hf.1 (ih hf.2) k _ _ _ (Nat.le_refl _)
  | plus r ih =>
    intro hf s caps k
    simp only [inFragment, Bool.and_eq_true, Bool.not_eq_true'] at hf
    simp only [matchRe, allMatches, findSome?_flatMap']
    rw [ih hf.2]
    apply findSome?_congr'
    intro x _
    exact starLoop_eq_first r hf.1 (ih hf.2) k _ _ _ (Nat.le_refl _)
  | opt r ih =>
    intro hf s caps k
    simp only [inFragment] at hf
    simp only [matchRe, allMatches, List.findSome?_append, findSome?_one, ih hf]
    cases (allMatches r s caps).findSome? _ <;> rfl
  | group i r ih =>
    intro hf s caps k
    simp only [inFragment] at hf
    simp only [matchRe, allMatches, List.findSome?_map, ih hf]
    rfl
  | eol =>
    intro _ s caps k
    by_cases hc : (s.isEmpty || s == ['\n']) = true <;> simp [matchRe, allMatches, hc]

theorem matchAt_eq_firstMatch (r : Re) (hf : inFragment r = true) (adv : Bool) (s : List Char) :
    matchAt r adv s = firstMatch r adv s := by
  simp only [matchAt, firstMatch, matchRe_eq_first r hf, List.find?_eq_findSome?_guard]
  apply findSome?_congr'
  intro x _
  simp only [fin, acceptable, Option.guard]
  by_cases h : (adv && x.1.length == s.length) = true <;> simp [h]

/-! ## every match of the language is listed (inside the fragment) -/

theorem starAll_mono (body : List Char → Caps → List MRes) (hb : ∀ s caps x, x ∈ body s caps → x.1.length < s.length) :
    ∀ (n m : Nat) (s : List Char) (caps : Caps) (x : MRes), s.length ≤ n → s.length ≤ m →
      x ∈ starAll body n s caps → x ∈ starAll body m s caps := by
  intro n
  induction n with
  | zero =>
    intro m s caps x _ _ hx
    simp only [starAll, List.mem_singleton] at hx
    subst hx
    cases m <;> simp [starAll]
  | succ n ih =>
    intro m s caps x hn hm hx
    simp only [starAll, List.mem_append, List.mem_flatMap, List.mem_singleton] at hx
    rcases hx with ⟨y, hy, hx⟩ | hx
    · have hlt := hb _ _ _ hy
      cases m with
      | zero => omega
      | succ m =>
        simp only [starAll, List.mem_append, List.mem_flatMap, List.mem_singleton]
        exact Or.inl ⟨y, hy, ih m _ _ _ (by omega) (by omega) hx⟩
    · subst hx
      cases m <;> simp [starAll]

theorem allMatches_complete {r : Re} {s s' : List Char} (h : Match r s s') :
    inFragment r = true → ∀ caps, ∃ caps', (s', caps') ∈ allMatches r s caps := by
  induction h with
  | empty s => intro _ caps; exact ⟨caps, by simp [allMatches]⟩
  | chr c s => intro _ caps; exact ⟨caps, by simp [allMatches]⟩
  | any c s hc => intro _ caps; exact ⟨caps, by simp [allMatches, hc]⟩
  | cls neg items c s hc => intro _ caps; exact ⟨caps, by simp [allMatches, hc]⟩
  | seq _ _ ih1 ih2 =>
    intro hf caps
    simp only [inFragment, Bool.and_eq_true] at hf
    obtain ⟨c1, h1⟩ := ih1 hf.1 caps
    obtain ⟨c2, h2⟩ := ih2 hf.2 c1
    exact ⟨c2, by simp only [allMatches, List.mem_flatMap]; exact ⟨_, h1, h2⟩⟩
  | altL _ ih =>
    intro hf caps
    simp only [inFragment, Bool.and_eq_true] at hf
    obtain ⟨c1, h1⟩ := ih hf.1 caps
    exact ⟨c1, by simp only [allMatches, List.mem_append]; exact Or.inl h1⟩
  | altR _ ih =>
    intro hf caps
    simp only [inFragment, Bool.and_eq_true] at hf
    obtain ⟨c1, h1⟩ := ih hf.2 caps
    exact ⟨c1, by simp only [allMatches, List.mem_append]; exact Or.inr h1⟩
  | star0 r s =>
    intro _ caps
    refine ⟨caps, ?_⟩
    simp only [allMatches]
    cases s.length <;> simp [starAll]
  | @starS r s s1 s2 hm1 hm2 ih1 ih2 =>
    intro hf caps
    have hf' := hf
    simp only [inFragment, Bool.and_eq_true, Bool.not_eq_true'] at hf'
    have hlt := hm1.consumes hf'.1
    obtain ⟨c1, h1⟩ := ih1 hf'.2 caps
    obtain ⟨c2, h2⟩ := ih2 hf c1
    refine ⟨c2, ?_⟩
    simp only [allMatches] at h2 ⊢
    cases hn : s.length with
    | zero => omega
    | succ n =>
      simp only [starAll, List.mem_append, List.mem_flatMap, List.mem_singleton]
      refine Or.inl ⟨_, h1, ?_⟩
      exact starAll_mono _ (fun s caps x hx => (allMatches_sound r s caps x hx).consumes hf'.1) _ _ _ _ _
        (Nat.le_refl _) (by simp only; omega) h2
  | @plus r s s1 s2 hm1 hm2 ih1 ih2 =>
    intro hf caps
    have hf' := hf
    simp only [inFragment, Bool.and_eq_true, Bool.not_eq_true'] at hf'
    obtain ⟨c1, h1⟩ := ih1 hf'.2 caps
    obtain ⟨c2, h2⟩ := ih2 (by simp [inFragment, hf'.1, hf'.2]) c1
    refine ⟨c2, ?_⟩
    simp only [allMatches] at h2
    simp only [allMatches, List.mem_flatMap]
    exact ⟨_, h1, h2⟩
  | opt0 r s => intro _ caps; exact ⟨caps, by simp [allMatches]⟩
  | optS _ ih =>
    intro hf caps
    simp only [inFragment] at hf
    obtain ⟨c1, h1⟩ := ih hf caps
    exact ⟨c1, by simp only [allMatches, List.mem_append]; exact Or.inl h1⟩
  | group _ ih =>
    intro hf caps
    simp only [inFragment] at hf
    obtain ⟨c1, h1⟩ := ih hf caps
    exact ⟨_, by simp only [allMatches, List.mem_map]; exact ⟨_, h1, rfl⟩⟩
  | eol s hs =>
    intro _ caps
    have : (s.isEmpty || s == ['\n']) = true := by
      rcases hs with h | h <;> subst h <;> decide
    exact ⟨caps, by simp [allMatches, this]⟩

/-! ## `findall` computed from the specification alone -/

theorem specSearch_eq (r : Re) (hf : inFragment r = true) : ∀ (s : List Char) (off : Nat) (adv : Bool),
    search r off s adv = specSearch r off s adv := by
  intro s
  induction s with
  | nil => intro off adv; simp only [search, specSearch, matchAt_eq_firstMatch r hf]; rfl
  | cons a t ih => intro off adv; simp only [search, specSearch, matchAt_eq_firstMatch r hf, ih]; rfl

theorem specScan_eq (r : Re) (hf : inFragment r = true) : ∀ (fuel off : Nat) (s : List Char) (adv : Bool),
    scan r fuel off s adv = specScan r fuel off s adv := by
  intro fuel
  induction fuel with
  | zero => intro off s adv; rfl
  | succ fuel ih =>
    intro off s adv
    simp only [scan, specScan, specSearch_eq r hf]
    cases specSearch r off s adv with
    | none => rfl
    | some y => obtain ⟨st, sAt, rest, caps⟩ := y; simp only [ih]

end CbiVerif.Regex
