import CbiVerif.Lemmas.FindEngines
import CbiVerif.Lemmas.FindCache
import CbiVerif.Lemmas.FindCacheMono

/-!
# C08 / C10 — the multi-file engines are one engine

Before this file there were three executable multi-file engines: the design-phase visitor `PP.assocFile`
(`partial def`, run by `FindInst.findI` = field `model`/`spec`/`pp` of op `c08find`), the total fuelled engine of
`Model/Exclude.lean` (op `c10find`, field `cached` of op `c08find`) and `Model/FindInc.lean` (op `findinc`, C04/C18).
The first is deleted: `FindInst.findI` is now an INSTANCE of the second (`FindInst.semPP fs`: the record
`Exclude.sem fs` with every file sent through the C front end), with the driver's replies unchanged.

What is proved here, by induction on the engine's fuel (`Lemmas/FindEngines.lean`):

* `findI_is_engine` — `findIN n fs` IS `FindCache.findRefG (semPP fs) n`: the up-front parse of the engine followed by the
  generic fold over the engine's cache-free single-command analysis.  Every fuel, file system, code base, configuration.
* `findI_eq_cached` — … and equals the run WITH the shared parse cache (`findC (semPP fs)`, what field `pp` executes) with no
  side condition at all: under `semPP` there is one language class, so the cache is literally transparent.
* `ref_engine_congr` — congruence of the engine in its semantics record (any two records, any fuel).
* `findI_eq_engine_partial`, `findI_eq_cached_engine_partial` — on C-family inputs (`ClassOK`, decidable) `findIN n fs` equals
  the engine under the record ops `c10find` / `c08find.cached` run (`Exclude.sem fs`), cache-free and — when the run logs no
  language-mixing event — with the shared cache.  The unguarded statement `FindIEqEngine` is false
  (`not_findIEqEngine`): `findI` is the C-family instance and nothing else.
* `C10.entry_engine_is_c08_model_partial` — the same per database entry, from any association state: the engine the C10
  theorems are about, run on one command, is the single-command analysis the C08 composition theorems fold.
* `paths_agree` — the path layer of the third engine (`Model/FindInc.lean`: `normpathK`, `joinPathK`, `dirnameK`) is the
  path layer of this one (`PP.normpath`, `joinPath`, `dirname`), as functions.

Not proved (stated in the report): agreement of `Exclude`'s engine with `Inc.find` (`Model/FindInc.lean`), whose visitor
is `Cond.visitList` over `Cond.Tree` with fuel counting include depth only, whose attribution is recorded per file after
the walk and whose state carries the ghost `visits`; only the path layer is bridged.
-/
namespace CbiVerif.C08
open CbiVerif.FindFold CbiVerif.PP CbiVerif.FindInst CbiVerif.Exclude
open CbiVerif.FindCache (findC findRefG analyse NoMix semC)
open CbiVerif.FindEngines (Congr EnterAgree ForcedAgree MemoOK)

/-- **`findI` is the engine.**  For every fuel, file system, code base and configuration, the C-family model of `finder.find`
is the up-front parse of the engine of `Model/Exclude.lean` followed by `findG` over that engine's cache-free analysis of one
database entry (`Exclude.runEntryRef`), under the semantics record `semPP fs` — same attribution pairs in the same order,
same warnings, same exception. -/
theorem findI_is_engine (n : Nat) (fs : FSMap) (cb : List String) (cfg : Config PP.Entry) :
    findIN n fs cb cfg = findRefG (semPP fs) n cb cfg :=
  FindEngines.findIN_eq_findRefG n fs cb cfg

/-- what the driver executes (`findI`, no fuel argument) is `findIN` with the driver's default fuel -/
theorem findI_default_fuel (fs : FSMap) (cb : List String) (cfg : Config PP.Entry) :
    findI fs cb cfg = findIN defaultFuel fs cb cfg := rfl

/-- **the parse cache is transparent for the C-family instance, unconditionally.**  The state-threading run (one parse cache
shared by all commands and platforms: `findPP n fs` = `FindCache.findC (semPP fs) n`, field `pp` of op `c08find`; it replaces
the design-phase port `PP.find`) returns exactly what `findIN n fs` returns.  No `NoMix` hypothesis: under `semPP` every file
has the one class C (`FindCache.OneClass`). -/
theorem findI_eq_cached (n : Nat) (fs : FSMap) (cb : List String) (cfg : Config PP.Entry) :
    findIN n fs cb cfg = findPP n fs cb cfg := by
  rw [findI_is_engine]
  exact (FindEngines.findC_eq_findRefG_oneclass (semPP fs) .c (FindEngines.oneClass_semPP fs) n cb cfg).symm

/-- **congruence of the engine in its semantics record** (every fuel, every entry, every starting state).  Two records with
the same node step, `-include` search and `Platform` construction, which (a) parse alike, under class `cl0`, every file
entered from an includer of class `cl0`, (b) parse alike the compiled file and (c) every file an `-include` resolves to,
run the database entry alike.  `P` is any invariant of the `Platform` object kept by the step and the searches. -/
theorem ref_engine_congr {S1 S2 : Sem} {cl0 : LClass} {P : Platform → Prop} (h : Congr S1 S2 cl0 P) (n : Nat)
    (pname : String) (e : PP.Entry) (l : Local)
    (hforced : ForcedAgree S1 S2 cl0 P e.includeFiles) (hfile : EnterAgree S1 S2 cl0 e.file none) :
    runEntryRef S1 n pname e l = runEntryRef S2 n pname e l :=
  FindEngines.congr_entry h n pname e l hforced hfile

/-- FULL STATEMENT (false, see `not_findIEqEngine`): the C-family model equals the engine under the record the other ops run,
on every input. -/
def FindIEqEngine : Prop :=
  ∀ (n : Nat) (fs : FSMap) (cb : List String) (cfg : Config PP.Entry), findIN n fs cb cfg = findRefG (sem fs) n cb cfg

/-- **engine agreement (proved part).**  On a C-family input — `ClassOK fs cb cfg`, decidable: no existing file is Fortran or
assembler by extension, the code-base files and the compiled files are C-family by extension, and either no command has
`-include` files or every existing file is C-family by extension — the C-family model equals the engine under `Exclude.sem fs`
(class by extension, else the includer's), for every fuel: same pairs, warnings, exception.  Fuel exhaustion needs no side
condition: both sides are the same fuelled recursion and fail at the same node. -/
theorem findI_eq_engine_partial (n : Nat) (fs : FSMap) (cb : List String) (cfg : Config PP.Entry)
    (hok : ClassOK fs cb cfg = true) : findIN n fs cb cfg = findRefG (sem fs) n cb cfg :=
  FindEngines.findIN_eq_findRefG_sem n fs cb cfg hok

/-- … and, when the run logs no language-mixing event, the run with the shared parse cache that field `cached` of op
`c08find` executes (`FindCache.findC (semC fs)`; `semC fs = Exclude.sem fs`, the record op `c10find` runs). -/
theorem findI_eq_cached_engine_partial (n : Nat) (fs : FSMap) (cb : List String) (cfg : Config PP.Entry)
    (hok : ClassOK fs cb cfg = true) (hmix : NoMix (semC fs) n cb cfg) :
    findIN n fs cb cfg = findC (semC fs) n cb cfg := by
  rw [FindCache.findC_eq_findRefG (semC fs) n cb cfg hmix]
  exact findI_eq_engine_partial n fs cb cfg hok

/-- one database entry: the single-command analysis of the C-family model is the engine's under `Exclude.sem fs` -/
theorem analyseEntry_eq_engine_partial (n : Nat) (fs : FSMap) (e : PP.Entry) (hfam : CFam fs = true)
    (hfile : extClass e.file = some .c) (hforced : e.includeFiles = [] ∨ AllC fs = true) :
    analyseEntryN n fs e = analyse (sem fs) n e :=
  FindEngines.analyse_semPP_eq_sem fs n e hfam hfile hforced

/-- the path layer of `Model/FindInc.lean` (the engine of C04/C18) is the path layer of this engine -/
theorem paths_agree : (∀ p, Inc.normpathK p = normpath p) ∧ (∀ a b, Inc.joinPathK a b = joinPath a b) ∧
    (∀ p, Inc.dirnameK p = dirname p) :=
  ⟨FindEngines.normpathK_eq, FindEngines.joinPathK_eq, FindEngines.dirnameK_eq⟩

/-! ### non-vacuity and the witness that the guard is needed

The demo code base (also used by the non-vacuity examples of `Props/C08.lean`, Part 2): `h.h` is protected by
`#pragma once`, defines `H`, and shows different lines depending on `A`; it is re-processed for every command. -/

def demoFs : FSMap := [
  ("/r/inc/h.h", "#pragma once\n#ifdef A\nint a;\n#else\nint b;\n#endif\n#define H 1\n"),
  ("/r/a.c", "#include \"inc/h.h\"\n#ifdef H\nint x;\n#endif\n"),
  ("/r/b.c", "#include <h.h>\n#if defined(H) && A > 1\nint y;\n#endif\n")]
def demoCb : List String := ["/r/a.c", "/r/b.c", "/r/inc/h.h"]
def demoA : PP.Entry := { file := "/r/a.c", defines := ["A"], includePaths := [], includeFiles := [] }
def demoB : PP.Entry := { file := "/r/b.c", defines := ["A=2"], includePaths := ["/r/inc"], includeFiles := [] }
def demoG : PP.Entry := { file := "/r/a.c", defines := [], includePaths := [], includeFiles := [] }
def demoCfg : Config PP.Entry := [("cpu", [demoA, demoB]), ("gpu", [demoG])]

def okWith (r : Except PP.Err (Acc NodeKey PP.Warn)) (n : Nat) (has : List (NodeKey × String))
    (hasNot : List (NodeKey × String)) : Bool :=
  match r with
  | .ok a => a.pairs.length == n && has.all (fun kp => a.pairs.contains kp) &&
      hasNot.all (fun kp => !a.pairs.contains kp)
  | .error _ => false

def npairs (r : Except PP.Err (Acc FindCache.NodeKey PP.Warn)) : Nat :=
  match r with | .ok a => a.pairs.length | .error _ => 0


/-- the side conditions hold on the demo code base of Part 2 (three files, two platforms, three commands, a header reached
by a quote and by an angle include), kernel-checked with the driver's fuel … -/
example : ClassOK demoFs demoCb demoCfg = true ∧ NoMix (semC demoFs) defaultFuel demoCb demoCfg := by decide +kernel

/-- … the cached engine's run there is the expected one (so `findI_eq_cached_engine_partial` equates two successful,
non-trivial runs) … -/
example : okWith (findC (semC demoFs) defaultFuel demoCb demoCfg) 30
    [(("/r/inc/h.h", 2), "cpu"), (("/r/inc/h.h", 4), "gpu"), (("/r/b.c", 2), "cpu")]
    [(("/r/inc/h.h", 4), "cpu"), (("/r/inc/h.h", 2), "gpu")] = true := by decide +kernel

/-- a code base with an `-include` file: `pre.h` (forced) defines `A`, `a.c` shows a line under `A`; the header `x.def` has
no extension class and inherits C from its includer -/
def forcedFs : FSMap := [
  ("/r/pre.h", "#pragma once\n#define A 1\n"),
  ("/r/a.c", "#include \"x.def\"\n#if A\nint a;\n#endif\n"),
  ("/r/x.def", "int x;\n")]
def forcedE : PP.Entry := { file := "/r/a.c", defines := [], includePaths := [], includeFiles := ["pre.h", "pre.h"] }
def plainE : PP.Entry := { file := "/r/a.c", defines := [], includePaths := [], includeFiles := [] }

/-- … `ClassOK` fails with the `-include` (an existing file has no class by extension) and holds without it; the per-entry
hypotheses of `analyseEntry_eq_engine_partial` hold for the plain command -/
example : ClassOK forcedFs ["/r/a.c"] [("p", [forcedE])] = false ∧ ClassOK forcedFs ["/r/a.c"] [("p", [plainE])] = true ∧
    CFam forcedFs = true ∧ extClass plainE.file = some .c := by decide +kernel

/-- with every file C-family by extension the `-include` case is covered: the second `-include pre.h` is skipped
(`#pragma once`: 2 + 3 attributions, not 4 + 3), and `int a;` (node 1 of `a.c`) is attributed because `pre.h` defined `A` -/
def forcedFs2 : FSMap := [
  ("/r/pre.h", "#pragma once\n#define A 1\n"),
  ("/r/a.c", "#if A\nint a;\n#endif\n")]
example : ClassOK forcedFs2 ["/r/a.c"] [("p", [forcedE])] = true ∧
    okWith (findIN defaultFuel forcedFs2 ["/r/a.c"] [("p", [forcedE])]) 5 [(("/r/a.c", 1), "p"), (("/r/pre.h", 1), "p")] [] = true := by
  decide +kernel

/-- **the guard is needed**: a compiled file whose extension has no language.  The C-family model sends it through the C
front end and the run succeeds (one attribution); the engine under `Exclude.sem` raises "Could not determine language", as
the code does (no attribution). -/
def oddFs : FSMap := [("/r/a.xyz", "int x;\n")]
def oddCfg : Config PP.Entry := [("p", [{ file := "/r/a.xyz", defines := [], includePaths := [], includeFiles := [] }])]

theorem not_findIEqEngine : ¬ FindIEqEngine := by
  intro h
  have h1 := congrArg npairs (h 8 oddFs [] oddCfg)
  exact absurd h1 (by decide +kernel)

example : ClassOK oddFs [] oddCfg = false := by decide +kernel

end CbiVerif.C08

namespace CbiVerif.C10
open CbiVerif.PP CbiVerif.Exclude CbiVerif.FindInst

/-- **the C10 engine, run on one command, is the C08 model's single-command analysis** (proved part: C-family inputs).
From ANY association state `l` and under any platform name, the cache-free engine `Exclude.runEntryRef` — the reference of
`C10.find_eq_ref` — gives the same state under the record op `c10find` runs (`Exclude.sem fs`) and under the C-family
record `FindInst.semPP fs` that `FindInst.findI` (op `c08find`, fields `model` / `spec` / `pp`) is an instance of. -/
theorem entry_engine_is_c08_model_partial (fs : FSMap) (n : Nat) (pname : String) (e : Entry) (l : Local)
    (hfam : FindInst.CFam fs = true) (hfile : extClass e.file = some .c)
    (hforced : e.includeFiles = [] ∨ FindInst.AllC fs = true) :
    runEntryRef (sem fs) n pname e l = runEntryRef (semPP fs) n pname e l := by
  symm
  apply FindEngines.congr_entry (FindEngines.congr_semPP fs hfam) n pname e l ?_ (FindEngines.enterAgree_top fs e.file hfile)
  rcases hforced with h | h
  · exact Or.inl h
  · right
    intro p inc dir f p2 hP hf
    have hf' : (findForced fs p inc dir).1 = some f := by
      have : (semPP fs).findInc p inc dir = findForced fs p inc dir := rfl
      rw [this] at hf; rw [hf]
    exact FindEngines.enterAgree_top fs f (FindEngines.allC_ext h ((FindEngines.findForced_spec fs p inc dir hP).2 f hf'))

/-- non-vacuity: the hypotheses hold for the command of `C08.plainE` (a header without extension class is included) -/
example : FindInst.CFam C08.forcedFs = true ∧ extClass C08.plainE.file = some .c ∧ C08.plainE.includeFiles = [] := by
  decide +kernel

end CbiVerif.C10
