import CbiVerif.Model.C06Compose
import Mathlib.Data.List.Forall2
/-! Structural lemmas about the composed C06 pipeline (`Model/C06Compose.lean`): what a successful run consists of. -/
namespace CbiVerif.C06C
open CbiVerif.SM

theorem mapE_forall₂ {α β ε : Type} (f : α → Except ε β) : ∀ (l : List α) (r : List β),
    mapE f l = .ok r → List.Forall₂ (fun a b => f a = .ok b) l r := by
  intro l
  induction l with
  | nil => intro r h; simp only [mapE, Except.ok.injEq] at h; subst h; exact .nil
  | cons a as ih =>
    intro r h
    simp only [mapE] at h
    cases hfa : f a with
    | error e => simp [hfa] at h
    | ok b =>
      simp only [hfa] at h
      cases hm : mapE f as with
      | error e => simp [hm] at h
      | ok bs =>
        simp only [hm, Except.ok.injEq] at h
        subst h
        exact .cons hfa (ih bs hm)

/-- pairs of a `Forall₂` seen through `zip` -/
theorem forall₂_zip_map {α β γ : Type} (P : α → β → Prop) (g : α × β → γ) : ∀ (l1 : List α) (l2 : List β),
    List.Forall₂ P l1 l2 →
    List.Forall₂ (fun a c => ∃ b, (a, b) ∈ l1.zip l2 ∧ P a b ∧ c = g (a, b)) l1 ((l1.zip l2).map g) := by
  intro l1 l2 h
  induction h with
  | nil => exact .nil
  | @cons a b l1 l2 hab _ ih =>
    simp only [List.zip_cons_cons, List.map_cons]
    refine .cons ⟨b, List.mem_cons_self, hab, rfl⟩ ?_
    exact ih.imp fun a' c ⟨b', hm, hp, hc⟩ => ⟨b', List.mem_cons_of_mem _ hm, hp, hc⟩

/-! ## the directive parser keeps the `lines` it is given -/

/-- every outcome of the directive parser is an exception or a node with the given `lines` -/
def Keeps (ls : List Nat) (x : Except PP.Err PP.PNode) : Prop := ∀ p, x = .ok p → p.lines = ls
theorem keeps_ok {ls : List Nat} {q : PP.PNode} (hq : q.lines = ls) : Keeps ls (.ok q) := by
  intro p h; cases h; exact hq
theorem keeps_err {ls : List Nat} {e : PP.Err} : Keeps ls (.error e) := by
  intro p h; cases h
theorem keeps_ite {ls : List Nat} {c : Prop} [Decidable c] {a b : Except PP.Err PP.PNode} (ha : Keeps ls a) (hb : Keeps ls b) :
    Keeps ls (if c then a else b) := by
  split <;> assumption

theorem parseDirective_keeps (s : String) (ls : List Nat) : Keeps ls (PP.parseDirective s ls) := by
  unfold PP.parseDirective
  cases PP.tokenize s with
  | nil => exact keeps_err
  | cons t0 rest =>
    dsimp only
    apply keeps_ite keeps_err
    cases rest with
    | nil => exact keeps_ok rfl
    | cons d r =>
      dsimp only
      generalize (d.kind == PP.TKind.ident) = ci
      have hu : (if ci = true then ({ kind := PP.NKind.unrecognized, lines := ls, name := d.text } : PP.PNode)
          else { kind := PP.NKind.unrecognized, lines := ls }).lines = ls := by cases ci <;> rfl
      repeat' first
        | exact keeps_ok hu
        | exact keeps_ok rfl
        | apply keeps_ite
        | split

theorem parseDirective_lines (s : String) (ls : List Nat) (p : PP.PNode) (h : PP.parseDirective s ls = .ok p) :
    p.lines = ls := parseDirective_keeps s ls p h

/-! ## `attach` -/

theorem attach_forall₂ : ∀ (ns : List CClean.Node) (ds : List (List Char)) (pn : List PP.PNode),
    attach ns ds = .ok pn → List.Forall₂ (fun n p => p.lines = n.lines) ns pn := by
  intro ns
  induction ns with
  | nil => intro ds pn h; simp only [attach, Except.ok.injEq] at h; subst h; exact .nil
  | cons n ns ih =>
    intro ds pn h
    unfold attach at h
    cases hk : n.kind with
    | code =>
      simp only [hk] at h
      cases ha : attach ns ds with
      | error e => simp [ha] at h
      | ok r =>
        simp only [ha, Except.ok.injEq] at h
        subst h
        exact .cons rfl (ih ds r ha)
    | directive =>
      simp only [hk] at h
      cases ds with
      | nil => simp at h
      | cons d ds' =>
        simp only at h
        cases hp : PP.parseDirective (String.ofList d) n.lines with
        | error e => simp [hp] at h
        | ok p =>
          simp only [hp] at h
          cases ha : attach ns ds' with
          | error e => simp [ha] at h
          | ok r =>
            simp only [ha, Except.ok.injEq] at h
            subst h
            exact .cons (parseDirective_lines _ _ _ hp) (ih ds' r ha)

/-- a successful `parseSrc`: the C05 node list, the same list with payloads, a tree that builds -/
theorem parseSrc_ok (t : List Char) (p : Parsed) (h : parseSrc t = .ok p) :
    ∃ r, CClean.parseFile t = .ok r ∧ r.nodes = p.nodes ∧
      List.Forall₂ (fun n q => q.lines = n.lines) p.nodes p.pnodes ∧
      ¬ (Cond.build (PP.labels p.pnodes)).isNone = true := by
  unfold parseSrc at h
  cases hc : cPNodes t with
  | error e => simp [hc] at h
  | ok q =>
    simp only [hc] at h
    split at h
    · simp at h
    · rename_i hb
      simp only [Except.ok.injEq] at h
      subst h
      unfold cPNodes at hc
      cases hp : CClean.parseFile t with
      | error e => simp [hp] at hc
      | ok r =>
        simp only [hp] at hc
        cases ha : attach r.nodes (dirTexts t) with
        | error e => simp [ha] at hc
        | ok pn =>
          simp only [ha, Except.ok.injEq] at hc
          subst hc
          exact ⟨r, rfl, rfl, attach_forall₂ _ _ _ ha, hb⟩

/-! ## the records built from a node list -/

theorem nodeRecs_lines (pr : List (String × List Run)) (path : List String) (ns : List CClean.Node) :
    (nodeRecs pr path ns).map (·.lines) = ns.map (·.lines) := by
  unfold nodeRecs
  rw [List.map_map]
  have : ((fun x : NodeRec => x.lines) ∘ fun x : CClean.Node × Nat => (⟨platsOf pr path x.2, x.1.numLines, x.1.lines⟩ : NodeRec))
      = (fun n : CClean.Node => n.lines) ∘ Prod.fst := by funext x; rfl
  rw [this, ← List.map_map, List.zipIdx_map_fst]

theorem nodeRecs_numLines (pr : List (String × List Run)) (path : List String) (ns : List CClean.Node) :
    (nodeRecs pr path ns).map (·.numLines) = ns.map (·.numLines) := by
  unfold nodeRecs
  rw [List.map_map]
  have : ((fun x : NodeRec => x.numLines) ∘ fun x : CClean.Node × Nat => (⟨platsOf pr path x.2, x.1.numLines, x.1.lines⟩ : NodeRec))
      = (fun n : CClean.Node => n.numLines) ∘ Prod.fst := by funext x; rfl
  rw [this, ← List.map_map, List.zipIdx_map_fst]

theorem nodeRecs_plats (pr : List (String × List Run)) (path : List String) (ns : List CClean.Node) :
    (nodeRecs pr path ns).map (·.plats) = (List.range ns.length).map (platsOf pr path) := by
  unfold nodeRecs
  rw [List.map_map]
  have : ((fun x : NodeRec => x.plats) ∘ fun x : CClean.Node × Nat => (⟨platsOf pr path x.2, x.1.numLines, x.1.lines⟩ : NodeRec))
      = (platsOf pr path) ∘ Prod.snd := by funext x; rfl
  rw [this, ← List.map_map, List.zipIdx_map_snd]
  simp [List.range_eq_range']

theorem nodeRecs_wf (pr : List (String × List Run)) (path : List String) (ns : List CClean.Node)
    (h : ∀ nd ∈ ns, nd.numLines = nd.lines.length) : ∀ n ∈ nodeRecs pr path ns, n.numLines = n.lines.length := by
  intro n hn
  unfold nodeRecs at hn
  obtain ⟨x, hx, rfl⟩ := List.mem_map.mp hn
  have : x.1 ∈ ns := by
    have := List.mem_map_of_mem (f := Prod.fst) hx
    rwa [List.zipIdx_map_fst] at this
  exact h x.1 this

theorem fileLines_nodeRecs (pr : List (String × List Run)) (path : List String) (ns : List CClean.Node) :
    CbiVerif.Cov.fileLines (nodeRecs pr path ns) = ns.flatMap (·.lines) := by
  unfold CbiVerif.Cov.fileLines
  rw [List.flatMap_def, List.flatMap_def, nodeRecs_lines]

/-! ## `lookup` with distinct file names -/

theorem lookup_of_mem : ∀ (files : List SrcFile) (ps : List Parsed) (f : SrcFile) (p : Parsed),
    (files.map (·.path)).Nodup → (f, p) ∈ files.zip ps → lookup files ps f.path = some p := by
  intro files
  induction files with
  | nil => intro ps f p _ h; simp at h
  | cons f0 fs ih =>
    intro ps f p hnd hm
    cases ps with
    | nil => simp at hm
    | cons p0 ps' =>
      simp only [List.zip_cons_cons, List.mem_cons, Prod.mk.injEq] at hm
      simp only [List.map_cons, List.nodup_cons] at hnd
      unfold lookup
      simp only [List.zip_cons_cons, List.find?_cons]
      rcases hm with ⟨rfl, rfl⟩ | hm
      · simp
      · have hf : f ∈ fs := (List.of_mem_zip hm).1
        have hne : (f0.path == f.path) = false := by
          apply beq_eq_false_iff_ne.mpr
          intro he
          exact hnd.1 (he ▸ List.mem_map_of_mem hf)
        simp only [hne]
        exact ih ps' f p hnd.2 hm

/-! ## a successful association run, entry by entry -/

theorem runEntry_fst (files : List SrcFile) (ps : List Parsed) (e : Entry) (run : Run)
    (h : runEntry files ps e = .ok run) : run.1 = e.file := by
  unfold runEntry at h
  split at h
  · simp at h
  · split at h
    · simp at h
    · simp only [Except.ok.injEq] at h; subst h; rfl

theorem analyse_ok (files : List SrcFile) (plats : List Plat) (fs : List FileRec) (h : analyse files plats = .ok fs) :
    ∃ ps pr, List.Forall₂ (fun f p => parseSrc f.text = .ok p) files ps ∧
      List.Forall₂ (fun pl r => runPlat files ps pl = .ok r) plats pr ∧
      fs = (files.zip ps).map (mkRec pr) := by
  unfold analyse at h
  cases h1 : mapE (fun f => parseSrc f.text) files with
  | error e => simp [h1] at h
  | ok ps =>
    simp only [h1] at h
    cases h2 : mapE (runPlat files ps) plats with
    | error e => simp [h2] at h
    | ok pr =>
      simp only [h2, Except.ok.injEq] at h
      exact ⟨ps, pr, mapE_forall₂ _ _ _ h1, mapE_forall₂ _ _ _ h2, h.symm⟩

/-! ## helpers for the sums over several files -/

/-- the pairing of files and records every theorem below starts from -/
theorem analyse_pairs (files : List SrcFile) (plats : List Plat) (fs : List FileRec) (h : analyse files plats = .ok fs) :
    ∃ ps pr, List.Forall₂ (fun pl r => runPlat files ps pl = .ok r) plats pr ∧
      List.Forall₂ (fun f r => ∃ p, (f, p) ∈ files.zip ps ∧ parseSrc f.text = .ok p ∧ r = mkRec pr (f, p)) files fs := by
  obtain ⟨ps, pr, hps, hpr, rfl⟩ := analyse_ok files plats fs h
  exact ⟨ps, pr, hpr, forall₂_zip_map _ (mkRec pr) files ps hps⟩

theorem forall₂_right {α β : Type} {R : α → β → Prop} {l1 : List α} {l2 : List β} (h : List.Forall₂ R l1 l2) :
    ∀ b ∈ l2, ∃ a ∈ l1, R a b := by
  induction h with
  | nil => intro b hb; cases hb
  | cons hab _ ih =>
    intro b hb
    rcases List.mem_cons.mp hb with rfl | hb
    · exact ⟨_, List.mem_cons_self, hab⟩
    · obtain ⟨a, ha, hr⟩ := ih b hb; exact ⟨a, List.mem_cons_of_mem _ ha, hr⟩

theorem lineAttr_length (r : FileRec) : (lineAttr r).length = (CbiVerif.Cov.fileLines r.nodes).length := by
  unfold lineAttr CbiVerif.Cov.fileLines
  simp [List.length_flatMap]

theorem specSloc_nolink (fs : List FileRec) (hl : ∀ r ∈ fs, r.link = false) :
    specSloc fs = (fs.map fun r => (CbiVerif.Cov.fileLines r.nodes).length).sum := by
  unfold specSloc allLines
  rw [List.filter_eq_self.mpr (by intro r hr; simp [hl r hr])]
  rw [List.length_flatMap]
  congr 1
  apply List.map_congr_left
  intro r _
  exact lineAttr_length r

theorem countP_flatMap_sum {α β : Type} (q : β → Bool) (g : α → List β) (l : List α) :
    (l.flatMap g).countP q = (l.map fun a => (g a).countP q).sum := by
  induction l with
  | nil => rfl
  | cons a l ih => simp [List.flatMap_cons, List.countP_append, ih]


end CbiVerif.C06C
