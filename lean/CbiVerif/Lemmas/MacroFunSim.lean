import CbiVerif.Lemmas.MacroFunStep
/-! # C03, function-like fragment: the stream-stack machine `MX.step` computes the recursive reference `Ref`

`sim`: started on a stream positioned before `ts` (any prefix with holes, any lower streams, any disabled names, any suspended
calls), the machine with the repaired `splice` reaches the state in which the stream is exhausted and holds the prefix followed
by `Ref tbl d D ts`, touching nothing else, within `cost tbl d D ts` iterations — provided `fitsb tbl d D ts` and the nesting
limit is not reached (`|S| + d + 1 < lim`). -/
namespace CbiVerif.MX
open CbiVerif.PP

/-- what the simulation says about one nesting budget -/
def SimAt (c : Cfg) (tbl : Table) (d : Nat) (ex : NoExp → List Tok → List Tok) (fit : NoExp → List Tok → Bool)
    (cost : NoExp → List Tok → Nat) : Prop :=
  ∀ (D : NoExp) (ts : List Tok) (P : List (Option Tok)) (S : List Helper) (pr : Bool) (F : List Frame),
    fit D ts = true → S.length + d + 1 < c.lim →
    ∃ k P', k ≤ cost D ts ∧ filterSome P' = filterSome P ++ ex D ts ∧
      runK c tbl k ⟨⟨P ++ ts.map some, P.length, pr⟩ :: S, D, F, none⟩ = some ⟨⟨P', P'.length, pr⟩ :: S, D, F, none⟩

/-- `k` further iterations after an iteration with outcome `o` -/
def contK (c : Cfg) (tbl : Table) : Out → Nat → Option MS
  | .cont s, k => runK c tbl k s
  | _, _ => none

theorem runK_succ (c : Cfg) (tbl : Table) (k : Nat) (s : MS) : runK c tbl (1 + k) s = contK c tbl (step c tbl s) k := by
  have e : 1 + k = k + 1 := by omega
  rw [e]
  simp only [runK]
  cases step c tbl s <;> rfl

theorem runK_trans (c : Cfg) (tbl : Table) : ∀ (k j : Nat) (s s' : MS), runK c tbl k s = some s' →
    runK c tbl (k + j) s = runK c tbl j s' := by
  intro k
  induction k with
  | zero => intro j s s' h; simp [runK] at h; subst h; simp
  | succ k ih =>
    intro j s s' h
    simp only [runK] at h
    have e : k + 1 + j = (k + j) + 1 := by omega
    rw [e]
    simp only [runK]
    cases hs : step c tbl s with
    | cont s1 => simp only [hs] at h; exact ih j s1 s' h
    | done r => simp [hs] at h
    | err x => simp [hs] at h

/-- the processing of the collected arguments: every marked argument is pre-expanded by a nested run (push a frame, run the
    argument stream to exhaustion, return), then the substituted replacement list is pushed -/
theorem procArgs_sim (c : Cfg) (tbl : Table) (d : Nat) (ex : NoExp → List Tok → List Tok) (fit : NoExp → List Tok → Bool)
    (cost : NoExp → List Tok → Nat) (hsim : SimAt c tbl d ex fit cost) (hex0 : ∀ D, ex D [] = [])
    (pw : Bool) (m : Macro) (hv : m.variadic = false) (top2 : Helper) (S : List Helper) (D : NoExp) (F : List Frame)
    (hlim : S.length + 1 + d + 1 < c.lim) :
    ∀ (todo : List (List Tok)) (done : List Arg) (repl : List Tok), (∀ a ∈ todo, fit (none :: D) a = true) →
      replaceFn m (done ++ argList m (ex (none :: D)) todo done.length) = .ok repl →
      ∃ k, k ≤ (todo.map fun a => cost (none :: D) a + 2).sum ∧
        contK c tbl (processArgs c pw m todo done ⟨top2 :: S, D, F, none⟩) k
          = some ⟨⟨(fixpw repl pw).map some, 0, false⟩ :: top2 :: S, some m.name :: D, F, none⟩ := by
  intro todo
  induction todo with
  | nil =>
    intro done repl _ hr
    simp only [argList, List.append_nil] at hr
    have hov : ¬ ((top2 :: S).length + 1 ≥ c.lim) := by simp only [List.length_cons]; omega
    refine ⟨0, by simp, ?_⟩
    simp only [processArgs, hr, hov, if_false, contK, runK]
  | cons a rest ih =>
    intro done repl hfit hr
    have hfit' : ∀ x ∈ rest, fit (none :: D) x = true := fun x hx => hfit x (by simp [hx])
    have hov : ¬ ((top2 :: S).length ≥ c.lim) := by simp only [List.length_cons]; omega
    simp only [processArgs]
    by_cases hn : needs m done.length = true
    · have hn' : needsPre m done.length = true := by simpa [needsPre, hv, needs] using hn
      rw [if_pos hn', if_neg hov]
      simp only [argList, hn, if_true] at hr
      by_cases he : a.isEmpty = true
      · rw [if_pos he]
        have ha : a = [] := by simpa using he
        subst ha
        have hr' : replaceFn m ((done ++ [(⟨[], some []⟩ : Arg)]) ++ argList m (ex (none :: D)) rest (done ++ [(⟨[], some []⟩ : Arg)]).length) = .ok repl := by
          rw [hex0] at hr
          simpa [List.append_assoc] using hr
        obtain ⟨k, hk, hrun⟩ := ih _ repl hfit' hr'
        refine ⟨k, ?_, hrun⟩
        simp only [List.map_cons, List.sum_cons]; omega
      · rw [if_neg he]
        obtain ⟨k1, P1, hk1, hp1, hrun1⟩ := hsim (none :: D) a [] (top2 :: S) true (⟨pw, m, a, rest, done⟩ :: F) (hfit a (by simp))
          (by simp only [List.length_cons]; omega)
        simp only [List.nil_append, List.length_nil] at hrun1
        have hp1' : filterSome P1 = ex (none :: D) a := by simpa [filterSome] using hp1
        have hr' : replaceFn m ((done ++ [(⟨a, some (filterSome P1)⟩ : Arg)]) ++ argList m (ex (none :: D)) rest (done ++ [(⟨a, some (filterSome P1)⟩ : Arg)]).length) = .ok repl := by
          rw [hp1']
          simpa [List.append_assoc] using hr
        obtain ⟨k2, hk2, hrun2⟩ := ih _ repl hfit' hr'
        refine ⟨k1 + (1 + (1 + k2)), ?_, ?_⟩
        · simp only [List.map_cons, List.sum_cons]; omega
        · simp only [contK]
          rw [runK_trans c tbl k1 _ _ _ hrun1, runK_succ, mstep_eop]
          simp only [contK]
          rw [runK_succ, mstep_ret]
          exact hrun2
    · have hn' : ¬ (needsPre m done.length = true) := by simpa [needsPre, hv, needs] using hn
      rw [if_neg hn']
      simp only [argList, hn, Bool.false_eq_true, if_false] at hr
      have hr' : replaceFn m ((done ++ [(⟨a, none⟩ : Arg)]) ++ argList m (ex (none :: D)) rest (done ++ [(⟨a, none⟩ : Arg)]).length) = .ok repl := by
        simpa [List.append_assoc] using hr
      obtain ⟨k, hk, hrun⟩ := ih _ repl hfit' hr'
      refine ⟨k, ?_, hrun⟩
      simp only [List.map_cons, List.sum_cons]; omega

theorem filterSome_some_map (l : List Tok) (P : List (Option Tok)) : filterSome (l.map some ++ P) = l ++ filterSome P := by
  rw [filterSome_append, filterSome_map]

/-- one level of scanning, given the simulation for the next lower budget -/
theorem scan_sim (c : Cfg) (tbl : Table) (hadv : c.adv = true) (hT : FunTbl tbl) (d : Nat) (ex : NoExp → List Tok → List Tok)
    (fit : NoExp → List Tok → Bool) (cost : NoExp → List Tok → Nat) (hsim : SimAt c tbl d ex fit cost) (hex0 : ∀ D, ex D [] = []) :
    ∀ (n : Nat) (D : NoExp) (ts : List Tok) (P : List (Option Tok)) (S : List Helper) (pr : Bool) (F : List Frame),
      ts.length ≤ n → scanFit tbl ex fit n D ts = true → S.length + (d + 1) + 1 < c.lim →
      ∃ k P', k ≤ scanCost tbl ex cost n D ts ∧ filterSome P' = filterSome P ++ scanRef tbl ex n D ts ∧
        runK c tbl k ⟨⟨P ++ ts.map some, P.length, pr⟩ :: S, D, F, none⟩ = some ⟨⟨P', P'.length, pr⟩ :: S, D, F, none⟩ := by
  intro n
  induction n with
  | zero =>
    intro D ts P S pr F hn _ _
    have : ts = [] := by cases ts with | nil => rfl | cons a as => simp at hn
    subst this
    exact ⟨0, P, by simp, by simp [scanRef], by simp [runK]⟩
  | succ n ih =>
    intro D ts P S pr F hn hfit hlim
    cases ts with
    | nil => exact ⟨0, P, by simp, by simp [scanRef], by simp [runK]⟩
    | cons a as =>
      have hn' : as.length ≤ n := by simp at hn; omega
      simp only [scanFit, Bool.and_eq_true] at hfit
      obtain ⟨hndef, hfit⟩ := hfit
      have hd' : (a.text == "defined") = false := by simpa using hndef
      -- a token that stays (possibly painted) and the scan moves on
      have advance : ∀ a' : Tok, scanRef tbl ex (n + 1) D (a :: as) = a' :: scanRef tbl ex n D as →
          scanCost tbl ex cost (n + 1) D (a :: as) = 1 + scanCost tbl ex cost n D as →
          scanFit tbl ex fit n D as = true →
          step c tbl ⟨⟨P ++ some a :: as.map some, P.length, pr⟩ :: S, D, F, none⟩
            = .cont ⟨⟨(P ++ [some a']) ++ as.map some, (P ++ [some a']).length, pr⟩ :: S, D, F, none⟩ →
          ∃ k P', k ≤ scanCost tbl ex cost (n + 1) D (a :: as) ∧
            filterSome P' = filterSome P ++ scanRef tbl ex (n + 1) D (a :: as) ∧
            runK c tbl k ⟨⟨P ++ (a :: as).map some, P.length, pr⟩ :: S, D, F, none⟩ = some ⟨⟨P', P'.length, pr⟩ :: S, D, F, none⟩ := by
        intro a' hE hC hf hstep
        obtain ⟨k, P', hk, hp, hrun⟩ := ih D as (P ++ [some a']) S pr F hn' hf hlim
        refine ⟨1 + k, P', by rw [hC]; omega, ?_, ?_⟩
        · rw [hp, hE, filterSome_append]; simp [filterSome]
        · rw [runK_succ, List.map_cons, hstep]; exact hrun
      by_cases hk : (a.kind != TKind.ident) = true
      · rw [if_pos hk] at hfit
        exact advance a (by simp only [scanRef, hk, if_true]) (by simp only [scanCost, hk, if_true]) hfit
          (mstep_nonident c tbl P _ S D F pr a hk)
      · have hk' : (a.kind != TKind.ident) = false := by simpa using hk
        rw [if_neg hk] at hfit
        by_cases hq : (!a.expandable || D.contains (some a.text)) = true
        · rw [if_pos hq] at hfit
          exact advance (paint a) (by simp only [scanRef, hk', Bool.false_eq_true, if_false, hq, if_true])
            (by simp only [scanCost, hk', Bool.false_eq_true, if_false, hq, if_true]) hfit
            (mstep_paint c tbl P _ S D F pr a hk' hd' hq)
        · have hq' : (!a.expandable || D.contains (some a.text)) = false := by simpa using hq
          rw [if_neg hq] at hfit
          cases hm : tbl.get a.text with
          | none =>
            simp only [hm] at hfit
            exact advance a (by simp only [scanRef, hk', Bool.false_eq_true, if_false, hq', hm])
              (by simp only [scanCost, hk', Bool.false_eq_true, if_false, hq', hm]) hfit
              (mstep_nomacro c tbl P _ S D F pr a hk' hd' hq' hm)
          | some m =>
            simp only [hm] at hfit
            cases hargs : m.args with
            | none =>
              simp only [hargs, Bool.and_eq_true] at hfit
              obtain ⟨hfb, hfr⟩ := hfit
              have hE : scanRef tbl ex (n + 1) D (a :: as)
                  = ex (some m.name :: D) (fixpw m.replacement a.pw) ++ scanRef tbl ex n D as := by
                simp only [scanRef, hk', Bool.false_eq_true, if_false, hq', hm, hargs]
              have hC : scanCost tbl ex cost (n + 1) D (a :: as)
                  = cost (some m.name :: D) (fixpw m.replacement a.pw) + 2 + scanCost tbl ex cost n D as := by
                simp only [scanCost, hk', Bool.false_eq_true, if_false, hq', hm, hargs]
              have hpush := mstep_obj c tbl P (as.map some) S D F pr a m hk' hd' hq' hm hargs (by omega)
              obtain ⟨k1, P1, hk1, hp1, hrun1⟩ := hsim (some m.name :: D) (fixpw m.replacement a.pw) []
                (⟨(P ++ [none]) ++ as.map some, (P ++ [none]).length, pr⟩ :: S) false F hfb (by simp only [List.length_cons]; omega)
              simp only [List.nil_append, List.length_nil] at hrun1
              have hp1' : filterSome P1 = ex (some m.name :: D) (fixpw m.replacement a.pw) := by simpa [filterSome] using hp1
              have hpop := mstep_pop c tbl hadv P1 (P ++ [none]) as S (some m.name) D F pr
              obtain ⟨k2, P', hk2, hp2, hrun2⟩ := ih D as ((filterSome (P ++ [none]) ++ filterSome P1).map some) S pr F hn' hfr hlim
              refine ⟨1 + (k1 + (1 + k2)), P', by rw [hC]; omega, ?_, ?_⟩
              · rw [hp2, hE, filterSome_map, filterSome_snoc_none, hp1', List.append_assoc]
              · rw [runK_succ, List.map_cons, hpush]
                simp only [contK]
                rw [runK_trans c tbl k1 _ _ _ hrun1, runK_succ, hpop]
                exact hrun2
            | some ps =>
              simp only [hargs] at hfit
              cases hcall : callOf as with
              | none =>
                simp only [hcall, Bool.and_eq_true] at hfit
                obtain ⟨hx, hfr⟩ := hfit
                cases as with
                | nil => simp at hx
                | cons x r =>
                  simp only at hx
                  exact advance a (by simp only [scanRef, hk', Bool.false_eq_true, if_false, hq', hm, hargs, hcall])
                    (by simp only [scanCost, hk', Bool.false_eq_true, if_false, hq', hm, hargs, hcall]) hfr
                    (mstep_bare c tbl P _ S D F pr a x m ps hk' hd' hq' hm hargs hx)
              | some ar =>
                obtain ⟨args, rest⟩ := ar
                simp only [hcall, Bool.and_eq_true, decide_eq_true_eq, List.all_eq_true] at hfit
                obtain ⟨⟨⟨harity, hfa⟩, hfb⟩, hfr⟩ := hfit
                have hrl := callOf_length as args rest hcall
                have hnr : rest.length ≤ n := by omega
                cases as with
                | nil => simp [callOf] at hcall
                | cons lp r =>
                  simp only [callOf] at hcall
                  by_cases hlp : (dtext lp == "(") = true
                  · rw [if_pos hlp] at hcall
                    have hlp' : dtext lp = "(" := by simpa using hlp
                    let body := fixpw (substRef ps (args.map (ex (none :: D))) m.replacement) a.pw
                    have hE : scanRef tbl ex (n + 1) D (a :: lp :: r)
                        = ex (some m.name :: D) body ++ scanRef tbl ex n D rest := by
                      simp only [scanRef, hk', Bool.false_eq_true, if_false, hq', hm, hargs, callOf, hlp, if_true, hcall, body]
                    have hC : scanCost tbl ex cost (n + 1) D (a :: lp :: r)
                        = (args.map fun x => cost (none :: D) x + 2).sum + cost (some m.name :: D) body + 2
                          + scanCost tbl ex cost n D rest := by
                      simp only [scanCost, hk', Bool.false_eq_true, if_false, hq', hm, hargs, callOf, hlp, if_true, hcall, body]
                    obtain ⟨hplain1, hplain2⟩ := hT.plain _ m ps hm hargs
                    obtain ⟨P2, hp2, hstep⟩ := mstep_call c tbl P S D F pr a lp r m ps args rest hk' hd' hq' hm hargs hplain1 hlp' hcall
                    -- the argument list the machine builds yields the substituted replacement list
                    have hrepl : replaceFn m ([] ++ argList m (ex (none :: D)) args ([] : List Arg).length)
                        = .ok (substRef ps (args.map (ex (none :: D))) m.replacement) := by
                      apply replaceFn_plain m ps hargs hplain1 hplain2
                      intro tok ht i hi
                      have hlt := paramIdx_lt ps tok i hi
                      have hnd := hT.marked _ m ps hm hargs tok ht i hi
                      have := argList_get m (ex (none :: D)) args 0 i (by omega) (by simpa using hnd)
                      simpa using this
                    obtain ⟨kp, hkp, hrunp⟩ := procArgs_sim c tbl d ex fit cost hsim hex0 a.pw m hplain1
                      ⟨P2 ++ rest.map some, P2.length, pr⟩ S D F (by omega) args [] _ hfa hrepl
                    obtain ⟨k3, P3, hk3, hp3, hrun3⟩ := hsim (some m.name :: D) body []
                      (⟨P2 ++ rest.map some, P2.length, pr⟩ :: S) false F hfb (by simp only [List.length_cons]; omega)
                    simp only [List.nil_append, List.length_nil] at hrun3
                    have hp3' : filterSome P3 = ex (some m.name :: D) body := by simpa [filterSome] using hp3
                    have hpop := mstep_pop c tbl hadv P3 P2 rest S (some m.name) D F pr
                    obtain ⟨k4, P', hk4, hp4, hrun4⟩ := ih D rest ((filterSome P2 ++ filterSome P3).map some) S pr F hnr hfr hlim
                    refine ⟨1 + (kp + (k3 + (1 + k4))), P', by rw [hC]; omega, ?_, ?_⟩
                    · rw [hp4, hE, filterSome_map, hp2, hp3', List.append_assoc]
                    · rw [runK_succ, List.map_cons, List.map_cons, hstep]
                      cases hout : processArgs c a.pw m args [] ⟨⟨P2 ++ rest.map some, P2.length, pr⟩ :: S, D, F, none⟩ with
                      | cont s1 =>
                        rw [hout] at hrunp
                        simp only [contK] at hrunp ⊢
                        rw [runK_trans c tbl kp _ _ _ hrunp, runK_trans c tbl k3 _ _ _ hrun3, runK_succ, hpop]
                        exact hrun4
                      | done x => rw [hout] at hrunp; simp [contK] at hrunp
                      | err x => rw [hout] at hrunp; simp [contK] at hrunp
                  · rw [if_neg hlp] at hcall; cases hcall

theorem Ref_nil (tbl : Table) (d : Nat) (D : NoExp) : Ref tbl d D [] = [] := by
  cases d <;> simp [Ref, scanRef]

/-- **C03 (function-like fragment)**: the machine computes the reference, for every nesting budget -/
theorem fsim (c : Cfg) (tbl : Table) (hadv : c.adv = true) (hT : FunTbl tbl) :
    ∀ d, SimAt c tbl d (Ref tbl d) (fitsb tbl d) (cost tbl d) := by
  intro d
  induction d with
  | zero =>
    intro D ts P S pr F hfit _
    have : ts = [] := by simpa [fitsb] using hfit
    subst this
    exact ⟨0, P, by simp, by simp [Ref], by simp [runK]⟩
  | succ d ih =>
    intro D ts P S pr F hfit hlim
    simp only [fitsb] at hfit
    simp only [Ref, cost]
    exact scan_sim c tbl hadv hT d _ _ _ ih (Ref_nil tbl d) ts.length D ts P S pr F (Nat.le_refl _) hfit hlim

/-- top level: `expandWith` returns the reference whenever limit and fuel are large enough -/
theorem expandWith_fun (c : Cfg) (tbl : Table) (hadv : c.adv = true) (hT : FunTbl tbl) (d : Nat) (ts : List Tok)
    (hfit : fitsb tbl d [none] ts = true) (hlim : d + 1 < c.lim) (fuel : Nat) (hfuel : cost tbl d [none] ts + 2 ≤ fuel) :
    expandWith c tbl fuel ts = .ok (Ref tbl d [none] ts) := by
  unfold expandWith
  have h0 : ¬ (c.lim = 0) := by omega
  simp only [h0, if_false]
  cases ts with
  | nil => simp [Ref_nil]
  | cons a as =>
    simp only [List.isEmpty_cons, Bool.false_eq_true, if_false]
    obtain ⟨k, P', hk, hp, hrun⟩ := fsim c tbl hadv hT d [none] (a :: as) [] [] false [] hfit (by simpa using hlim)
    simp only [List.nil_append, List.length_nil] at hrun
    have hp' : filterSome P' = Ref tbl d [none] (a :: as) := by simpa [filterSome] using hp
    have hrun' := run_of_runK c tbl k 2 _ _ hrun
    rw [run_final' c tbl P' 0, hp'] at hrun'
    exact run_mono_fuel c tbl (k + 2) _ _ hrun' fuel (by omega)

end CbiVerif.MX
