import CbiVerif.Props.C14Metrics
/-!
# C14 / C07 — the metric lines of `Model/Order.lean` over exact rationals ARE C07's definitions

`Order.metricLines` (law-free floats, the definitions the order-independence theorems are about) instantiated by the exact
rational operations `Drv.Order.ratOps` (NaN = `none`; the instance the driver executes) gives the values of `Model/Metrics.lean`
(C07: `coverage`, `distance`).  Together with `metrics_of_texts_are_definitions` the coverage line and every distance of
`metricsOfTexts ratOps` / `distanceMatrixOfTexts ratOps` are C07's definitions on the reference attribution.
-/
namespace CbiVerif.C14.Text
open CbiVerif.SM CbiVerif.C06C CbiVerif.C14C CbiVerif.Metrics CbiVerif.Drv.Order

/-- the coverage line over exact rationals is `report.coverage(setmap)` of C07 -/
theorem coverage_rat_is_definition (sm : SM.Setmap) :
    CbiVerif.Order.coverage ratOps sm = Metrics.coverage sm [] := by
  unfold CbiVerif.Order.coverage CbiVerif.Order.coverageOf Metrics.coverage
  have ht : CbiVerif.Order.total sm = Metrics.total sm := rfl
  have hu : CbiVerif.Order.usedBy sm (CbiVerif.Order.platformsSorted sm) = Metrics.usedBy sm (Metrics.selected sm []) := by
    show Metrics.usedBy sm (CbiVerif.Order.platformsSorted sm) = _
    apply usedBy_congr sm
    intro p
    unfold CbiVerif.Order.platformsSorted
    rw [CbiVerif.Order.mem_canon, selected_nil, mem_platformsOf, List.mem_flatMap]
  rw [ht, hu]
  by_cases h0 : Metrics.total sm = 0
  · simp [h0, ratOps]
  · have h1 : ((Metrics.total sm : Nat) : Rat) ≠ 0 := by exact_mod_cast h0
    simp [h0, ratOps, h1, coverage0]

/-- every distance over exact rationals is `report.distance` of C07 -/
theorem distance_rat_is_definition (sm : SM.Setmap) (p q : String) :
    CbiVerif.Order.distance ratOps sm p q = Metrics.distance sm p q := by
  unfold CbiVerif.Order.distance Metrics.distance
  have hu : CbiVerif.Order.unionCount sm p q = Metrics.unionCount sm p q := rfl
  have hx : CbiVerif.Order.xorCount sm p q = Metrics.xorCount sm p q := rfl
  rw [hu, hx]
  by_cases h0 : Metrics.unionCount sm p q = 0
  · simp [h0, ratOps]
  · have h1 : ((Metrics.unionCount sm p q : Nat) : Rat) ≠ 0 := by exact_mod_cast h0
    simp [h0, ratOps, h1, distance0]

/-! ## sums of optional rationals -/

theorem foldl_add_none (l : List (Option Rat)) : l.foldl ratOps.add none = none := by
  induction l with
  | nil => rfl
  | cons x l ih => simpa [List.foldl_cons, ratOps] using ih

theorem foldl_add_some (g : String → Rat) (l : List String) (a : Rat) :
    (l.map fun p => some (g p)).foldl ratOps.add (some a) = some (a + (l.map g).sum) := by
  induction l generalizing a with
  | nil => simp
  | cons x l ih =>
    simp only [List.map_cons, List.foldl_cons, List.sum_cons]
    have : ratOps.add (some a) (some (g x)) = some (a + g x) := rfl
    rw [this, ih, add_assoc]

theorem coverageOf_rat (sm : SM.Setmap) (ps : List String) :
    CbiVerif.Order.coverageOf ratOps sm ps = if Metrics.total sm = 0 then none else some (coverage0 sm ps) := by
  unfold CbiVerif.Order.coverageOf
  have ht : CbiVerif.Order.total sm = Metrics.total sm := rfl
  have hu : CbiVerif.Order.usedBy sm ps = Metrics.usedBy sm ps := rfl
  rw [ht, hu]
  by_cases h0 : Metrics.total sm = 0
  · simp [h0, ratOps]
  · have h1 : ((Metrics.total sm : Nat) : Rat) ≠ 0 := by exact_mod_cast h0
    simp [h0, ratOps, h1, coverage0]

/-- the average-coverage line over exact rationals is `report.average_coverage(setmap)` of C07 -/
theorem average_coverage_rat_is_definition (sm : SM.Setmap) :
    CbiVerif.Order.averageCoverage ratOps sm (platformSet sm) = Metrics.averageCoverage sm [] := by
  have hperm : (CbiVerif.Order.canon (platformSet sm)).Perm (platformsOf sm) := by
    rw [List.perm_ext_iff_of_nodup (CbiVerif.Order.nodup_of_ssorted (CbiVerif.Order.sorted_canon _)) (nodup_platformsOf _)]
    intro p
    unfold platformSet
    rw [CbiVerif.Order.mem_canon, mem_platformsOf, List.mem_flatMap]
  rw [averageCoverage_eq, selected_nil, ← avgOn_perm (List.Perm.refl sm) hperm]
  unfold CbiVerif.Order.averageCoverage CbiVerif.Order.averageCoverageOn avgOn
  generalize CbiVerif.Order.canon (platformSet sm) = l
  by_cases hl : l.length = 0
  · simp [hl, ratOps]
  · have hl1 : ((l.length : Nat) : Rat) ≠ 0 := by exact_mod_cast hl
    by_cases h0 : Metrics.total sm = 0
    · have hne : l ≠ [] := fun h => hl (by rw [h]; rfl)
      obtain ⟨x, l', rfl⟩ := List.exists_cons_of_ne_nil hne
      have hx : CbiVerif.Order.coverageOf ratOps sm [x] = none := by rw [coverageOf_rat, if_pos h0]
      have hadd : ratOps.add ratOps.zero none = none := rfl
      simp only [hl, h0, or_true, if_true, if_false, List.map_cons, List.foldl_cons, hx, hadd, foldl_add_none]
      rfl
    · have hcov : (l.map fun p => CbiVerif.Order.coverageOf ratOps sm [p]) = l.map fun p => some (coverage0 sm [p]) := by
        apply List.map_congr_left
        intro p _
        rw [coverageOf_rat, if_neg h0]
      have hz : ratOps.zero = some 0 := rfl
      simp only [hl, h0, or_self, if_false, hcov, hz, foldl_add_some, zero_add]
      simp [ratOps, hl1]

/-! ## divergence -/

/-- the step of the divergence fold -/
def divStep (sm : SM.Setmap) (acc : Option Rat) (pq : String × String) : Option Rat :=
  ratOps.add acc (CbiVerif.Order.distance ratOps sm pq.1 pq.2)

theorem foldl_divStep_none (sm : SM.Setmap) (l : List (String × String)) : l.foldl (divStep sm) none = none := by
  induction l with
  | nil => rfl
  | cons x l ih => simpa [List.foldl_cons, divStep, ratOps] using ih

theorem foldl_dist_row (sm : SM.Setmap) (p : String) (ps : List String) (a : Rat) :
    (ps.map fun q => (p, q)).foldl (divStep sm) (some a) =
      if ps.all (fun b => unionCount sm p b != 0) then some (a + (ps.map (distance0 sm p)).sum) else none := by
  induction ps generalizing a with
  | nil => simp
  | cons q ps ih =>
    simp only [List.map_cons, List.foldl_cons, List.all_cons, List.sum_cons]
    have hd : divStep sm (some a) (p, q) = if unionCount sm p q = 0 then none else some (a + distance0 sm p q) := by
      unfold divStep
      rw [distance_rat_is_definition]
      unfold Metrics.distance
      by_cases h0 : unionCount sm p q = 0
      · simp [h0, ratOps]
      · simp only [h0, if_false]; rfl
    rw [hd]
    by_cases h0 : unionCount sm p q = 0
    · simp [h0, foldl_divStep_none]
    · have hb : (unionCount sm p q != 0) = true := by simpa using h0
      simp only [h0, if_false, ih, hb, Bool.true_and, add_assoc]

theorem foldl_dist_pairs (sm : SM.Setmap) (l : List String) (a : Rat) :
    (CbiVerif.Order.pairs l).foldl (divStep sm) (some a) =
      if pairsDefined sm l then some (a + pairSum (distance0 sm) l) else none := by
  induction l generalizing a with
  | nil => simp [CbiVerif.Order.pairs, pairsDefined, pairSum]
  | cons p ps ih =>
    have hp : CbiVerif.Order.pairs (p :: ps) = (ps.map fun q => (p, q)) ++ CbiVerif.Order.pairs ps := rfl
    rw [hp, List.foldl_append, foldl_dist_row, pairsDefined_cons, pairSum_cons]
    by_cases hall : ps.all (fun b => unionCount sm p b != 0)
    · simp only [hall, if_true, ih, Bool.true_and, add_assoc]
    · simp [hall, foldl_divStep_none]

theorem pairs_length (l : List String) : (CbiVerif.Order.pairs l).length = npairs l := by
  induction l with
  | nil => rfl
  | cons p ps ih =>
    have hp : CbiVerif.Order.pairs (p :: ps) = (ps.map fun q => (p, q)) ++ CbiVerif.Order.pairs ps := rfl
    rw [hp, List.length_append, List.length_map, ih, npairs_cons]

theorem divergenceOn_rat (sm : SM.Setmap) (l : List String) :
    CbiVerif.Order.divergenceOn ratOps sm l = Metrics.divergenceOn sm l := by
  unfold CbiVerif.Order.divergenceOn Metrics.divergenceOn
  have hlen := pairs_length l
  have hf := foldl_dist_pairs sm l 0
  have hstep : (fun (acc : Option Rat) (pq : String × String) =>
      ratOps.add acc (CbiVerif.Order.distance ratOps sm pq.1 pq.2)) = divStep sm := rfl
  have hz : ratOps.zero = some 0 := rfl
  rw [hstep, hz]
  cases hp : CbiVerif.Order.pairs l with
  | nil =>
    rw [hp] at hlen
    have h0 : npairs l = 0 := hlen.symm
    simp [h0, ratOps]
  | cons x xs =>
    rw [hp] at hf hlen
    have hn : npairs l ≠ 0 := by rw [← hlen]; simp
    have hn1 : ((npairs l : Nat) : Rat) ≠ 0 := by exact_mod_cast hn
    show ratOps.div ((x :: xs).foldl (divStep sm) (some 0)) (ratOps.ofNat (x :: xs).length) = _
    rw [hf, hlen]
    by_cases hd : pairsDefined sm l = true
    · simp [hd, hn, ratOps, hn1]
    · have hd' : pairsDefined sm l = false := by simpa using hd
      simp [hd', ratOps]

/-- the divergence line over exact rationals is `report.divergence(setmap)` of C07 -/
theorem divergence_rat_is_definition (sm : SM.Setmap) :
    CbiVerif.Order.divergence ratOps sm = Metrics.divergence sm := by
  unfold CbiVerif.Order.divergence Metrics.divergence
  rw [divergenceOn_rat]
  apply divergenceOn_perm' (List.Perm.refl sm)
  unfold CbiVerif.Order.platformsSorted
  rw [List.perm_ext_iff_of_nodup (CbiVerif.Order.nodup_of_ssorted (CbiVerif.Order.sorted_canon _)) (nodup_platformsOf _)]
  intro p
  rw [CbiVerif.Order.mem_canon, mem_platformsOf, List.mem_flatMap]

/-! ## the metric lines of the texts, over exact rationals, are C07's definitions on the reference attribution -/

/-- **metric_lines_rat_are_definitions.**  For every dict: the four metric lines computed by the definitions the order-independence
    theorems are about (`Order.metricLines`, law-free operations) instantiated with exact rationals are `report.divergence`,
    `report.coverage`, `report.average_coverage` of C07's model and the total; every cell of the distance matrix is C07's
    `distance`. -/
theorem metric_lines_rat_are_definitions (sm : SM.Setmap) :
    (metricsOf ratOps sm).divergence = Metrics.divergence sm ∧
    (metricsOf ratOps sm).coverage = Metrics.coverage sm [] ∧
    (metricsOf ratOps sm).avgCoverage = Metrics.averageCoverage sm [] ∧
    (metricsOf ratOps sm).totalSloc = Metrics.total sm ∧
    (CbiVerif.Order.distanceMatrix ratOps sm).2 =
      (CbiVerif.Order.platformsSorted sm).map fun p => (CbiVerif.Order.platformsSorted sm).map fun q => Metrics.distance sm p q :=
  ⟨divergence_rat_is_definition sm, coverage_rat_is_definition sm, average_coverage_rat_is_definition sm, rfl, by
    unfold CbiVerif.Order.distanceMatrix
    simp only [distance_rat_is_definition]⟩

/-- **metrics_of_texts_rat_are_reference_definitions.**  Under the hypotheses of `metrics_of_texts_are_definitions` the metric
    lines the composed pipeline prints — `metricsOfTexts ratOps`, the reading the order-independence theorems of this property
    are about — are C07's definitions applied to the reference attribution read line by line, and the total is the number of
    lines the C05 specification counts. -/
theorem metrics_of_texts_rat_are_reference_definitions (files : List SrcFile) (plats : List Plat) (fs : List FileRec)
    (h : analyse files plats = .ok fs) (hnd : (files.map (·.path)).Nodup) (hacc : CbiVerif.C06.RefAcceptsAll files plats)
    (hg : ∀ f ∈ files, C06C.guard f.text = true) :
    ∃ ps m, List.Forall₂ (fun (f : SrcFile) (p : Parsed) => parseSrc f.text = .ok p) files ps ∧
      metricsOfTexts ratOps files plats = some m ∧
      m.divergence = Metrics.divergence (lineSetmap (refLines plats files ps)) ∧
      m.coverage = Metrics.coverage (lineSetmap (refLines plats files ps)) [] ∧
      m.avgCoverage = Metrics.averageCoverage (lineSetmap (refLines plats files ps)) [] ∧
      m.totalSloc = (refLines plats files ps).length ∧
      ∀ p q, readTexts (fun sm => CbiVerif.Order.distance ratOps sm p q) files plats =
        some (Metrics.distance (lineSetmap (refLines plats files ps)) p q) := by
  obtain ⟨ps, hps, hsm, c1, c2, c3, c4, c5, _⟩ := metrics_of_texts_are_definitions files plats fs h hnd hacc hg
  obtain ⟨d1, d2, d3, d4, _⟩ := metric_lines_rat_are_definitions (getSetmap fs)
  refine ⟨ps, metricsOf ratOps (getSetmap fs), hps, ?_, by rw [d1, c4], by rw [d2, c1], by rw [d3, c2], by rw [d4, c5], fun p q => ?_⟩
  · unfold metricsOfTexts readTexts; rw [hsm]
  · unfold readTexts; rw [hsm]; simp only [distance_rat_is_definition, c3]

/-- non-vacuity: on the example of `Props/C06Compose.lean` (hypotheses kernel-checked in `Props/C14Metrics.lean`) -/
example : ((metricsOfTexts ratOps CbiVerif.C06.exSrc CbiVerif.C06.exPlats).map fun m =>
      (m.divergence, m.coverage, m.avgCoverage, m.totalSloc)) = some (some (3/10 : Rat), some (250/3 : Rat), some (425/6 : Rat), 12) := by
  decide +kernel

end CbiVerif.C14.Text
