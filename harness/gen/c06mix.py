"""Generator + external attribution oracle for the C06 stream `inc` (harness/props/c06_inc.py).

Code bases in which WHO USES A LINE can only be told by preprocessing every compile command:

* C / C++ and free-form Fortran translation units side by side, sharing headers that live inside the code base
  (a `config.h` of `#define`s pulled into `.c` and `.F90` alike), nested includes, include guards / `#pragma once`;
* per-platform configuration headers forced in with `-include` (found through `-I cfg`), whose macros guard code in the
  sources and in the shared headers; in the `shared` flag style every platform compiles a file with IDENTICAL `-D` / `-I`
  lists and the platforms differ only in the forced header (or do not differ at all);
* byte-level variety: LF / CRLF line endings (lone CR for files no command reaches), Latin-1 or UTF-8 bytes in comments,
  a missing final newline.

Every counted physical line carries (or is governed by) a MARKER: a code line is `int m_<k>;` / `integer :: m_<k>`, and
every block of lines (file top level, branch of a conditional) starts with a marker of its own.  The oracle is the real
preprocessor: `gcc -E -P` / `gfortran -cpp -E -P` is run for every compile command, and platform p uses

* a code line            iff its marker appears in the output of one of p's commands,
* a directive line       iff the first marker of the block that contains it does (ISO C 6.10.1: a directive is processed
                         iff the group that contains it is; `#elif` / `#else` / `#endif` belong to the group of their `#if`),

so the expected per-line attribution {file: {line: platform set}} never looks at the implementation.

Texts stay inside the well-formedness conditions of C01-C05: every `#define` is preceded by `#undef` of the same name (no
redefinition diagnostics), conditions are integer expressions over object-like macros and `defined`, every `#include`
resolves (relative to the includer, or by base name through a `-I` list every command has), base names are unique, forced
headers exist only in `cfg/` (neither in the working directory nor next to a source: finding D33), Fortran commands take no
`-include` (gfortran rejects the option).  All randomness from `rng`.
"""
from __future__ import annotations

import json
import os
import re
import subprocess

PLATFORM_NAMES = ["cpu", "gpu", "fpga", "arm"]
DNAMES = ["A", "B", "C"]                      # may appear in -D lists
FNAMES = ["USE_OFFLOAD", "TILE", "WIDE"]      # defined by forced headers / shared configuration headers only
MARK = re.compile(rb"\bm_(\d+)\b")
NONASCII = ["café", "naïve üß", "déjà vu", "© 1998"]


def cond(rng, names):
    n, m = rng.choice(names), rng.choice(names)
    return rng.choice([
        f"defined({n})", f"!defined({n})", f"{n}", f"{n} == 1", f"{n} && {m}", f"defined({n}) || defined({m})",
        f"{n} > 0 && !defined({m})", f"!{n}", f"{n} >= 2", "0", "1",
    ])


class Gen:
    def __init__(self, rng):
        self.rng = rng
        self.k = 0

    def mark(self):
        self.k += 1
        return self.k

    # a file body is a list of [text, governing marker | None]; None = not a counted line
    def code(self, lang, g=None):
        """one statement carrying a marker of its own (or the given one): 1..2 physical lines"""
        rng = self.rng
        k = g if g is not None else self.mark()
        r = rng.random()
        if lang == "f":
            if r < 0.7:
                return [[f"integer :: m_{k}", k]]
            if r < 0.85:
                return [[f"x = m_{k} + &", k], ["  1", k]]
            return [[f"call s(m_{k}) ! note", k]]
        if r < 0.6:
            return [[f"int m_{k};", k]]
        if r < 0.7:
            return [[f"int m_{k} = 1 + \\", k], ["  2;", k]]
        if r < 0.8:
            return [[f"int m_{k}; // t", k]]
        if r < 0.9:
            return [[f"int m_{k}; /* starts here", k], ["   ends */", None]]
        return [["/* closed in front of code", None], [f"*/ int m_{k};", k]]

    def decor(self, lang, nonascii):
        rng = self.rng
        word = rng.choice(NONASCII) if nonascii and rng.random() < 0.7 else "note"
        if lang == "f":
            return rng.choice([[[f"! {word}", None]], [["", None]], [[f"  ! {word} m_0", None]]])
        return rng.choice([[[f"// {word}", None]], [[f"/* {word} */", None]], [["", None]],
                           [[f"/* {word}", None], ["   m_0 goes on */", None]]])

    def block(self, lang, depth, budget, incs, names, nonascii, head=None):
        """lines of a block: its own marker first (then the directive lines `head`, if given), then code / decoration /
        #undef+#define / #include / conditionals.  `self.top` = the marker of the block generated last at this level."""
        rng = self.rng
        b = self.mark()
        out = self.code(lang, b) + [[t, b] for t in (head or [])]
        for _ in range(rng.randint(0, 4)):
            if budget[0] <= 0:
                break
            budget[0] -= 1
            r = rng.random()
            if r < 0.3:
                out += self.code(lang)
            elif r < 0.42:
                out += self.decor(lang, nonascii)
            elif r < 0.54:
                n = rng.choice(names)
                out.append([f"#undef {n}", b])
                if rng.random() < 0.7:
                    out.append([f"#define {n} {rng.randint(0, 2)}", b])
            elif r < 0.7 and incs:
                out.append([f'#include "{rng.choice(incs)}"', b])
            elif depth > 0:
                out.append([f"#if {cond(rng, names)}" if rng.random() < 0.6 else
                            f"#if{rng.choice(['def', 'ndef'])} {rng.choice(names)}", b])
                out += self.block(lang, depth - 1, budget, incs, names, nonascii)
                if rng.random() < 0.35:
                    out.append([f"#elif {cond(rng, names)}", b])
                    out += self.block(lang, depth - 1, budget, incs, names, nonascii)
                if rng.random() < 0.5:
                    out.append(["#else", b])
                    out += self.block(lang, depth - 1, budget, incs, names, nonascii)
                out.append(["#endif", b])
            else:
                out += self.code(lang)
        self.top = b
        return out


def spelling(target, here, common_dirs, rng):
    """how `here` names the header `target`: by base name when a -I list every command has reaches it, else relative"""
    if os.path.dirname(target) in common_dirs and rng.random() < 0.6:
        return os.path.basename(target)
    return os.path.relpath(target, os.path.dirname(here) or ".")


def gen_case(rng):
    g = Gen(rng)
    names = DNAMES + FNAMES
    common = ["include", "cfg"]
    rng.shuffle(common)
    files = {}

    def add(path, lang, lines, reach=True):
        enc = rng.choice(["ascii", "ascii", "latin-1", "utf-8"])
        eol = rng.choice(["lf", "lf", "crlf", "crlf"] + ([] if reach else ["cr", "cr"]))
        last = lines[-1][0] if lines else ""
        files[path] = {"lang": lang, "lines": lines, "eol": eol, "enc": enc,
                       "final_nl": not (rng.random() < 0.1 and lines and not last.endswith(("\\", "&")))}
        return enc != "ascii"

    # ---- shared headers (inside the code base); later ones may be included by earlier ones
    hdirs = ["include", "include", "src", "lib/deep"]
    headers = [os.path.join(rng.choice(hdirs), f"h{i}.{rng.choice(['h', 'h', 'hpp', 'inc'])}") for i in range(rng.randint(1, 3))]
    for i in reversed(range(len(headers))):
        h = headers[i]
        nonascii = rng.random() < 0.4
        incs = [spelling(t, h, common, rng) for t in headers[i + 1:]]
        body = g.block("c", 2, [7], incs, names, nonascii)
        top = g.top
        style = rng.random()
        if style < 0.45:
            body = [[f"#ifndef G{i}_H", top], [f"#define G{i}_H", top]] + body + [["#endif", top]]
        elif style < 0.7:
            body = [["#pragma once", top]] + body
        if not add(h, "c", body) and nonascii:
            files[h]["enc"] = "latin-1"
    # ---- forced configuration headers: cfg/<name>.h, found through -I cfg only
    forced = []
    for name in rng.sample(["cpu_cfg", "gpu_cfg", "base_cfg"], rng.randint(1, 3)):
        p = f"cfg/{name}.h"
        b = g.mark()
        body = g.code("c", b)
        for n in rng.sample(FNAMES, rng.randint(1, 3)):
            body += [[f"#undef {n}", b], [f"#define {n} {rng.choice([0, 1, 1, 2, 16])}", b]]
        if rng.random() < 0.4:
            body += [[f"#if {cond(rng, DNAMES)}", b]] + g.block("c", 0, [2], [], names, False) + [["#endif", b]]
        if rng.random() < 0.5:
            body = [["#pragma once", b]] + body
        add(p, "c", body)
        forced.append(p)
    # ---- translation units
    sdirs = ["", "src", "src", "src/f", "lib/deep"]
    sources = []
    nsrc = rng.randint(1, 4)
    want_fortran = rng.random() < 0.6
    for i in range(nsrc):
        fortran = want_fortran and (i == nsrc - 1 or rng.random() < 0.3) and nsrc > 1 or (want_fortran and nsrc == 1 and rng.random() < 0.3)
        ext = rng.choice(["F90", "f90", "F90"]) if fortran else rng.choice(["c", "c", "cpp", "cc"])
        p = os.path.join(rng.choice(sdirs), f"s{i}.{ext}")
        lang = "f" if fortran else "c"
        nonascii = rng.random() < 0.3
        incs = [spelling(t, p, common, rng) for t in headers]
        # the shared configuration header first, as real code does
        head = [f'#include "{spelling(headers[0], p, common, rng)}"'] if rng.random() < 0.6 else None
        body = g.block(lang, 3, [12], incs, names, nonascii, head)
        if not add(p, lang, body) and nonascii:
            files[p]["enc"] = "latin-1"
        sources.append(p)
    # ---- files nobody compiles or includes
    if rng.random() < 0.7:
        b = g.mark()
        add(os.path.join(rng.choice(sdirs), "unused.c"), "c", g.code("c", b) + [["// x", None]] + g.code("c"), reach=False)
    if rng.random() < 0.3:
        b = g.mark()
        add("src/f/legacy.f90", "f", g.code("f", b) + [["! old", None]] + g.code("f"), reach=False)
    if rng.random() < 0.4:
        files["notes.txt"] = {"lang": None, "lines": [["not source", None]], "eol": "lf", "enc": "ascii", "final_nl": True}
    # ---- platforms
    nplat = rng.choice([1, 2, 2, 2, 3, 3, 4])
    style = "shared" if rng.random() < 0.55 else "own"

    def flags():
        defs = [f"-D{n}={rng.randint(0, 2)}" if rng.random() < 0.7 else f"-D{n}" for n in DNAMES if rng.random() < 0.5]
        incs = []
        for d in common + (["src"] if rng.random() < 0.3 else []):
            incs += ["-I", d] if rng.random() < 0.7 else [f"-I{d}"]
        return defs, incs

    shared_flags = {s: flags() for s in sources}
    platforms = {}
    for k in range(nplat):
        pf = [rng.choice(forced)] if rng.random() < 0.8 else []
        if pf and len(forced) > 1 and rng.random() < 0.2:
            pf.append(rng.choice([f for f in forced if f != pf[0]]))
        entries = []
        for s in sources:
            if rng.random() < 0.8:
                defs, incs = shared_flags[s] if style == "shared" else flags()
                if files[s]["lang"] == "f":
                    argv = ["gfortran", "-cpp"] + defs + incs + ["-c", s]
                else:
                    inc_files = []
                    for f in pf:
                        inc_files += ["-include", os.path.basename(f)]
                    argv = [("g++" if not s.endswith(".c") else "gcc")] + defs + incs + inc_files + ["-c", s, "-o", "s.o"]
                entries.append({"file": s, "arguments": argv})
                if rng.random() < 0.08:   # a second command for the same file
                    d2, i2 = flags()
                    entries.append({"file": s, "arguments": [argv[0]] + (["-cpp"] if argv[0] == "gfortran" else []) + d2 + i2 + ["-c", s]})
        platforms[PLATFORM_NAMES[k]] = entries
    return {"kind": "inc", "files": files, "platforms": platforms, "style": style, "markers": g.k}


# --------------------------------------------------------------------------
def file_bytes(f):
    eol = {"lf": "\n", "crlf": "\r\n", "cr": "\r"}[f["eol"]]
    text = eol.join(t for t, _ in f["lines"]) + (eol if f["final_nl"] and f["lines"] else "")
    enc = "utf-8" if f["enc"] == "ascii" else f["enc"]
    return text.encode(enc)


def write_case(root, case, platform_order=None):
    for p, f in case["files"].items():
        full = os.path.join(root, p)
        os.makedirs(os.path.dirname(full), exist_ok=True)
        with open(full, "wb") as fh:
            fh.write(file_bytes(f))
    plats = platform_order or list(case["platforms"])
    for name in plats:
        with open(os.path.join(root, f"{name}.json"), "w") as fh:
            json.dump([dict(e, directory=root) for e in case["platforms"][name]], fh)
    with open(os.path.join(root, "analysis.toml"), "w") as fh:
        if not plats:
            fh.write("[platform]\n")
        for name in plats:
            fh.write(f'[platform.{name}]\ncommands = "{name}.json"\n\n')


def oracle_cmd(entry):
    """the preprocessor run of a compile command: same -D / -I / -include, `-E -P` instead of `-c`"""
    argv = entry["arguments"]
    keep, i = [], 1
    while i < len(argv):
        a = argv[i]
        if a in ("-c", "-cpp"):
            i += 1
        elif a == "-o":
            i += 2
        elif a == entry["file"]:
            i += 1
        else:
            keep.append(a)
            i += 1
    if argv[0] == "gfortran":
        return ["gfortran", "-cpp", "-E", "-P"] + keep + [entry["file"]]
    return [argv[0], "-E", "-P"] + keep + [entry["file"]]


def run_oracle(root, entry, timeout=60):
    """-> (set of marker ids the preprocessor lets through, note) or (None, why) when the oracle is unavailable"""
    try:
        p = subprocess.run(oracle_cmd(entry), cwd=root, capture_output=True, timeout=timeout)
    except subprocess.TimeoutExpired:
        return None, "timeout"
    except OSError as e:
        return None, type(e).__name__
    if p.returncode != 0:
        return None, "rc=%d %s" % (p.returncode, p.stderr[-200:].decode("latin-1"))
    note = "diagnostic" if b"warning" in p.stderr or b"error" in p.stderr else ""
    return {int(x) for x in MARK.findall(p.stdout)}, note


def expected_attribution(case, survived):
    """{path tuple: (False, {line: sorted platform tuple})} for every source file of the code base;
    survived = {platform: set of marker ids}"""
    att = {}
    plats = sorted(case["platforms"])
    for p, f in case["files"].items():
        if f["lang"] is None:
            continue
        d = {}
        for i, (_, gov) in enumerate(f["lines"], 1):
            if gov is not None:
                d[i] = tuple(q for q in plats if gov in survived[q])
        att[tuple(p.split("/"))] = (False, d)
    return att
