import Lean.Data.Json
import CbiVerif.Model.CodeBase
/-! driver ops for C09 / C15: op `codebase`

request  {"op":"codebase","fs":[{"p":"/abs","k":"f"|"d"|"l","t":"link text"}],"cwd":"/abs","roots":[spelling],
          "ignored":["root/relative/path"],"catchLoop":bool,"fuel":n,"queries":[spelling],"inserts":[spelling]}
reply    {"wf":bool,"roots":[abs]|"loop","queries":[{"namei":kind,"canon":abs|null,"realpath":abs|"loop",
          "contains":bool|"loop"}],"walk":[abs] (the directories `__iter__` walks, in order),"iter":[abs]|"loop" (in the order of the
          enumeration: walked directory by walked directory),"counted":…,"notlinks":…,"cache":[abs]} -/
open Lean
namespace CbiVerif.Drv.CodeBase
open CbiVerif.Path CbiVerif.FS CbiVerif.CB

def strs (j : Json) (k : String) : List String :=
  ((j.getObjValAs? (Array Json) k).toOption.getD #[]).toList.map fun x => x.getStr?.toOption.getD ""

def parseFS (j : Json) : FS :=
  ((j.getObjValAs? (Array Json) "fs").toOption.getD #[]).toList.map fun e =>
    let p := (ofString ((e.getObjValAs? String "p").toOption.getD "/")).comps
    let k := (e.getObjValAs? String "k").toOption.getD "f"
    let t := (e.getObjValAs? String "t").toOption.getD ""
    (p, if k == "d" then Entry.dir else if k == "l" then Entry.link (ofString t) else Entry.file)

def resJson : Res → Json
  | .ok c => Json.str (renderAbs c)
  | .enoent => Json.str "enoent"
  | .enotdir => Json.str "enotdir"
  | .loop => Json.str "loop"

def listJson : Except Err (List Comps) → Json
  | .ok l => Json.arr (l.map fun c => Json.str (renderAbs c)).toArray
  | .error _ => Json.str "loop"

def boolJson : Except Err Bool → Json
  | .ok b => Json.bool b
  | .error _ => Json.str "loop"

def handle (j : Json) : Json :=
  let fs := parseFS j
  let cwd := (ofString ((j.getObjValAs? String "cwd").toOption.getD "/")).comps
  let n := (j.getObjValAs? Nat "fuel").toOption.getD 4000
  let ign := strs j "ignored"
  let cfg : Cfg := { ignored := fun rel => ign.contains ("/".intercalate rel),
                     catchLoop := (j.getObjValAs? Bool "catchLoop").toOption.getD false }
  let rootSp := (strs j "roots").map ofString
  let queries := strs j "queries"
  let inserts := (strs j "inserts").map ofString
  match mkRoots fs n cwd rootSp with
  | .error _ => Json.mkObj [("wf", Json.bool (wf fs)), ("roots", Json.str "loop")]
  | .ok roots =>
    let qs := queries.map fun s =>
      let p := ofString s
      let nm := namei fs n (start cwd p) p.comps
      Json.mkObj [
        ("namei", match nm with | .ok _ => Json.str "ok" | r => resJson r),
        ("canon", match nm with | .ok c => Json.str (renderAbs c) | _ => Json.null),
        ("kind", match nm with
                 | .ok c => (match lstat fs c with
                             | some .file => Json.str "file" | some .dir => Json.str "dir"
                             | some (.link _) => Json.str "link" | none => Json.str "none")
                 | _ => Json.null),
        ("realpath", resJson (realpath fs n (start cwd p) p.comps)),
        ("contains", boolJson (contains cfg fs n roots cwd p))]
    Json.mkObj [
      ("wf", Json.bool (wf fs)),
      ("roots", Json.arr (roots.map fun c => Json.str (renderAbs c)).toArray),
      ("queries", Json.arr qs.toArray),
      ("walk", Json.arr ((walkRoots roots).map fun c => Json.str (renderAbs c)).toArray),
      ("iter", listJson (iter cfg fs n roots)),
      ("counted", listJson (counted cfg fs n roots)),
      ("notlinks", listJson (notLinks cfg fs n roots)),
      ("cache", Json.arr ((insertFiles fs n cwd [] inserts).map fun c => Json.str (renderAbs c)).toArray)]

/-- op `pathops`: the lexical functions on a list of strings -/
def handlePath (j : Json) : Json :=
  let cwd := (ofString ((j.getObjValAs? String "cwd").toOption.getD "/")).comps
  Json.arr ((strs j "paths").map fun s =>
    let p := ofString s
    Json.mkObj [
      ("normpath", Json.str (let q := normpath p; if q.comps.isEmpty && !q.abs then "." else render q)),
      ("abspath", Json.str (renderAbs (abspath cwd p))),
      ("suffix", Json.str (suffix (name p.comps))),
      ("splitext", Json.str (splitextExt (name p.comps))),
      ("recognised", Json.bool (recognised (name p.comps)))]).toArray

def handlers : List (String × (Json → Json)) := [("codebase", handle), ("pathops", handlePath)]

end CbiVerif.Drv.CodeBase
