import CbiVerif.Lemmas.FindIncDir
import CbiVerif.Lemmas.Warn
import CbiVerif.Props.C18Msg
/-! # C18 — nothing is dropped silently: unhonoured input is always reported.

Model: the warning events of `Model/FindInc.lean` (unresolved include nodes, unknown directives of parsed
files) and `Model/Warn.lean` (database-level events; the `WarningAggregator` with the regexes, messages and
counted level regenerated from the code into `Generated/Logging.lean`).  The driver ops `findinc`,
`warncount`, `warnrender`, `dbevents`, `dirwarns` execute these definitions. -/
namespace CbiVerif.C18
open CbiVerif.PP (PNode Tok Table Entry)
open CbiVerif.Cond CbiVerif.MF CbiVerif.IncludeSearch CbiVerif.IncMemo CbiVerif.Inc CbiVerif.Warn

/-! ## one_warning_per_unresolved_visit -/

/-- **Whole analysis.**  For every file system, code base, configuration and include-depth bound: the include
warnings issued are exactly the evaluated include directives whose request the compiler's rule (computed
without the memo) does not resolve — in order, one per visit, carrying file, line, requested name and form. -/
theorem one_warning_per_unresolved_visit (fs : FS) (codebase : List String) (config : List (String × List Entry)) (fuel : Nat) :
    let st := Inc.find fs codebase config fuel
    st.warns = st.visits.filter (fun v => v.spec.isNone) ∧
    ∀ v ∈ st.visits, v.spec = resolveM fs.env v.paths ⟨v.name, dirnameK v.file, v.sys⟩ :=
  let h := find_inv fs codebase config fuel
  ⟨h.warns, h.ghost⟩

/-- the counts per kind (`k = true`: system / angle form, `k = false`: user / quote form) -/
theorem warning_count_per_kind (fs : FS) (codebase : List String) (config : List (String × List Entry)) (fuel : Nat) (k : Bool) :
    let st := Inc.find fs codebase config fuel
    (st.warns.filter (fun v => v.sys == k)).length =
      (st.visits.filter (fun v => v.spec.isNone && v.sys == k)).length := by
  have h := (find_inv fs codebase config fuel).warns
  simp only [unresolved] at h
  simp only [h, List.filter_filter]
  congr 2
  funext v
  exact Bool.and_comm _ _

/-- **Every program and history.**  Processing any file at any depth from any world whose memo is sound (i.e.
is the result of earlier look-ups, successful or failed) keeps "warnings = unresolved visits". -/
theorem one_warning_per_unresolved_visit_file (fs : FS) (pfs : ParsedFS) (fuel : Nat) (file : String) (w : World)
    (h : WarnInv fs w) : WarnInv fs (assocFile (ops fs pfs) fuel file w) :=
  assocFile_inv (WarnInv fs) (ops fs pfs) (ops_warnInv fs pfs) fuel file w h

/-- a memoised failure does not suppress a later warning: whatever the (sound) memo holds, an include
directive the compiler's rule cannot resolve appends exactly one warning naming file, line, name and form -/
theorem unresolved_include_warns (fs : FS) (pfs : ParsedFS) (file : String) (w : World) (idx : Nat) (n : PNode)
    (h : WarnInv fs w) (path : String) (sys : Bool) (ht : includeTarget w.plat.tbl n.toks = .ok (path, sys))
    (hnone : resolveM fs.env w.plat.incPaths ⟨path, dirnameK file, sys⟩ = none) :
    (includeStep true fs pfs file w idx n).2.st.warns =
      w.st.warns ++ [⟨file, idx, n.lines.headD 0, path, sys, w.plat.incPaths, none⟩] := by
  obtain ⟨h1, _⟩ := lookupWith_true_spec fs w.plat.incPaths w.plat.memo ⟨path, dirnameK file, sys⟩ h.sound
  simp only [includeStep, ht, h1, hnone]

/-- a resolvable include never warns, whatever was looked up (and failed) before -/
theorem resolvable_include_silent (fs : FS) (pfs : ParsedFS) (file : String) (w : World) (idx : Nat) (n : PNode)
    (h : WarnInv fs w) (path : String) (sys : Bool) (ht : includeTarget w.plat.tbl n.toks = .ok (path, sys))
    (inc : String) (hsome : resolveM fs.env w.plat.incPaths ⟨path, dirnameK file, sys⟩ = some inc) :
    (includeStep true fs pfs file w idx n).2.st.warns = w.st.warns := by
  obtain ⟨h1, _⟩ := lookupWith_true_spec fs w.plat.incPaths w.plat.memo ⟨path, dirnameK file, sys⟩ h.sound
  simp only [includeStep, ht, h1, hsome]
  split
  · rfl
  · split
    · exact (insertFile_frame _ pfs _).1
    · exact (insertFile_frame _ pfs _).1

/-- **forced includes** (fix c7a50cc): a `-include NAME` that the compiler's rule (quote search from the source file's
directory, then the command's directories) cannot resolve appends exactly one warning — user-include kind, the
entry's source file, line 0, the requested name — and processes nothing -/
theorem forced_missing_warns (fs : FS) (pfs : ParsedFS) (run : String → World → World) (src : String) (w : World) (inc : String)
    (h : WarnInv fs w) (herr : w.st.err = none)
    (hnone : resolveM fs.env w.plat.incPaths ⟨inc, dirnameK src, false⟩ = none) :
    let w' := forcedWith true run fs pfs src w inc
    w'.st.warns = w.st.warns ++ [⟨src, 0, 0, inc, false, w.plat.incPaths, none⟩] ∧
    w'.st.assoc = w.st.assoc ∧ w'.st.inserted = w.st.inserted ∧ w'.plat.tbl = w.plat.tbl ∧ w'.plat.skip = w.plat.skip := by
  obtain ⟨h1, _⟩ := lookupWith_true_spec fs w.plat.incPaths w.plat.memo ⟨inc, dirnameK src, false⟩ h.sound
  simp [forcedWith, herr, h1, hnone]

/-- its message, as rendered for the log and counted by the aggregator in the user-include category -/
example : render { kind := .userInclude, file := "/r/src/a.c", line := 0, name := "nothere.h", spelling := "-include nothere.h" } =
    "/r/src/a.c:0: user include 'nothere.h' not found\n    0 | -include nothere.h" := by decide

/-- a forced include that resolves does not warn for itself, whatever the memo holds: the world handed on (to the
processing of the file, or kept as it is when the file is once-listed / cannot be parsed) has the warnings of before -/
theorem forced_found_silent (fs : FS) (pfs : ParsedFS) (run : String → World → World) (src : String) (w : World) (inc f : String)
    (h : WarnInv fs w) (herr : w.st.err = none)
    (hsome : resolveM fs.env w.plat.incPaths ⟨inc, dirnameK src, false⟩ = some f) :
    ∃ w2 : World, w2.st.warns = w.st.warns ∧
      (forcedWith true run fs pfs src w inc = w2 ∨ forcedWith true run fs pfs src w inc = run (fs.realpath f) w2) := by
  obtain ⟨h1, _⟩ := lookupWith_true_spec fs w.plat.incPaths w.plat.memo ⟨inc, dirnameK src, false⟩ h.sound
  have h0 : w.st.err.isSome = false := by simp [herr]
  unfold forcedWith
  simp only [h0, Bool.false_eq_true, if_false, h1, hsome]
  split
  · refine ⟨_, ?_, Or.inl rfl⟩
    rfl
  · split
    · refine ⟨_, ?_, Or.inl rfl⟩
      exact (insertFile_frame _ pfs _).1
    · refine ⟨_, ?_, Or.inr rfl⟩
      exact (insertFile_frame _ pfs _).1

/-- the memo keyed by spelling only (pinned tree, D13) violates it: after a failed `<x.h>` the resolvable
`"x.h"` is answered `none` (→ spurious warning) -/
def envEx : Env := { isfile := fun p => p == "a/x.h", join := fun d n => d ++ "/" ++ n }

theorem spelling_key_spurious_warning :
    runBy (fun q => q.name) (resolveM envEx []) [] [⟨"x.h", "q", true⟩, ⟨"x.h", "a", false⟩] = [none, none] ∧
    resolveM envEx [] ⟨"x.h", "a", false⟩ = some "a/x.h" := by decide

/-- non-vacuity: worlds with a non-trivial sound memo exist (a memoised failure) -/
example (fs : FS) (h : resolveM fs.env ["i"] ⟨"y.h", "d", true⟩ = none) :
    WarnInv fs { st := {}, plat := { name := "p", incPaths := ["i"], memo := [(("y.h", none), none)] } } := by
  refine ⟨?_, ⟨rfl, by intro v hv; simp at hv⟩⟩
  intro q r hq
  obtain ⟨n, d, s⟩ := q
  cases s with
  | false => simp [Memo.lookup, Query.key] at hq
  | true =>
    simp only [Memo.lookup, Query.key, List.find?_cons, List.find?_nil] at hq
    split at hq
    · rename_i hk
      simp at hk
      subst hk
      simp at hq
      subst hq
      rw [← h]
      exact (key_determines fs.env ["i"] ⟨"y.h", d, true⟩ ⟨"y.h", "d", true⟩ rfl).symm
    · simp at hq

/-! ## unknown_directive_once_per_occurrence -/

/-- the list of directives that are unknown but deliberately not reported, as the code has it now -/
theorem unhandled_exact : CbiVerif.Gen.unhandledDirectives = ["line", "warning", "error"] := rfl

/-- one warning per occurrence of an unknown directive, none for anything else: the events of a file are the
directive lines that are unrecognised, have a name token and are not `#line/#warning/#error`, in source order,
each carrying the file, the line, the directive name and its spelling -/
theorem unknown_directive_once_per_occurrence (file : String) (ds : List Directive) :
    (directiveEvents file ds).map (fun e => (e.kind, e.file, e.line, e.name, e.spelling)) =
      (ds.filter fun d => !d.recognised && decide (d.ntokens ≥ 2) && !["line", "warning", "error"].contains d.name).map
        (fun d => (Kind.unknownDirective, file, d.line, d.name, d.spelling)) := by
  simp only [directiveEvents, List.map_map, Function.comp_def]
  rfl

theorem unknown_directive_count (file : String) (ds : List Directive) :
    (directiveEvents file ds).length = (ds.filter Directive.warns).length := by
  simp [directiveEvents]

/-- `#line`, `#warning`, `#error` never warn; a recognised directive never warns; `#` alone never warns -/
theorem line_warning_error_silent (d : Directive) (h : d.name = "line" ∨ d.name = "warning" ∨ d.name = "error") :
    d.warns = false := by
  rcases h with h | h | h <;> simp [Directive.warns, unhandled_exact, h]

theorem recognised_silent (d : Directive) (h : d.recognised = true) : d.warns = false := by
  simp [Directive.warns, h]

/-- an unknown directive with a name outside the list does warn -/
theorem unknown_warns (d : Directive) (hr : d.recognised = false) (hn : d.ntokens ≥ 2)
    (hl : d.name ≠ "line" ∧ d.name ≠ "warning" ∧ d.name ≠ "error") : d.warns = true := by
  simp [Directive.warns, unhandled_exact, hr, hn, hl.1, hl.2.1, hl.2.2]

example : (⟨3, false, 3, "foo", "#foo bar"⟩ : Directive).warns = true := by decide
example : (⟨3, false, 2, "line", "#line 7"⟩ : Directive).warns = false := by decide

/-- **Whole analysis.**  Every file is parsed at most once (`state.trees` is keyed by real path), so the
unknown-directive warnings of an analysis are the per-file batches of the files parsed, each batch once. -/
theorem unknown_directive_once_per_file (fs : FS) (codebase : List String) (config : List (String × List Entry)) (fuel : Nat) :
    let st := Inc.find fs codebase config fuel
    st.dwarns = st.inserted.flatMap (fileEvents (parseAll fs)) ∧ st.inserted.Nodup :=
  let h := find_dinv fs codebase config fuel
  ⟨h.dwarns, h.nodup⟩

/-! ## totals_eq_counts -/

/-- the patterns of the aggregator are, in order: any character, the user phrase, the system phrase — the very
phrases the producer of the include warning uses (both sides regenerated from the code) -/
theorem aggregator_patterns :
    CbiVerif.Gen.metaWarnings.map (·.1) = [".", CbiVerif.Gen.includeKindUser, CbiVerif.Gen.includeKindSystem] := rfl

set_option maxRecDepth 100000 in
/-- each closing message names its own category (labels not swapped) -/
theorem labels_consistent :
    (CbiVerif.Gen.metaWarnings.map fun mw => containsSub mw.2.toList (mw.1 ++ " files could not be found").toList) =
      [false, true, true] ∧
    (CbiVerif.Gen.metaWarnings.head?.map fun mw => containsSub mw.2.toList " warnings generated".toList) = some true := by
  decide

/-- the aggregator counts records of level WARNING (and only those, see `only_warnings_counted`) -/
theorem aggregator_counts_warning_level : CbiVerif.Gen.aggregatorLevel = "WARNING" := rfl

/-- **Printed totals = numbers of warnings issued per category**, for every list of issued events, under the
hypothesis that no message contains the phrase of a category it does not belong to. -/
theorem totals_eq_counts (es : List Event)
    (hU : ∀ e ∈ es, e.kind ≠ .userInclude → containsSub (renderL e) CbiVerif.Gen.includeKindUser.toList = false)
    (hS : ∀ e ∈ es, e.kind ≠ .systemInclude → containsSub (renderL e) CbiVerif.Gen.includeKindSystem.toList = false) :
    counts (recordsOf es) =
      [es.length, (es.filter fun e => e.kind == .userInclude).length, (es.filter fun e => e.kind == .systemInclude).length] := by
  have hpat : counts (recordsOf es) = [countFor "." (recordsOf es), countFor CbiVerif.Gen.includeKindUser (recordsOf es),
      countFor CbiVerif.Gen.includeKindSystem (recordsOf es)] := rfl
  rw [hpat]
  simp only [countFor_eq_filter, recordsOf, List.filter_map, List.length_map]
  have h0 : es.filter ((inspect ".") ∘ fun e => ⟨"WARNING", renderL e⟩) = es := by
    apply List.filter_eq_self.mpr
    intro e _
    exact inspect_dot e
  have hu : es.filter ((inspect CbiVerif.Gen.includeKindUser) ∘ fun e => ⟨"WARNING", renderL e⟩) =
      es.filter fun e => e.kind == .userInclude := by
    apply List.filter_congr
    intro e he
    simp only [Function.comp, inspect, level_is_warning, beq_self_eq_true, Bool.true_and, matchesRegex, user_phrase_ne_dot,
      Bool.false_eq_true, if_false]
    by_cases hk : e.kind = .userInclude
    · simp only [hk, beq_self_eq_true]
      simp only [renderL, hk]
      exact include_contains_phrase false e
    · rw [hU e he hk]
      simp [hk]
  have hs : es.filter ((inspect CbiVerif.Gen.includeKindSystem) ∘ fun e => ⟨"WARNING", renderL e⟩) =
      es.filter fun e => e.kind == .systemInclude := by
    apply List.filter_congr
    intro e he
    simp only [Function.comp, inspect, level_is_warning, beq_self_eq_true, Bool.true_and, matchesRegex, system_phrase_ne_dot,
      Bool.false_eq_true, if_false]
    by_cases hk : e.kind = .systemInclude
    · simp only [hk, beq_self_eq_true]
      simp only [renderL, hk]
      exact include_contains_phrase true e
    · rw [hS e he hk]
      simp [hk]
  rw [h0, hu, hs]

/-- the closing lines print exactly those counters (a zero counter prints nothing) -/
theorem closing_prints_counts (rs : List Record) :
    closing rs = (CbiVerif.Gen.metaWarnings.zip (counts rs)).filterMap fun p =>
      if p.2 == 0 then none else some (fillIn p.1.2 p.2) := by
  simp only [closing, counts, List.zip_map_right, List.filterMap_map]
  rfl

/-- non-vacuity of `totals_eq_counts`: a mixed list of events satisfying the hypothesis -/
def evsEx : List Event :=
  [{ kind := .userInclude, file := "/r/a.c", line := 3, name := "x.h", spelling := "#include \"x.h\"" },
   { kind := .systemInclude, file := "/r/a.c", line := 4, name := "y.h", spelling := "#include <y.h>" },
   { kind := .unknownDirective, file := "/r/a.c", line := 5, col := 1, name := "foo", spelling := "#foo" },
   { kind := .unknownArgs, name := "-Wall -frob" }]

example : (∀ e ∈ evsEx, e.kind ≠ .userInclude → containsSub (renderL e) CbiVerif.Gen.includeKindUser.toList = false) ∧
    (∀ e ∈ evsEx, e.kind ≠ .systemInclude → containsSub (renderL e) CbiVerif.Gen.includeKindSystem.toList = false) := by
  decide

/-- **Finding D30** (the complement of the hypothesis): a user-include warning for a file whose path contains
the words "system include" is counted in the system total as well -/
theorem d30_witness :
    ∃ es : List Event, counts (recordsOf es) ≠
      [es.length, (es.filter fun e => e.kind == .userInclude).length, (es.filter fun e => e.kind == .systemInclude).length] :=
  ⟨[{ kind := .userInclude, file := "/r/system include/a.c", line := 1, name := "x.h", spelling := "#include \"x.h\"" }], by decide⟩

/-! ## quiet_when_honoured -/

/-- if every evaluated include directive resolves, no include warning is issued … -/
theorem quiet_when_honoured (fs : FS) (codebase : List String) (config : List (String × List Entry)) (fuel : Nat)
    (h : ∀ v ∈ (Inc.find fs codebase config fuel).visits, v.spec.isSome = true) :
    (Inc.find fs codebase config fuel).warns = [] := by
  rw [(find_inv fs codebase config fuel).warns, unresolved, List.filter_eq_nil_iff]
  intro v hv
  have := h v hv
  cases hs : v.spec <;> simp_all

/-- … if no parsed file has a reportable unknown directive, no directive warning … -/
theorem quiet_directives (file : String) (ds : List Directive) (h : ∀ d ∈ ds, d.warns = false) :
    directiveEvents file ds = [] := by
  simp only [directiveEvents, List.map_eq_nil_iff, List.filter_eq_nil_iff]
  intro d hd
  simp [h d hd]

/-- … if every supported database entry names an existing file, a known compiler and only known options (and
there is at least one such entry), no database warning … -/
theorem quiet_database (dbpath : String) (es : List DbEntry)
    (h : ∀ e ∈ es, e.supported = true → e.exists_ = true ∧ e.known = true ∧ e.unrecognised = [])
    (hne : ∃ e ∈ es, e.supported = true) : dbEvents dbpath es = [] := by
  have h1 : es.flatMap entryEvents = [] := by
    rw [List.flatMap_eq_nil_iff]
    intro e he
    unfold entryEvents
    by_cases hs : e.supported = true
    · obtain ⟨a, b, c⟩ := h e he hs
      simp [hs, a, b, c]
    · simp [hs]
  obtain ⟨e, he, hs⟩ := hne
  have h2 : es.all (fun e => !e.supported || !e.exists_) = false := by
    rw [List.all_eq_false]
    exact ⟨e, he, by simp [hs, (h e he hs).1]⟩
  simp [dbEvents, h1, h2]

/-- … and without warnings the aggregator prints no closing line at all -/
theorem quiet_closing : counts [] = [0, 0, 0] ∧ closing [] = [] := by
  constructor <;> rfl

/-- records below WARNING (INFO, DEBUG) or above never move a counter -/
theorem only_warnings_counted (regex : String) (r : Record) (h : r.level ≠ "WARNING") : inspect regex r = false := by
  simp [inspect, level_is_warning, h]

/-! ### concrete non-vacuity examples (checked by evaluation) -/
/-- `/r/src/a.c` includes `<x.h>` (exists in `/r/inc`) and `<gone.h>` (nowhere) -/
def fsEx : FS := { files := [("/r/src/a.c", ""), ("/r/inc/x.h", "")] }
def nFound : PNode := { kind := .include, lines := [1], toks := [⟨.str, "../inc/x.h", true, true⟩] }
def tokGone : List Tok := [⟨.op, "<", true, true⟩, ⟨.ident, "gone", false, true⟩, ⟨.punct, ".", false, true⟩, ⟨.ident, "h", false, true⟩, ⟨.op, ">", false, true⟩]
def nGone : PNode := { kind := .include, lines := [2], toks := tokGone }
def w0 : World := { st := {}, plat := { name := "p", incPaths := ["/r/inc"] } }
private theorem w0_inv : WarnInv fsEx w0 := ⟨sound_nil _ _, ⟨rfl, by intro v hv; simp [w0] at hv⟩⟩

example := unresolved_include_warns fsEx [] "/r/src/a.c" w0 1 nGone w0_inv "gone.h" true rfl (by decide)
example := resolvable_include_silent fsEx [] "/r/src/a.c" w0 0 nFound w0_inv "../inc/x.h" false rfl "/r/inc/x.h" (by decide)
/-- the second visit of the unresolvable include, now answered from the memo, warns again -/
example :
    let w1 := (includeStep true fsEx [] "/r/src/a.c" w0 1 nGone).2
    w1.plat.memo = [(("gone.h", none), none)] ∧
    ((includeStep true fsEx [] "/r/src/a.c" w1 1 nGone).2.st.warns.map fun v => (v.file, v.line, v.name, v.sys)) =
      [("/r/src/a.c", 2, "gone.h", true), ("/r/src/a.c", 2, "gone.h", true)] := by decide

/-- non-vacuity of the forced-include theorems: `-include nothere.h` / `-include x.h` for `/r/src/a.c` with `-I /r/inc` -/
example (run : String → World → World) := forced_missing_warns fsEx [] run "/r/src/a.c" w0 "nothere.h" w0_inv rfl (by decide)
example (run : String → World → World) := forced_found_silent fsEx [] run "/r/src/a.c" w0 "x.h" "/r/inc/x.h" w0_inv rfl (by decide)

example := line_warning_error_silent ⟨7, false, 3, "line", "#line 7"⟩ (.inl rfl)
example := unknown_warns ⟨7, false, 2, "ident", "#ident \"x\""⟩ rfl (by decide) (by decide)
example := quiet_directives "/r/a.c" [⟨1, true, 3, "define", "#define A 1"⟩, ⟨2, false, 2, "error", "#error e"⟩] (by decide)
example := quiet_database "/r/db.json" [⟨"/r/a.c", true, true, "gcc", true, [], 1⟩, ⟨"/r/x.o", false, false, "ld", false, [], 1⟩]
  (by decide) ⟨⟨"/r/a.c", true, true, "gcc", true, [], 1⟩, by simp, rfl⟩
example := only_warnings_counted "." ⟨"INFO", "Compiler 'gcc' recognized.".toList⟩ (by decide)
example : dbEvents "/r/db.json" [⟨"/r/gone.c", true, false, "gcc", true, [], 1⟩, ⟨"/r/a.c", true, true, "mycc", false, ["-Wall", "--weird"], 1⟩] =
    [{ kind := .missingFile, name := "/r/gone.c" }, { kind := .unknownCompiler, name := "mycc" }, { kind := .unknownArgs, name := "-Wall --weird" }] := by decide

end CbiVerif.C18
