import CbiVerif.Lemmas.FHeadOK
import CbiVerif.Lemmas.FPaste
import CbiVerif.Spec.FortranNodes
/-!
The GROUPING of the counted lines of a Fortran file: `FileParser`'s nodes over `fortran_file_source` (`group ∘ fLoop`) against
`Spec/FortranNodes.lean` (`refNodesAux`), line by line along the reference run — `run_eq_ref` (`Lemmas/FCPass3.lean`) gives
the concatenation, here the simulation additionally tracks the head of the joined buffer (`HeadOK`): a continued statement
never reads as a `#` line unless the text has a line of finding class F-C17-2 (`Spec/FortranHash.lean`).
-/
namespace CbiVerif.Fortran
open Tbl
set_option linter.unusedSimpArgs false

/-! ## the reference: an uncounted line does not enter a character context -/

/-- reference modes outside a character context -/
def topish : RF → Bool
  | .code | .start .top | .ampTop _ => true
  | .bang s | .sent s | .comm s => s == .code || s == .cont || s == .amp
  | _ => false

def stepTopOK (m : RF) (c : Cls) : Bool :=
  match rstep m c with
  | none => true
  | some o => !topish m || topish o.mode || o.vis

theorem stepTopOK_all : (allRF.all fun m => allC.all fun c => stepTopOK m c) = true := by decide

def endTopOK (m : RF) : Bool :=
  match rend m with
  | none => true
  | some m' => !topish m || m' == .code || m' == .start .top

theorem endTopOK_all : (allRF.all endTopOK) = true := by decide

theorem rchars_topish (l : List Char) : ∀ (a x : RAcc), (topish a.mode = true ∨ a.vis = true) →
    rchars a l = some x → (topish x.mode = true ∨ x.vis = true) := by
  induction l with
  | nil => intro a x h hr; simp only [rchars, Option.some.injEq] at hr; subst hr; exact h
  | cons c cs ih =>
    intro a x h hr
    simp only [rchars] at hr
    split at hr
    · cases hr
    · cases ho : rstep a.mode (cls c) with
      | none => simp [ho] at hr
      | some o =>
        simp only [ho] at hr
        refine ih _ x ?_ hr
        simp only
        rcases h with h | h
        · have hall := stepTopOK_all
          simp only [List.all_eq_true] at hall
          have h1 := hall a.mode (mem_allRF _) (cls c) (mem_allC _)
          simp only [stepTopOK, ho, h, Bool.not_true, Bool.false_or, Bool.or_eq_true] at h1
          rcases h1 with h1 | h1
          · exact Or.inl h1
          · right; simp [h1]
        · right; simp [h]

/-- a line scanned from a mode outside a character context that is not counted ends outside a character context -/
theorem unc_topish (m : RF) (l : List Char) (rl : RLine) (hm : m = .code ∨ m = .start .top)
    (h : rline m l = some rl) (hc : rl.counted = false) : rl.next = .code ∨ rl.next = .start .top := by
  unfold rline at h
  cases hr : rchars ⟨m, false, false⟩ l with
  | none => simp [hr] at h
  | some a =>
    simp only [hr] at h
    cases he : rend a.mode with
    | none => simp [he] at h
    | some m2 =>
      simp only [he, Option.some.injEq] at h
      subst h
      simp only [Bool.or_eq_false_iff] at hc
      have ht : topish m = true := by rcases hm with hm | hm <;> subst hm <;> rfl
      have h1 := rchars_topish l ⟨m, false, false⟩ a (Or.inl ht) hr
      have h2 : topish a.mode = true := by
        rcases h1 with h1 | h1
        · exact h1
        · rw [hc.1] at h1; cases h1
      have hall := endTopOK_all
      simp only [List.all_eq_true] at hall
      have h3 := hall a.mode (mem_allRF _)
      simp only [endTopOK, he, h2, Bool.not_true, Bool.false_or, Bool.or_eq_true, beq_iff_eq] at h3
      exact h3

/-! ## shape of the cleaner state at a line start -/

theorem rlF_code_shape (s : FSt) (h : RlF s .code) : ∃ fd, s = ⟨[.top], .run, [], fd⟩ := by
  obtain ⟨st, sc, vc, fd⟩ := s
  have h2 := h.2
  unfold Tbl.Rl Tbl.proj at h2
  simp only [Tbl.absSt, absF, Prod.mk.injEq] at h2
  obtain ⟨e1, e2, _⟩ := h2
  subst e1; subst e2
  have := h.1.vcEmpty (by simp)
  simp only at this
  subst this
  exact ⟨fd, rfl⟩

theorem rlF_start_top_shape (s : FSt) (h : RlF s (.start .top)) : ∃ fd, s = ⟨[.cfs, .top], .run, [], fd⟩ := by
  obtain ⟨st, sc, vc, fd⟩ := s
  have h2 := h.2
  unfold Tbl.Rl Tbl.proj at h2
  simp only [Tbl.absSt, Tbl.ctxStack, absF, Prod.mk.injEq] at h2
  obtain ⟨e1, e2, _⟩ := h2
  subst e1; subst e2
  have := h.1.vcEmpty (by simp)
  simp only at this
  subst this
  exact ⟨fd, rfl⟩

/-- `cleaner.state[-1] == "CONTINUING_FROM_SOL"` iff the reference is inside a continued statement -/
theorem rlF_head_cfs (s : FSt) (m : RF) (h : RlF s m) (hm : isLineStart m = true) :
    s.stack.head? = some .cfs ↔ m ≠ .code := by
  have h2 := h.2
  unfold Tbl.Rl Tbl.proj at h2
  simp only [absF, Prod.mk.injEq] at h2
  obtain ⟨e1, _, _⟩ := h2
  rw [e1]
  cases m with
  | code => simp [Tbl.absSt]
  | start c => simp [Tbl.absSt]
  | _ => simp [isLineStart] at hm

/-! ## one line: the buffer is blanks only or starts with a good character -/

/-- outside F-C17-1: an uncounted line leaves only merged blanks in the buffer, a counted one a non-blank buffer -/
theorem line_sim_only (s : FSt) (m : RF) (l : List Char) (r : RLine) (hR : RlF s m) (h : rline m l = some r)
    (hk : r.k = false) :
    (r.counted = false → (procLine s l).2.OnlySp) ∧ (r.counted = true → (procLine s l).2.blank = false) := by
  have hls := (line_sim s m l r hR h).2 hk
  unfold rline at h
  cases hr : rchars ⟨m, false, false⟩ l with
  | none => simp [hr] at h
  | some a =>
    simp only [hr] at h
    cases he : rend a.mode with
    | none => simp [he] at h
    | some m2 =>
      simp only [he, Option.some.injEq] at h
      subst h
      obtain ⟨v', l', _, h2, h3, h4⟩ :=
        chars_sim l s m {} false false ⟨m, false, false⟩ a hR rfl binv_empty rfl rfl hr
      subst h3 h4
      refine ⟨fun hc => ?_, fun hc => ?_⟩
      · simp only [Bool.or_eq_false_iff] at hc
        exact h2.only hc.1 hc.2
      · simp only at hls hc
        rw [hc] at hls
        simpa using hls

/-- a line that can open the text of a statement: scanned at top level (not a directive line) or as a continuation line
    outside a character context whose text does not start with `#` -/
theorem line_head (s : FSt) (m : RF) (l : List Char) (r : RLine) (hR : RlF s m) (h : rline m l = some r)
    (hk : r.k = false) (hd : m = .code → isDirectiveLine l = false)
    (hc : m = .start .top → contHead l ≠ some '#') (hm : m = .code ∨ m = .start .top) :
    (r.counted = false → (procLine s l).2.OnlySp) ∧ (r.counted = true → HeadOK (procLine s l).2) := by
  obtain ⟨h1, h2⟩ := line_sim_only s m l r hR h hk
  refine ⟨h1, fun hcnt => ?_⟩
  have hb := h2 hcnt
  have hor : (procLine s l).2.OnlySp ∨ HeadOK (procLine s l).2 := by
    rcases hm with hm | hm
    · subst hm
      obtain ⟨fd, rfl⟩ := rlF_code_shape s hR
      exact head_from_top l [] fd {} onlySp_empty (hd rfl)
    · subst hm
      obtain ⟨fd, rfl⟩ := rlF_start_top_shape s hR
      exact head_from_cfs l [] fd {} onlySp_empty (hc rfl)
  rcases hor with ho | ho
  · rw [blank_of_onlySp _ ho] at hb; cases hb
  · exact ho

/-! ## blank merging does not change the head of a line -/

theorem cls_space : cls ' ' = .ws := by decide

theorem dropWs_collapseAux (l : List Char) : ∀ tr, dropWs (collapseAux tr l) = collapseAux false (dropWs l) := by
  induction l with
  | nil => intro tr; rfl
  | cons c cs ih =>
    intro tr
    by_cases hc : cls c = .ws
    · have hp := pyIsSpace_of_ws hc
      cases tr <;> simp [collapseAux, hp, dropWs, cls_space, hc, ih]
    · have hp := pyIsSpace_of_not_ws hc
      simp [collapseAux, hp, dropWs, hc]

theorem dropWs_head_not_ws (l : List Char) : ∀ c cs, dropWs l = c :: cs → cls c ≠ .ws := by
  induction l with
  | nil => intro c cs h; simp [dropWs] at h
  | cons a as ih =>
    intro c cs h
    by_cases ha : cls a = .ws
    · simp [dropWs, ha] at h; exact ih c cs h
    · simp [dropWs, ha] at h
      rw [← h.1]; exact ha

theorem contHead_collapse (l : List Char) : contHead (collapse l) = contHead l := by
  unfold contHead collapse
  rw [dropWs_collapseAux]
  rcases hd : dropWs l with _ | ⟨c, cs⟩
  · rfl
  · have hc := dropWs_head_not_ws l c cs hd
    have hp := pyIsSpace_of_not_ws hc
    simp only [collapseAux, hp, Bool.false_eq_true, if_false]
    by_cases ha : cls c = .amp
    · simp only [ha, beq_self_eq_true, if_true]
      rw [dropWs_collapseAux]
      rcases hd2 : dropWs cs with _ | ⟨d, ds⟩
      · rfl
      · have hc2 := dropWs_head_not_ws cs d ds hd2
        simp [collapseAux, pyIsSpace_of_not_ws hc2]
    · simp [ha]

theorem isDirectiveLine_collapse (l : List Char) : isDirectiveLine (collapse l) = isDirectiveLine l := by
  rw [isDirectiveLine_head, isDirectiveLine_head]
  unfold collapse
  rw [dropWs_collapseAux]
  rcases hd : dropWs l with _ | ⟨c, cs⟩
  · rfl
  · have hc := dropWs_head_not_ws l c cs hd
    simp [collapseAux, pyIsSpace_of_not_ws hc]

theorem contHead_blank (l : List Char) (h : isBlankLine l = true) : contHead l = none := by
  unfold isBlankLine at h
  unfold contHead
  simp only [beq_iff_eq] at h
  rw [h]

/-! ## `fortran_file_source` and `FileParser` on one more logical line -/

theorem emitLL_onlySp (cur : OSL) (lines : List Nat) (h : cur.OnlySp) : emitLL cur lines = [] := by
  have hb := blank_of_onlySp cur h
  unfold emitLL
  simp only [OSL.blank, beq_iff_eq] at hb
  simp [hb]

theorem emitLL_headOK (cur : OSL) (lines : List Nat) (h : HeadOK cur) :
    emitLL cur lines = [⟨lines, cur.parts, false⟩] := by
  unfold emitLL
  simp [headOK_cat cur h, headOK_notdir cur h]

theorem fLoop_dir (s : FSt) (cur : OSL) (lines : List Nat) (cl : CL) (rest : List CL) (lls : List LL)
    (hd : isDirText cl.text = true) (h : fLoop s cur lines (cl :: rest) = .ok lls) :
    ∃ out, fLoop s {} [] rest = .ok out ∧ lls = emitLL cur lines ++ ⟨cl.lines, cl.text, true⟩ :: out := by
  simp only [fLoop, hd, if_true] at h
  cases hr : fLoop s {} [] rest with
  | error e => simp [hr, Except.map] at h
  | ok out =>
    simp only [hr, Except.map, Except.ok.injEq] at h
    exact ⟨out, rfl, by rw [← h]; simp⟩

theorem fLoop_cont (s : FSt) (cur : OSL) (lines : List Nat) (cl : CL) (rest : List CL)
    (hd : isDirText cl.text = false) (hc : (procLine s cl.text).1.stack.head? = some .cfs) :
    fLoop s cur lines (cl :: rest) =
      fLoop (procLine s cl.text).1 (cur.join (procLine s cl.text).2)
        (if (procLine s cl.text).2.blank then lines else lines ++ cl.lines) rest := by
  simp only [fLoop, hd, Bool.false_eq_true, if_false, hc, beq_self_eq_true, if_true]

theorem fLoop_end (s : FSt) (cur : OSL) (lines : List Nat) (cl : CL) (rest : List CL) (lls : List LL)
    (hd : isDirText cl.text = false) (hc : (procLine s cl.text).1.stack.head? ≠ some .cfs)
    (h : fLoop s cur lines (cl :: rest) = .ok lls) :
    ∃ out, fLoop (procLine s cl.text).1 {} [] rest = .ok out ∧
      lls = emitLL (cur.join (procLine s cl.text).2)
        (if (procLine s cl.text).2.blank then lines else lines ++ cl.lines) ++ out := by
  have hc' : ((procLine s cl.text).1.stack.head? == some Mode.cfs) = false := by simpa using hc
  simp only [fLoop, hd, Bool.false_eq_true, if_false, hc'] at h
  cases hr : fLoop (procLine s cl.text).1 {} [] rest with
  | error e => simp [hr, Except.map] at h
  | ok out =>
    simp only [hr, Except.map, Except.ok.injEq] at h
    exact ⟨out, rfl, h.symm⟩

/-- what the property speaks about in a node: is it a directive, which physical lines -/
def nview (nd : Node) : Bool × List Nat := (nd.isDir, nd.lines)

theorem groupAux_code (gacc : List LL) (ll : LL) (out : List LL) (h : ll.isDir = false) :
    groupAux gacc (ll :: out) = groupAux (gacc ++ [ll]) out := by
  simp [groupAux, LL.isDirective, h]

/-- a `#` line whose first token is `##` is code for `FileParser.is_directive` -/
theorem groupAux_paste (gacc : List LL) (ll : LL) (out : List LL) (h : startsPaste ll.text = true) :
    groupAux gacc (ll :: out) = groupAux (gacc ++ [ll]) out := by
  unfold startsPaste at h
  simp [groupAux, LL.isDirective, h]

theorem flush_view (gacc : List LL) (h : ∀ ll ∈ gacc, ll.lines ≠ []) :
    (if gacc.isEmpty then [] else [mkCode gacc]).map nview = flushGroup (countedOf gacc) := by
  cases gacc with
  | nil => rfl
  | cons ll g =>
    have hne : countedOf (ll :: g) ≠ [] := by
      have := h ll (by simp)
      simp [countedOf, this]
    have hne' : (countedOf (ll :: g)).isEmpty = false := by
      cases hx : countedOf (ll :: g) with
      | nil => exact absurd hx hne
      | cons _ _ => rfl
    simp only [List.isEmpty_cons, Bool.false_eq_true, if_false, List.map_cons, List.map_nil, flushGroup, hne']
    rfl

theorem groupAux_dir (gacc : List LL) (ls : List Nat) (t : List Char) (out : List LL)
    (h : ∀ ll ∈ gacc, ll.lines ≠ []) (hp : startsPaste t = false) :
    (groupAux gacc (⟨ls, t, true⟩ :: out)).map nview =
      flushGroup (countedOf gacc) ++ (true, ls) :: (groupAux [] out).map nview := by
  unfold startsPaste at hp
  simp only [groupAux, LL.isDirective, hp, Bool.not_false, Bool.and_self, if_true, List.map_append, List.map_cons]
  rw [flush_view gacc h]
  rfl

/-! ## the run -/

/-- what is known about the open logical line (`curr_line`, its `lines`) in front of a physical line: `p` = no line of the
    statement has been counted yet -/
def CurInv (m : RF) (p : Bool) (cur : OSL) (lines : List Nat) : Prop :=
  (p = true ∧ cur.OnlySp ∧ lines = [] ∧ (m = .code ∨ m = .start .top)) ∨
  (p = false ∧ HeadOK cur ∧ lines ≠ [] ∧ m ≠ .code)

theorem curInv_init (m : RF) (hm : m = .code ∨ m = .start .top) : CurInv m true {} [] :=
  Or.inl ⟨rfl, onlySp_empty, rfl, hm⟩

/-- **main run lemma for the grouping**: physical lines `n+1 …` scanned by the reference from mode `m`; the Fortran pass over
    what the C pass makes of them, started in a related cleaner state with the open logical line `cur` / `lines`, followed by
    `FileParser`'s grouping with the open code group `gacc`, yields the groups of `refNodesAux` -/
theorem run_groups (ls : List (List Char)) : ∀ (n : Nat) (s : FSt) (m : RF) (r : List (Bool × Bool)) (p : Bool)
    (cur : OSL) (lines : List Nat) (gacc lls : List LL),
    RlF s m → isLineStart m = true → (∀ l ∈ ls, LineOK l) → refLines m ls = some r → (∀ x ∈ r, x.2 = false) →
    hashHeadAux n m p ls = [] → CurInv m p cur lines → (∀ ll ∈ gacc, ll.lines ≠ []) →
    fLoop s cur lines (cpass n ls) = .ok lls →
    (groupAux gacc lls).map nview = refNodesAux n (countedOf gacc ++ lines) ls r := by
  induction ls with
  | nil =>
    intro n s m r p cur lines gacc lls hR _ _ h _ _ hci hg hf
    simp only [refLines] at h
    split at h
    · rename_i hm
      simp only [Option.some.injEq] at h; subst h
      simp only [beq_iff_eq] at hm; subst hm
      rcases hci with ⟨_, ho, hl, _⟩ | ⟨_, _, _, hne⟩
      · subst hl
        simp only [cpass, fLoop] at hf
        split at hf
        · simp only [Except.ok.injEq] at hf
          subst hf
          rw [emitLL_onlySp cur [] ho]
          simp only [groupAux, refNodesAux, List.append_nil]
          exact flush_view gacc hg
        · cases hf
      · exact absurd rfl hne
    · cases h
  | cons l ls ih =>
    intro n s m r p cur lines gacc lls hR hm hok h hk hh hci hg hf
    have hl : LineOK l := hok l (by simp)
    have hok' : ∀ l' ∈ ls, LineOK l' := fun l' h' => hok l' (by simp [h'])
    simp only [refLines] at h
    simp only [cpass] at hf
    by_cases hd : isDirectiveLine l = true
    · -- directive line
      simp only [hd, if_true] at h
      split at h
      · rename_i hmc
        simp only [beq_iff_eq] at hmc; subst hmc
        cases hr : refLines .code ls with
        | none => simp [hr] at h
        | some r' =>
          simp only [hr, Option.map_some, Option.some.injEq] at h; subst h
          obtain ⟨ob, e1, e2⟩ := dLine_dir l hd hl
          have hnb : ob.blank = false := by
            unfold isDirText at e2
            simp only [beq_iff_eq] at e2
            simp [OSL.blank, e2]
          simp only [e1, hnb, Bool.false_eq_true, if_false, List.singleton_append] at hf
          obtain ⟨out, ho, hlls⟩ := fLoop_dir s cur lines ⟨[n + 1], ob.parts⟩ _ lls e2 hf
          have hpaste := dLine_dir_paste l hd hl ob e1
          rcases hci with ⟨_, hcur, hlines, _⟩ | ⟨_, _, _, hne⟩
          · subst hlines
            rw [emitLL_onlySp cur [] hcur] at hlls
            simp only [List.nil_append] at hlls
            subst hlls
            have hh' : hashHeadAux (n + 1) .code true ls = [] := by
              simpa only [hashHeadAux, hd, if_true] using hh
            cases hpl : isPasteLine l with
            | false =>
              rw [hpl] at hpaste
              have i1 := ih (n + 1) s .code r' true {} [] [] out hR rfl hok' hr
                (fun x hx => hk x (by simp [hx])) hh' (curInv_init _ (Or.inl rfl)) (by simp) ho
              rw [groupAux_dir gacc _ _ out hg hpaste, i1]
              simp only [refNodesAux, hd, hpl, Bool.not_false, Bool.and_self, if_true, List.append_nil, countedOf,
                List.flatMap_nil]
            | true =>
              -- first token `##`: the line is counted text of the surrounding run
              rw [hpl] at hpaste
              rw [groupAux_paste gacc _ out hpaste]
              refine (ih (n + 1) s .code r' true {} [] _ out hR rfl hok' hr
                (fun x hx => hk x (by simp [hx])) hh' (curInv_init _ (Or.inl rfl)) ?_ ho).trans ?_
              · intro ll hll
                simp only [List.mem_append, List.mem_singleton] at hll
                rcases hll with hll | hll
                · exact hg ll hll
                · subst hll; simp
              · simp [refNodesAux, hd, hpl, countedOf]
          · exact absurd rfl hne
      · cases h
    · -- code / blank / comment line
      have hd' : isDirectiveLine l = false := by simpa using hd
      simp only [hd', Bool.false_eq_true, if_false] at h
      cases hrl : rline m l with
      | none => simp [hrl] at h
      | some rl =>
        simp only [hrl] at h
        cases hr : refLines rl.next ls with
        | none => simp [hr] at h
        | some r' =>
          simp only [hr, Option.map_some, Option.some.injEq] at h; subst h
          have hk' : ∀ x ∈ r', x.2 = false := fun x hx => hk x (by simp [hx])
          have hk0 : rl.k = false := hk (rl.counted, rl.k) (by simp)
          simp only [hashHeadAux, hd', Bool.false_eq_true, if_false, hrl, List.append_eq_nil_iff] at hh
          obtain ⟨hbad, hh'⟩ := hh
          have e1 := dLine_code l hd' hl
          have hbl := code_blank_iff l {} onlySp_empty
          have hparts := collapse_eq l
          simp only [e1] at hf
          simp only [refNodesAux, hd', Bool.false_and, Bool.false_eq_true, if_false]
          cases hb : (({} : OSL).addAll (l.map emitChar)).blank with
          | true =>
            -- blank physical line: dropped by the C pass, not counted by the reference
            rw [hb] at hbl
            have hrl' := rline_blank m l rl hm hbl.symm hrl
            subst hrl'
            simp only [hb, if_true, List.nil_append] at hf
            have hp : (m == RF.code || (p && !false)) = p := by
              rcases hci with ⟨hp, _⟩ | ⟨hp, _, _, hne⟩
              · subst hp; simp
              · subst hp
                have : (m == RF.code) = false := by simpa using hne
                simp [this]
            simp only at hh'
            rw [hp] at hh'
            simpa using ih (n + 1) s m r' p cur lines gacc lls hR hm hok' hr hk' hh' hci hg hf
          | false =>
            have hnd : isDirText (collapse l) = false := collapse_notdir l hd'
            have hrc := rline_collapse m l rl hrl
            obtain ⟨l1, l2⟩ := line_sim s m (collapse l) rl hR hrc
            have l2 := l2 hk0
            have hns := rline_lineStart m l rl hrl
            simp only [hb, Bool.false_eq_true, if_false, List.singleton_append, hparts] at hf
            -- the open logical line after this physical line
            have hpost :
                ((p && !rl.counted) = true ∧ (cur.join (procLine s (collapse l)).2).OnlySp ∧
                  (if (procLine s (collapse l)).2.blank then lines else lines ++ [n + 1]) = [] ∧
                  (rl.next = .code ∨ rl.next = .start .top)) ∨
                ((p && !rl.counted) = false ∧ HeadOK (cur.join (procLine s (collapse l)).2) ∧
                  (if (procLine s (collapse l)).2.blank then lines else lines ++ [n + 1]) ≠ []) := by
              rcases hci with ⟨hp, hcur, hlines, hmm⟩ | ⟨hp, hcur, hlines, hne⟩
              · subst hp; subst hlines
                have hdd : m = .code → isDirectiveLine (collapse l) = false := fun _ => by
                  rw [isDirectiveLine_collapse]; exact hd'
                have hcc : m = .start .top → contHead (collapse l) ≠ some '#' := by
                  intro hms
                  rw [contHead_collapse]
                  intro hc
                  have : (m == RF.start Ctx.top && true && contHead l == some '#') = true := by
                    simp [hms, hc]
                  rw [this] at hbad
                  simp at hbad
                obtain ⟨g1, g2⟩ := line_head s m (collapse l) rl hR hrc hk0 hdd hcc hmm
                cases hcnt : rl.counted with
                | false =>
                  have hbo := g1 hcnt
                  left
                  refine ⟨by simp, onlySp_join_onlySp cur _ hcur hbo, ?_, unc_topish m l rl hmm hrl hcnt⟩
                  simp [blank_of_onlySp _ hbo]
                | true =>
                  have hbo := g2 hcnt
                  right
                  refine ⟨by simp, onlySp_join_headOK cur _ hcur hbo, ?_⟩
                  simp [headOK_nonblank _ hbo]
              · subst hp
                right
                refine ⟨by simp, headOK_join_left cur _ hcur, ?_⟩
                split
                · exact hlines
                · simp
            have hacc : (if rl.counted = true then countedOf gacc ++ lines ++ [n + 1] else countedOf gacc ++ lines) =
                countedOf gacc ++ (if (procLine s (collapse l)).2.blank then lines else lines ++ [n + 1]) := by
              rw [← l2]; cases (procLine s (collapse l)).2.blank <;> simp
            rw [hacc]
            by_cases hnext : rl.next = .code
            · have hcfs : (procLine s (collapse l)).1.stack.head? ≠ some .cfs := by
                intro hc; exact ((rlF_head_cfs _ _ l1 hns).mp hc) hnext
              obtain ⟨out, ho, hlls⟩ := fLoop_end s cur lines ⟨[n + 1], collapse l⟩ _ lls hnd hcfs hf
              have hh2 : hashHeadAux (n + 1) .code true ls = [] := by simpa [hnext] using hh'
              rw [hnext] at hr l1
              dsimp only at hlls ho
              rcases hpost with ⟨_, hcur2, hlines2, _⟩ | ⟨_, hcur2, hlines2⟩
              · rw [emitLL_onlySp _ _ hcur2] at hlls
                simp only [List.nil_append] at hlls; rw [hlls]
                rw [hlines2]
                exact ih (n + 1) _ .code r' true {} [] gacc out l1 rfl hok' hr hk' hh2
                  (curInv_init _ (Or.inl rfl)) hg ho
              · rw [emitLL_headOK _ _ hcur2] at hlls
                rw [hlls]
                simp only [List.singleton_append]
                rw [groupAux_code _ _ _ rfl]
                refine (ih (n + 1) _ .code r' true {} [] _ out l1 rfl hok' hr hk' hh2
                  (curInv_init _ (Or.inl rfl)) ?_ ho).trans ?_
                · intro ll hll
                  simp only [List.mem_append, List.mem_singleton] at hll
                  rcases hll with hll | hll
                  · exact hg ll hll
                  · subst hll; exact hlines2
                · simp [countedOf]
            · have hcfs := (rlF_head_cfs _ _ l1 hns).mpr hnext
              rw [fLoop_cont s cur lines ⟨[n + 1], collapse l⟩ _ hnd hcfs] at hf
              dsimp only at hf
              have hnb : (rl.next == RF.code) = false := by simpa using hnext
              have hh2 : hashHeadAux (n + 1) rl.next (p && !rl.counted) ls = [] := by simpa [hnb] using hh'
              refine ih (n + 1) _ rl.next r' (p && !rl.counted) _ _ gacc lls l1 hns hok' hr hk' hh2 ?_ hg hf
              rcases hpost with ⟨hp2, hcur2, hlines2, htop⟩ | ⟨hp2, hcur2, hlines2⟩
              · rw [hp2]; exact Or.inl ⟨rfl, hcur2, hlines2, htop⟩
              · rw [hp2]; exact Or.inr ⟨rfl, hcur2, hlines2, hnext⟩

/-! ## whole texts -/

/-- **grouping = reference (text level)**: for every text the reference accepts, with no line of finding class F-C17-1 and no
    line of finding class F-C17-2, the nodes `FileParser` builds over `fortran_file_source` are the groups of
    `Spec/FortranNodes.lean` -/
theorem groups_eq_ref (text : String) (r : List (Bool × Bool)) (h : refText text = some r)
    (hk : ∀ x ∈ r, x.2 = false) (hh : hashHeadLines text = []) :
    ∃ lls, fortranSource text = .ok lls ∧ (group lls).map nview = refNodes text := by
  have h0 := h
  unfold refText at h
  simp only at h
  split at h
  · rename_i hok
    have hlok := lineOK_of_textOK _ hok
    have hphys : ∀ p ∈ splitLines text, LineOK p.1 := by
      intro p hp
      apply hlok
      rw [← splitLines_fst]
      exact List.mem_map_of_mem hp
    have hd := dLoop_ok (splitLines text) 0 hphys
    rw [splitLines_fst] at hd
    obtain ⟨bs, _, _, a3⟩ := run_eq_ref (textLines text) 0 {} .code r init_rlF rfl hlok h
    obtain ⟨lls, hl⟩ := fLoop_ok (cpass 0 (textLines text)) {} {} [] (stack_of_rlF_code _ a3)
    refine ⟨lls, ?_, ?_⟩
    · unfold fortranSource dPass; rw [hd]; exact hl
    · have := run_groups (textLines text) 0 {} .code r true {} [] [] lls init_rlF rfl hlok h hk hh
        (curInv_init _ (Or.inl rfl)) (by simp) hl
      unfold refNodes group
      rw [h0]
      simpa [countedOf] using this
  · cases h

theorem flushGroup_nonempty (acc : List Nat) : ∀ g ∈ flushGroup acc, g.2 ≠ [] := by
  intro g hg
  unfold flushGroup at hg
  split at hg
  · cases hg
  · rename_i hne
    simp only [List.mem_singleton] at hg
    subst hg
    intro hc
    simp only at hc
    subst hc
    exact hne rfl

/-- every group of the specification holds at least one line -/
theorem refNodesAux_nonempty (ls : List (List Char)) : ∀ (n : Nat) (acc : List Nat) (r : List (Bool × Bool)),
    ∀ g ∈ refNodesAux n acc ls r, g.2 ≠ [] := by
  induction ls with
  | nil => intro n acc r g hg; simp only [refNodesAux] at hg; exact flushGroup_nonempty acc g hg
  | cons l ls ih =>
    intro n acc r g hg
    cases r with
    | nil => simp only [refNodesAux] at hg; exact flushGroup_nonempty acc g hg
    | cons x r =>
      obtain ⟨c, k⟩ := x
      simp only [refNodesAux] at hg
      split at hg
      · simp only [List.mem_append, List.mem_cons] at hg
        rcases hg with hg | hg | hg
        · exact flushGroup_nonempty acc g hg
        · subst hg; simp
        · exact ih _ _ _ g hg
      · exact ih _ _ _ g hg

theorem refNodes_nonempty (text : String) : ∀ g ∈ refNodes text, g.2 ≠ [] := by
  intro g hg
  unfold refNodes at hg
  split at hg
  · exact refNodesAux_nonempty _ _ _ _ g hg
  · cases hg

end CbiVerif.Fortran
