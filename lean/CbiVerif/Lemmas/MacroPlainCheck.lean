import CbiVerif.Lemmas.MacroObjSpec
import CbiVerif.Lemmas.MacroDefine
/-! decidable checks of `PlainTok` / `PlainTbl` (hypotheses of `E_eq_prosser`) -/
namespace CbiVerif.MX
open CbiVerif.PP

def plainTokb (t : Tok) : Bool :=
  t.expandable && t.text != "##" && (t.kind != .ident || t.text != "defined")

theorem plainTok_of_check (t : Tok) (h : plainTokb t = true) : PlainTok t := by
  simp only [plainTokb, Bool.and_eq_true, Bool.or_eq_true, bne_iff_ne, ne_eq] at h
  refine ⟨h.1.1, h.1.2, ?_⟩
  intro hk
  rcases h.2 with h2 | h2
  · exact absurd hk h2
  · exact h2

def plainTblb (tbl : Table) : Bool := tblOKb tbl && tbl.all fun e => e.2.replacement.all plainTokb

theorem plainTbl_of_check (tbl : Table) (h : plainTblb tbl = true) : PlainTbl tbl := by
  simp only [plainTblb, Bool.and_eq_true] at h
  refine ⟨tblOK_of_check tbl h.1, ?_⟩
  intro n m hm t ht
  unfold Table.get at hm
  cases hf : tbl.find? (·.1 == n) with
  | none => simp [hf] at hm
  | some e =>
    have hmem := List.mem_of_find?_eq_some hf
    simp [hf] at hm
    subst hm
    have := (List.all_eq_true.mp h.2) e hmem
    exact plainTok_of_check t ((List.all_eq_true.mp this) t ht)

end CbiVerif.MX
