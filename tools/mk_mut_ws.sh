#!/bin/bash
# mk_mut_ws.sh <round> <PID>... : scratch worktree of /repo HEAD + the property's text for an independent mutant author
# (nothing from /verif except the property record itself)
r=$1; shift
git -C /repo worktree prune
for p in "$@"; do
  d=/tmp/mut${r}_$p; rm -rf $d; mkdir -p $d /tmp/mut_out$r/$p
  git -C /repo worktree add -q --detach $d/repo HEAD
  python3 - "$p" > $d/property.json <<'PY'
import json,sys
for l in open('/verif/properties.jsonl'):
    q=json.loads(l)
    if q['id']==sys.argv[1]: print(json.dumps(q,indent=1))
PY
  echo "$d ready"
done
