import CbiVerif.Lemmas.WarnMsgInj
/-! # C18, message layer — every warning NAMES what could not be honoured, exactly as the code prints it.

Model: `WarnMsg.renderX` (`Model/WarnMsg.lean`) interprets the message templates regenerated from the
`log.warning(f"…")` call sites (`tools/gen/warnmsg.py` → `Generated/WarnMsg.lean`); the driver op `warnmsg`
executes it and the harness compares its output byte for byte with the records of the `codebasin` logger and
with `cbi.log`.  The statements below are about the templates *as they are in the code now*: the checks on the
templates are evaluated by the kernel, everything about field values is proved for all strings. -/
namespace CbiVerif.C18Msg
open CbiVerif.Warn CbiVerif.WarnMsg CbiVerif.WarnTmpl

/-! ## message_names_event -/

/-- **Every rendered message names its event**, for all field values: a source-level include warning begins
`file:line:`, contains the category phrase of the form used (quote ↦ "user include", angle ↦ "system include"),
the requested name in quotes and the directive as written (which shows `"…"` / `<…>`); an unknown-directive warning
begins `file:line:col:` and contains the directive as written (as Python prints the list); a database-level warning
contains the path / compiler / arguments / database it is about. -/
theorem message_names_event (e : Event) : namesEvent (renderX e) e = true := by
  have hinc : ∀ e : Event, namesInclude (renderT Gen.tmplInclude e) e = true := by
    intro e
    simp only [namesInclude, Bool.and_eq_true]
    refine ⟨⟨⟨starts_file_line _ e (by decide), ?_⟩, ?_⟩, ?_⟩
    · exact contains_arg .kind _ e (by decide)
    · exact contains_quoted _ e (litBefore .name Gen.tmplInclude) (litAfter .name Gen.tmplInclude) (by decide) (by decide) (by decide)
    · exact contains_arg .spelling _ e (by decide)
  unfold namesEvent renderX
  cases hk : e.kind with
  | userInclude => exact hinc e
  | systemInclude => exact hinc e
  | unknownDirective =>
    simp only [namesDirective, Bool.and_eq_true, template]
    exact ⟨starts_file_line_col _ e (by decide), contains_arg .spellingList _ e (by decide)⟩
  | missingFile => exact contains_arg .name _ e (by decide)
  | unknownCompiler => exact contains_arg .name _ e (by decide)
  | unknownArgs => exact contains_arg .name _ e (by decide)
  | noFiles => exact contains_arg .name _ e (by decide)

/-- the two forms are told apart by different phrases -/
theorem form_phrases_differ : kindPhrase .userInclude ≠ kindPhrase .systemInclude := by decide

/-- **the message of a missing `-include` file** (its own call site in `finder.find`) names the event by which the
model represents it (`forcedEvent`: user form, the source file, line 0, the directive `-include NAME`): it begins
`file:0:`, contains the user-include phrase, the requested name in quotes and `-include NAME` — for all strings -/
theorem forced_message_names_event (src name : String) :
    namesEvent (renderForced (forcedEvent src name)) (forcedEvent src name) = true := by
  show namesInclude (renderT Gen.tmplForced (forcedEvent src name)) (forcedEvent src name) = true
  simp only [namesInclude, Bool.and_eq_true]
  refine ⟨⟨⟨starts_file_zero _ _ (by decide), ?_⟩, ?_⟩, ?_⟩
  · exact contains_in_lit _ _ (litBefore .name Gen.tmplForced) (kindPhrase .userInclude).toList (by decide) (by decide)
  · exact contains_quoted _ _ (litBefore .name Gen.tmplForced) (litAfter .name Gen.tmplForced) (by decide) (by decide) (by decide)
  · have := contains_tail_name Gen.tmplForced (forcedEvent src name) (litAfter .name Gen.tmplForced) "-include ".toList
      (by decide) (by decide)
    simpa [forcedEvent, String.toList_append] using this

/-- the unrecognised arguments are joined by the separator the model of the database events uses -/
theorem args_joiner_is_space : Gen.argsJoiner = " " := rfl

/-! ## category_of_rendered -/

/-- whether the fixed text of the message of each kind of event contains a category phrase: only the include
warning of the quote form contains "user include", only that of the angle form "system include"
(evaluated on the regenerated templates and phrases) -/
theorem literal_table (k : Kind) :
    literalHitK Gen.includeKindUser k = (k == .userInclude) ∧
    literalHitK Gen.includeKindSystem k = (k == .systemInclude) := by
  cases k <;> decide

/-- **Which meta-warning counts a rendered message — for ALL field values.**  Under the D30 side condition for a
phrase (`fieldsFree`: no stretch of the message around a field — the field with the literal characters next to it up
to the nearest character that cannot belong to the phrase — contains the phrase) the search for "user include"
succeeds exactly on the include warnings of the quote form and the search for "system include" exactly on those of
the angle form; the pattern `"."` counts every message.  Without the side condition an include warning is still
always counted in its own category. -/
theorem category_of_rendered (e : Event) :
    (fieldsFree Gen.includeKindUser e = true →
      matchesRegex Gen.includeKindUser (renderX e) = (e.kind == .userInclude)) ∧
    (fieldsFree Gen.includeKindSystem e = true →
      matchesRegex Gen.includeKindSystem (renderX e) = (e.kind == .systemInclude)) ∧
    matchesRegex "." (renderX e) = true ∧
    (e.kind = .userInclude → matchesRegex Gen.includeKindUser (renderX e) = true) ∧
    (e.kind = .systemInclude → matchesRegex Gen.includeKindSystem (renderX e) = true) := by
  refine ⟨?_, ?_, ?_, ?_, ?_⟩
  · intro h
    simp only [matchesRegex, user_phrase_ne_dot, Bool.false_eq_true, if_false]
    rw [search_eq_literalHit _ (by decide) e h, literalHit_kind, (literal_table e.kind).1]
  · intro h
    simp only [matchesRegex, system_phrase_ne_dot, Bool.false_eq_true, if_false]
    rw [search_eq_literalHit _ (by decide) e h, literalHit_kind, (literal_table e.kind).2]
  · simp only [matchesRegex, beq_self_eq_true, if_true]
    unfold renderX
    apply render_visible
    cases e.kind <;> decide
  · intro hk
    simp only [matchesRegex, user_phrase_ne_dot, Bool.false_eq_true, if_false]
    have := contains_arg .kind (template e.kind) e (by rw [hk]; decide)
    simpa [renderX, argText, hk, kindPhrase] using this
  · intro hk
    simp only [matchesRegex, system_phrase_ne_dot, Bool.false_eq_true, if_false]
    have := contains_arg .kind (template e.kind) e (by rw [hk]; decide)
    simpa [renderX, argText, hk, kindPhrase] using this

/-- hence the two forms are never rendered alike (under the side condition) -/
theorem forms_render_differently (e1 e2 : Event) (h1 : e1.kind = .userInclude) (h2 : e2.kind = .systemInclude)
    (hf : fieldsFree Gen.includeKindUser e2 = true) : renderX e1 ≠ renderX e2 := by
  intro h
  have a := (category_of_rendered e1).2.2.2.1 h1
  have b := (category_of_rendered e2).1 hf
  rw [h, b, h2] at a
  exact absurd a (by decide)

/-- non-vacuity of the side condition (checked by evaluation): usual paths, names and directives satisfy it — also a
directory called "my include", a path "user/include.c", a directive spelled `# include` -/
def evsEx : List Event :=
  [{ kind := .userInclude, file := "/r/a.c", line := 3, name := "x.h", spelling := "#include \"x.h\"" },
   { kind := .systemInclude, file := "/r/my include/a.c", line := 4, name := "sys/y.h", spelling := "# include <sys/y.h>" },
   { kind := .unknownDirective, file := "/r/a.c", line := 5, col := 1, name := "foo", spelling := " #foo 'x' \"y\"" },
   { kind := .unknownArgs, name := "-Wall -frob" }, { kind := .missingFile, name := "/r/user/include.c" },
   { kind := .unknownCompiler, name := "mycc" }, { kind := .noFiles, name := "/r/db.json" }]

example : ∀ e ∈ evsEx, fieldsFree Gen.includeKindUser e = true ∧ fieldsFree Gen.includeKindSystem e = true := by decide

/-! ## totals_eq_counts over the rendered messages -/

/-- **Printed totals = numbers of warnings issued per category**, for every list of issued events whose fields
satisfy the D30 side condition: the counters the aggregator reaches on the exact messages are (all, quote form,
angle form). -/
theorem totals_eq_counts_rendered (es : List Event)
    (hU : ∀ e ∈ es, fieldsFree Gen.includeKindUser e = true)
    (hS : ∀ e ∈ es, fieldsFree Gen.includeKindSystem e = true) :
    counts (recordsOfX es) =
      [es.length, (es.filter fun e => e.kind == .userInclude).length, (es.filter fun e => e.kind == .systemInclude).length] := by
  have hpat : counts (recordsOfX es) = [countFor "." (recordsOfX es), countFor Gen.includeKindUser (recordsOfX es),
      countFor Gen.includeKindSystem (recordsOfX es)] := rfl
  rw [hpat]
  simp only [countFor_eq_filter, recordsOfX, List.filter_map, List.length_map]
  have h0 : es.filter ((inspect ".") ∘ fun e => ⟨"WARNING", renderX e⟩) = es := by
    apply List.filter_eq_self.mpr
    intro e _
    simp [inspect, level_is_warning, (category_of_rendered e).2.2.1]
  have hu : es.filter ((inspect Gen.includeKindUser) ∘ fun e => ⟨"WARNING", renderX e⟩) =
      es.filter fun e => e.kind == .userInclude := by
    apply List.filter_congr
    intro e he
    simp [inspect, level_is_warning, (category_of_rendered e).1 (hU e he)]
  have hs : es.filter ((inspect Gen.includeKindSystem) ∘ fun e => ⟨"WARNING", renderX e⟩) =
      es.filter fun e => e.kind == .systemInclude := by
    apply List.filter_congr
    intro e he
    simp [inspect, level_is_warning, (category_of_rendered e).2.1 (hS e he)]
  rw [h0, hu, hs]

example : counts (recordsOfX evsEx) = [7, 1, 1] := by decide

/-- **Finding D30** on the exact messages (the complement of the side condition): the user-include warning for a
file under a directory called "system include" violates `fieldsFree` and is counted in the system total too -/
theorem d30_witness_rendered :
    ∃ e : Event, fieldsFree Gen.includeKindSystem e = false ∧ e.kind = .userInclude ∧
      counts (recordsOfX [e]) = [1, 1, 1] :=
  ⟨{ kind := .userInclude, file := "/r/system include/a.c", line := 1, name := "x.h", spelling := "#include \"x.h\"" },
   by decide, rfl, by decide⟩

/-! ## render_injective_on_fields -/

/-- the fields of an event its message is meant to identify -/
def keyFields (e : Event) : String × Nat × Nat × String :=
  match e.kind with
  | .userInclude | .systemInclude => (e.file, e.line, 0, e.name)
  | .unknownDirective => (e.file, e.line, e.col, "")
  | _ => ("", 0, 0, e.name)

/-- **Two events of the same kind with different (file, line, column, name) are rendered differently**, under the
decidable side condition `fieldsPlain` (the file holds no `:`, the requested name no `'`: the characters that end
those fields in the message).  Together with `forms_render_differently` (quote vs angle form) no two distinct
source-level occurrences share a message. -/
theorem render_injective_on_fields (e1 e2 : Event) (hk : e1.kind = e2.kind)
    (hp1 : fieldsPlain e1 = true) (hp2 : fieldsPlain e2 = true) (h : renderX e1 = renderX e2) :
    keyFields e1 = keyFields e2 := by
  have key := inj_prefix e1 e2 hk hp1 hp2 h
  unfold keyFields
  rw [← hk]
  cases hk1 : e1.kind <;> rw [hk1] at key
  · obtain ⟨a, _⟩ := key (by decide)
    have f := a .file 0 (by decide); have l := a .line 0 (by decide); have n := a .name 0 (by decide)
    simp only [padLeft_zero, argText] at f l n
    simp [str_inj _ _ f, natL_inj _ _ l, str_inj _ _ n]
  · obtain ⟨a, _⟩ := key (by decide)
    have f := a .file 0 (by decide); have l := a .line 0 (by decide); have n := a .name 0 (by decide)
    simp only [padLeft_zero, argText] at f l n
    simp [str_inj _ _ f, natL_inj _ _ l, str_inj _ _ n]
  · obtain ⟨a, _⟩ := key (by decide)
    have f := a .file 0 (by decide); have l := a .line 0 (by decide); have c := a .col 0 (by decide)
    simp only [padLeft_zero, argText] at f l c
    simp [str_inj _ _ f, natL_inj _ _ l, natL_inj _ _ c]
  · obtain ⟨_, r⟩ := key (by decide)
    have n : e1.name.toList = e2.name.toList := by simpa [renderT, pieceText, padLeft_zero, argText, instKind, template, Gen.tmplMissing, sepPrefixLen] using r
    simp [str_inj _ _ n]
  · obtain ⟨a, _⟩ := key (by decide)
    have n := a .name 0 (by decide)
    simp only [padLeft_zero, argText] at n
    simp [str_inj _ _ n]
  · obtain ⟨a, _⟩ := key (by decide)
    have n := a .name 0 (by decide)
    simp only [padLeft_zero, argText] at n
    simp [str_inj _ _ n]
  · obtain ⟨a, _⟩ := key (by decide)
    have n := a .name 0 (by decide)
    simp only [padLeft_zero, argText] at n
    simp [str_inj _ _ n]

/-- non-vacuity: ordinary events satisfy the side condition; a header name with an apostrophe does not -/
example : ∀ e ∈ evsEx, fieldsPlain e = true := by decide
example : fieldsPlain { kind := .userInclude, file := "/r/a.c", line := 1, name := "it's.h" } = false := by decide

/-! ## the column of the unknown-directive warning -/

/-- the directive events with the column attached are the directive events of `Model/FindInc.lean` (the ones
`C18.unknown_directive_once_per_file` counts): attaching the column changes neither which lines are reported nor
line, name and spelling -/
theorem directives_with_col_agree (text : String) :
    (directivesOfTextC text).map (·.1) = CbiVerif.Inc.directivesOfText text := by
  unfold directivesOfTextC CbiVerif.Inc.directivesOfText
  cases hc : CbiVerif.PP.cFileSource text with
  | error _ => rfl
  | ok r =>
    obtain ⟨lls, _, _⟩ := r
    simp only [List.map_filterMap]
    congr 1
    funext ll
    split <;> simp [Option.map_map, Function.comp_def]

end CbiVerif.C18Msg
