import Std.Data.String.ToNat
import CbiVerif.Lemmas.WarnMsg
/-! Injectivity of template rendering: placeholders that are each followed by a separating literal character which the
placeholder's text cannot contain are determined by the rendered text. -/
namespace CbiVerif.WarnMsg
open CbiVerif.Warn CbiVerif.WarnTmpl

theorem split_unique (a a' r r' : List Char) (c : Char) (ha : c ∉ a) (ha' : c ∉ a')
    (h : a ++ c :: r = a' ++ c :: r') : a = a' ∧ r = r' := by
  induction a generalizing a' with
  | nil =>
    cases a' with
    | nil => simpa using h
    | cons y ys =>
      simp only [List.nil_append, List.cons_append, List.cons.injEq] at h
      exact absurd (by simp [h.1]) ha'
  | cons x xs ih =>
    cases a' with
    | nil =>
      simp only [List.nil_append, List.cons_append, List.cons.injEq] at h
      exact absurd (by simp [h.1]) ha
    | cons y ys =>
      simp only [List.cons_append, List.cons.injEq] at h
      obtain ⟨h1, h2⟩ := ih ys (fun hm => ha (by simp [hm])) (fun hm => ha' (by simp [hm])) h.2
      exact ⟨by rw [h.1, h1], h2⟩

theorem natL_digits (n : Nat) (c : Char) (h : c ∈ natL n) : c.isDigit = true := by
  have : natL n = Nat.toDigits 10 n := by
    show (Nat.repr n).toList = _
    exact Nat.toList_repr
  rw [this] at h
  exact Nat.isDigit_of_mem_toDigits (by decide) (by decide) h

theorem str_inj (a b : String) (h : a.toList = b.toList) : a = b := by
  have := congrArg String.ofList h
  simpa only [String.ofList_toList] using this

theorem natL_inj (a b : Nat) (h : natL a = natL b) : a = b :=
  Nat.repr_injective (str_inj _ _ h)

/-- the separator accepted by `sepFor` does not occur in the text of the placeholder -/
theorem sepFor_sound (a : Arg) (w : Nat) (c : Char) (e : Event) (h : sepFor a w c = true) (hp : fieldsPlain e = true) :
    c ∉ padLeft w (argText e a) := by
  simp only [fieldsPlain, Bool.and_eq_true, Bool.not_eq_true', List.contains_eq_mem, decide_eq_false_iff_not] at hp
  cases a <;> simp only [sepFor, Bool.and_eq_true, beq_iff_eq, Bool.false_eq_true, Bool.not_eq_true'] at h
  · obtain ⟨hw, hc⟩ := h; subst hw; subst hc; simpa [padLeft_zero, argText] using hp.1
  · obtain ⟨hw, hc⟩ := h; subst hw
    intro hm
    have := natL_digits e.line c (by simpa [padLeft_zero, argText] using hm)
    simp [this] at hc
  · obtain ⟨hw, hc⟩ := h; subst hw
    intro hm
    have := natL_digits e.col c (by simpa [padLeft_zero, argText] using hm)
    simp [this] at hc
  · obtain ⟨hw, hc⟩ := h; subst hw; subst hc; simpa [padLeft_zero, argText] using hp.2

/-- **generic injectivity**: a template accepted by `sepsOK`, rendered for two events with plain fields and
followed by arbitrary rests, determines the text of each of its placeholders and the rest -/
theorem sep_inj : (t : List Piece) → (e e' : Event) → sepsOK t = true → fieldsPlain e = true → fieldsPlain e' = true →
    (R R' : List Char) → renderT t e ++ R = renderT t e' ++ R' →
    (∀ a w, Piece.arg a w ∈ t → padLeft w (argText e a) = padLeft w (argText e' a)) ∧ R = R'
  | [], _, _, _, _, _, R, R', h => ⟨by simp, by simpa [renderT] using h⟩
  | .lit s :: t, e, e', hs, hp, hp', R, R', h => by
    rw [renderT_cons, renderT_cons] at h
    simp only [pieceText, List.append_assoc] at h
    have h' := List.append_cancel_left h
    obtain ⟨h1, h2⟩ := sep_inj t e e' (by simpa [sepsOK] using hs) hp hp' R R' h'
    exact ⟨fun a w hm => h1 a w (by simpa using hm), h2⟩
  | .arg a w :: .lit s :: t, e, e', hs, hp, hp', R, R', h => by
    simp only [sepsOK, Bool.and_eq_true] at hs
    obtain ⟨hsep, hrest⟩ := hs
    cases hsl : s.toList with
    | nil => simp [hsl] at hsep
    | cons c s' =>
      simp only [hsl] at hsep
      rw [renderT_cons, renderT_cons, renderT_cons, renderT_cons] at h
      simp only [pieceText, hsl, List.append_assoc, List.cons_append] at h
      obtain ⟨h1, h2⟩ := split_unique _ _ _ _ c (sepFor_sound a w c e hsep hp) (sepFor_sound a w c e' hsep hp') h
      have h3 := List.append_cancel_left h2
      obtain ⟨h4, h5⟩ := sep_inj t e e' hrest hp hp' R R' h3
      refine ⟨?_, h5⟩
      intro a2 w2 hm
      simp only [List.mem_cons, Piece.arg.injEq, reduceCtorEq, false_or] at hm
      rcases hm with ⟨ha, hw⟩ | hm
      · subst ha; subst hw; exact h1
      · exact h4 a2 w2 hm
  | [.arg _ _], _, _, hs, _, _, _, _, _ => by simp [sepsOK] at hs
  | .arg _ _ :: .arg _ _ :: _, _, _, hs, _, _, _, _, _ => by simp [sepsOK] at hs

/-- once the kind is fixed the `{kind}` placeholder is text -/
theorem renderT_instKind (t : List Piece) (e : Event) : renderT (instKind e.kind t) e = renderT t e := by
  induction t with
  | nil => rfl
  | cons pc t ih =>
    cases pc with
    | lit s => simp [instKind, renderT_cons, ih]
    | arg a w =>
      cases a with
      | kind =>
        cases w with
        | zero => simp [instKind, renderT_cons, ih, pieceText, padLeft_zero, argText]
        | succ n => simp [instKind, renderT_cons, ih]
      | _ => simp [instKind, renderT_cons, ih]

/-- two events of the same kind with plain fields and the same message agree on every placeholder of the
well-separated prefix of their template, and on the rendering of the rest -/
theorem inj_prefix (e1 e2 : Event) (hk : e1.kind = e2.kind) (hp1 : fieldsPlain e1 = true) (hp2 : fieldsPlain e2 = true)
    (h : renderX e1 = renderX e2)
    (hs : sepsOK ((instKind e1.kind (template e1.kind)).take (sepPrefixLen (instKind e1.kind (template e1.kind)))) = true) :
    (∀ a w, Piece.arg a w ∈ (instKind e1.kind (template e1.kind)).take (sepPrefixLen (instKind e1.kind (template e1.kind))) →
        padLeft w (argText e1 a) = padLeft w (argText e2 a)) ∧
    renderT ((instKind e1.kind (template e1.kind)).drop (sepPrefixLen (instKind e1.kind (template e1.kind)))) e1 =
      renderT ((instKind e1.kind (template e1.kind)).drop (sepPrefixLen (instKind e1.kind (template e1.kind)))) e2 := by
  have h1 : renderX e1 = renderT (instKind e1.kind (template e1.kind)) e1 := (renderT_instKind _ e1).symm
  have h2 : renderX e2 = renderT (instKind e1.kind (template e1.kind)) e2 := by
    unfold renderX; rw [hk]; exact (renderT_instKind _ e2).symm
  rw [h1, h2] at h
  have hsplit : ∀ (T : List Piece) (n : Nat) (e : Event), renderT T e = renderT (T.take n) e ++ renderT (T.drop n) e := by
    intro T n e
    rw [← renderT_append, List.take_append_drop]
  rw [hsplit _ (sepPrefixLen (instKind e1.kind (template e1.kind))) e1,
    hsplit _ (sepPrefixLen (instKind e1.kind (template e1.kind))) e2] at h
  exact sep_inj _ e1 e2 hs hp1 hp2 _ _ h

end CbiVerif.WarnMsg
