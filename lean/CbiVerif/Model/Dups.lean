/-! # C16 — executable model of `codebasin.report.find_duplicates`

Core Lean only (linked into the native driver).

```python
possible_matches = {}
for path in codebase:                      # members only, enumeration order
    path = Path(path)
    if path.is_symlink(): continue
    digest = hashlib.file_digest(open(path,"rb"), "sha512").hexdigest()
    possible_matches.setdefault(digest, set()).add(path)       # dict: insertion order; value: a SET of paths
confirmed_matches = []
for digest, path_set in possible_matches.items():
    if len(path_set) == 1: continue
    remaining = path_set.copy()
    while len(remaining) > 1:
        first = remaining.pop()                                # arbitrary element
        matches = {first} | {p for p in remaining if filecmp.cmp(first, p, shallow=False)}
        remaining.difference_update(matches)
        if len(matches) > 1: confirmed_matches.append(matches)
return confirmed_matches
```

* the input is the list of enumerated files `(path, isSymlink, isMember, content)` in enumeration order
  (a path may be enumerated more than once: overlapping code-base directories);
* `hash : C → H` is an ARBITRARY function of the content (sha512 is one instance; a constant is another);
* `choose : List F → Nat` is an ARBITRARY strategy for `set.pop()` (index into the remaining files, taken
  modulo their number);
* `filecmp.cmp(a, b, shallow=False)` is modelled as equality of the contents.
-/
namespace CbiVerif.Dups

/-- one enumerated file -/
structure File (C : Type) where
  path : String
  isSymlink : Bool
  isMember : Bool
  content : C
deriving DecidableEq, Repr

/-- `for path in codebase` yields members only; `if path.is_symlink(): continue`. -/
def File.eligible {C : Type} (f : File C) : Bool := f.isMember && !f.isSymlink

section Generic
variable {F K C H : Type} [DecidableEq K] [DecidableEq C] [DecidableEq H]

/-- set semantics of `path_set.add(path)`: keep the first element for every key, in order;
    `seen` are the keys already present. -/
def dedupBy (key : F → K) (seen : List K) : List F → List F
  | [] => []
  | f :: fs => if key f ∈ seen then dedupBy key seen fs else f :: dedupBy key (key f :: seen) fs

/-- `remaining.pop()`: removes and returns an arbitrary element, here the one at index
    `choose remaining % |remaining|`; `none` iff `remaining` is empty. -/
def pop (choose : List F → Nat) (l : List F) : Option (F × List F) :=
  match l.drop (choose l % l.length) with
  | [] => none
  | x :: tl => some (x, l.take (choose l % l.length) ++ tl)

/-- the confirmation loop over one hash bucket (`fuel` bounds the number of iterations; the bucket size suffices). -/
def confirm (content : F → C) (choose : List F → Nat) : (fuel : Nat) → List F → List (List F)
  | 0, _ => []
  | n+1, remaining =>
    if remaining.length ≤ 1 then [] else            -- `while len(remaining) > 1`
    match pop choose remaining with
    | none => []
    | some (first, rest) =>
      let matches_ := first :: rest.filter (fun p => content p == content first)
      let remaining' := rest.filter (fun p => !(content p == content first))
      if matches_.length > 1 then matches_ :: confirm content choose n remaining'
      else confirm content choose n remaining'

/-- the digests in insertion order of `possible_matches` -/
def digests (content : F → C) (hash : C → H) (files : List F) : List H :=
  dedupBy id [] (files.map fun f => hash (content f))

/-- bucket by `hash ∘ content` (dict in insertion order), confirm inside buckets with more than one file -/
def findDups (content : F → C) (hash : C → H) (choose : List F → Nat) (files : List F) : List (List F) :=
  (digests content hash files).flatMap fun h =>
    let bucket := files.filter (fun f => hash (content f) == h)
    if bucket.length > 1 then confirm content choose bucket.length bucket else []

end Generic

variable {C H : Type} [DecidableEq C] [DecidableEq H]

/-- the files that reach the hash table: regular (non-symlink) members, each path once -/
def candidates (files : List (File C)) : List (File C) :=
  dedupBy File.path [] (files.filter File.eligible)

/-- `find_duplicates(codebase)`: the list of confirmed groups -/
def findDuplicates (hash : C → H) (choose : List (File C) → Nat) (files : List (File C)) :
    List (List (File C)) :=
  findDups File.content hash choose (candidates files)

end CbiVerif.Dups
