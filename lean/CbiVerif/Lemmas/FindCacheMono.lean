import CbiVerif.Lemmas.FindCache
/-!
Helper lemmas for C08: in a file system all of whose files belong to ONE language class (by
extension), no run of the engine of `Model/Exclude.lean` ever logs a language-mixing event, and every
cached tree is recorded under that class.  Hence the parse cache is literally `Transparent` there.
-/
namespace CbiVerif.FindCache
open CbiVerif.PP CbiVerif.FindFold CbiVerif.Exclude

/-- every file has extension class `cl0`, or has no extension class and does not parse at all
(for `semC fs`: does not exist) -/
def OneClass (S : Sem) (cl0 : LClass) : Prop :=
  ∀ g, S.extClass g = some cl0 ∨ (S.extClass g = none ∧ ∀ cl, ∃ e, S.parseAs cl g = .error e)

/-- every cached tree is recorded under class `cl0` -/
def Mono (cl0 : LClass) (c : Cache) : Prop := ∀ g cl t, (g, cl, t) ∈ c → cl = cl0

/-- invariant of the monolingual case -/
def InvMono (S : Sem) (cl0 : LClass) (c : Cache) : Prop := Inv S c ∧ Mono cl0 c

theorem Mono.nil (cl0 : LClass) : Mono cl0 [] := by intro g cl t h; cases h

theorem Mono.snoc {cl0 : LClass} {c : Cache} {g : String} {t : Parsed} (h : Mono cl0 c) :
    Mono cl0 (c ++ [(g, cl0, t)]) := by
  intro g' cl' t' hm
  rcases List.mem_append.mp hm with hm | hm
  · exact h _ _ _ hm
  · simp at hm; exact hm.2.1

/-- the class handed down is `cl0` or absent -/
def InhOK (cl0 : LClass) (inh : Option LClass) : Prop := inh = none ∨ inh = some cl0

theorem ext_of_parses {S : Sem} {cl0 : LClass} (hS : OneClass S cl0) {g : String} {cl : LClass} {t : Parsed}
    (hp : S.parseAs cl g = .ok t) : S.extClass g = some cl0 := by
  rcases hS g with h | ⟨_, h⟩
  · exact h
  · obtain ⟨e, he⟩ := h cl; rw [hp] at he; cases he

theorem enter_mono {S : Sem} {cl0 : LClass} (hS : OneClass S cl0) (w : XW) (g : String)
    (inh : Option LClass) (hI : InvMono S cl0 w.cache) (hinh : InhOK cl0 inh) :
    (S.enter w g inh).1.mixed = w.mixed ∧ InvMono S cl0 (S.enter w g inh).1.cache ∧
    ∀ cl2 t, (S.enter w g inh).2 = some (cl2, t) → cl2 = cl0 := by
  cases hl : w.cache.look g with
  | some x =>
    obtain ⟨cl, t⟩ := x
    rw [enter_cached hl]
    have hcl : cl = cl0 := hI.2 _ _ _ (look_mem hl)
    have hx := ext_of_parses hS (hI.1 _ _ _ (look_mem hl))
    refine ⟨?_, hI, fun cl2 t2 h => ?_⟩
    · simp [Sem.mixOf, Sem.refClass, hx, hcl]
    · simp only [Option.some.injEq, Prod.mk.injEq] at h; rw [← h.1]; exact hcl
  | none =>
    cases hc : S.inhOrExt g inh with
    | none =>
      rw [enter_nolang hl hc]
      exact ⟨rfl, hI, fun cl2 t2 h => by cases h⟩
    | some cl =>
      -- the class used is cl0, and so is the reference class
      have hcl : cl = cl0 ∧ S.refClass g inh = some cl0 := by
        rcases hinh with rfl | rfl
        · have hx : S.extClass g = some cl := by simpa [Sem.inhOrExt] using hc
          rcases hS g with h | ⟨h, _⟩
          · rw [h] at hx; exact ⟨(Option.some.inj hx).symm, by simp [Sem.refClass, h]⟩
          · rw [h] at hx; cases hx
        · have : cl = cl0 := by simpa [Sem.inhOrExt] using hc.symm
          refine ⟨this, ?_⟩
          rcases hS g with h | ⟨h, _⟩
          · simp [Sem.refClass, h]
          · simp [Sem.refClass, h]
      obtain ⟨rfl, href⟩ := hcl
      cases hp : S.parseAs cl g with
      | error e =>
        rw [enter_err hl hc hp]
        refine ⟨?_, hI, fun cl2 t2 h => by cases h⟩
        simp [Sem.mixOf, href]
      | ok t =>
        rw [enter_ok hl hc hp]
        refine ⟨?_, ⟨hI.1.snoc hp, hI.2.snoc⟩, fun cl2 t2 h => ?_⟩
        · simp [Sem.mixOf, href]
        · simp only [Option.some.injEq, Prod.mk.injEq] at h; exact h.1.symm

/-- what a run of the engine keeps in the monolingual case -/
def Keeps (S : Sem) (cl0 : LClass) (w w' : XW) : Prop :=
  w'.mixed = w.mixed ∧ InvMono S cl0 w'.cache

theorem Keeps.refl {S : Sem} {cl0 : LClass} {w : XW} (h : InvMono S cl0 w.cache) : Keeps S cl0 w w := ⟨rfl, h⟩

theorem Keeps.trans {S : Sem} {cl0 : LClass} {a b c : XW} (h1 : Keeps S cl0 a b) (h2 : Keeps S cl0 b c) :
    Keeps S cl0 a c := ⟨h2.1.trans h1.1, h2.2⟩

theorem mono_all (S : Sem) (cl0 : LClass) (hS : OneClass S cl0) : ∀ n,
    (∀ file t w, InvMono S cl0 w.cache → Keeps S cl0 w (assocTree S n file cl0 t w)) ∧
    (∀ file nodes w tr, InvMono S cl0 w.cache → Keeps S cl0 w (visit S n file cl0 nodes w tr)) ∧
    (∀ file nodes w ts, InvMono S cl0 w.cache → Keeps S cl0 w (visitList S n file cl0 nodes w ts)) := by
  intro n
  induction n with
  | zero =>
    refine ⟨?_, ?_, ?_⟩
    · intro file t w hI; simp only [assocTree]; exact ⟨rfl, hI⟩
    · intro file nodes w tr hI; simp only [visit]; exact ⟨rfl, hI⟩
    · intro file nodes w ts hI
      cases ts with
      | nil => simp only [visitList]; exact Keeps.refl hI
      | cons t ts => simp only [visitList]; exact ⟨rfl, hI⟩
  | succ n ih =>
    obtain ⟨ihA, ihV, ihL⟩ := ih
    refine ⟨?_, ?_, ?_⟩
    · intro file t w hI
      obtain ⟨nodes, trees⟩ := t
      simp only [assocTree]
      have h := ihL file nodes { w with loc := { w.loc with taken := [] } } trees hI
      exact ⟨h.1, h.2⟩
    · intro file nodes w tr hI
      obtain ⟨idx, kids⟩ := tr
      simp only [visit]
      cases herr : w.loc.err with
      | some e => simp only []; exact Keeps.refl hI
      | none =>
        simp only []
        cases hstep : S.step file idx (nodes[idx]!) w.loc with
        | mk loc act =>
          cases act with
          | stay => simp only []; exact ⟨rfl, hI⟩
          | descend =>
            simp only []
            have h := ihL file nodes { w with loc := loc } kids hI
            exact ⟨h.1, h.2⟩
          | incl g =>
            simp only []
            obtain ⟨hm, hI1, hcl⟩ := enter_mono hS { w with loc := loc } g (some cl0) hI (Or.inr rfl)
            cases hr : (S.enter { w with loc := loc } g (some cl0)) with
            | mk w1 r =>
              rw [hr] at hm hI1 hcl
              simp only [] at hm hI1 hcl
              cases r with
              | none => simp only []; exact ⟨hm, hI1⟩
              | some ct =>
                obtain ⟨cl2, t⟩ := ct
                simp only []
                have : cl2 = cl0 := hcl cl2 t rfl
                subst this
                have hA := ihA g t w1 hI1
                exact ⟨hA.1.trans hm, hA.2⟩
    · intro file nodes w ts hI
      cases ts with
      | nil => simp only [visitList]; exact Keeps.refl hI
      | cons t ts =>
        simp only [visitList]
        have hV := ihV file nodes w t hI
        exact hV.trans (ihL file nodes _ ts hV.2)

theorem mono_forced (S : Sem) (cl0 : LClass) (hS : OneClass S cl0) (n : Nat) (dir : String) :
    ∀ (incs : List String) (w : XW), InvMono S cl0 w.cache → Keeps S cl0 w (runForced S n dir incs w) := by
  intro incs
  induction incs with
  | nil => intro w hI; simp only [runForced]; exact Keeps.refl hI
  | cons inc rest ih =>
    intro w hI
    obtain ⟨c, m, a, ws, er, pl, tk⟩ := w
    simp only [runForced]
    cases er with
    | some e => simp only []; exact Keeps.refl hI
    | none =>
      simp only []
      cases hf : S.findInc pl inc dir with
      | mk found p2 =>
        cases found with
        | none =>
          simp only []
          have h := ih ⟨c, m, ⟨a, ws, none, p2, tk⟩⟩ hI
          exact ⟨h.1, h.2⟩
        | some f =>
          simp only []
          obtain ⟨hm, hI1, hcl⟩ := enter_mono hS ⟨c, m, ⟨a, ws, none, p2, tk⟩⟩ f none hI (Or.inl rfl)
          cases hr : (S.enter ⟨c, m, ⟨a, ws, none, p2, tk⟩⟩ f none) with
          | mk w1 r =>
            rw [hr] at hm hI1 hcl
            simp only [] at hm hI1 hcl
            cases r with
            | none => simp only []; exact ⟨hm, hI1⟩
            | some ct =>
              obtain ⟨cl2, t⟩ := ct
              simp only []
              have : cl2 = cl0 := hcl cl2 t rfl
              subst this
              have hA := (mono_all S cl2 hS n).1 f t w1 hI1
              have hF := ih _ hA.2
              exact ⟨hF.1.trans (hA.1.trans hm), hF.2⟩

theorem mono_entry (S : Sem) (cl0 : LClass) (hS : OneClass S cl0) (n : Nat) (pname : String) (e : Entry)
    (w : XW) (hI : InvMono S cl0 w.cache) : Keeps S cl0 w (runEntry S n pname e w) := by
  obtain ⟨c, m, a, ws, er, pl, tk⟩ := w
  simp only [runEntry]
  cases er with
  | some er => simp only []; exact Keeps.refl hI
  | none =>
    simp only []
    cases hp : S.mkPlat pname e with
    | error er => simp only []; exact ⟨rfl, hI⟩
    | ok plat =>
      simp only []
      have hF := mono_forced S cl0 hS n (dirname e.file) e.includeFiles ⟨c, m, ⟨a, ws, none, plat, []⟩⟩ hI
      generalize runForced S n (dirname e.file) e.includeFiles ⟨c, m, ⟨a, ws, none, plat, []⟩⟩ = wf at hF ⊢
      have hF' : Keeps S cl0 ⟨c, m, ⟨a, ws, none, pl, tk⟩⟩ wf := ⟨hF.1, hF.2⟩
      cases herr2 : wf.loc.err with
      | some e2 => simp only []; exact hF'
      | none =>
        simp only []
        obtain ⟨hm, hI1, hcl⟩ := enter_mono hS wf e.file none hF.2 (Or.inl rfl)
        cases hr : (S.enter wf e.file none) with
        | mk w1 r =>
          rw [hr] at hm hI1 hcl
          simp only [] at hm hI1 hcl
          cases r with
          | none => simp only []; exact hF'.trans ⟨hm, hI1⟩
          | some ct =>
            obtain ⟨cl2, t⟩ := ct
            simp only []
            have : cl2 = cl0 := hcl cl2 t rfl
            subst this
            have hA := (mono_all S cl2 hS n).1 e.file t w1 hI1
            exact hF'.trans ⟨hA.1.trans hm, hA.2⟩

/-- in a one-class file system no step is ever flagged and the monolingual invariant is kept -/
theorem mono_step (S : Sem) (cl0 : LClass) (hS : OneClass S cl0) (n : Nat) (c : Cache) (e : Entry)
    (hI : InvMono S cl0 c) : mixedStep S n c e = false ∧ InvMono S cl0 (entryX S n c e).cache := by
  have h := mono_entry S cl0 hS n "" e { cache := c } hI
  refine ⟨?_, h.2⟩
  have hm : (entryX S n c e).mixed = [] := h.1
  simp [mixedStep, hm]

/-- **literal transparency of the parse cache in a one-class file system** -/
theorem cstep_transparent_mono (S : Sem) (cl0 : LClass) (hS : OneClass S cl0) (n : Nat) :
    Transparent (InvMono S cl0) (cstep S n) (analyse S n) := by
  intro c e hI
  obtain ⟨hflag, hI'⟩ := mono_step S cl0 hS n c e hI
  obtain ⟨_, hT⟩ := cstep_transparent_unless S n c e hI.1
  have h2 := hT hflag
  cases hst : cstep S n c e with
  | error er => rw [hst] at h2; exact h2
  | ok os =>
    obtain ⟨o, c'⟩ := os
    rw [hst] at h2
    refine ⟨h2, ?_⟩
    rw [(cstep_ok hst).1]
    exact hI'

/-- the pre-parse leaves a monolingual cache in a one-class file system -/
theorem prep_invMono (S : Sem) (cl0 : LClass) (hS : OneClass S cl0) (cb : List String) (cfg : Config Entry)
    (hpre : (prep S cb cfg).loc.err = none) : InvMono S cl0 (prep S cb cfg).cache := by
  obtain ⟨hI, hB, _⟩ :=
    preparse_spec S (cb ++ entryFiles cfg) {} (Inv.nil S) (fun g cl t h => by cases h) hpre
  refine ⟨hI, fun g cl t hm => ?_⟩
  have hx := hB g cl t hm
  have hx0 := ext_of_parses hS (hI g cl t hm)
  rw [hx0] at hx
  exact (Option.some.inj hx).symm

end CbiVerif.FindCache
