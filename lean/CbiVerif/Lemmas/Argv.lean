import CbiVerif.Model.Argparse
import CbiVerif.Spec.Extract
/-! C11 helper lemmas: per-argument classification lemmas of the argparse model on the generated table. -/
set_option linter.unusedSimpArgs false
namespace CbiVerif.ArgvLemmas
open CbiVerif.Argparse CbiVerif.Extract

instance instDecEqExcept {ε α : Type} [DecidableEq ε] [DecidableEq α] : DecidableEq (Except ε α)
  | .ok a, .ok b => if h : a = b then isTrue (h ▸ rfl) else isFalse (fun e => by cases e; exact h rfl)
  | .error a, .error b => if h : a = b then isTrue (h ▸ rfl) else isFalse (fun e => by cases e; exact h rfl)
  | .ok _, .error _ => isFalse (by intro e; cases e)
  | .error _, .ok _ => isFalse (by intro e; cases e)

def oD : Opt := ⟨['-','D'], .value (.append .defines)⟩
def oU : Opt := ⟨['-','U'], .value (.undef .defines)⟩
def oI : Opt := ⟨['-','I'], .value (.append .includePaths)⟩
def oSys : Opt := ⟨['-','i','s','y','s','t','e','m'], .value (.append .systemPaths)⟩
def oInc : Opt := ⟨['-','i','n','c','l','u','d','e'], .value (.append .includeFiles)⟩
def oO : Opt := ⟨['-','O'], .ignoreOpt⟩
def oo : Opt := ⟨['-','o'], .ignoreReq⟩
def og : Opt := ⟨['-','g'], .ignoreOpt⟩
def oc : Opt := ⟨['-','c'], .ignoreOpt⟩

/-- the table the proofs are about -/
def T : List Opt := [oD, oU, oI, oSys, oInc, oO, oo, og, oc]

/-- the generated table (re-extracted from the code on every run) is the one the proofs are about -/
theorem table_eq : table = T := by decide

theorem settings_ok : settingsOK = true := by decide

theorem lookup_T (s : List Char) : lookup T s =
    if ['-','D'] = s then some oD else if ['-','U'] = s then some oU else if ['-','I'] = s then some oI
    else if ['-','i','s','y','s','t','e','m'] = s then some oSys
    else if ['-','i','n','c','l','u','d','e'] = s then some oInc
    else if ['-','O'] = s then some oO else if ['-','o'] = s then some oo
    else if ['-','g'] = s then some og else if ['-','c'] = s then some oc else none := by
  simp [lookup, T, oD, oU, oI, oSys, oInc, oO, oo, og, oc]


theorem splitEq_spec : ∀ (x l r : List Char), splitEq x = some (l, r) → x = l ++ '=' :: r
  | [], l, r, h => by simp [splitEq] at h
  | c :: cs, l, r, h => by
    simp only [splitEq] at h
    by_cases hc : c = '='
    · simp [hc] at h; obtain ⟨rfl, rfl⟩ := h; simp [hc]
    · simp only [hc, if_false] at h
      cases hs : splitEq cs with
      | none => simp [hs] at h
      | some p =>
        obtain ⟨l', r'⟩ := p
        simp [hs] at h
        obtain ⟨rfl, rfl⟩ := h
        have := splitEq_spec cs l' r' hs
        simp [this]

/-- no option string has the second character `c` -/
theorem lookup_none_second (c : Char) (l : List Char)
    (hD : c ≠ 'D') (hU : c ≠ 'U') (hI : c ≠ 'I') (hO : c ≠ 'O') (ho : c ≠ 'o') (hg : c ≠ 'g') (hc : c ≠ 'c') (hi : c ≠ 'i') :
    lookup T ('-' :: c :: l) = none := by
  rw [lookup_T]
  simp [Ne.symm hD, Ne.symm hU, Ne.symm hI, Ne.symm hO, Ne.symm ho, Ne.symm hg, Ne.symm hc, Ne.symm hi]

theorem lookup_dash : lookup T ['-'] = none := by decide


theorem viewOf_ne (a : List Char) (hne : a ≠ ['-','-']) : viewOf T a = viewOfCls (classify T a) := by
  unfold viewOf; simp [hne]

theorem fallback_cases (t : List Opt) (a : List Char) : fallback t a = .positional ∨ fallback t a = .unknown := by
  unfold fallback
  split
  · exact Or.inl rfl
  · split
    · exact Or.inl rfl
    · exact Or.inr rfl

/-- outcome of `classify` once exact match, `=` split and prefix matching all fail -/
theorem classify_nomatch (c : Char) (rest : List Char)
    (h2 : lookup T ('-' :: c :: rest) = none)
    (h1 : ∀ l r, splitEq ('-' :: c :: rest) = some (l, r) → lookup T l = none)
    (h3 : c = '-' ∨ tuples T ('-' :: c :: rest) = []) :
    classify T ('-' :: c :: rest) = .positional ∨ classify T ('-' :: c :: rest) = .unknown := by
  have hv : viaEq T ('-' :: c :: rest) = none := by
    unfold viaEq
    cases hs : splitEq ('-' :: c :: rest) with
    | none => rfl
    | some p => obtain ⟨l, r⟩ := p; simp [h1 l r hs]
  have ht : (if c = '-' then [] else tuples T ('-' :: c :: rest)) = [] := by
    rcases h3 with h | h
    · simp [h]
    · simp [h]
  unfold classify
  simp only [ne_eq, not_true_eq_false, if_false, h2, ht, hv, pick]
  exact fallback_cases T _


theorem viaEq_none_of (c r : Char) (rs : List Char) (hc : c ≠ '=') (hr : r ≠ '=')
    (hl : ∀ l', lookup T ('-' :: c :: r :: l') = none) : viaEq T ('-' :: c :: r :: rs) = none := by
  unfold viaEq
  have h0 : ('-' : Char) ≠ '=' := by decide
  simp only [splitEq, h0, hc, hr, if_false]
  cases hs : splitEq rs with
  | none => simp
  | some p => obtain ⟨l, r'⟩ := p; simp [hl]

theorem lookup_long (c r : Char) (l : List Char) (hc : c ≠ 'i') : lookup T ('-' :: c :: r :: l) = none := by
  rw [lookup_T]; simp [Ne.symm hc]

/-- shape (ii): `-D` with an attached value that does not start with `=` -/
theorem classify_attD (r : Char) (rs : List Char) (h : r ≠ '=') :
    classify T ('-' :: 'D' :: r :: rs) = .opt oD (some (r :: rs)) := by
  have hl : ∀ l', lookup T ('-' :: 'D' :: r :: l') = none := fun l' => lookup_long 'D' r l' (by decide)
  have hv := viaEq_none_of 'D' r rs (by decide) h hl
  have ht : tuples T ('-' :: 'D' :: r :: rs) = [.opt oD (some (r :: rs))] := by
    simp [tuples, T, oD, oU, oI, oSys, oInc, oO, oo, og, oc]
  unfold classify
  simp [hl rs, hv, ht, pick]

theorem classify_attU (r : Char) (rs : List Char) (h : r ≠ '=') :
    classify T ('-' :: 'U' :: r :: rs) = .opt oU (some (r :: rs)) := by
  have hl : ∀ l', lookup T ('-' :: 'U' :: r :: l') = none := fun l' => lookup_long 'U' r l' (by decide)
  have hv := viaEq_none_of 'U' r rs (by decide) h hl
  have ht : tuples T ('-' :: 'U' :: r :: rs) = [.opt oU (some (r :: rs))] := by
    simp [tuples, T, oD, oU, oI, oSys, oInc, oO, oo, og, oc]
  unfold classify
  simp [hl rs, hv, ht, pick]

theorem classify_attI (r : Char) (rs : List Char) (h : r ≠ '=') :
    classify T ('-' :: 'I' :: r :: rs) = .opt oI (some (r :: rs)) := by
  have hl : ∀ l', lookup T ('-' :: 'I' :: r :: l') = none := fun l' => lookup_long 'I' r l' (by decide)
  have hv := viaEq_none_of 'I' r rs (by decide) h hl
  have ht : tuples T ('-' :: 'I' :: r :: rs) = [.opt oI (some (r :: rs))] := by
    simp [tuples, T, oD, oU, oI, oSys, oInc, oO, oo, og, oc]
  unfold classify
  simp [hl rs, hv, ht, pick]

/-- shape (iii): an ignored short flag with something attached (`-O2`, `-ofile`, `-g3`, `-ccbin`, `-o=x`) -/
theorem classify_ign (c r : Char) (rs : List Char) (o : Opt)
    (hc : (c = 'O' ∧ o = oO) ∨ (c = 'o' ∧ o = oo) ∨ (c = 'g' ∧ o = og) ∨ (c = 'c' ∧ o = oc)) :
    ∃ e, classify T ('-' :: c :: r :: rs) = .opt o (some e) := by
  have hl : ∀ l', lookup T ('-' :: c :: r :: l') = none := by
    intro l'
    rcases hc with ⟨rfl, _⟩ | ⟨rfl, _⟩ | ⟨rfl, _⟩ | ⟨rfl, _⟩ <;> exact lookup_long _ r l' (by decide)
  by_cases hr : r = '='
  · subst hr
    refine ⟨rs, ?_⟩
    have hv : viaEq T ('-' :: c :: '=' :: rs) = some (.opt o (some rs)) := by
      rcases hc with ⟨rfl, rfl⟩ | ⟨rfl, rfl⟩ | ⟨rfl, rfl⟩ | ⟨rfl, rfl⟩ <;>
        simp [viaEq, splitEq, lookup_T, oD, oU, oI, oSys, oInc, oO, oo, og, oc]
    unfold classify
    simp [hl rs, hv]
  · refine ⟨r :: rs, ?_⟩
    have hce : c ≠ '=' := by
      rcases hc with ⟨rfl, _⟩ | ⟨rfl, _⟩ | ⟨rfl, _⟩ | ⟨rfl, _⟩ <;> decide
    have hcd : c ≠ '-' := by
      rcases hc with ⟨rfl, _⟩ | ⟨rfl, _⟩ | ⟨rfl, _⟩ | ⟨rfl, _⟩ <;> decide
    have hv := viaEq_none_of c r rs hce hr hl
    have ht : tuples T ('-' :: c :: r :: rs) = [.opt o (some (r :: rs))] := by
      rcases hc with ⟨rfl, rfl⟩ | ⟨rfl, rfl⟩ | ⟨rfl, rfl⟩ | ⟨rfl, rfl⟩ <;>
        simp [tuples, T, oD, oU, oI, oSys, oInc, oO, oo, og, oc]
    unfold classify
    simp [hl rs, hv, ht, pick, hcd]


theorem stripPrefix_none : ∀ (p a : List Char), p.isPrefixOf a = false → stripPrefix p a = none
  | [], a, h => by simp [List.isPrefixOf] at h
  | _ :: _, [], _ => by simp [stripPrefix]
  | p :: ps, c :: cs, h => by
    simp only [stripPrefix]
    by_cases hpc : p = c
    · subst hpc
      simp only [if_true]
      apply stripPrefix_none ps cs
      simpa [List.isPrefixOf] using h
    · simp [hpc]

theorem stripPrefix_append : ∀ (p r : List Char), stripPrefix p (p ++ r) = some r
  | [], r => by simp [stripPrefix]
  | p :: ps, r => by simp [stripPrefix, stripPrefix_append ps r]

theorem isPrefixOf_append (p r : List Char) : p.isPrefixOf (p ++ r) = true := by
  rw [List.isPrefixOf_iff_prefix]; exact List.prefix_append p r

def sysT : List Char := ['-','i','s','y','s','t','e','m']
def incT : List Char := ['-','i','n','c','l','u','d','e']

/-- shape (iv): an argument related to no option string at all is positional or unknown for the parser and
    `other` for the property -/
theorem unrelated_arg (a : List Char) (c : Char) (rest : List Char) (ha : a = '-' :: c :: rest)
    (hne : a ≠ ['-', '-'])
    (hD : c ≠ 'D') (hU : c ≠ 'U') (hI : c ≠ 'I') (hO : c ≠ 'O') (ho : c ≠ 'o') (hg : c ≠ 'g') (hc : c ≠ 'c')
    (hs1 : sysT.isPrefixOf a = false) (hs2 : a.isPrefixOf sysT = false)
    (hi1 : incT.isPrefixOf a = false) (hi2 : a.isPrefixOf incT = false) :
    (viewOf T a = .positional ∨ viewOf T a = .unknown) ∧ reading a = .other := by
  have hasys : a ≠ sysT := by intro h; rw [h] at hs1; simp [sysT, List.isPrefixOf] at hs1
  have hainc : a ≠ incT := by intro h; rw [h] at hi1; simp [incT, List.isPrefixOf] at hi1
  -- exact match fails
  have h2 : lookup T a = none := by
    rw [lookup_T]
    have e1 : ¬ (['-','D'] = a) := by rw [ha]; simp [Ne.symm hD]
    have e0 : ¬ (['-','U'] = a) := by rw [ha]; simp [Ne.symm hU]
    have e2 : ¬ (['-','I'] = a) := by rw [ha]; simp [Ne.symm hI]
    have e3 : ¬ (['-','O'] = a) := by rw [ha]; simp [Ne.symm hO]
    have e4 : ¬ (['-','o'] = a) := by rw [ha]; simp [Ne.symm ho]
    have e5 : ¬ (['-','g'] = a) := by rw [ha]; simp [Ne.symm hg]
    have e6 : ¬ (['-','c'] = a) := by rw [ha]; simp [Ne.symm hc]
    have e7 : ¬ (['-','i','s','y','s','t','e','m'] = a) := fun h => hasys h.symm
    have e8 : ¬ (['-','i','n','c','l','u','d','e'] = a) := fun h => hainc h.symm
    simp [e0, e1, e2, e3, e4, e5, e6, e7, e8]
  -- the part before the first `=` is no option string either
  have h1 : ∀ l r, splitEq a = some (l, r) → lookup T l = none := by
    intro l r hs
    have hsp := splitEq_spec a l r hs
    rw [lookup_T]
    have e7 : ¬ (['-','i','s','y','s','t','e','m'] = l) := by
      intro h; rw [hsp, ← h] at hs1
      have := isPrefixOf_append sysT ('=' :: r)
      simp only [sysT] at this hs1
      rw [this] at hs1; exact Bool.noConfusion hs1
    have e8 : ¬ (['-','i','n','c','l','u','d','e'] = l) := by
      intro h; rw [hsp, ← h] at hi1
      have := isPrefixOf_append incT ('=' :: r)
      simp only [incT] at this hi1
      rw [this] at hi1; exact Bool.noConfusion hi1
    have short : ∀ x : Char, c ≠ x → ¬ (['-', x] = l) := by
      intro x hx h
      rw [ha, ← h] at hsp
      simp at hsp
      exact hx hsp.1
    simp [short 'D' hD, short 'U' hU, short 'I' hI, short 'O' hO, short 'o' ho, short 'g' hg, short 'c' hc, e7, e8]
  -- no prefix interpretation
  have h3 : c = '-' ∨ tuples T a = [] := by
    by_cases hcd : c = '-'
    · exact Or.inl hcd
    · right
      have htake : a.take 2 = ['-', c] := by rw [ha]; rfl
      have p1 : ∀ x : Char, c ≠ x → a.isPrefixOf ['-', x] = false := by
        intro x hx; rw [ha]
        cases rest <;> simp [List.isPrefixOf, hx]
      simp [tuples, T, oD, oU, oI, oSys, oInc, oO, oo, og, oc, htake, Ne.symm hD, Ne.symm hU, Ne.symm hI, Ne.symm hO, Ne.symm ho,
        Ne.symm hg, Ne.symm hc, p1 'D' hD, p1 'U' hU, p1 'I' hI, p1 'O' hO, p1 'o' ho, p1 'g' hg, p1 'c' hc]
      have hs2' : ¬ a <+: ['-','i','s','y','s','t','e','m'] := by
        rw [← List.isPrefixOf_iff_prefix]; simp only [sysT] at hs2; simp [hs2]
      have hi2' : ¬ a <+: ['-','i','n','c','l','u','d','e'] := by
        rw [← List.isPrefixOf_iff_prefix]; simp only [incT] at hi2; simp [hi2]
      simp [hs2', hi2']
  have hcl := classify_nomatch c rest (ha ▸ h2) (ha ▸ h1) (ha ▸ h3)
  rw [← ha] at hcl
  constructor
  · rw [viewOf_ne a hne]
    rcases hcl with h | h <;> simp [h, viewOfCls]
  · have r1 : stripPrefix ['-','D'] a = none := by rw [ha]; simp [stripPrefix, Ne.symm hD]
    have r0 : stripPrefix ['-','U'] a = none := by rw [ha]; simp [stripPrefix, Ne.symm hU]
    have r2 : stripPrefix ['-','I'] a = none := by rw [ha]; simp [stripPrefix, Ne.symm hI]
    have r3 := stripPrefix_none sysT a hs1
    have r4 := stripPrefix_none incT a hi1
    simp only [sysT, incT] at r3 r4
    simp [reading, readingFrom, allFlags, Flag.text, r0, r1, r2, r3, r4]


/-- the parser action that stands for a flag of the property -/
def actOf : Flag → Act
  | .D => .append .defines | .I => .append .includePaths | .isystem => .append .systemPaths
  | .include => .append .includeFiles | .U => .undef .defines

/-- the parser's view of an argument and the property's reading of it say the same -/
def agree : View → Reading → Bool
  | .positional, .other | .unknown, .other | .ignoreAtt, .other | .ignoreOpt, .other => true
  | .valueAtt d (.str w), .att f w' => decide (d = actOf f) && decide (w = w')
  | _, _ => false

theorem ite_nil {α : Type} (c : Prop) [Decidable c] (t : α) : (if c then [t] else []) = [] ↔ ¬ c := by
  by_cases h : c <;> simp [h]

theorem prefix_facts (p a : List Char) (hne : a ≠ p) (h1 : isProperPrefixOf p a = false)
    (h2 : isProperPrefixOf a p = false) : p.isPrefixOf a = false ∧ a.isPrefixOf p = false := by
  unfold isProperPrefixOf at h1 h2
  constructor
  · cases h : p.isPrefixOf a with
    | false => rfl
    | true =>
      exfalso
      have hp : p <+: a := List.isPrefixOf_iff_prefix.mp h
      have hl : ¬ p.length < a.length := by simpa [h] using h1
      have : p = a := hp.eq_of_length (Nat.le_antisymm hp.length_le (Nat.le_of_not_lt hl))
      exact hne this.symm
  · cases h : a.isPrefixOf p with
    | false => rfl
    | true =>
      exfalso
      have hp : a <+: p := List.isPrefixOf_iff_prefix.mp h
      have hl : ¬ a.length < p.length := by simpa [h] using h2
      have : a = p := hp.eq_of_length (Nat.le_antisymm hp.length_le (Nat.le_of_not_lt hl))
      exact hne this

/-- what `tagsOf1 a = []` says, fact by fact -/
theorem tagsOf1_nil (a : List Char) (h : tagsOf1 a = []) :
    (a ≠ ['-','-'] ∧ a ≠ ['-','D','-','-'] ∧ a ≠ ['-','I','-','-'] ∧ a ≠ ['-','U','-','-']) ∧
    (['-','D','='].isPrefixOf a = false ∧ ['-','I','='].isPrefixOf a = false ∧ ['-','U','='].isPrefixOf a = false) ∧
    (isProperPrefixOf sysT a = false ∧ isProperPrefixOf incT a = false) ∧
    (2 ≤ a.length → isProperPrefixOf a sysT = false ∧ isProperPrefixOf a incT = false) := by
  simp only [tagsOf1, List.append_eq_nil_iff, ite_nil] at h
  obtain ⟨⟨⟨h1, h2⟩, h3⟩, h4⟩ := h
  simp only [Bool.or_eq_true, decide_eq_true_eq, not_or, Extract.ddash, Flag.text, List.cons_append, List.nil_append,
    Bool.and_eq_true, not_and, Bool.not_eq_true, decide_eq_false_iff_not] at h1 h2 h3 h4
  refine ⟨⟨of_decide_eq_false h1.1.1.1, of_decide_eq_false h1.1.1.2, of_decide_eq_false h1.1.2, of_decide_eq_false h1.2⟩,
    ⟨h2.1.1, h2.1.2, h2.2⟩, ⟨h3.1, h3.2⟩, ?_⟩
  intro hl
  have := h4 hl
  exact ⟨this.1, this.2⟩


theorem takesValue_false (a : List Char) (h : takesValue a = false) :
    a ≠ ['-','D'] ∧ a ≠ ['-','I'] ∧ a ≠ sysT ∧ a ≠ incT ∧ a ≠ ['-','U'] ∧ a ≠ ['-','o'] := by
  simp only [takesValue, allFlags, List.any_cons, List.any_nil, Flag.text, dashO, Bool.or_false, Bool.or_eq_false_iff,
    decide_eq_false_iff_not] at h
  obtain ⟨⟨h1, h2, h3, h4, h6⟩, h5⟩ := h
  exact ⟨fun e => (of_decide_eq_false h1) e.symm, fun e => (of_decide_eq_false h2) e.symm, fun e => (of_decide_eq_false h3) e.symm, fun e => (of_decide_eq_false h4) e.symm, fun e => (of_decide_eq_false h6) e.symm, of_decide_eq_false h5⟩

/-- **per-argument lemma**: an argument in flag position that is not a separate-form flag and has none of the
    recorded shapes is seen by the parser exactly as the property reads it -/
theorem agree_single (a : List Char) (h1 : takesValue a = false) (h2 : tagsOf1 a = []) :
    agree (viewOf T a) (reading a) = true := by
  obtain ⟨nD, nI, nS, nN, nU, no⟩ := takesValue_false a h1
  obtain ⟨⟨t1, t2, t3, t2u⟩, ⟨t4, t5, t4u⟩, ⟨t6, t7⟩, t8⟩ := tagsOf1_nil a h2
  cases a with
  | nil => decide
  | cons c0 tl =>
    by_cases hc0 : c0 = '-'
    · subst hc0
      cases tl with
      | nil => decide
      | cons c rest =>
        have hlen : 2 ≤ ('-' :: c :: rest).length := by simp
        obtain ⟨t8a, t8b⟩ := t8 hlen
        obtain ⟨ps1, ps2⟩ := prefix_facts sysT _ nS t6 t8a
        obtain ⟨pi1, pi2⟩ := prefix_facts incT _ nN t7 t8b
        by_cases hD : c = 'D'
        · subst hD
          cases rest with
          | nil => exact absurd rfl nD
          | cons r rs =>
            have hr : r ≠ '=' := by intro h; subst h; simp [List.isPrefixOf] at t4
            have hv : toVal (r :: rs) = .str (r :: rs) := by
              unfold toVal; rw [if_neg]; intro h; apply t2; rw [h]
            rw [viewOf_ne _ t1, classify_attD r rs hr]
            simp [viewOfCls, oD, hv, reading, readingFrom, allFlags, Flag.text, stripPrefix, agree, actOf]
        · by_cases hU : c = 'U'
          · subst hU
            cases rest with
            | nil => exact absurd rfl nU
            | cons r rs =>
              have hr : r ≠ '=' := by intro h; subst h; simp [List.isPrefixOf] at t4u
              have hv : toVal (r :: rs) = .str (r :: rs) := by
                unfold toVal; rw [if_neg]; intro h; apply t2u; rw [h]
              have r3 := stripPrefix_none sysT _ ps1
              have r4 := stripPrefix_none incT _ pi1
              simp only [sysT, incT] at r3 r4
              rw [viewOf_ne _ t1, classify_attU r rs hr]
              simp [viewOfCls, oU, hv, reading, readingFrom, allFlags, Flag.text, stripPrefix, agree, actOf, r3, r4]
          · by_cases hI : c = 'I'
            · subst hI
              cases rest with
              | nil => exact absurd rfl nI
              | cons r rs =>
                have hr : r ≠ '=' := by intro h; subst h; simp [List.isPrefixOf] at t5
                have hv : toVal (r :: rs) = .str (r :: rs) := by
                  unfold toVal; rw [if_neg]; intro h; apply t3; rw [h]
                rw [viewOf_ne _ t1, classify_attI r rs hr]
                simp [viewOfCls, oI, hv, reading, readingFrom, allFlags, Flag.text, stripPrefix, agree, actOf]
            · by_cases hign : c = 'O' ∨ c = 'o' ∨ c = 'g' ∨ c = 'c'
              · have hread : reading ('-' :: c :: rest) = .other := by
                  have r3 := stripPrefix_none sysT _ ps1
                  have r4 := stripPrefix_none incT _ pi1
                  simp only [sysT, incT] at r3 r4
                  have r1 : stripPrefix ['-','D'] ('-' :: c :: rest) = none := by simp [stripPrefix, Ne.symm hD]
                  have r2 : stripPrefix ['-','I'] ('-' :: c :: rest) = none := by simp [stripPrefix, Ne.symm hI]
                  have r0 : stripPrefix ['-','U'] ('-' :: c :: rest) = none := by simp [stripPrefix, Ne.symm hU]
                  simp only [reading, readingFrom, allFlags, Flag.text, r0, r1, r2, r3, r4]
                cases rest with
                | nil =>
                  rcases hign with rfl | rfl | rfl | rfl
                  · decide
                  · exact absurd rfl no
                  · decide
                  · decide
                | cons r rs =>
                  have : ∃ o e, classify T ('-' :: c :: r :: rs) = .opt o (some e) ∧ (o.kind = .ignoreOpt ∨ o.kind = .ignoreReq) := by
                    rcases hign with rfl | rfl | rfl | rfl
                    · obtain ⟨e, he⟩ := classify_ign 'O' r rs oO (Or.inl ⟨rfl, rfl⟩); exact ⟨oO, e, he, Or.inl rfl⟩
                    · obtain ⟨e, he⟩ := classify_ign 'o' r rs oo (Or.inr (Or.inl ⟨rfl, rfl⟩)); exact ⟨oo, e, he, Or.inr rfl⟩
                    · obtain ⟨e, he⟩ := classify_ign 'g' r rs og (Or.inr (Or.inr (Or.inl ⟨rfl, rfl⟩))); exact ⟨og, e, he, Or.inl rfl⟩
                    · obtain ⟨e, he⟩ := classify_ign 'c' r rs oc (Or.inr (Or.inr (Or.inr ⟨rfl, rfl⟩))); exact ⟨oc, e, he, Or.inl rfl⟩
                  obtain ⟨o, e, he, hk⟩ := this
                  rw [viewOf_ne _ t1, he, hread]
                  rcases hk with hk | hk <;> simp [viewOfCls, hk, agree]
              · have hO : c ≠ 'O' := fun h => hign (Or.inl h)
                have ho : c ≠ 'o' := fun h => hign (Or.inr (Or.inl h))
                have hg : c ≠ 'g' := fun h => hign (Or.inr (Or.inr (Or.inl h)))
                have hcc : c ≠ 'c' := fun h => hign (Or.inr (Or.inr (Or.inr h)))
                obtain ⟨hv, hr⟩ := unrelated_arg _ c rest rfl t1 hD hU hI hO ho hg hcc ps1 ps2 pi1 pi2
                rw [hr]
                rcases hv with hv | hv <;> rw [hv] <;> rfl
    · have hv : viewOf T (c0 :: tl) = .positional := by
        unfold viewOf classify; simp [hc0, viewOfCls]
      have hr : reading (c0 :: tl) = .other := by
        simp [reading, readingFrom, allFlags, Flag.text, stripPrefix, Ne.symm hc0]
      rw [hv, hr]; rfl


/-- shape: a value that cannot be mistaken for an option -/
theorem plain_value (v : List Char) (h : plainValue v = true) : viewOf T v = .positional ∧ reading v = .other := by
  cases v with
  | nil => exact ⟨by decide, by decide⟩
  | cons c tl =>
    by_cases hc : c = '-'
    · subst hc
      cases tl with
      | nil => exact ⟨by decide, by decide⟩
      | cons x xs => simp [plainValue] at h
    · constructor
      · unfold viewOf classify; simp [hc, viewOfCls]
      · simp [reading, readingFrom, allFlags, Flag.text, stripPrefix, Ne.symm hc]

/-- shape (i): the exact modelled flags -/
theorem sep_flag (f : Flag) : viewOf T f.text = .valueSep (actOf f) ∧ reading f.text = .sep f := by
  cases f <;> exact ⟨by decide, by decide⟩

theorem dash_o : viewOf T dashO = .ignoreReq ∧ reading dashO = .other := ⟨by decide, by decide⟩

theorem takesValue_true (a : List Char) (h : takesValue a = true) : (∃ f : Flag, a = f.text) ∨ a = dashO := by
  simp only [takesValue, allFlags, List.any_cons, List.any_nil, Bool.or_false, Bool.or_eq_true, decide_eq_true_eq] at h
  rcases h with (h | h | h | h | h) | h
  · exact Or.inl ⟨.D, h.symm⟩
  · exact Or.inl ⟨.I, h.symm⟩
  · exact Or.inl ⟨.isystem, h.symm⟩
  · exact Or.inl ⟨.include, h.symm⟩
  · exact Or.inl ⟨.U, h.symm⟩
  · exact Or.inr h

/-- the model's lists are the spec's lists, as strings -/
def toCfg (l : Lists) : Cfg :=
  ⟨l.defines.map .str, l.userDirs.map .str, l.systemDirs.map .str, l.files.map .str⟩

/-- the code's macro-name rule (stop characters read from `_UndefineAction`) is the property's -/
theorem macroName_eq (d : List Char) : Argparse.macroName d = Extract.macroName d := by
  unfold Argparse.macroName Extract.macroName
  congr 1
  funext c
  simp only [Gen.ArgTable.undefineStops, List.contains_cons, List.contains_nil, Bool.or_false, Bool.not_or]
  rfl

/-- `_UndefineAction` on a list of strings = the property's "cancel the definitions of this macro" -/
theorem undefList_str (v : List Char) : ∀ ds : List (List Char),
    undefList (.str v) (ds.map .str) = some ((surviving ds [v]).map .str)
  | [] => rfl
  | d :: r => by
    simp only [List.map_cons, undefList, undefList_str v r, macroName_eq, Val.str.injEq, surviving, List.filter_cons,
      List.contains_cons, List.contains_nil, Bool.or_false, beq_iff_eq]
    by_cases h : Extract.macroName d = v
    · simp [h]
    · simp [h]

theorem toCfg_apply (l : Lists) (f : Flag) (v : List Char) :
    (toCfg l).apply (actOf f) (.str v) = .ok (toCfg (l.add f v)) := by
  cases f
  case U => simp [toCfg, Cfg.apply, Cfg.get, Cfg.set, Lists.add, actOf, undefList_str]
  all_goals simp [toCfg, Cfg.apply, Cfg.add, Lists.add, actOf]

theorem toCfg_applyIdle (l : Lists) (f : Flag) (v : List Char) :
    applyIdle (toCfg l) (actOf f) (.str v) = .ok (.idle, toCfg (l.add f v)) := by
  simp [applyIdle, toCfg_apply]

/-- what the parser waits for vs. what the property's scan waits for vs. what the class scan waits for -/
inductive Rel : Pend → Option Flag → Bool → Prop
  | idle : Rel .idle none false
  | need (f : Flag) : Rel (.need (actOf f)) (some f) true
  | needIgn : Rel .needIgn none true
  | optIgn : Rel .optIgn none false

theorem step_optIgn (c : Cfg) (a : List Char) : step T .optIgn c a = idleStep (viewOf T a) c := by
  unfold step
  by_cases h : viewOf T a = .positional
  · simp [h, idleStep]
  · simp [h]

/-- one step from the idle state on a command line without recorded shapes -/
theorem idle_step (a : List Char) (rest : List (List Char)) (l : Lists)
    (h : classesFrom false (a :: rest) = []) :
    ∃ p' sp' b' l', idleStep (viewOf T a) (toCfg l) = .ok (p', toCfg l') ∧ Rel p' sp' b' ∧
      classesFrom b' rest = [] ∧ scan none l (a :: rest) = scan sp' l' rest := by
  simp only [classesFrom] at h
  by_cases htv : takesValue a = true
  · simp only [htv, if_true] at h
    rcases takesValue_true a htv with ⟨f, rfl⟩ | rfl
    · obtain ⟨hv, hr⟩ := sep_flag f
      exact ⟨.need (actOf f), some f, true, l, by rw [hv]; rfl, .need f, h, by simp [scan, hr]⟩
    · obtain ⟨hv, hr⟩ := dash_o
      exact ⟨.needIgn, none, true, l, by rw [hv]; rfl, .needIgn, h, by simp [scan, hr]⟩
  · have htv' : takesValue a = false := by simpa using htv
    simp only [htv', Bool.false_eq_true, if_false, List.append_eq_nil_iff] at h
    obtain ⟨h1, h2⟩ := h
    have hag := agree_single a htv' h1
    cases hv : viewOf T a <;> cases hr : reading a <;> simp only [hv, hr, agree] at hag <;>
      first
      | exact absurd hag (by decide)
      | exact ⟨.idle, none, false, l, rfl, .idle, h2, by simp [scan, hr]⟩
      | exact ⟨.optIgn, none, false, l, rfl, .optIgn, h2, by simp [scan, hr]⟩
      | skip
    rename_i d v f w
    cases v with
    | emptyList => simp [agree] at hag
    | str w' =>
      simp only [agree, Bool.and_eq_true, decide_eq_true_eq] at hag
      obtain ⟨rfl, rfl⟩ := hag
      exact ⟨.idle, none, false, l.add f w', by simp [idleStep, toCfg_applyIdle], .idle, h2, by simp [scan, hr]⟩


/-- the consume loop and the property's scan stay in step on a command line without recorded shapes -/
theorem run_eq_scan : ∀ (argv : List (List Char)) (p : Pend) (sp : Option Flag) (b : Bool) (l : Lists),
    Rel p sp b → classesFrom b argv = [] → run T p (toCfg l) argv = .ok (toCfg (scan sp l argv))
  | [], p, sp, b, l, hrel, h => by
    cases hrel <;> simp [classesFrom] at h <;> simp [run, finish, scan]
  | a :: rest, p, sp, b, l, hrel, h => by
    cases hrel with
    | idle =>
      obtain ⟨p', sp', b', l', hs, hrel', hc, hsc⟩ := idle_step a rest l h
      simp only [run, step, hs, hsc]
      exact run_eq_scan rest p' sp' b' l' hrel' hc
    | optIgn =>
      obtain ⟨p', sp', b', l', hs, hrel', hc, hsc⟩ := idle_step a rest l h
      simp only [run, step_optIgn, hs, hsc]
      exact run_eq_scan rest p' sp' b' l' hrel' hc
    | need f =>
      simp only [classesFrom, List.append_eq_nil_iff, ite_nil] at h
      obtain ⟨hp, hc⟩ := h
      have hp' : plainValue a = true := by simpa using hp
      obtain ⟨hv, _⟩ := plain_value a hp'
      simp only [run, step, hv, if_true, toCfg_applyIdle, scan]
      exact run_eq_scan rest .idle none false (l.add f a) .idle hc
    | needIgn =>
      simp only [classesFrom, List.append_eq_nil_iff, ite_nil] at h
      obtain ⟨hp, hc⟩ := h
      have hp' : plainValue a = true := by simpa using hp
      obtain ⟨hv, hr⟩ := plain_value a hp'
      simp only [run, step, hv, if_true, scan, hr]
      exact run_eq_scan rest .idle none false l .idle hc

theorem not_ambiguous : ∀ (argv : List (List Char)) (b : Bool), classesFrom b argv = [] → ambiguousUpfront T argv = false
  | [], _, _ => rfl
  | a :: rest, true, h => by
    simp only [classesFrom, List.append_eq_nil_iff, ite_nil] at h
    obtain ⟨hp, hc⟩ := h
    have hp' : plainValue a = true := by simpa using hp
    obtain ⟨hv, _⟩ := plain_value a hp'
    simp only [ambiguousUpfront, hv]
    split
    · rfl
    · simp [not_ambiguous rest false hc]
  | a :: rest, false, h => by
    simp only [classesFrom] at h
    simp only [ambiguousUpfront]
    split
    · rfl
    · by_cases htv : takesValue a = true
      · simp only [htv, if_true] at h
        have hna : (viewOf T a == View.ambiguous) = false := by
          rcases takesValue_true a htv with ⟨f, rfl⟩ | rfl
          · rw [(sep_flag f).1]; rfl
          · rw [dash_o.1]; rfl
        simp [hna, not_ambiguous rest true h]
      · have htv' : takesValue a = false := by simpa using htv
        simp only [htv', Bool.false_eq_true, if_false, List.append_eq_nil_iff] at h
        obtain ⟨h1, h2⟩ := h
        have hag := agree_single a htv' h1
        have hna : (viewOf T a == View.ambiguous) = false := by
          cases hv : viewOf T a <;> simp only [hv, agree] at hag <;> first | rfl | exact absurd hag (by simp [agree])
        simp [hna, not_ambiguous rest false h2]


/-- the spec's result as the model reports it (every value a string) -/
def toModel (r : Result) : MResult := ⟨r.defines.map .str, r.includePaths.map .str, r.includeFiles.map .str⟩

/-- the `PreprocessorConfiguration(...)` call found in the code assembles the lists as the property demands:
    defines; `-I` directories followed by `-isystem` directories; forced includes -/
theorem assemble_toCfg (l : Lists) : assemble (toCfg l) = toModel l.result := by
  simp [assemble, gather, Gen.ArgTable.definesSrc, Gen.ArgTable.includePathsSrc, Gen.ArgTable.includeFilesSrc,
    destOfName, Cfg.get, toCfg, toModel, Lists.result]

end CbiVerif.ArgvLemmas
