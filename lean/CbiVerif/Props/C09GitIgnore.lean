import CbiVerif.Lemmas.GitIgnore
import CbiVerif.Model.GitIgnoreCB
import CbiVerif.Props.C09

/-!
# C09 — the exclude patterns have git's `.gitignore` semantics (pattern language inside the model)

Property theorems about the executable reference `Spec/GitIgnore.lean` (the definitions the driver op
`gitignore` runs and that are compared with `git check-ignore` and with `pathspec` on every run), and the
instantiation of `C09.member_iff` / `C09.iter_exact` with this concrete matcher.
Helper lemmas: `Lemmas/GitIgnore.lean`.  Paths are lists of components, components and lines are lists of
characters (bytes, see `GitIgnore.enc`); `d` says whether the path is a directory.
-/
namespace CbiVerif.C09
open CbiVerif.GitIgnore

/-- a name that can be written into an ignore file as it is: no glob syntax (`* ? [ \`), no `/`, not empty,
no leading `#` or `!`, no trailing blank -/
structure PlainName (s : Chars) : Prop where
  nonempty : s ≠ []
  noSyntax : ∀ c ∈ s, isSpecial c = false ∧ c ≠ '/'
  noMark : s.head? ≠ some '#' ∧ s.head? ≠ some '!'
  noTrailingBlank : s.getLast? ≠ some ' '

example : PlainName "a b.c".toList := ⟨by decide +kernel, by decide +kernel, by decide +kernel, by decide +kernel⟩

private theorem plain_noSlash {s : Chars} (h : PlainName s) : '/' ∉ s := fun hm => (h.noSyntax _ hm).2 rfl

private theorem plain_clean {s : Chars} (h : PlainName s) : Clean s :=
  ⟨fun c hc hE => by have := (h.noSyntax c hc).1; rw [hE] at this; exact absurd this (by decide), h.nonempty, h.noTrailingBlank⟩

private theorem plain_stripDir {s : Chars} (h : PlainName s) : stripDir s = (false, s) := by
  have : s.getLast? ≠ some '/' := fun hl => plain_noSlash h (List.mem_of_getLast? hl)
  simp [stripDir, this]

private theorem plain_tokens {s : Chars} (h : PlainName s) : tokenize s = some (s.map Tok.lit) :=
  tokenize_lits s (fun c hc => (h.noSyntax c hc).1)

private theorem contains_slash_false {s : Chars} (h : PlainName s) : s.contains '/' = false := by
  simpa using plain_noSlash h

/-! ## how a line is read -/

/-- blank lines and comment lines are no patterns: they can be removed from (or inserted into) any list -/
theorem comment_and_blank_ignored (l₁ l₂ : List Chars) (c : Chars) (hc : c = [] ∨ c.head? = some '#')
    (comps : Comps) (d : Bool) :
    ignoredLines (l₁ ++ c :: l₂) comps d = ignoredLines (l₁ ++ l₂) comps d := by
  have : parseLine c = none := by
    rcases hc with rfl | h
    · rfl
    · simp [parseLine, h]
  simp [ignoredLines, List.filterMap_append, List.filterMap_cons, this]

example : ([] : Chars) = [] ∨ ([] : Chars).head? = some '#' := Or.inl rfl
example : "# x".toList = [] ∨ "# x".toList.head? = some '#' := Or.inr (by decide +kernel)

/-! ## single patterns, for ALL paths -/

/-- a pattern without glob syntax and without `/` excludes exactly the paths that have that name as a
component — at any depth, the component being the file itself or one of its parent directories -/
theorem literal_component_pattern (s : Chars) (h : PlainName s) (comps : Comps) (d : Bool) :
    ignoredLines [s] comps d = true ↔ s ∈ comps := by
  have hp : parseLine s = some (cleanPat false s) := parseLine_clean s (plain_clean h) h.noMark.1 h.noMark.2
  have hpat : cleanPat false s = ⟨false, false, false, some (s.map Tok.lit)⟩ := by
    simp [cleanPat, plain_stripDir h, plain_noSlash h, plain_tokens h]
  have hg : ∀ (x : Comps) (c : Chars) (d' : Bool), (∀ y ∈ x ++ [c], True) →
      excludedAt [cleanPat false s] (x ++ [c]) d' = (fun c (_ : Bool) => c == s) c d' := by
    intro x c d' _
    have hw : wm (s.map Tok.lit) c = (c == s) := by
      rw [Bool.eq_iff_iff, wm_lits]; simp
    simp [excludedAt, lastMatch, matchPat, hpat, hw]
  simp only [ignoredLines, List.filterMap_cons, hp, List.filterMap_nil, ignored]
  rw [ignoredFrom_byLast_iff [cleanPat false s] (fun _ => True) (fun c _ => c == s) hg comps [] d (fun _ _ => trivial),
    mem_dropLast_or_last s comps]
  constructor
  · rintro (⟨c, hc, hcs⟩ | ⟨c, hc, hcs⟩)
    · rw [← eq_of_beq hcs]; exact Or.inl hc
    · rw [← eq_of_beq hcs]; exact Or.inr hc
  · rintro (hs | hs)
    · exact Or.inl ⟨s, hs, by simp⟩
    · exact Or.inr ⟨s, hs, by simp⟩

example : ignoredLines ["build".toList] ["src".toList, "build".toList, "x.c".toList] false = true := by decide +kernel

/-- a leading `/` anchors the pattern to the directory of the ignore file: `/name` excludes exactly the paths
whose FIRST component is `name` -/
theorem anchored_pattern (s : Chars) (h : PlainName s) (comps : Comps) (d : Bool) :
    ignoredLines ['/' :: s] comps d = true ↔ comps.head? = some s := by
  have hcl : Clean ('/' :: s) := by
    refine ⟨?_, by simp, ?_⟩
    · intro c hc
      rcases List.mem_cons.mp hc with rfl | hc
      · decide
      · exact (plain_clean h).noBackslash c hc
    · cases s with
      | nil => exact absurd rfl h.nonempty
      | cons a r => simpa [List.getLast?_cons_cons] using h.noTrailingBlank
  have hp : parseLine ('/' :: s) = some (cleanPat false ('/' :: s)) :=
    parseLine_clean _ hcl (by simp) (by simp)
  have hsd : stripDir ('/' :: s) = (false, '/' :: s) := by
    have : ('/' :: s).getLast? ≠ some '/' := by
      cases s with
      | nil => exact absurd rfl h.nonempty
      | cons a r =>
        rw [List.getLast?_cons_cons]
        exact fun hl => plain_noSlash h (List.mem_of_getLast? hl)
    simp [stripDir, this]
  have hE : ∀ (x : Comps) (d' : Bool), excludedAt [cleanPat false ('/' :: s)] x d' = decide (x = [s]) := by
    intro x d'
    have hw : wm (s.map Tok.lit) (joinPath x) = true ↔ x = [s] := by
      rw [wm_lits, joinPath_eq_name x s (plain_noSlash h) h.nonempty]
    cases hb : wm (s.map Tok.lit) (joinPath x) with
    | true =>
      have hx := hw.mp hb
      subst hx
      simp [excludedAt, lastMatch, matchPat, cleanPat, hsd, stripLead, plain_tokens h, hb]
    | false =>
      have hx : x ≠ [s] := fun hx => by rw [hw.mpr hx] at hb; cases hb
      simp [excludedAt, lastMatch, matchPat, cleanPat, hsd, stripLead, plain_tokens h, hb, hx]
  have hdeep := ignoredFrom_deep_false [cleanPat false ('/' :: s)] (fun x d' hx => by
    rw [hE]; simp only [decide_eq_false_iff_not]; intro hxs; rw [hxs] at hx; exact hx rfl)
  simp only [ignoredLines, List.filterMap_cons, hp, List.filterMap_nil, ignored]
  match comps with
  | [] => simp [ignoredFrom]
  | [c] => simp [ignoredFrom, hE]
  | c :: c2 :: r => simp [ignoredFrom, hE, hdeep (c2 :: r) [c] d (by simp)]

example : ignoredLines ["/a".toList] ["a".toList, "x.c".toList] false = true ∧
    ignoredLines ["/a".toList] ["b".toList, "a".toList, "x.c".toList] false = false := by decide +kernel

/-- a trailing `/` makes the pattern match directories only: `name/` excludes what lies below a directory
`name` (at any depth) and the directory itself, but not a file called `name` -/
theorem dir_only (s : Chars) (h : PlainName s) (comps : Comps) (d : Bool) :
    ignoredLines [s ++ ['/']] comps d = true ↔ s ∈ comps.dropLast ∨ (d = true ∧ comps.getLast? = some s) := by
  have hcl : Clean (s ++ ['/']) := by
    refine ⟨?_, by simp, by simp⟩
    intro c hc
    rcases List.mem_append.mp hc with hc | hc
    · exact (plain_clean h).noBackslash c hc
    · rw [List.mem_singleton.mp hc]; decide
  have hhead : (s ++ ['/']).head? = s.head? := by
    cases s with
    | nil => exact absurd rfl h.nonempty
    | cons a r => rfl
  have hp : parseLine (s ++ ['/']) = some (cleanPat false (s ++ ['/'])) :=
    parseLine_clean _ hcl (by rw [hhead]; exact h.noMark.1) (by rw [hhead]; exact h.noMark.2)
  have hsd : stripDir (s ++ ['/']) = (true, s) := by simp [stripDir]
  have hpat : cleanPat false (s ++ ['/']) = ⟨false, true, false, some (s.map Tok.lit)⟩ := by
    simp [cleanPat, hsd, plain_noSlash h, plain_tokens h]
  have hg : ∀ (x : Comps) (c : Chars) (d' : Bool), (∀ y ∈ x ++ [c], True) →
      excludedAt [cleanPat false (s ++ ['/'])] (x ++ [c]) d' = (fun c (d' : Bool) => d' && c == s) c d' := by
    intro x c d' _
    have hw : wm (s.map Tok.lit) c = (c == s) := by
      rw [Bool.eq_iff_iff, wm_lits]; simp
    cases d' <;> simp [excludedAt, lastMatch, matchPat, hpat, hw]
  simp only [ignoredLines, List.filterMap_cons, hp, List.filterMap_nil, ignored]
  rw [ignoredFrom_byLast_iff [cleanPat false (s ++ ['/'])] (fun _ => True) (fun c d' => d' && c == s) hg comps [] d
    (fun _ _ => trivial)]
  constructor
  · rintro (⟨c, hc, hcs⟩ | ⟨c, hc, hcs⟩)
    · simp only [Bool.true_and] at hcs
      rw [← eq_of_beq hcs]; exact Or.inl hc
    · simp only [Bool.and_eq_true] at hcs
      rw [← eq_of_beq hcs.2]; exact Or.inr ⟨hcs.1, hc⟩
  · rintro (hs | ⟨hd, hs⟩)
    · exact Or.inl ⟨s, hs, by simp⟩
    · exact Or.inr ⟨s, hs, by simp [hd]⟩

example : ignoredLines ["obj/".toList] ["obj".toList] false = false ∧
    ignoredLines ["obj/".toList] ["src".toList, "obj".toList, "x.c".toList] false = true := by decide +kernel

/-! ## the wildcards -/

/-- `*` stays inside one path component: what it swallows contains no `/` -/
theorem star_stays_in_component (ts : List Tok) (t : Chars) :
    wm (Tok.star :: ts) t = true ↔ ∃ a b, t = a ++ b ∧ '/' ∉ a ∧ wm ts b = true := by
  simp only [wm]; exact starLoop_iff (wm ts) t

/-- a trailing `/**` swallows anything, `/` included -/
theorem doublestar_crosses (ts : List Tok) (t : Chars) :
    wm (Tok.dstar :: ts) t = true ↔ ∃ a b, t = a ++ b ∧ wm ts b = true := by
  simp only [wm]; exact anyLoop_iff (wm ts) t

/-- `**/` matches nothing, or any text up to and including a `/` (zero or more whole directories) -/
theorem doublestar_slash_crosses (ts : List Tok) (t : Chars) :
    wm (Tok.dstarSlash :: ts) t = true ↔ wm ts t = true ∨ ∃ a b, t = a ++ '/' :: b ∧ wm ts b = true := by
  simp only [wm, Bool.or_eq_true, anyLoop_iff]
  constructor
  · rintro (h | ⟨a, b, rfl, hb⟩)
    · exact Or.inl h
    · cases b with
      | nil => simp at hb
      | cons c b' =>
        simp only [Bool.and_eq_true, beq_iff_eq] at hb
        obtain ⟨rfl, hb⟩ := hb
        exact Or.inr ⟨a, b', rfl, hb⟩
  · rintro (h | ⟨a, b, rfl, hb⟩)
    · exact Or.inl h
    · exact Or.inr ⟨a, '/' :: b, rfl, by simpa using hb⟩

/-- the tokens of `*.c`, `**/x`, `a/**`, `a**b`: a run of asterisks is special only as a whole component -/
example : tokenize "*.c".toList = some [.star, .lit '.', .lit 'c'] ∧
    tokenize "**/x".toList = some [.dstarSlash, .lit 'x'] ∧
    tokenize "a/**".toList = some [.lit 'a', .lit '/', .dstar] ∧
    tokenize "a/**/b".toList = some [.lit 'a', .lit '/', .dstarSlash, .lit 'b'] ∧
    tokenize "a**b".toList = some [.lit 'a', .star, .lit 'b'] ∧
    tokenize "[!a-c]?".toList = some [.set true [.ch 'a', .range 'a' 'c'], .any] := by decide +kernel

example : ignoredLines ["*.c".toList] ["src".toList, "x.c".toList] false = true ∧
    ignoredLines ["/*.c".toList] ["src".toList, "x.c".toList] false = false ∧
    ignoredLines ["src/**/x.c".toList] ["src".toList, "a".toList, "b".toList, "x.c".toList] false = true ∧
    ignoredLines ["src/*/x.c".toList] ["src".toList, "a".toList, "b".toList, "x.c".toList] false = false := by decide +kernel

/-! ## several patterns: the last match decides, parents first -/

/-- the last matching pattern decides -/
theorem last_match_wins (ps : List Pat) (p : Pat) (comps : Comps) (d : Bool) :
    lastMatch (ps ++ [p]) comps d = if matchPat p comps d then some (!p.neg) else lastMatch ps comps d :=
  lastMatch_append_single ps p comps d

/-- a path is ignored iff one of its parent directories is excluded or the path itself is -/
theorem ignored_iff_self_or_parent (ps : List Pat) (comps : Comps) (d : Bool) :
    ignored ps comps d = true ↔
      (∃ k, 0 < k ∧ k < comps.length ∧ excludedAt ps (comps.take k) true = true) ∨
      (comps ≠ [] ∧ excludedAt ps comps d = true) := by
  have := ignoredFrom_iff ps comps [] d
  simp only [List.nil_append] at this
  exact this

/-- a file cannot be included again when a parent directory is excluded — whatever else the list says about it -/
theorem excluded_parent_wins (ps : List Pat) (comps : Comps) (d : Bool) (k : Nat) (h1 : 0 < k) (h2 : k < comps.length)
    (hk : excludedAt ps (comps.take k) true = true) : ignored ps comps d = true :=
  (ignored_iff_self_or_parent ps comps d).mpr (Or.inl ⟨k, h1, h2, hk⟩)

/-- a final negated pattern that matches the path includes it again — provided no parent directory is excluded -/
theorem negation_reincludes (ps : List Pat) (p : Pat) (comps : Comps) (d : Bool)
    (hneg : p.neg = true) (hm : matchPat p comps d = true)
    (hpar : ∀ k, 0 < k → k < comps.length → excludedAt (ps ++ [p]) (comps.take k) true = false) :
    ignored (ps ++ [p]) comps d = false := by
  rw [Bool.eq_false_iff]
  intro h
  rcases (ignored_iff_self_or_parent _ comps d).mp h with ⟨k, h1, h2, h3⟩ | ⟨_, h3⟩
  · rw [hpar k h1 h2] at h3; cases h3
  · simp [excludedAt, last_match_wins, hm, hneg] at h3

/-- hypotheses of `negation_reincludes` / `excluded_parent_wins` on `*.c`, `!keep.c` resp. `third/`, `!keep.c`;
the second is the recorded pathspec class F-C09-GI-A -/
example : ignoredLines ["*.c".toList, "!keep.c".toList] ["src".toList, "keep.c".toList] false = false ∧
    ignoredLines ["*.c".toList, "!keep.c".toList] ["src".toList, "x.c".toList] false = true ∧
    ignoredLines ["third/".toList, "!keep.c".toList] ["third".toList, "keep.c".toList] false = true := by decide +kernel

/-- a pattern that matches neither the path nor any of its parent directories is irrelevant for the path,
wherever it stands in the list -/
theorem append_unmatched_pattern_irrelevant (ps qs : List Pat) (p : Pat) (comps : Comps) (d : Bool)
    (hun : ∀ k, 0 < k → k ≤ comps.length → ∀ d', matchPat p (comps.take k) d' = false) :
    ignored (ps ++ p :: qs) comps d = ignored (ps ++ qs) comps d := by
  unfold ignored
  apply ignoredFrom_congr
  intro k h1 h2 d'
  simp only [List.nil_append, excludedAt]
  rw [lastMatch_remove ps qs p _ d' (hun k h1 h2 d')]

/-! ## the code base with this matcher -/

open CbiVerif.Path CbiVerif.FS CbiVerif.CB CbiVerif.CBGit in
/-- `C09.member_iff` with the pattern semantics inside: `p in CodeBase(roots, exclude_patterns = pats)` ⇔ `p` names a
regular file with a recognised extension under a code-base directory (the first listed one that contains it) and the
gitignore reference does not ignore its path relative to that directory -/
theorem member_iff_gitignore (pats : List String) (cl : Bool) (fs : FS) (n : Nat) (roots : List Path.Comps)
    (cwd : Path.Comps) (p : P) (c : Path.Comps)
    (hcwd : dirPath fs cwd = true) (h : namei fs n (start cwd p) p.comps = .ok c) (hn : c.length + 2 ≤ n) :
    contains (gitCfg pats cl) fs n roots cwd p = .ok true ↔
      lstat fs c = some .file ∧
      CbiVerif.Gen.sourceExts.contains (suffix (name c)) = true ∧
      ∃ root, roots.find? (fun d => d.isPrefixOf c) = some root ∧
        ignoredStr pats (c.drop root.length) false = false :=
  member_iff (gitCfg pats cl) fs n roots cwd p c hcwd h hn

open CbiVerif.Path CbiVerif.FS CbiVerif.CB CbiVerif.CBGit in
/-- `C09.iter_exact` with the pattern semantics inside (any list of code-base directories: equal, nested, in any order) -/
theorem iter_exact_gitignore (pats : List String) (cl : Bool) (fs : FS) (n : Nat) (roots l : List Path.Comps)
    (hwf : wf fs = true) (hfuel : bigFuel fs n)
    (hnf : ∀ r ∈ roots, lstat fs r ≠ some .file)
    (h : iter (gitCfg pats cl) fs n roots = .ok l) :
    (∀ x ∈ l, contains (gitCfg pats cl) fs n roots [] ⟨true, x⟩ = .ok true) ∧
    (∀ c, memberSpec (gitCfg pats cl) fs roots c → l.count c = 1) ∧
    (∀ x ∈ l, namei fs n [] x ≠ .ok x →
        ∃ t, lstat fs x = some (.link t) ∧
          ((∃ c, namei fs n [] x = .ok c ∧ memberSpec (gitCfg pats cl) fs roots c) ∨ escapes fs n [] ⟨true, x⟩)) :=
  iter_exact (gitCfg pats cl) fs n roots l hwf hfuel hnf h

open CbiVerif.CB CbiVerif.CBGit in
/-- non-vacuity: the example tree of `Props/C09.lean` with the pattern list `sub/`, `!b.h`, `*.txt` -/
example : iter (gitCfg ["sub/", "!b.h", "*.txt"] false) exFS 20 [["t"]] = .ok [["t", "a.c"], ["t", "la.c"]] := by decide +kernel

end CbiVerif.C09
