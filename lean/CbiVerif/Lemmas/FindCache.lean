import CbiVerif.Model.FindCache
import CbiVerif.Lemmas.Exclude
import CbiVerif.Lemmas.FindGuard
/-!
Helper lemmas for C08: the shared parse cache of `finder.find` (`FindCache.cstep`) is transparent
except on steps that log a language-mixing event.  Everything about the engine itself comes from
`Lemmas/Exclude.lean` (`sim_entry`, `preparse_spec`).
-/
namespace CbiVerif.FindCache
open CbiVerif.PP CbiVerif.FindFold CbiVerif.Exclude

/-- one command on a cache that satisfies the invariant: the invariant is kept, nothing is replaced,
and — when the command logs no mixing event — its association state is the reference's -/
theorem entryX_sim (S : Sem) (n : Nat) (c : Cache) (e : Entry) (hI : Inv S c) :
    Inv S (entryX S n c e).cache ∧ CacheLe c (entryX S n c e).cache ∧
    ((entryX S n c e).mixed = [] → (entryX S n c e).loc = runEntryRef S n "" e {}) := by
  have h := sim_entry S n "" e { cache := c } hI
  exact ⟨h.1, h.2.1, fun hm => (h.2.2 hm).2⟩

theorem cstep_ok {S : Sem} {n : Nat} {c c' : Cache} {e : Entry} {o : Out NodeKey Warn}
    (h : cstep S n c e = .ok (o, c')) : c' = (entryX S n c e).cache ∧ outOf (entryX S n c e).loc = .ok o := by
  unfold cstep at h
  cases ho : outOf (entryX S n c e).loc with
  | error er => rw [ho] at h; cases h
  | ok o2 =>
    rw [ho] at h
    simp only [Except.ok.injEq, Prod.mk.injEq] at h
    exact ⟨h.2.symm, by rw [h.1]⟩

theorem cstep_inv (S : Sem) (n : Nat) (c c' : Cache) (e : Entry) (o : Out NodeKey Warn)
    (hI : Inv S c) (h : cstep S n c e = .ok (o, c')) : Inv S c' ∧ CacheLe c c' := by
  obtain ⟨h1, h2, _⟩ := entryX_sim S n c e hI
  rw [(cstep_ok h).1]
  exact ⟨h1, h2⟩

theorem mixedStep_false {S : Sem} {n : Nat} {c : Cache} {e : Entry} (h : mixedStep S n c e = false) :
    (entryX S n c e).mixed = [] := by
  unfold mixedStep at h
  cases hm : (entryX S n c e).mixed with
  | nil => rfl
  | cons a l => rw [hm] at h; simp at h

/-- **the shared parse cache is transparent except on mixing steps** -/
theorem cstep_transparent_unless (S : Sem) (n : Nat) :
    TransparentUnless (Inv S) (mixedStep S n) (cstep S n) (analyse S n) := by
  intro c e hI
  refine ⟨fun o c' hst => (cstep_inv S n c c' e o hI hst).1, fun hf => ?_⟩
  have hl := (entryX_sim S n c e hI).2.2 (mixedStep_false hf)
  unfold cstep analyse
  rw [← hl]
  cases outOf (entryX S n c e).loc with
  | error er => rfl
  | ok o => rfl

theorem cleanJobs_of_mixJobs (S : Sem) (n : Nat) : ∀ (es : List Entry) (c : Cache),
    mixJobs S n es c = [] → cleanJobs (mixedStep S n) (cstep S n) es c = true := by
  intro es
  induction es with
  | nil => intro c _; rfl
  | cons e es ih =>
    intro c h
    simp only [mixJobs, List.append_eq_nil_iff] at h
    obtain ⟨hm, hrest⟩ := h
    simp only [cleanJobs, Bool.and_eq_true, Bool.not_eq_true']
    refine ⟨by simp [mixedStep, hm], ?_⟩
    unfold cstep
    cases ho : outOf (entryX S n c e).loc with
    | error er => rfl
    | ok o =>
      rw [ho] at hrest
      exact ih _ hrest

theorem mixJobs_of_cleanJobs (S : Sem) (n : Nat) : ∀ (es : List Entry) (c : Cache),
    cleanJobs (mixedStep S n) (cstep S n) es c = true → mixJobs S n es c = [] := by
  intro es
  induction es with
  | nil => intro c _; rfl
  | cons e es ih =>
    intro c h
    simp only [cleanJobs, Bool.and_eq_true, Bool.not_eq_true'] at h
    obtain ⟨hm, hrest⟩ := h
    simp only [mixJobs, List.append_eq_nil_iff]
    refine ⟨mixedStep_false hm, ?_⟩
    unfold cstep at hrest
    cases ho : outOf (entryX S n c e).loc with
    | error er => rfl
    | ok o =>
      rw [ho] at hrest
      exact ih _ hrest

/-- the pre-parse leaves a cache that satisfies the invariant -/
theorem prep_inv (S : Sem) (cb : List String) (cfg : Config Entry)
    (hpre : (prep S cb cfg).loc.err = none) : Inv S (prep S cb cfg).cache :=
  (preparse_spec S (cb ++ entryFiles cfg) {} (Inv.nil S) (fun g cl t h => by cases h) hpre).1

/-- the invariant survives any run of the state-threading fold, whatever is flagged -/
theorem findS_inv {Entry Key Warn Err σ : Type} (Inv : σ → Prop)
    (step : σ → Entry → Except Err (Out Key Warn × σ))
    (hstep : ∀ s e o s', Inv s → step s e = .ok (o, s') → Inv s')
    (c : Config Entry) (acc : Acc Key Warn) (s : σ) (hs : Inv s) (a : Acc Key Warn) (s' : σ)
    (h : c.foldlM (fun acc pe => pe.2.foldlM (stepEntryS step pe.1) acc) (acc, s) = .ok (a, s')) :
    Inv s' := by
  have inner : ∀ (p : String) (es : List Entry) (acc : Acc Key Warn) (s : σ), Inv s →
      ∀ a s', es.foldlM (stepEntryS step p) (acc, s) = .ok (a, s') → Inv s' := by
    intro p es
    induction es with
    | nil =>
      intro acc s hs a s' h
      simp only [List.foldlM_nil, pure, Except.pure, Except.ok.injEq, Prod.mk.injEq] at h
      exact h.2 ▸ hs
    | cons e es ih =>
      intro acc s hs a s' h
      simp only [List.foldlM_cons, stepEntryS] at h
      cases hst : step s e with
      | error er => rw [hst] at h; cases h
      | ok os =>
        obtain ⟨o, s1⟩ := os
        rw [hst] at h
        exact ih _ s1 (hstep s e o s1 hs hst) a s' h
  induction c generalizing acc s with
  | nil =>
    simp only [List.foldlM_nil, pure, Except.pure, Except.ok.injEq, Prod.mk.injEq] at h
    exact h.2 ▸ hs
  | cons pe c ih =>
    simp only [List.foldlM_cons] at h
    cases hin : List.foldlM (stepEntryS step pe.1) (acc, s) pe.2 with
    | error er => rw [hin] at h; cases h
    | ok as =>
      obtain ⟨a1, s1⟩ := as
      rw [hin] at h
      exact ih a1 s1 (inner pe.1 pe.2 acc s hs a1 s1 hin) h

/-- **the cached run equals the generic fold over the cache-free analysis**, when no mixing event is logged -/
theorem findC_eq_findRefG (S : Sem) (n : Nat) (cb : List String) (cfg : Config Entry)
    (hmix : NoMix S n cb cfg) : findC S n cb cfg = findRefG S n cb cfg := by
  unfold findC findRefG
  cases herr : (prep S cb cfg).loc.err with
  | some er => rfl
  | none =>
    simp only []
    have hI := prep_inv S cb cfg herr
    have hc := cleanJobs_of_mixJobs S n _ _ hmix
    have := findS_refines_unless (Inv S) (mixedStep S n) (cstep S n) (analyse S n)
      (cstep_transparent_unless S n) cfg {} _ hI hc
    unfold findS findG
    cases hS : List.foldlM (fun acc pe => List.foldlM (stepEntryS (cstep S n) pe.1) acc pe.2)
        ({}, (prep S cb cfg).cache) cfg with
    | error er => rw [hS] at this; exact this.symm
    | ok as => obtain ⟨a, s'⟩ := as; rw [hS] at this; exact this.1.symm

/-- every tree the run leaves in the cache is the parse of its file under the recorded class, and the
trees of the pre-parse are still there — with or without mixing events -/
theorem finalCache_inv (S : Sem) (n : Nat) (cb : List String) (cfg : Config Entry)
    (hpre : (prep S cb cfg).loc.err = none) : Inv S (finalCache S n cb cfg) := by
  have hI := prep_inv S cb cfg hpre
  unfold finalCache findS
  cases hS : List.foldlM (fun acc pe => List.foldlM (stepEntryS (cstep S n) pe.1) acc pe.2)
      ({}, (prep S cb cfg).cache) cfg with
  | error er => exact hI
  | ok as =>
    obtain ⟨a, s'⟩ := as
    exact findS_inv (Inv S) (cstep S n)
      (fun s e o s' hs hst => (cstep_inv S n s s' e o hs hst).1) cfg {} _ hI a s' hS

/-! ### the pre-parse succeeds iff every listed file parses under its extension class -/

def ParsesByExt (S : Sem) (f : String) : Prop := ∃ cl t, S.extClass f = some cl ∧ S.parseAs cl f = .ok t

theorem preparse_ok_of (S : Sem) : ∀ (fs : List String) (w : XW), w.loc.err = none → Inv S w.cache →
    ByExt S w.cache → (∀ f ∈ fs, ParsesByExt S f) → (preparse S fs w).loc.err = none := by
  intro fs
  induction fs with
  | nil => intro w h0 _ _ _; simpa only [preparse] using h0
  | cons f fs ih =>
    intro w h0 hI hB hall
    simp only [preparse, h0]
    obtain ⟨cl, t, hx, hp⟩ := hall f (List.mem_cons_self ..)
    have herr1 : (S.enter w f none).1.loc.err = none := by
      cases hl : w.cache.look f with
      | some x => obtain ⟨cl', t'⟩ := x; rw [enter_cached hl]; exact h0
      | none =>
        have hc : S.inhOrExt f none = some cl := by simp [Sem.inhOrExt, hx]
        rw [enter_ok hl hc hp]; exact h0
    have hI1 := (enter_spec S w f none hI).1
    have hB1 := (enter_none_cached hB herr1 h0).1
    exact ih _ herr1 hI1 hB1 (fun g hg => hall g (List.mem_cons_of_mem _ hg))

theorem prep_ok_iff (S : Sem) (cb : List String) (cfg : Config Entry) :
    (prep S cb cfg).loc.err = none ↔ ∀ f ∈ cb ++ entryFiles cfg, ParsesByExt S f := by
  constructor
  · intro h f hf
    obtain ⟨hI, _, _, _, _, hall⟩ :=
      preparse_spec S (cb ++ entryFiles cfg) {} (Inv.nil S) (fun g cl t h => by cases h) h
    obtain ⟨cl, t, hx, hl⟩ := hall f hf
    exact ⟨cl, t, hx, hI _ _ _ (look_mem hl)⟩
  · intro h
    exact preparse_ok_of S _ {} rfl (Inv.nil S) (fun g cl t h => by cases h) h

theorem mem_entryFiles (cfg : Config Entry) (f : String) :
    f ∈ entryFiles cfg ↔ ∃ j ∈ jobs cfg, j.2.file = f := by
  simp only [entryFiles, jobs, List.mem_flatMap, List.mem_map]
  constructor
  · rintro ⟨pe, hpe, e, he, rfl⟩
    exact ⟨(pe.1, e), ⟨pe, hpe, e, he, rfl⟩, rfl⟩
  · rintro ⟨j, ⟨pe, hpe, e, he, rfl⟩, rfl⟩
    exact ⟨pe, hpe, e, he, rfl⟩

theorem prep_mono (S : Sem) (cb : List String) (cfg cfg' : Config Entry)
    (hsub : ∀ j ∈ jobs cfg', j ∈ jobs cfg) (h : (prep S cb cfg).loc.err = none) :
    (prep S cb cfg').loc.err = none := by
  rw [prep_ok_iff] at h ⊢
  intro f hf
  apply h f
  rw [List.mem_append] at hf ⊢
  cases hf with
  | inl h1 => exact Or.inl h1
  | inr h2 =>
    right
    rw [mem_entryFiles] at h2 ⊢
    obtain ⟨j, hj, hjf⟩ := h2
    exact ⟨j, hsub j hj, hjf⟩

theorem prep_single (S : Sem) (cb : List String) (cfg : Config Entry) (p : String) (e : Entry)
    (h : (prep S cb cfg).loc.err = none) (he : e ∈ entriesOf cfg p) :
    (prep S cb [(p, [e])]).loc.err = none := by
  apply prep_mono S cb cfg _ _ h
  intro j hj
  have : j = (p, e) := by simpa [jobs] using hj
  subst this
  exact (mem_jobs_iff_entriesOf cfg p e).mpr he

theorem prep_perm (S : Sem) (cb : List String) {cfg cfg' : Config Entry} (hc : CfgPerm cfg cfg')
    (h : (prep S cb cfg).loc.err = none) : (prep S cb cfg').loc.err = none :=
  prep_mono S cb cfg cfg' (fun _ hj => (jobs_perm hc).mem_iff.mpr hj) h

theorem prep_select (S : Sem) (cb : List String) (cfg : Config Entry) (X : List String)
    (h : (prep S cb cfg).loc.err = none) : (prep S cb (select X cfg)).loc.err = none := by
  apply prep_mono S cb cfg _ _ h
  intro j hj
  unfold select at hj
  split at hj
  · exact hj
  · rw [jobs_filter (fun p => X.contains p)] at hj
    exact (List.mem_filter.mp hj).1

/-- a successful cached run: the pre-parse succeeded -/
theorem findC_ok_prep {S : Sem} {n : Nat} {cb : List String} {cfg : Config Entry} {r : Acc NodeKey Warn}
    (h : findC S n cb cfg = .ok r) : (prep S cb cfg).loc.err = none := by
  unfold findC at h
  cases herr : (prep S cb cfg).loc.err with
  | none => rfl
  | some er => rw [herr] at h; cases h

theorem findRefG_of_prep {S : Sem} {n : Nat} {cb : List String} {cfg : Config Entry}
    (h : (prep S cb cfg).loc.err = none) : findRefG S n cb cfg = findG (analyse S n) cfg := by
  unfold findRefG; rw [h]

end CbiVerif.FindCache
