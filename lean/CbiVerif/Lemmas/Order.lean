import CbiVerif.Model.Order
import Mathlib.Data.String.Basic
import Mathlib.Data.List.Perm.Basic
import Mathlib.Data.List.Nodup

/-!
Helper lemmas for C14 (order independence).  The property theorems are in
`CbiVerif/Props/C14.lean`.
-/
namespace CbiVerif.Order

/-! ## sorting: a sorted permutation is unique -/

theorem mergeSort_eq_of_perm {α : Type} {le : α → α → Bool} {l l' : List α}
    (trans : ∀ a b c : α, le a b → le b c → le a c)
    (total : ∀ a b : α, le a b || le b a)
    (antisymm : ∀ a ∈ l, ∀ b ∈ l, le a b → le b a → a = b)
    (h : l.Perm l') : l.mergeSort le = l'.mergeSort le := by
  apply List.Perm.eq_of_pairwise (le := fun a b => le a b = true)
  · intro a b ha hb hab hba
    exact antisymm a (List.mem_mergeSort.mp ha) b
      (h.symm.subset (List.mem_mergeSort.mp hb)) hab hba
  · exact List.pairwise_mergeSort trans total l
  · exact List.pairwise_mergeSort trans total l'
  · exact (List.mergeSort_perm l le).trans (h.trans (List.mergeSort_perm l' le).symm)

/-! ## canonical representative of a set of names -/

theorem mem_insertSet {x a : String} {l : List String} : a ∈ insertSet x l ↔ a = x ∨ a ∈ l := by
  induction l with
  | nil => simp [insertSet]
  | cons y ys ih =>
    simp only [insertSet]
    split
    · simp
    · split
      · rename_i h; subst h; simp
      · simp only [List.mem_cons, ih]; tauto

theorem sorted_insertSet {x : String} {l : List String} (h : l.Pairwise (· < ·)) :
    (insertSet x l).Pairwise (· < ·) := by
  induction l with
  | nil => simp [insertSet]
  | cons y ys ih =>
    simp only [insertSet]
    rw [List.pairwise_cons] at h
    split
    · rename_i hxy
      refine List.pairwise_cons.mpr ⟨?_, List.pairwise_cons.mpr h⟩
      intro z hz
      rcases List.mem_cons.mp hz with rfl | hz
      · exact hxy
      · exact lt_trans hxy (h.1 z hz)
    · split
      · exact List.pairwise_cons.mpr h
      · rename_i h1 h2
        have hyx : y < x := lt_of_le_of_ne (not_lt.mp h1) (fun e => h2 e.symm)
        refine List.pairwise_cons.mpr ⟨?_, ih h.2⟩
        intro z hz
        rcases mem_insertSet.mp hz with rfl | hz
        · exact hyx
        · exact h.1 z hz

theorem mem_canon {a : String} {xs : List String} : a ∈ canon xs ↔ a ∈ xs := by
  induction xs with
  | nil => simp [canon]
  | cons x xs ih =>
    have : canon (x :: xs) = insertSet x (canon xs) := rfl
    rw [this, mem_insertSet, ih]; simp

theorem sorted_canon (xs : List String) : (canon xs).Pairwise (· < ·) := by
  induction xs with
  | nil => simp [canon]
  | cons x xs ih =>
    have : canon (x :: xs) = insertSet x (canon xs) := rfl
    rw [this]; exact sorted_insertSet ih

theorem nodup_of_ssorted {l : List String} (h : l.Pairwise (· < ·)) : l.Nodup :=
  h.imp (fun hab => ne_of_lt hab)

/-- two strictly increasing lists with the same members are equal -/
theorem ssorted_ext {l l' : List String} (h : l.Pairwise (· < ·)) (h' : l'.Pairwise (· < ·))
    (hm : ∀ a, a ∈ l ↔ a ∈ l') : l = l' := by
  have hp : l.Perm l' := (List.perm_ext_iff_of_nodup (nodup_of_ssorted h) (nodup_of_ssorted h')).mpr hm
  exact List.Perm.eq_of_pairwise (le := (· < ·))
    (fun a b _ _ hab hba => absurd hab (lt_asymm hba)) h h' hp

theorem canon_congr {a b : List String} (h : ∀ x, x ∈ a ↔ x ∈ b) : canon a = canon b :=
  ssorted_ext (sorted_canon a) (sorted_canon b) (fun x => by rw [mem_canon, mem_canon]; exact h x)

theorem canon_eq_iff' {a b : List String} : canon a = canon b ↔ ∀ x, x ∈ a ↔ x ∈ b :=
  ⟨fun h x => by rw [← mem_canon (xs := a), ← mem_canon (xs := b), h], canon_congr⟩

theorem canon_of_ssorted {l : List String} (h : l.Pairwise (· < ·)) : canon l = l :=
  ssorted_ext (sorted_canon l) h (fun _ => mem_canon)

theorem canon_idem (l : List String) : canon (canon l) = canon l :=
  canon_of_ssorted (sorted_canon l)

theorem canon_perm {a b : List String} (h : a.Perm b) : canon a = canon b :=
  canon_congr (fun _ => h.mem_iff)

/-! ## attribution -/

theorem mem_assocOf {events : List Visit} {file : String} {node : Nat} {p : String} :
    p ∈ assocOf events file node ↔ (⟨p, file, node⟩ : Visit) ∈ events := by
  unfold assocOf
  rw [mem_canon, List.mem_map]
  constructor
  · rintro ⟨v, hv, rfl⟩
    rw [List.mem_filter] at hv
    obtain ⟨hv, hc⟩ := hv
    simp only [Bool.and_eq_true, beq_iff_eq] at hc
    obtain ⟨v1, v2, v3⟩ := v
    simp only at hc
    obtain ⟨rfl, rfl⟩ := hc
    exact hv
  · intro h
    exact ⟨⟨p, file, node⟩, List.mem_filter.mpr ⟨h, by simp⟩, rfl⟩

theorem assocOf_congr {ev ev' : List Visit} (h : ∀ v, v ∈ ev ↔ v ∈ ev') (file : String) (node : Nat) :
    assocOf ev file node = assocOf ev' file node := by
  apply ssorted_ext (sorted_canon _) (sorted_canon _)
  intro p
  have h1 := mem_assocOf (events := ev) (file := file) (node := node) (p := p)
  have h2 := mem_assocOf (events := ev') (file := file) (node := node) (p := p)
  unfold assocOf at h1 h2
  rw [h1, h2]; exact h _

/-! ## setmap -/

/-- lines contributed to the key `k` -/
def contribSum (cs : List (PSet × Nat)) (k : PSet) : Nat :=
  (cs.map fun c => if canon c.1 = k then c.2 else 0).sum

theorem keys_addTo (k : PSet) (n : Nat) (sm : Setmap) :
    keys (addTo k n sm) = if k ∈ keys sm then keys sm else keys sm ++ [k] := by
  induction sm with
  | nil => simp [addTo, keys]
  | cons e rest ih =>
    obtain ⟨k', c⟩ := e
    simp only [addTo]
    by_cases hk : k' = k
    · subst hk; simp [keys]
    · have ih' : List.map (fun x => x.1) (addTo k n rest) =
          if k ∈ List.map (fun x => x.1) rest then List.map (fun x => x.1) rest
          else List.map (fun x => x.1) rest ++ [k] := ih
      simp only [hk, if_false, keys, List.map_cons, List.mem_cons, ih']
      have hk' : ¬ k = k' := fun e => hk e.symm
      simp only [hk', false_or]
      split <;> simp

theorem lookup_addTo (k : PSet) (n : Nat) (sm : Setmap) (k' : PSet) :
    lookup (addTo k n sm) k' = lookup sm k' + (if k = k' then n else 0) := by
  induction sm with
  | nil =>
    simp only [addTo, lookup, List.filter_cons, List.filter_nil]
    by_cases h : k = k' <;> simp [h]
  | cons e rest ih =>
    obtain ⟨k0, c⟩ := e
    simp only [addTo]
    by_cases hk : k0 = k
    · subst hk
      simp only [if_true, lookup, List.filter_cons]
      by_cases h : k0 = k' <;> simp [h]; omega
    · simp only [hk, if_false]
      have ih' := ih
      simp only [lookup] at ih' ⊢
      simp only [List.filter_cons]
      by_cases h : k0 = k'
      · simp only [h, beq_self_eq_true, if_true, List.map_cons, List.sum_cons]
        rw [h] at hk
        rw [ih']; omega
      · have hb : (k0 == k') = false := by simpa using h
        simp only [hb]
        exact ih'

theorem nodup_keys_addTo (k : PSet) (n : Nat) (sm : Setmap) (h : (keys sm).Nodup) :
    (keys (addTo k n sm)).Nodup := by
  rw [keys_addTo]
  split
  · exact h
  · rename_i hk
    exact List.nodup_append.mpr ⟨h, by simp, by
      intro a ha b hb
      simp only [List.mem_singleton] at hb
      subst hb
      exact fun e => hk (e ▸ ha)⟩

theorem mem_keys_addTo (k : PSet) (n : Nat) (sm : Setmap) (k' : PSet) :
    k' ∈ keys (addTo k n sm) ↔ k' ∈ keys sm ∨ k' = k := by
  rw [keys_addTo]
  split
  · rename_i hk
    constructor
    · exact Or.inl
    · rintro (h | rfl)
      · exact h
      · exact hk
  · simp

/-- the fold of `get_setmap` started from an arbitrary dict -/
def foldSetmap (sm0 : Setmap) (cs : List (PSet × Nat)) : Setmap :=
  cs.foldl (fun sm c => addTo (canon c.1) c.2 sm) sm0

theorem foldSetmap_spec (cs : List (PSet × Nat)) : ∀ (sm0 : Setmap), (keys sm0).Nodup →
    (keys (foldSetmap sm0 cs)).Nodup ∧
    (∀ k, k ∈ keys (foldSetmap sm0 cs) ↔ k ∈ keys sm0 ∨ k ∈ cs.map (fun c => canon c.1)) ∧
    (∀ k, lookup (foldSetmap sm0 cs) k = lookup sm0 k + contribSum cs k) := by
  induction cs with
  | nil => intro sm0 h; simp [foldSetmap, contribSum, h]
  | cons c cs ih =>
    intro sm0 h
    have h1 := nodup_keys_addTo (canon c.1) c.2 sm0 h
    obtain ⟨i1, i2, i3⟩ := ih (addTo (canon c.1) c.2 sm0) h1
    have hf : foldSetmap sm0 (c :: cs) = foldSetmap (addTo (canon c.1) c.2 sm0) cs := rfl
    rw [hf]
    refine ⟨i1, ?_, ?_⟩
    · intro k
      rw [i2, mem_keys_addTo]
      simp only [List.map_cons, List.mem_cons]
      tauto
    · intro k
      rw [i3, lookup_addTo]
      simp only [contribSum, List.map_cons, List.sum_cons]
      omega

theorem mem_iff_of_nodup_keys {sm : Setmap} (h : (keys sm).Nodup) (k : PSet) (c : Nat) :
    (k, c) ∈ sm ↔ k ∈ keys sm ∧ lookup sm k = c := by
  induction sm with
  | nil => simp [keys]
  | cons e rest ih =>
    obtain ⟨k0, c0⟩ := e
    have hnd : k0 ∉ keys rest ∧ (keys rest).Nodup := by
      simpa [keys] using h
    have ih' := ih hnd.2
    by_cases hk : k0 = k
    · subst hk
      have hnot : ∀ c', (k0, c') ∉ rest := fun c' hc => hnd.1 (List.mem_map.mpr ⟨(k0, c'), hc, rfl⟩)
      have hl : lookup rest k0 = 0 := by
        unfold lookup
        have : rest.filter (fun e => e.1 == k0) = [] := by
          rw [List.filter_eq_nil_iff]
          intro e he hbe
          simp only [beq_iff_eq] at hbe
          exact hnd.1 (List.mem_map.mpr ⟨e, he, hbe⟩)
        rw [this]; rfl
      have hl2 : lookup ((k0, c0) :: rest) k0 = c0 := by
        have := hl
        unfold lookup at this ⊢
        simp only [List.filter_cons, beq_self_eq_true, if_true, List.map_cons, List.sum_cons, this]
        omega
      rw [hl2]
      constructor
      · intro hm
        rcases List.mem_cons.mp hm with he | hm
        · exact ⟨by simp [keys], (Prod.mk.inj he).2.symm⟩
        · exact absurd hm (hnot c)
      · rintro ⟨_, rfl⟩
        exact List.mem_cons_self
    · have hb : (k0 == k) = false := by simpa using hk
      have hl2 : lookup ((k0, c0) :: rest) k = lookup rest k := by
        unfold lookup
        simp only [List.filter_cons, hb]
        rfl
      rw [hl2]
      constructor
      · intro hm
        rcases List.mem_cons.mp hm with he | hm
        · exact absurd (Prod.mk.inj he).1.symm hk
        · have := (ih' ).mp hm
          exact ⟨by simp only [keys, List.map_cons, List.mem_cons]; exact Or.inr this.1, this.2⟩
      · rintro ⟨hm, hc⟩
        have hm' : k ∈ keys rest := by
          simp only [keys, List.map_cons, List.mem_cons] at hm
          rcases hm with e | hm
          · exact absurd e.symm hk
          · exact hm
        exact List.mem_cons_of_mem _ (ih'.mpr ⟨hm', hc⟩)

theorem getSetmap_eq (cs : List (PSet × Nat)) : getSetmap cs = foldSetmap [] cs := rfl

theorem nodup_keys_getSetmap (cs : List (PSet × Nat)) : (keys (getSetmap cs)).Nodup :=
  (foldSetmap_spec cs [] (by simp [keys])).1

theorem mem_keys_getSetmap (cs : List (PSet × Nat)) (k : PSet) :
    k ∈ keys (getSetmap cs) ↔ k ∈ cs.map (fun c => canon c.1) := by
  rw [getSetmap_eq, (foldSetmap_spec cs [] (by simp [keys])).2.1]; simp [keys]

theorem lookup_getSetmap (cs : List (PSet × Nat)) (k : PSet) :
    lookup (getSetmap cs) k = contribSum cs k := by
  rw [getSetmap_eq, (foldSetmap_spec cs [] (by simp [keys])).2.2]; simp [lookup]

/-- normal form of a contribution: the platform set as a set -/
def norm (c : PSet × Nat) : PSet × Nat := (canon c.1, c.2)

theorem contribSum_eq_norm (cs : List (PSet × Nat)) (k : PSet) :
    contribSum cs k = ((cs.map norm).map fun c => if c.1 = k then c.2 else 0).sum := by
  simp only [contribSum, norm, List.map_map, Function.comp_def]
  rfl

/-- the setmap depends only on the multiset of normalised contributions -/
theorem getSetmap_perm_norm {cs cs' : List (PSet × Nat)} (h : (cs.map norm).Perm (cs'.map norm)) :
    (getSetmap cs).Perm (getSetmap cs') := by
  have n1 := nodup_keys_getSetmap cs
  have n2 := nodup_keys_getSetmap cs'
  rw [List.perm_ext_iff_of_nodup (List.Nodup.of_map _ n1) (List.Nodup.of_map _ n2)]
  rintro ⟨k, c⟩
  rw [mem_iff_of_nodup_keys n1, mem_iff_of_nodup_keys n2, mem_keys_getSetmap, mem_keys_getSetmap,
    lookup_getSetmap, lookup_getSetmap, contribSum_eq_norm, contribSum_eq_norm, (h.map _).sum_nat]
  have hk : k ∈ cs.map (fun c => canon c.1) ↔ k ∈ cs'.map (fun c => canon c.1) := by
    have e : ∀ l : List (PSet × Nat), l.map (fun c => canon c.1) = (l.map norm).map (·.1) := by
      intro l; simp [norm, List.map_map, Function.comp_def]
    rw [e, e]; exact (h.map _).mem_iff
  rw [hk]

theorem keys_canonical (cs : List (PSet × Nat)) : ∀ k ∈ keys (getSetmap cs), canon k = k := by
  intro k hk
  rw [mem_keys_getSetmap, List.mem_map] at hk
  obtain ⟨c, _, rfl⟩ := hk
  exact canon_idem _

theorem nodup_canon_keys_getSetmap (cs : List (PSet × Nat)) :
    ((getSetmap cs).map fun e => canon e.1).Nodup := by
  have h := nodup_keys_getSetmap cs
  have e : (getSetmap cs).map (fun e => canon e.1) = keys (getSetmap cs) := by
    unfold keys
    apply List.map_congr_left
    intro a ha
    exact keys_canonical cs a.1 (List.mem_map.mpr ⟨a, ha, rfl⟩)
  rw [e]; exact h

end CbiVerif.Order
