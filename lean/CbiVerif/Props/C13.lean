import CbiVerif.Model.DbPath
import CbiVerif.Spec.DbResolve
import CbiVerif.Lemmas.DbPath

/-!
# C13 — compilation-database entries resolve to the right files and directories

Property theorems only (helper lemmas: `CbiVerif/Lemmas/DbPath.lean`).

* model: `CbiVerif.DbPath` — CPython's `posixpath` on strings and the loop of
  `config.load_database`;
* spec: `CbiVerif.DbResolve` — the property's reading on locations (component lists).

Every statement holds for **all** strings (any number of slashes, `.`/`..` segments,
empty components, exactly-two-leading-slashes spellings), every working directory, root,
existence oracle, argument parser and database.  The only hypothesis used anywhere is that
the process's working directory is an absolute path (`os.getcwd()` always is).
-/
namespace CbiVerif.C13
open CbiVerif.DbPath
open CbiVerif.DbResolve (Loc resolve locOf dirLoc fileLoc rootLoc Entry Expect expectEntry expect isSourceSpelling)

variable {α : Type}

/-! ## laws of the path algebra -/

/-- `normpath` is idempotent: its results are normal forms -/
theorem normpath_idem (p : Str) : normpath (normpath p) = normpath p :=
  CbiVerif.DbPath.normpath_idem p

/-- `normpath` never changes the place a spelling leads to, from any directory -/
theorem normpath_same_location (base : Loc) (p : Str) : resolve base (normpath p) = resolve base p :=
  resolve_normpath base p

/-- `normpath` keeps a path absolute / relative -/
theorem normpath_isabs (p : Str) : isabs (normpath p) = isabs p := isabs_normpath p

/-- `os.path.join` is associative (for all strings, absolute or not, empty or not) -/
theorem join_assoc (a b c : Str) : join (join a b) c = join a (join b c) :=
  CbiVerif.DbPath.join_assoc a b c

/-- `join` is "read `b` in the directory `a`" -/
theorem join_location (base : Loc) (a b : Str) : resolve base (join a b) = resolve (resolve base a) b :=
  resolve_join base a b

/-- `abspath` is absolute, in normal form, and leads where the spelling leads from the working directory -/
theorem abspath_spec {cwd : Str} (hcwd : isabs cwd = true) (p : Str) :
    isabs (abspath cwd p) = true ∧ normpath (abspath cwd p) = abspath cwd p ∧
    locOf (abspath cwd p) = resolve (locOf cwd) p :=
  ⟨isabs_abspath hcwd p, abspath_normal cwd p, locOf_abspath hcwd p⟩

example : isabs "/w/d".toList = true := by decide
/-- the leading-`//` quirk of `normpath` is modelled (kept when exactly two) -/
example : normpath "//a/./b/../c//".toList = "//a/c".toList ∧ normpath "///a/..".toList = "/".toList
    ∧ normpath "a/../..".toList = "..".toList ∧ normpath "".toList = ".".toList := by decide

/-! ## resolution of `file` and of include directories -/

/-- **file_resolution.**  The analysed file of an entry is an absolute path in normal form
that denotes `file` read in the entry's `directory`, itself read from the analysis root
(the root when there is no `directory`). -/
theorem file_resolution {cwd : Str} (hcwd : isabs cwd = true) (root : Str) (c : Cmd) (argv : List Str) :
    isabs (entryPath cwd root c) = true ∧
    normpath (entryPath cwd root c) = entryPath cwd root c ∧
    locOf (entryPath cwd root c) = fileLoc (rootLoc cwd root) ⟨c.file, c.directory, argv⟩ := by
  rw [entryPath_eq]
  refine ⟨isabs_abspath hcwd _, abspath_normal _ _, ?_⟩
  rw [locOf_abspath hcwd, resolve_join, filedir_loc hcwd]; rfl

/-- **include_dir_resolution.**  Every include directory `f` of the command becomes an
absolute path in normal form denoting `f` read in the entry's working directory — where a
compiler started in that directory looks for `-I f`. -/
theorem include_dir_resolution {cwd : Str} (hcwd : isabs cwd = true) (root : Str) (d : Option Str) (f : Str) :
    isabs (abspath cwd (join (filedir cwd root d) f)) = true ∧
    normpath (abspath cwd (join (filedir cwd root d) f)) = abspath cwd (join (filedir cwd root d) f) ∧
    locOf (abspath cwd (join (filedir cwd root d) f)) = resolve (dirLoc (rootLoc cwd root) d) f := by
  refine ⟨isabs_abspath hcwd _, abspath_normal _ _, ?_⟩
  rw [locOf_abspath hcwd, resolve_join, filedir_loc hcwd]

example : entryPath "/w".toList "/top/proj".toList
    { file := "../src//./a.c".toList, directory := some "build/../out/".toList } = "/top/proj/src/a.c".toList := by decide
example : abspath "/w".toList (join (filedir "/w".toList "/top/proj".toList (some "../out".toList)) "inc/../../proj/inc".toList)
    = "/top/proj/inc".toList := by decide

/-- **abs_unaffected.**  An absolute `file` and an absolute include directory are only
normalised: working directory, root and `directory` play no part. -/
theorem abs_unaffected (cwd root : Str) (c : Cmd) (f : Str) :
    (isabs c.file = true → entryPath cwd root c = normpath c.file) ∧
    (isabs f = true → abspath cwd (join (filedir cwd root c.directory) f) = normpath f) := by
  constructor
  · intro h; unfold entryPath abspath; simp [h]
  · intro h; unfold abspath; rw [join_abs _ h]; simp [h]

/-- the name a `file` spelling ends in is the name of the analysed file (so the extension
that is tested is the extension of the file that is analysed) -/
theorem file_name_is_analysed {cwd : Str} (hcwd : isabs cwd = true) (root : Str) (c : Cmd) (n : Str)
    (h : CbiVerif.DbResolve.spelledName c.file = some n) : (locOf (entryPath cwd root c)).getLast? = some n := by
  rw [(file_resolution hcwd root c []).2.2]
  exact resolve_last _ _ _ h

example : CbiVerif.DbResolve.spelledName "../src/./a.c/".toList = some "a.c".toList := by decide

example : isabs "/abs/x/../a.c".toList = true ∧
    entryPath "/w".toList "rel/root".toList { file := "/abs/x/../a.c".toList, directory := some "b".toList } = "/abs/a.c".toList := by
  decide

/-! ## the whole database against the specification -/

/-- what the spec sees of a command -/
def specOf (c : Cmd) : Entry := ⟨c.file, c.directory, (c.argv.toOption).getD []⟩

/-- a result entry seen as locations -/
def view (o : Out α) : Expect α := ⟨locOf o.file, o.includePaths.map locOf, o.pass⟩

def logLoc : Log → Loc
  | .missing p => locOf p

/-- one command: the loop body produces exactly what the spec expects of the entry -/
theorem entry_refines_spec {cwd : Str} (hcwd : isabs cwd = true) (root : Str) (ex : Str → Bool) (exL : Loc → Bool)
    (hex : ∀ p, isabs p = true → ex p = exL (locOf p))
    (parse : List Str → List (α × List Str)) (c : Cmd) (argv : List Str) (hargv : c.argv = .ok argv) :
    ∃ outs logs, entryOut cwd root ex parse c = .ok (outs, logs) ∧
      outs.map view = (expectEntry (rootLoc cwd root) exL parse (specOf c)).1 ∧
      logs.map logLoc = (expectEntry (rootLoc cwd root) exL parse (specOf c)).2 := by
  have hspec : specOf c = ⟨c.file, c.directory, argv⟩ := by simp [specOf, hargv, Except.toOption]
  obtain ⟨habs, _, hloc⟩ := file_resolution hcwd root c argv
  unfold entryOut expectEntry
  rw [hargv, hspec]
  simp only []
  by_cases he : argv.isEmpty = true
  · simp [he]
  · have he' : argv.isEmpty = false := by simpa using he
    rw [← isSource_eq]
    by_cases hs : isSource c.file = true
    · rw [← hloc, ← hex _ habs]
      by_cases hx : ex (entryPath cwd root c) = true
      · refine ⟨_, _, by simp only [he', hs, hx]; rfl, ?_, ?_⟩
        · simp only [he', hs, hx, List.map_map]
          apply List.map_congr_left
          intro ⟨a, incs⟩ _
          simp only [Function.comp, view, List.map_map]
          congr 1
          apply List.map_congr_left
          intro f _
          exact (include_dir_resolution hcwd root c.directory f).2.2
        · simp [he', hs, hx]
      · have hx' : ex (entryPath cwd root c) = false := by simpa using hx
        exact ⟨[], [.missing (entryPath cwd root c)], by simp [he', hs, hx'], by simp [he', hs, hx'], by simp [he', hs, hx', logLoc]⟩
    · have hs' : isSource c.file = false := by simpa using hs
      exact ⟨[], [], by simp [he', hs'], by simp [he', hs'], by simp [he', hs']⟩

/-- **load_refines_spec** (completeness and soundness of the loop).  For every database
whose commands can be split into words, `load_database` succeeds and returns — in database
order, one entry per compiler pass — exactly the entries the specification expects:
the file at `file` read in `directory` read from the root, every include directory read in
that directory; nothing for empty commands, non-source names and missing files; and warns
about exactly the missing files. -/
theorem load_refines_spec {cwd : Str} (hcwd : isabs cwd = true) (root : Str) (ex : Str → Bool) (exL : Loc → Bool)
    (hex : ∀ p, isabs p = true → ex p = exL (locOf p))
    (parse : List Str → List (α × List Str)) (db : List Cmd) (hdb : ∀ c ∈ db, ∃ argv, c.argv = .ok argv) :
    ∃ outs logs, loadList cwd root ex parse db = .ok (outs, logs) ∧
      outs.map view = (expect (rootLoc cwd root) exL parse (db.map specOf)).1 ∧
      logs.map logLoc = (expect (rootLoc cwd root) exL parse (db.map specOf)).2 := by
  induction db with
  | nil => exact ⟨[], [], rfl, rfl, rfl⟩
  | cons c cs ih =>
    obtain ⟨argv, hargv⟩ := hdb c (by simp)
    obtain ⟨o, l, h1, h2, h3⟩ := entry_refines_spec hcwd root ex exL hex parse c argv hargv
    obtain ⟨os, ls, g1, g2, g3⟩ := ih (fun x hx => hdb x (List.mem_cons_of_mem _ hx))
    refine ⟨o ++ os, l ++ ls, ?_, ?_, ?_⟩
    · rw [loadList, h1]; simp only [g1]
    · simp only [expect, List.map_cons, List.flatMap_cons, List.map_append] at g2 ⊢
      rw [h2, g2]
    · simp only [expect, List.map_cons, List.flatMap_cons, List.map_append] at g3 ⊢
      rw [h3, g3]

/-- the hypotheses of `load_refines_spec` are satisfiable with a non-trivial database: an
oracle that is a function of the location, a compile command in `command` form whose file
is spelled through a build directory, a link command, an object file and an empty command -/
example :
    let exL : Loc → Bool := fun l => l == ["top".toList, "proj".toList, "src".toList, "a.c".toList]
    let ex : Str → Bool := fun p => exL (locOf p)
    let parse : List Str → List (String × List Str) := fun argv => [("default", argv.filter (· == "../inc".toList))]
    let db : List Cmd := [
      { file := "../src/a.c".toList, directory := some "build".toList, command := some "gcc -I ../inc -c ../src/a.c".toList },
      { file := "gone.c".toList, arguments := some ["gcc".toList] },
      { file := "a.o".toList, arguments := some ["ld".toList, "a.o".toList] },
      { file := "src/a.c".toList, command := some "  ".toList }]
    (∀ p, isabs p = true → ex p = exL (locOf p)) ∧ (∀ c ∈ db, ∃ argv, c.argv = .ok argv) ∧
    (loadList "/w".toList "/top/proj".toList ex parse db).toOption.map (fun r => (r.1.map (·.file), r.1.map (·.includePaths), r.2))
      = some (["/top/proj/src/a.c".toList], [["/top/proj/inc".toList]], [.missing "/top/proj/gone.c".toList]) := by
  refine ⟨fun _ _ => rfl, ?_, by decide⟩
  intro c hc
  simp only [List.mem_cons, List.mem_nil_iff, or_false] at hc
  rcases hc with rfl | rfl | rfl | rfl <;> exact ⟨_, rfl⟩

/-! ## skipped entries are a frame -/

/-- an entry that is skipped: empty command, not a source-file name, or file does not exist -/
def Skipped (cwd root : Str) (ex : Str → Bool) (c : Cmd) : Prop :=
  ∃ argv, c.argv = .ok argv ∧
    (argv = [] ∨ isSource c.file = false ∨ ex (entryPath cwd root c) = false)

/-- the warning a skipped entry leaves behind (only for a missing source file) -/
def skipWarning (cwd root : Str) (c : Cmd) : List Log :=
  match c.argv with
  | .ok argv => if argv.isEmpty || !isSource c.file then [] else [.missing (entryPath cwd root c)]
  | .error _ => []

/-- a skipped entry never aborts and contributes no result -/
theorem skipped_entryOut {cwd root : Str} {ex : Str → Bool} (parse : List Str → List (α × List Str)) {c : Cmd}
    (h : Skipped cwd root ex c) : entryOut cwd root ex parse c = .ok ([], skipWarning cwd root c) := by
  obtain ⟨argv, ha, h⟩ := h
  unfold entryOut skipWarning
  rw [ha]; simp only []
  by_cases h1 : (argv.isEmpty || !isSource c.file) = true
  · rw [if_pos h1, if_pos h1]
  · rw [if_neg h1, if_neg h1]
    have h1' : argv.isEmpty = false ∧ isSource c.file = true := by simpa using h1
    rcases h with h | h | h
    · subst h; simp at h1'
    · rw [h] at h1'; simp at h1'
    · simp [h]

/-- **skip_is_frame.**  Inserting an entry for a missing file, a non-source file (object
file, link command) or an empty command anywhere in a database changes neither the result
entries nor whether/with which error the load fails; the warnings are those of the rest
with the entry's own warning in its place. -/
theorem skip_is_frame (cwd root : Str) (ex : Str → Bool) (parse : List Str → List (α × List Str))
    (xs ys : List Cmd) (bad : Cmd) (h : Skipped cwd root ex bad) :
    (loadList cwd root ex parse (xs ++ bad :: ys)).map (·.1) = (loadList cwd root ex parse (xs ++ ys)).map (·.1) ∧
    (∀ r1 r2, loadList cwd root ex parse xs = .ok r1 → loadList cwd root ex parse ys = .ok r2 →
      loadList cwd root ex parse (xs ++ bad :: ys) = .ok (r1.1 ++ r2.1, r1.2 ++ skipWarning cwd root bad ++ r2.2) ∧
      loadList cwd root ex parse (xs ++ ys) = .ok (r1.1 ++ r2.1, r1.2 ++ r2.2)) := by
  have hb : loadList cwd root ex parse (bad :: ys) =
      match loadList cwd root ex parse ys with
      | .error e => .error e
      | .ok (os, ls) => .ok (os, skipWarning cwd root bad ++ ls) := by
    rw [loadList, skipped_entryOut parse h]
    cases loadList cwd root ex parse ys with
    | error e => rfl
    | ok r => simp
  constructor
  · rw [loadList_append, loadList_append, hb]
    cases loadList cwd root ex parse xs with
    | error e => rfl
    | ok r1 =>
      cases loadList cwd root ex parse ys with
      | error e => rfl
      | ok r2 => rfl
  · intro r1 r2 h1 h2
    rw [loadList_append, loadList_append, hb, h1, h2]
    simp [List.append_assoc]

/-- `Skipped` is inhabited by each of the three kinds, around entries that are kept -/
example :
    let ex : Str → Bool := fun p => p == "/r/a.c".toList
    Skipped "/w".toList "/r".toList ex { file := "a.c".toList, command := some "".toList } ∧
    Skipped "/w".toList "/r".toList ex { file := "a.o".toList, arguments := some ["ld".toList, "a.o".toList] } ∧
    Skipped "/w".toList "/r".toList ex { file := "b.c".toList, arguments := some ["gcc".toList] } ∧
    ¬ Skipped "/w".toList "/r".toList ex { file := "a.c".toList, arguments := some ["gcc".toList] } := by
  refine ⟨⟨[], rfl, Or.inl rfl⟩, ⟨_, rfl, Or.inr (Or.inl (by decide))⟩, ⟨_, rfl, Or.inr (Or.inr (by decide))⟩, ?_⟩
  rintro ⟨argv, ha, h⟩
  have : argv = ["gcc".toList] := by
    have : Cmd.argv { file := "a.c".toList, arguments := some ["gcc".toList] } = .ok ["gcc".toList] := rfl
    rw [this] at ha; exact (Except.ok.inj ha).symm
  subst this
  rcases h with h | h | h
  · exact absurd h (by decide)
  · exact absurd h (by decide)
  · exact absurd h (by decide)

/-! ## only files named by entries, and what they include, are attributed -/

/-- files reachable from `file` through `#include`s; `includes incs f g` = "`f`, processed
with include directories `incs`, includes `g`" (the C01/C04 layers) -/
inductive Reach (includes : List Str → Str → Str → Prop) (incs : List Str) (file : Str) : Str → Prop
  | self : Reach includes incs file file
  | step {f g : Str} : Reach includes incs file f → includes incs f g → Reach includes incs file g

/-- an entry that is kept -/
def Kept (cwd root : Str) (ex : Str → Bool) (c : Cmd) (argv : List Str) : Prop :=
  c.argv = .ok argv ∧ argv ≠ [] ∧ isSource c.file = true ∧ ex (entryPath cwd root c) = true

/-- **only_named_files** — full statement.  `attributed outs` = the files to which the
analysis (`finder.find`) attributes a platform when run on the loaded configuration.
Every such file is reached from the resolved `file` of a kept entry of the database,
using that entry's resolved include directories for one of its passes. -/
def only_named_files (attributed : List (Out α) → List Str) (includes : List Str → Str → Str → Prop) : Prop :=
  ∀ (cwd root : Str) (ex : Str → Bool) (parse : List Str → List (α × List Str)) (db : List Cmd)
    (outs : List (Out α)) (logs : List Log),
    loadList cwd root ex parse db = .ok (outs, logs) →
    ∀ f ∈ attributed outs, ∃ c ∈ db, ∃ argv, Kept cwd root ex c argv ∧
      ∃ p ∈ parse argv,
        Reach includes (p.2.map fun i => abspath cwd (join (filedir cwd root c.directory) i)) (entryPath cwd root c) f

/-- every result entry stems from a kept command and one of its passes, with the resolved
file and the resolved include directories -/
theorem outs_from_kept (cwd root : Str) (ex : Str → Bool) (parse : List Str → List (α × List Str)) (db : List Cmd)
    (outs : List (Out α)) (logs : List Log) (h : loadList cwd root ex parse db = .ok (outs, logs)) :
    ∀ o ∈ outs, ∃ c ∈ db, ∃ argv, Kept cwd root ex c argv ∧ ∃ p ∈ parse argv,
      o = { file := entryPath cwd root c,
            includePaths := p.2.map fun i => abspath cwd (join (filedir cwd root c.directory) i), pass := p.1 } := by
  induction db generalizing outs logs with
  | nil => rw [loadList] at h; cases h; intro o ho; cases ho
  | cons c cs ih =>
    rw [loadList] at h
    cases h1 : entryOut cwd root ex parse c with
    | error e => rw [h1] at h; simp at h
    | ok r1 =>
      rw [h1] at h
      cases h2 : loadList cwd root ex parse cs with
      | error e => rw [h2] at h; simp at h
      | ok r2 =>
        rw [h2] at h
        obtain ⟨o1, l1⟩ := r1
        obtain ⟨o2, l2⟩ := r2
        simp only [Except.ok.injEq, Prod.mk.injEq] at h
        intro o ho
        rw [← h.1] at ho
        rcases List.mem_append.mp ho with ho | ho
        · refine ⟨c, by simp, ?_⟩
          unfold entryOut at h1
          cases ha : c.argv with
          | error e => rw [ha] at h1; simp at h1
          | ok argv =>
            rw [ha] at h1; simp only [] at h1
            by_cases hs : (argv.isEmpty || !isSource c.file) = true
            · rw [if_pos hs] at h1; simp only [Except.ok.injEq, Prod.mk.injEq] at h1; rw [← h1.1] at ho; simp at ho
            · rw [if_neg hs] at h1
              have hs' : argv.isEmpty = false ∧ isSource c.file = true := by simpa using hs
              by_cases hx : ex (entryPath cwd root c) = true
              · simp only [hx, Bool.not_true, Bool.false_eq_true, if_false, Except.ok.injEq, Prod.mk.injEq] at h1
                rw [← h1.1] at ho
                obtain ⟨p, hp, rfl⟩ := List.mem_map.mp ho
                exact ⟨argv, ⟨ha, by intro e; simp [e] at hs', hs'.2, hx⟩, p, hp, rfl⟩
              · have hx' : ex (entryPath cwd root c) = false := by simpa using hx
                simp only [hx', Bool.not_false, if_true, Except.ok.injEq, Prod.mk.injEq] at h1
                rw [← h1.1] at ho; simp at ho
        · obtain ⟨c', hc', rest⟩ := ih o2 l2 h2 o ho
          exact ⟨c', List.mem_cons_of_mem _ hc', rest⟩

/-- **only_named_files_partial.**  The database layer's share of `only_named_files`, proved:
if the analysis attributes only files reached from the `file` of one of the configuration
entries it is given, with that entry's include directories (this is what the C01/C04 layers
have to deliver for `finder.find`), then `only_named_files` holds. -/
theorem only_named_files_partial (attributed : List (Out α) → List Str) (includes : List Str → Str → Str → Prop)
    (hfind : ∀ outs f, f ∈ attributed outs → ∃ o ∈ outs, Reach includes o.includePaths o.file f) :
    only_named_files attributed includes := by
  intro cwd root ex parse db outs logs h f hf
  obtain ⟨o, ho, hr⟩ := hfind outs f hf
  obtain ⟨c, hc, argv, hk, p, hp, rfl⟩ := outs_from_kept cwd root ex parse db outs logs h o ho
  exact ⟨c, hc, argv, hk, p, hp, hr⟩

/-- the hypothesis of `only_named_files_partial` is satisfiable by a non-trivial analysis:
the one that attributes exactly the named files and the headers they include directly -/
example : ∃ (attributed : List (Out String) → List Str) (includes : List Str → Str → Str → Prop),
    (∀ outs f, f ∈ attributed outs → ∃ o ∈ outs, Reach includes o.includePaths o.file f) ∧
    attributed [⟨"/r/a.c".toList, ["/r/inc".toList], "default"⟩] = ["/r/a.c".toList, "/r/inc/h.h".toList] := by
  refine ⟨fun outs => outs.flatMap fun o => o.file :: o.includePaths.map (· ++ "/h.h".toList),
    fun incs _ g => ∃ i ∈ incs, g = i ++ "/h.h".toList, ?_, by decide⟩
  intro outs f hf
  obtain ⟨o, ho, hf⟩ := List.mem_flatMap.mp hf
  refine ⟨o, ho, ?_⟩
  rcases List.mem_cons.mp hf with rfl | hf
  · exact .self
  · obtain ⟨i, hi, rfl⟩ := List.mem_map.mp hf
    exact .step .self ⟨i, hi, rfl⟩

/-! ## schema -/

/-- `load_database` as a whole is the loop above after schema validation and `from_json`,
plus the closing "No files found" warning exactly when the result is empty (so every theorem
about `loadList` is a theorem about what the driver executes for the correspondence) -/
theorem loadDatabase_unfold (cwd root : Str) (ex : Str → Bool) (parse : List Str → List (α × List Str))
    (items : List JV) (cmds : List Cmd) (hs : schemaOK (.arr items) = true) (hc : cmdsOfJson items = .ok cmds) :
    (loadDatabase cwd root ex parse (.arr items)).toOption.map (fun r => (r.entries, r.logs, r.emptyWarning)) =
      (loadList cwd root ex parse cmds).toOption.map (fun r => (r.1, r.2, r.1.isEmpty)) := by
  unfold loadDatabase
  simp only [hs, hc, Bool.not_true, Bool.false_eq_true, if_false]
  cases loadList cwd root ex parse cmds with
  | error e => rfl
  | ok r => rfl

/-- a document that violates the schema is rejected before anything else happens, and a
schema-valid item without `file` raises `KeyError` (the schema does not require `file`) -/
theorem schema_rejects (cwd root : Str) (ex : Str → Bool) (parse : List Str → List (α × List Str)) (doc : JV)
    (h : schemaOK doc = false) : (loadDatabase cwd root ex parse doc).toOption.isNone = true := by
  unfold loadDatabase; simp [h, Except.toOption]

/-- what a schema-valid document guarantees to `CompileCommand.from_json` (re-proved against the
schema tables regenerated on every run): every item is an object that has `arguments` or
`command`, and `file`, `directory`, `command` are strings and `arguments` a list of strings when present -/
theorem schema_guarantees (items : List JV) (h : schemaOK (.arr items) = true) :
    ∀ it ∈ items, ∃ kvs, it = .obj kvs ∧
      ((JV.get? kvs "arguments").isSome = true ∨ (JV.get? kvs "command").isSome = true) ∧
      (∀ v, JV.get? kvs "file" = some v → v.isStr = true) ∧
      (∀ v, JV.get? kvs "directory" = some v → v.isStr = true) ∧
      (∀ v, JV.get? kvs "command" = some v → v.isStr = true) ∧
      (∀ v, JV.get? kvs "arguments" = some v → v.isStrArr = true) := by
  intro it hit
  have hi : itemOK it = true := by
    simp only [schemaOK, List.all_eq_true] at h; exact h it hit
  cases it with
  | obj kvs =>
    refine ⟨kvs, rfl, ?_⟩
    simp only [itemOK, CbiVerif.Gen.dbSchemaProps, CbiVerif.Gen.dbSchemaRequired, CbiVerif.Gen.dbSchemaAnyOf,
      List.all_cons, List.all_nil, List.any_cons, List.any_nil, List.isEmpty_cons, Bool.and_true, Bool.or_false,
      Bool.false_or, Bool.and_eq_true, Bool.or_eq_true] at hi
    obtain ⟨⟨hd, ha, hf, hc, _⟩, hany⟩ := hi
    refine ⟨hany, ?_, ?_, ?_, ?_⟩
    · intro v hv; rw [hv] at hf; simpa using hf
    · intro v hv; rw [hv] at hd; simpa using hd
    · intro v hv; rw [hv] at hc; simpa using hc
    · intro v hv; rw [hv] at ha
      have : ("stringArray" == "string") = false := by decide
      simpa [this] using ha
  | null => simp [itemOK] at hi
  | bool b => simp [itemOK] at hi
  | num => simp [itemOK] at hi
  | str s => simp [itemOK] at hi
  | arr l => simp [itemOK] at hi

/-- object files, archives, libraries, executables and text files are not source files
(re-proved against the extension table regenerated from `source.py` on every run) -/
theorem objects_are_not_sources :
    ∀ e ∈ [".o", ".a", ".so", ".obj", ".out", ".d", ".txt", ".json", ""], CbiVerif.Gen.sourceExts.contains e = false := by
  decide

example : isSource "build/x.c.o".toList = false ∧ isSource "prog".toList = false ∧ isSource "src/a.c".toList = true
    ∧ isSource "a.c/..".toList = false ∧ isSource ".c".toList = false ∧ isSource "d.c/x.F90/".toList = true := by decide

example : schemaOK (.arr [.obj [("file".toList, .str "a.c".toList), ("command".toList, .str "gcc".toList)]]) = true
    ∧ schemaOK (.arr [.obj [("file".toList, .str "a.c".toList)]]) = false
    ∧ schemaOK (.arr [.obj [("file".toList, .num), ("command".toList, .str "gcc".toList)]]) = false
    ∧ schemaOK (.arr [.obj [("file".toList, .str "a.c".toList), ("arguments".toList, .arr [.str "gcc".toList, .num])]]) = false
    ∧ schemaOK (.obj []) = false
    ∧ schemaOK (.arr [.obj [("command".toList, .str "gcc".toList)]]) = true := by decide

end CbiVerif.C13
