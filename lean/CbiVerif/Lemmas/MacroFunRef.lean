import CbiVerif.Model.MacroExpand
/-! # C03, function-like fragment: the recursive reference `Ref`, the fragment predicate `fitsb` and the iteration bound `cost`

Helper definitions for the proof that the stream-stack machine `MX.step` (the definitions the driver executes) computes
function-like macro expansion as the C standard describes it for macros without `#` / `##` / variadic parameters:

* `callOf`  : the tokens after a function-like macro name form a complete call `( a1 , … , an )` in the same token list;
* `substRef`: every parameter in the replacement list is replaced by the (completely macro-expanded) argument;
* `Ref d D ts`: the expansion of `ts` with the names in `D` disabled and nesting budget `d`:
  arguments are expanded on their own first (same disabled names), substituted, and the result is rescanned with the macro's
  own name disabled;
* `fitsb d D ts`: the run described by `Ref` stays inside the fragment (every enabled function-like macro name met during the
  expansion — in the text, in an argument, in a substituted replacement list — is followed, in the same token list, either by a
  complete call with enough arguments or by a token other than `(` (then it is not a call and stays); no `defined`; nesting
  budget never exhausted);
* `cost d D ts`: bound on the number of loop iterations.

All three are structurally recursive (outer recursion on the budget, inner scan on a length bound), so that they can be
evaluated by the kernel (`decide +kernel`) in the non-vacuity examples.  Core Lean only. -/
namespace CbiVerif.MX
open CbiVerif.PP

/-- the argument-collection loop on a plain token list (the tokens after the opening parenthesis): collected arguments and
    the tokens after the closing parenthesis; `none`: the list ends inside the call -/
def splitArgs : List Tok → List (List Tok) → List Tok → Nat → Option (List (List Tok) × List Tok)
  | [], _, _, _ => none
  | tok :: r, args, cur, depth =>
    if dtext tok == "," && depth == 1 then splitArgs r (args ++ [cur]) [] depth
    else if dtext tok == "(" then splitArgs r args (cur ++ [tok]) (depth + 1)
    else if dtext tok == ")" then
      if depth == 1 then some (args ++ [cur], r)
      else splitArgs r args (cur ++ [tok]) (depth - 1)
    else splitArgs r args (cur ++ [tok]) depth

/-- the tokens after a function-like macro name: `( a1 , … , an ) rest` ↦ `([a1, …, an], rest)` -/
def callOf : List Tok → Option (List (List Tok) × List Tok)
  | lp :: r => if dtext lp == "(" then splitArgs r [] [] 1 else none
  | [] => none

/-- plain parameter substitution: a parameter (an identifier spelled like one) is replaced by the expanded argument, which
    inherits the parameter's `prev_white` -/
def substRef (params : List String) (eargs : List (List Tok)) : List Tok → List Tok
  | [] => []
  | tok :: r =>
    match paramIdx params tok with
    | some i => fixpw (eargs.getD i []) tok.pw ++ substRef params eargs r
    | none => tok :: substRef params eargs r

/-- one level of scanning; `ex` expands at the next lower nesting budget; the `Nat` bounds the length of the list -/
def scanRef (tbl : Table) (ex : NoExp → List Tok → List Tok) : Nat → NoExp → List Tok → List Tok
  | 0, _, ts => ts
  | _ + 1, _, [] => []
  | n + 1, D, t :: ts =>
    if t.kind != .ident then t :: scanRef tbl ex n D ts
    else if !t.expandable || D.contains (some t.text) then paint t :: scanRef tbl ex n D ts
    else
      match tbl.get t.text with
      | none => t :: scanRef tbl ex n D ts
      | some m =>
        match m.args with
        | none => ex (some m.name :: D) (fixpw m.replacement t.pw) ++ scanRef tbl ex n D ts
        | some ps =>
          match callOf ts with
          | none => t :: scanRef tbl ex n D ts
          | some (args, rest) =>
            ex (some m.name :: D) (fixpw (substRef ps (args.map (ex (none :: D))) m.replacement) t.pw)
              ++ scanRef tbl ex n D rest

/-- **the reference**: recursive macro expansion with disabled names `D` and nesting budget `d` -/
def Ref (tbl : Table) : Nat → NoExp → List Tok → List Tok
  | 0, _, ts => ts
  | d + 1, D, ts => scanRef tbl (Ref tbl d) ts.length D ts

def scanFit (tbl : Table) (ex : NoExp → List Tok → List Tok) (fit : NoExp → List Tok → Bool) : Nat → NoExp → List Tok → Bool
  | 0, _, ts => ts.isEmpty
  | _ + 1, _, [] => true
  | n + 1, D, t :: ts =>
    t.text != "defined" &&
    (if t.kind != .ident then scanFit tbl ex fit n D ts
     else if !t.expandable || D.contains (some t.text) then scanFit tbl ex fit n D ts
     else
       match tbl.get t.text with
       | none => scanFit tbl ex fit n D ts
       | some m =>
         match m.args with
         | none => fit (some m.name :: D) (fixpw m.replacement t.pw) && scanFit tbl ex fit n D ts
         | some ps =>
           match callOf ts with
           | none => (match ts with | x :: _ => dtext x != "(" | [] => false) && scanFit tbl ex fit n D ts
           | some (args, rest) =>
             decide (ps.length ≤ args.length) && args.all (fit (none :: D)) &&
             fit (some m.name :: D) (fixpw (substRef ps (args.map (ex (none :: D))) m.replacement) t.pw) &&
             scanFit tbl ex fit n D rest)

/-- **the fragment**, as a decidable predicate on (table, budget, disabled names, text) -/
def fitsb (tbl : Table) : Nat → NoExp → List Tok → Bool
  | 0, _, ts => ts.isEmpty
  | d + 1, D, ts => scanFit tbl (Ref tbl d) (fitsb tbl d) ts.length D ts

def scanCost (tbl : Table) (ex : NoExp → List Tok → List Tok) (cost : NoExp → List Tok → Nat) : Nat → NoExp → List Tok → Nat
  | 0, _, _ => 0
  | _ + 1, _, [] => 0
  | n + 1, D, t :: ts =>
    if t.kind != .ident then 1 + scanCost tbl ex cost n D ts
    else if !t.expandable || D.contains (some t.text) then 1 + scanCost tbl ex cost n D ts
    else
      match tbl.get t.text with
      | none => 1 + scanCost tbl ex cost n D ts
      | some m =>
        match m.args with
        | none => cost (some m.name :: D) (fixpw m.replacement t.pw) + 2 + scanCost tbl ex cost n D ts
        | some ps =>
          match callOf ts with
          | none => 1 + scanCost tbl ex cost n D ts
          | some (args, rest) =>
            (args.map fun a => cost (none :: D) a + 2).sum +
            cost (some m.name :: D) (fixpw (substRef ps (args.map (ex (none :: D))) m.replacement) t.pw) + 2 +
            scanCost tbl ex cost n D rest

/-- bound on the number of loop iterations of the machine on a text of the fragment -/
def cost (tbl : Table) : Nat → NoExp → List Tok → Nat
  | 0, _, _ => 0
  | d + 1, D, ts => scanCost tbl (Ref tbl d) (cost tbl d) ts.length D ts

/-- the machine pre-expands argument `i` of a call of `m` -/
def needs (m : Macro) (i : Nat) : Bool := decide (i ≥ m.needsExp.length) || m.needsExp.getD i true

/-- tables of the fragment: a function-like macro is not variadic, has no `#` / `##` (`has_strcat` unset), and every parameter
    that occurs in its replacement list is marked for pre-expansion (what `make_macro` computes for such a definition) -/
structure FunTbl (tbl : Table) : Prop where
  plain : ∀ n m ps, tbl.get n = some m → m.args = some ps → m.variadic = false ∧ m.hasStrcat = false
  marked : ∀ n m ps, tbl.get n = some m → m.args = some ps →
    ∀ tok ∈ m.replacement, ∀ i, paramIdx ps tok = some i → needs m i = true

def funMacrob (m : Macro) : Bool :=
  match m.args with
  | none => true
  | some ps => !m.variadic && !m.hasStrcat &&
      m.replacement.all fun tok => match paramIdx ps tok with | some i => needs m i | none => true

def funTblb (tbl : Table) : Bool := tbl.all fun e => funMacrob e.2

theorem funTbl_of_check (tbl : Table) (h : funTblb tbl = true) : FunTbl tbl := by
  have key : ∀ n m, tbl.get n = some m → funMacrob m = true := by
    intro n m hm
    unfold Table.get at hm
    cases hf : tbl.find? (·.1 == n) with
    | none => simp [hf] at hm
    | some e =>
      have hmem := List.mem_of_find?_eq_some hf
      simp [hf] at hm
      subst hm
      exact (List.all_eq_true.mp h) e hmem
  constructor
  · intro n m ps hm ha
    have := key n m hm
    simp only [funMacrob, ha, Bool.and_eq_true, Bool.not_eq_true'] at this
    exact ⟨this.1.1, this.1.2⟩
  · intro n m ps hm ha tok ht i hi
    have := key n m hm
    simp only [funMacrob, ha, Bool.and_eq_true] at this
    have h2 := (List.all_eq_true.mp this.2) tok ht
    simpa [hi] using h2

end CbiVerif.MX
