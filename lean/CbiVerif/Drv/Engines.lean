import Lean.Data.Json
import CbiVerif.Drv.Include
import CbiVerif.Model.EnginesAgree
/-! driver op for C04 (engine tie): `engines` — same request as `findinc` (+ `"n"`: step fuel of the engine of
`Model/Exclude.lean`); evaluates both engines on the request and the hypotheses / conclusion of
`C04.engines_agree_partial` (`Engines.EngOK`, `Engines.bothOk`, `Engines.agree`). -/
open Lean
namespace CbiVerif.Drv.Engines
open CbiVerif.PP CbiVerif.Inc CbiVerif.Drv.Include CbiVerif.Engines

def handle (j : Json) : Json :=
  let files : FSMap := match j.getObjVal? "files" with
    | .ok (Json.obj kvs) => kvs.toList.map fun (k, v) => (k, jstr v)
    | _ => []
  let links := (arrOf j "links").map fun l => (jstr (jnth l 0), jstr (jnth l 1))
  let fs : FS := { files := files, links := links }
  let config : List (String × List Entry) := (arrOf j "config").map fun pj =>
    (getS pj "name", (arrOf pj "entries").map fun e =>
      ({ file := getS e "file", defines := strs e "defines", includePaths := strs e "include_paths",
         includeFiles := strs e "include_files" } : Entry))
  let fuel := (j.getObjValAs? Nat "fuel").toOption.getD 64
  let n := (j.getObjValAs? Nat "n").toOption.getD CbiVerif.Exclude.defaultFuel
  let cb := strs j "codebase"
  let x := runExclude fs config n
  let i := find fs cb config fuel
  Json.mkObj [("eng_ok", EngOK fs config), ("both_ok", bothOkOf x i), ("agree", agreeOf x i),
    ("x_exc", match x.err with | some e => Json.str (toString (repr e)) | none => Json.null),
    ("i_exc", match i.err with | some e => Json.str (toString (repr e)) | none => Json.null),
    ("wf", (parseAll fs).wf),
    ("x_triples", (triples x.assoc).length), ("i_triples", (triples i.assoc).length),
    ("no_links", fs.links.isEmpty), ("cfam", CbiVerif.FindInst.CFam fs.files),
    ("no_forced", config.all fun pe => pe.2.all fun e => e.includeFiles.isEmpty)]

def handlers : List (String × (Json → Json)) := [("engines", handle)]

end CbiVerif.Drv.Engines
