/-!
# A backtracking regular-expression matcher with Python `re` semantics (fragment used by CBI compiler rules)

`codebasin/config.py:_ExtendMatchAction.__call__` evaluates `re.findall(self.pattern, value)`.  This file puts
that evaluation inside the model for the pattern language of the shipped compiler definitions
(`nvidia.toml`: `(?:sm_|compute_)(\d+)`) and of realistic user configurations:

* literals, `.`, character classes `[...]` / `[^...]` with ranges and the escapes `\d \w \s \D \W \S`,
  escaped punctuation, `\n \t \r \f \v`;
* capturing groups `( )`, non-capturing groups `(?: )`, alternation `|`;
* greedy `* + ?` on bodies that cannot match the empty string;
* `$` (end of the string, or just before a final newline).

Everything else (`^`, `\b`, `{m,n}`, lazy / possessive quantifiers, back-references, look-around, inline flags,
named groups, a quantified body that can match the empty string, a literal `]`/`{`/`}` …) makes `parse` answer
`unsupported`; the matcher is never asked to guess.

Semantics mirrored (CPython 3.12 `sre`): leftmost match, first alternative first, greedy repetition with
back-tracking, groups keep the text of their last participation, an unmatched group reads as `""` in
`findall`; `findall` scans left to right, continues at the end of the previous match, and after an empty match
the next match at that position must be non-empty (`state.must_advance`); 0 groups → the whole match,
1 group → that group, n groups → the tuple.  Characters: ASCII readings of `\d \w \s` (Python's are Unicode
aware; the generators of the harness are ASCII).

Core Lean only, total, structural recursion only: executed by the native driver and evaluated by the kernel
(`decide`) in `Props/C12Regex.lean`.
-/
namespace CbiVerif.Regex

/-! ## abstract syntax -/

inductive CItem
  | ch (c : Char)
  | range (lo hi : Char)
  | digit | word | space | ndigit | nword | nspace
deriving Repr, DecidableEq, Inhabited

def isWord (c : Char) : Bool := c.isAlphanum || c == '_'

/-- `Py_UNICODE_ISSPACE` restricted to ASCII -/
def isSpace (c : Char) : Bool :=
  c == ' ' || c == '\t' || c == '\n' || c == '\r' || c == '\x0b' || c == '\x0c' ||
  c == '\x1c' || c == '\x1d' || c == '\x1e' || c == '\x1f'

def CItem.test : CItem → Char → Bool
  | .ch x, c => c == x
  | .range lo hi, c => decide (lo.val ≤ c.val) && decide (c.val ≤ hi.val)
  | .digit, c => c.isDigit
  | .word, c => isWord c
  | .space, c => isSpace c
  | .ndigit, c => !c.isDigit
  | .nword, c => !isWord c
  | .nspace, c => !isSpace c

def classTest (neg : Bool) (items : List CItem) (c : Char) : Bool := (items.any (·.test c)) != neg

inductive Re
  | empty
  | chr (c : Char)
  | any                                   -- `.` : every character but `\n`
  | cls (neg : Bool) (items : List CItem)
  | seq (a b : Re)
  | alt (a b : Re)
  | star (r : Re)
  | plus (r : Re)
  | opt (r : Re)
  | group (i : Nat) (r : Re)              -- capturing group number `i` (1-based)
  | eol                                   -- `$`
deriving Repr, DecidableEq, Inhabited

def seqOf : List Re → Re
  | [] => .empty
  | [r] => r
  | r :: r2 :: rs => .seq r (seqOf (r2 :: rs))

def altOf : List Re → Re
  | [] => .empty
  | [r] => r
  | r :: r2 :: rs => .alt r (altOf (r2 :: rs))

/-- `s` with the prefix `p` removed -/
def stripPrefix : List Char → List Char → Option (List Char)
  | [], s => some s
  | _ :: _, [] => none
  | p :: ps, c :: cs => if c == p then stripPrefix ps cs else none

/-- the regular expression of a literal text -/
def lit (p : List Char) : Re := seqOf (p.map .chr)

/-- can the expression match without consuming a character (conservative: `true` whenever it might) -/
def nullable : Re → Bool
  | .empty => true
  | .chr _ => false
  | .any => false
  | .cls _ _ => false
  | .seq a b => nullable a && nullable b
  | .alt a b => nullable a || nullable b
  | .star _ => true
  | .plus r => nullable r
  | .opt _ => true
  | .group _ r => nullable r
  | .eol => true

/-! ## the matcher -/

/-- group number ↦ captured text, most recent first -/
abbrev Caps := List (Nat × List Char)

def capOf : Caps → Nat → List Char
  | [], _ => []
  | (j, t) :: r, i => if j == i then t else capOf r i

/-- continuation: what still has to match after the current sub-expression -/
abbrev Cont (R : Type) := List Char → Caps → Option R

/-- greedy repetition: one more iteration first (it must consume something), then the continuation -/
def starLoop {R : Type} (body : List Char → Caps → Cont R → Option R) : Nat → List Char → Caps → Cont R → Option R
  | 0, s, caps, k => k s caps
  | n + 1, s, caps, k =>
    match body s caps (fun s' caps' => if s'.length < s.length then starLoop body n s' caps' k else none) with
    | some x => some x
    | none => k s caps

/-- `matchRe r s caps k`: try to match `r` at the beginning of `s`, then `k` on the rest; alternatives are
    explored in Python's order and the first overall success is returned -/
def matchRe {R : Type} : Re → List Char → Caps → Cont R → Option R
  | .empty, s, caps, k => k s caps
  | .chr c, s, caps, k =>
    match s with
    | x :: t => if x == c then k t caps else none
    | [] => none
  | .any, s, caps, k =>
    match s with
    | x :: t => if x != '\n' then k t caps else none
    | [] => none
  | .cls neg items, s, caps, k =>
    match s with
    | x :: t => if classTest neg items x then k t caps else none
    | [] => none
  | .seq a b, s, caps, k => matchRe a s caps (fun s1 c1 => matchRe b s1 c1 k)
  | .alt a b, s, caps, k =>
    match matchRe a s caps k with
    | some x => some x
    | none => matchRe b s caps k
  | .star r, s, caps, k => starLoop (fun s0 c0 k0 => matchRe r s0 c0 k0) s.length s caps k
  | .plus r, s, caps, k =>
    matchRe r s caps (fun s1 c1 => starLoop (fun s0 c0 k0 => matchRe r s0 c0 k0) s1.length s1 c1 k)
  | .opt r, s, caps, k =>
    match matchRe r s caps k with
    | some x => some x
    | none => k s caps
  | .group i r, s, caps, k => matchRe r s caps (fun s1 c1 => k s1 ((i, s.take (s.length - s1.length)) :: c1))
  | .eol, s, caps, k => if s.isEmpty || s == ['\n'] then k s caps else none

/-- the final continuation of a top-level match attempt at `s`: with `adv` (the previous match of the scan
    was empty and ended here) an empty match is rejected, which makes the matcher back-track -/
def fin (adv : Bool) (s : List Char) : Cont (List Char × Caps) :=
  fun s' caps => if adv && s'.length == s.length then none else some (s', caps)

/-- one match attempt at the beginning of `s` -/
def matchAt (r : Re) (adv : Bool) (s : List Char) : Option (List Char × Caps) := matchRe r s [] (fin adv s)

/-- `pattern.search` from offset `off` (`s` = the text from there): leftmost start first;
    `adv` only constrains the first start position.  Result: start offset, text from the start, rest, groups -/
def search (r : Re) : Nat → List Char → Bool → Option (Nat × List Char × List Char × Caps)
  | off, s, adv =>
    match matchAt r adv s with
    | some (s', caps) => some (off, s, s', caps)
    | none =>
      match s with
      | [] => none
      | _ :: t => search r (off + 1) t false

structure Hit where
  start : Nat
  text : List Char
  caps : Caps
deriving Repr, DecidableEq, Inhabited

/-- the scan of `findall` / `finditer` -/
def scan (r : Re) : Nat → Nat → List Char → Bool → List Hit
  | 0, _, _, _ => []
  | fuel + 1, off, s, adv =>
    match search r off s adv with
    | none => []
    | some (st, sAt, rest, caps) =>
      let len := sAt.length - rest.length
      ⟨st, sAt.take len, caps⟩ :: scan r fuel (st + len) rest (len == 0)

def hits (r : Re) (s : List Char) : List Hit := scan r (2 * s.length + 3) 0 s false

/-! the same leftmost, non-overlapping scan for an arbitrary "what starts here" function `at` (text ↦ rest after
    the occurrence and its groups) whose occurrences are never empty: the reference the closed forms are stated with -/
def searchWith (at_ : List Char → Option (List Char × Caps)) : Nat → List Char → Option (Nat × List Char × List Char × Caps)
  | off, s =>
    match at_ s with
    | some (s', caps) => some (off, s, s', caps)
    | none =>
      match s with
      | [] => none
      | _ :: t => searchWith at_ (off + 1) t

def scanWith (at_ : List Char → Option (List Char × Caps)) : Nat → Nat → List Char → List Hit
  | 0, _, _ => []
  | fuel + 1, off, s =>
    match searchWith at_ off s with
    | none => []
    | some (st, sAt, rest, caps) =>
      let len := sAt.length - rest.length
      ⟨st, sAt.take len, caps⟩ :: scanWith at_ fuel (st + len) rest

/-- what `findall` reports for one match of a pattern with `ng` groups -/
def Hit.fields (ng : Nat) (h : Hit) : List (List Char) :=
  if ng == 0 then [h.text] else (List.range ng).map fun i => capOf h.caps (i + 1)

/-- `re.findall` on an already parsed pattern: one list per match (length 1 unless `ng ≥ 2`) -/
def findall (r : Re) (ng : Nat) (s : List Char) : List (List (List Char)) := (hits r s).map (Hit.fields ng)

/-! ## the parser -/

inductive PErr
  | unsupported (what : String)      -- valid or invalid Python syntax outside the fragment
deriving Repr, DecidableEq, Inhabited

def unsup {α} (w : String) : Except PErr α := .error (.unsupported w)

def isAsciiAlnum (c : Char) : Bool := c.isAlphanum

/-- a backslash escape that denotes one character (both inside and outside a class) -/
def escChar (c : Char) : Option Char :=
  if c == 'n' then some '\n' else if c == 't' then some '\t' else if c == 'r' then some '\r'
  else if c == 'f' then some '\x0c' else if c == 'v' then some '\x0b'
  else if isAsciiAlnum c || c.val ≥ 128 then none else some c

def escClass (c : Char) : Option CItem :=
  if c == 'd' then some .digit else if c == 'w' then some .word else if c == 's' then some .space
  else if c == 'D' then some .ndigit else if c == 'W' then some .nword else if c == 'S' then some .nspace
  else none

/-- one member of a `[...]` set: a class escape, an escaped or plain character -/
def classAtom : List Char → Except PErr (CItem × List Char)
  | [] => unsup "unterminated character set"
  | '\\' :: c :: rest =>
    match escClass c with
    | some it => .ok (it, rest)
    | none => match escChar c with
      | some x => .ok (.ch x, rest)
      | none => unsup "escape in character set"
  | '\\' :: [] => unsup "bad escape (end of pattern)"
  | '[' :: _ => unsup "'[' inside a character set"
  | c :: rest => .ok (.ch c, rest)

/-- the members of a set up to the closing `]` (CPython `sre_parse._parse`, the `[` branch) -/
def classItems : Nat → List Char → List CItem → Except PErr (List CItem × List Char)
  | 0, _, _ => unsup "character set"
  | n + 1, s, acc =>
    match s with
    | [] => unsup "unterminated character set"
    | ']' :: rest => .ok (acc.reverse, rest)
    | _ =>
      match classAtom s with
      | .error e => .error e
      | .ok (a1, rest1) =>
        match rest1 with
        | '-' :: ']' :: rest2 => .ok ((CItem.ch '-' :: a1 :: acc).reverse, rest2)
        | '-' :: rest2 =>
          (match classAtom rest2 with
           | .error e => .error e
           | .ok (a2, rest3) =>
             match a1, a2 with
             | .ch lo, .ch hi =>
               if lo.val ≤ hi.val then classItems n rest3 (.range lo hi :: acc) else unsup "bad character range"
             | _, _ => unsup "bad character range")
        | _ => classItems n rest1 (a1 :: acc)

/-- an open group (or the top level): finished alternatives (reversed) and the atoms of the current one
    (reversed; the flag says whether the atom may still take a quantifier) -/
structure Frame where
  kind : Option Nat := none
  alts : List Re := []
  cur : List (Re × Bool) := []
deriving Repr, Inhabited

def Frame.close (f : Frame) : Re :=
  let body := altOf ((seqOf (f.cur.reverse.map (·.1)) :: f.alts).reverse)
  match f.kind with
  | some i => .group i body
  | none => body

def Frame.push (f : Frame) (r : Re) (q : Bool) : Frame := { f with cur := (r, q) :: f.cur }

def quantify (c : Char) (r : Re) : Re := if c == '*' then .star r else if c == '+' then .plus r else .opt r

/-- left-to-right parse with an explicit stack of open groups; `ng` = groups opened so far -/
def parseLoop : Nat → List Char → Frame → List Frame → Nat → Except PErr (Re × Nat)
  | 0, _, _, _, _ => unsup "pattern too long"
  | fuel + 1, s, f, stack, ng =>
    match s with
    | [] => if stack.isEmpty then .ok (f.close, ng) else unsup "missing )"
    | '(' :: '?' :: ':' :: rest => parseLoop fuel rest {} (f :: stack) ng
    | '(' :: '?' :: _ => unsup "(? extension"
    | '(' :: rest => parseLoop fuel rest { kind := some (ng + 1) } (f :: stack) (ng + 1)
    | ')' :: rest =>
      (match stack with
       | [] => unsup "unbalanced )"
       | p :: stack' => parseLoop fuel rest (p.push f.close true) stack' ng)
    | '|' :: rest => parseLoop fuel rest { f with alts := seqOf (f.cur.reverse.map (·.1)) :: f.alts, cur := [] } stack ng
    | '[' :: rest =>
      let (neg, rest1) := match rest with
        | '^' :: r1 => (true, r1)
        | _ => (false, rest)
      (match rest1 with
       | ']' :: _ => unsup "']' as first member of a character set"
       | _ =>
         match classItems (rest1.length + 1) rest1 [] with
         | .error e => .error e
         | .ok (items, rest2) => parseLoop fuel rest2 (f.push (.cls neg items) true) stack ng)
    | '\\' :: c :: rest =>
      (match escClass c with
       | some it => parseLoop fuel rest (f.push (.cls false [it]) true) stack ng
       | none => match escChar c with
         | some x => parseLoop fuel rest (f.push (.chr x) true) stack ng
         | none => unsup "escape")
    | '\\' :: [] => unsup "bad escape (end of pattern)"
    | '.' :: rest => parseLoop fuel rest (f.push .any true) stack ng
    | '$' :: rest => parseLoop fuel rest (f.push .eol false) stack ng
    | c :: rest =>
      if c == '*' || c == '+' || c == '?' then
        match f.cur with
        | (r, true) :: cur' =>
          if nullable r then unsup "quantified expression can match the empty string"
          else parseLoop fuel rest { f with cur := (quantify c r, false) :: cur' } stack ng
        | _ => unsup "quantifier without a quantifiable operand (or lazy / possessive / multiple repeat)"
      else if c == '^' || c == '{' || c == '}' || c == ']' then unsup ("metacharacter " ++ String.singleton c)
      else parseLoop fuel rest (f.push (.chr c) true) stack ng

/-- `sre_parse.parse` for the fragment: the expression and its number of groups -/
def parse (p : String) : Except PErr (Re × Nat) := parseLoop (p.toList.length + 1) p.toList {} [] 0

/-- `re.findall(pattern, value)`; every match as a list of strings (one element unless the pattern has ≥ 2 groups) -/
def findallStr (pattern value : String) : Except PErr (List (List String)) :=
  match parse pattern with
  | .error e => .error e
  | .ok (r, ng) => .ok ((findall r ng value.toList).map fun m => m.map String.ofList)

end CbiVerif.Regex
