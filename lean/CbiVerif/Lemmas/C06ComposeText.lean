import CbiVerif.Lemmas.C06Compose
import CbiVerif.Props.C05
import CbiVerif.Props.C01
/-! Per-file and per-entry facts of the composed C06 pipeline, obtained from the theorems of C05 (`main`, `nodes_of_ok`,
`partition`) and C01 (`analyseNodes_eq_reference`). -/
namespace CbiVerif.C06C
open CbiVerif.SM CbiVerif.CClean

theorem guard_iff (t : List Char) : guard t = true ↔ CLexRef.wf t = true ∧ CLexRef.k1 t = false ∧ CLexRef.k2 t = false := by
  unfold guard
  cases CLexRef.wf t <;> cases CLexRef.k1 t <;> cases CLexRef.k2 t <;> simp

/-- inside C05's guard the lines of the nodes are exactly the lines the C05 SPECIFICATION counts, in order -/
theorem nodes_lines_eq_counted (t : List Char) (r : ParseResult) (h : parseFile t = .ok r) (hg : guard t = true) :
    r.nodes.flatMap (·.lines) = CLexRef.countedLines t := by
  obtain ⟨hwf, hk1, hk2⟩ := (guard_iff t).mp hg
  have hmain := CbiVerif.C05.main t hwf hk1 hk2
  have hlen : (r.nodes.flatMap (·.lines)).length = (CLexRef.countedLines t).length := by
    rw [← (CbiVerif.C05.partition t r h).2.2.2.2, (CbiVerif.C05.nodes_of_ok t hwf hk1 hk2 r h).2.1]
  unfold parseFile at h
  unfold CClean.countedLines at hmain
  cases hgl : groupLoop none ((cFileSource t).all.filter LLine.yielded) with
  | error e => simp [hgl] at h
  | ok ns =>
    simp only [hgl] at h
    cases herr : (cFileSource t).err with
    | some e => simp [herr] at h
    | none =>
      simp only [herr, Except.ok.injEq] at h hmain
      subst h
      have hlines := CbiVerif.CLexSim.groupLoop_lines _ none ns hgl
      simp only [Option.map_none, Option.getD_none, List.nil_append] at hlines
      have hsub : (ns.flatMap (·.lines)).Sublist (CLexRef.countedLines t) := by
        rw [hlines, ← hmain]; exact CbiVerif.CLexSim.filter_flatMap_sublist _ _ _
      exact hsub.eq_of_length hlen

/-! ## one configuration entry against the reference machine -/

theorem runEntry_ref (files : List SrcFile) (ps : List Parsed) (e : Entry) (run : Run) (p : Parsed)
    (h : runEntry files ps e = .ok run) (hl : lookup files ps e.file = some p)
    (ha : refAccepts p.pnodes e.defs = true) :
    ∀ j, run.2.getD j false = refKeeps p.pnodes e.defs j := by
  intro j
  unfold runEntry at h
  rw [hl] at h
  simp only at h
  unfold refAccepts at ha
  unfold refKeeps
  cases hr : PP.referenceNodes p.pnodes e.defs with
  | error er => simp [hr] at ha
  | ok r =>
    simp only [hr, Bool.and_eq_true, Bool.not_eq_true'] at ha ⊢
    have hm := CbiVerif.C01.analyseNodes_eq_reference p.pnodes e.defs r hr ha.1.1 ha.1.2 ha.2
    rw [hm] at h
    cases he : r.err with
    | some er => simp [he] at h
    | none =>
      simp only [he, Except.ok.injEq] at h
      subst h
      rfl

theorem attributed_ref (files : List SrcFile) (ps : List Parsed) (path : List String) (p : Parsed)
    (hl : lookup files ps path = some p) (j : Nat) : ∀ (es : List Entry) (rs : List Run),
    List.Forall₂ (fun e run => runEntry files ps e = .ok run) es rs →
    (∀ e ∈ es, e.file = path → refAccepts p.pnodes e.defs = true) →
    attributed rs path j = es.any fun e => e.file == path && refKeeps p.pnodes e.defs j := by
  intro es rs h
  induction h with
  | nil => intro _; rfl
  | @cons e run es rs he _ ih =>
    intro hacc
    unfold attributed at ih ⊢
    simp only [List.any_cons]
    rw [ih (fun e' he' => hacc e' (List.mem_cons_of_mem _ he'))]
    congr 1
    rw [runEntry_fst files ps e run he]
    by_cases hp : e.file = path
    · have hl' : lookup files ps e.file = some p := by rw [hp]; exact hl
      rw [runEntry_ref files ps e run p he hl' (hacc e List.mem_cons_self hp) j]
    · have : (e.file == path) = false := beq_eq_false_iff_ne.mpr hp
      simp [this]

theorem platsOf_ref (files : List SrcFile) (ps : List Parsed) (path : List String) (p : Parsed)
    (hl : lookup files ps path = some p) (j : Nat) : ∀ (plats : List Plat) (pr : List (String × List Run)),
    List.Forall₂ (fun pl r => runPlat files ps pl = .ok r) plats pr →
    (∀ pl ∈ plats, ∀ e ∈ pl.entries, e.file = path → refAccepts p.pnodes e.defs = true) →
    platsOf pr path j = specPlats plats path p.pnodes j := by
  intro plats pr h
  induction h with
  | nil => intro _; rfl
  | @cons pl r plats pr hpl _ ih =>
    intro hacc
    have ih' := ih (fun pl' hp' => hacc pl' (List.mem_cons_of_mem _ hp'))
    unfold platsOf specPlats at ih' ⊢
    unfold runPlat at hpl
    cases hm : mapE (runEntry files ps) pl.entries with
    | error er => simp [hm] at hpl
    | ok rs =>
      simp only [hm, Except.ok.injEq] at hpl
      subst hpl
      have hattr := attributed_ref files ps path p hl j pl.entries rs (mapE_forall₂ _ _ _ hm) (hacc pl List.mem_cons_self)
      simp only [List.filter_cons, hattr]
      split
      · simp only [List.map_cons, ih']
      · exact ih'

end CbiVerif.C06C
