import CbiVerif.Lemmas.FCPass3
import CbiVerif.Spec.FortranNodes
/-!
The C pass (`c_file_source(directives_only=True)`) on a `#` line, refined: the cleaned text starts with `##` exactly when the
text of the physical line (after leading blanks) does (`isPasteLine`) — what `FileParser.is_directive` looks at.
-/
namespace CbiVerif.Fortran
open Tbl
set_option linter.unusedSimpArgs false

theorem hash_not_space : pyIsSpace '#' = false := by decide

/-- after the `#` of a directive line: what the rest of the line and the logical newline append starts with `#` iff the
    rest of the line does -/
theorem dir_tail_head (cs : List Char) (ob : OSL) (ht : ob.trailing = false) (hb : ∀ c ∈ cs, c ≠ '\\')
    (hss : hasSlashStar cs = false) :
    ∃ st' ob' ob'', dProcess [.dir, .top] ob cs = .ok (st', ob') ∧ st'.head? ≠ some .blockC ∧
      dNewline st' ob' = .ok ([.top], ob'') ∧
      ∃ q, ob''.parts = ob.parts ++ q ∧ (q.head? == some '#') = (cs.head? == some '#') := by
  -- generic continuation: after a first step that appended `x` and left a directive state
  have cont : ∀ (rest : List Char) (st1 : List DMode) (ob1 : OSL) (x : Char), DirSt st1 → slashOK st1 rest →
      (∀ c ∈ rest, c ≠ '\\') → hasSlashStar rest = false → (∃ q1, ob1.parts = ob.parts ++ x :: q1) →
      ∃ st' ob' ob'', dProcess st1 ob1 rest = .ok (st', ob') ∧ st'.head? ≠ some .blockC ∧
        dNewline st' ob' = .ok ([.top], ob'') ∧ ∃ q, ob''.parts = ob.parts ++ x :: q := by
    intro rest st1 ob1 x h1 h2 h3 h4 ⟨q1, hq1⟩
    obtain ⟨st', ob', e1, e2, ⟨q2, hq2⟩⟩ := dProcess_dir rest st1 ob1 h1 h3 h4 h2
    obtain ⟨n1, ob'', n2, ⟨q3, hq3⟩⟩ := dNewline_end st' ob' e2
    exact ⟨st', ob', ob'', e1, n1, n2, q1 ++ q2 ++ q3, by rw [hq3, hq2, hq1]; simp⟩
  cases cs with
  | nil =>
    exact ⟨[.dir, .top], ob, ob, rfl, by simp, rfl, [], by simp, by simp⟩
  | cons c cs =>
    have hc : c ≠ '\\' := hb c (by simp)
    have hb' : ∀ x ∈ cs, x ≠ '\\' := fun x hx => hb x (by simp [hx])
    have hss' := hasSlashStar_tail c cs hss
    simp only [hasSlashStar, Bool.or_eq_false_iff, Bool.and_eq_false_iff] at hss
    have hnext : c = '/' → cs.head? ≠ some '*' := by
      intro hc'; rcases hss.1 with h | h
      · simp [hc'] at h
      · simpa using h
    by_cases h1 : c = '/'
    · subst h1
      -- slash state, nothing appended yet
      cases cs with
      | nil =>
        refine ⟨[.slash, .dir, .top], ob, ob.add (.ns '/'), ?_, by simp, rfl, ['/'], by simp [OSL.add], by simp⟩
        simp [dProcess, dStep1]
      | cons d ds =>
        have hd : d ≠ '\\' := hb' d (by simp)
        have hstar : d ≠ '*' := by have := hnext rfl; simpa using this
        have hb'' : ∀ x ∈ ds, x ≠ '\\' := fun x hx => hb' x (by simp [hx])
        have hss'' := hasSlashStar_tail d ds hss'
        by_cases h2 : d = '/'
        · subst h2
          refine ⟨[.lineC, .dir, .top], ob, ob.add .sp, ?_, by simp, rfl, [' '], by simp [OSL.add, ht], by simp⟩
          simp only [dProcess, dStep1, beq_iff_eq, if_false, if_true, Bool.false_eq_true, Char.reduceEq]
          rw [dProcess_lineC]
        · -- `/` is appended, `d` is processed again in the directive state
          have hsl : ∃ st1 ob1, dProcess [.slash, .dir, .top] ob (d :: ds) = dProcess st1 ob1 ds ∧ DirSt st1 ∧
              slashOK st1 ds ∧ ∃ q1, ob1.parts = ob.parts ++ '/' :: q1 := by
            have hpy : pyIsSpace '/' = false := by decide
            by_cases h3 : d = '"'
            · subst h3
              exact ⟨[.dq, .dir, .top], (ob.add (.ns '/')).add (.ns '"'),
                by simp [dProcess, dStep1, emitChar, hpy], by simp [DirSt], by intro h; simp at h,
                ['"'], by simp [OSL.add]⟩
            · by_cases h4 : d = '\''
              · subst h4
                exact ⟨[.sq, .dir, .top], (ob.add (.ns '/')).add (.ns '\''),
                  by simp [dProcess, dStep1, emitChar, hpy], by simp [DirSt], by intro h; simp at h,
                  ['\''], by simp [OSL.add]⟩
              · refine ⟨[.dir, .top], (ob.add (.ns '/')).add (emitChar d), ?_, by simp [DirSt], by intro h; simp at h, ?_⟩
                · simp [dProcess, dStep1, emitChar, hd, h2, h3, h4, hstar, hpy]
                · obtain ⟨q, hq⟩ := ext_add (ob.add (.ns '/')) (emitChar d)
                  exact ⟨q, by rw [hq]; simp [OSL.add]⟩
          obtain ⟨st1, ob1, e0, e1, e2, e3⟩ := hsl
          obtain ⟨st', ob', ob'', f1, f2, f3, q, hq⟩ := cont ds st1 ob1 '/' e1 e2 hb'' hss'' e3
          refine ⟨st', ob', ob'', ?_, f2, f3, '/' :: q, hq, by simp⟩
          have hfirst : dProcess [.dir, .top] ob ('/' :: d :: ds) = dProcess [.slash, .dir, .top] ob (d :: ds) := by
            rw [dProcess]; simp [dStep1]
          rw [hfirst, e0]; exact f1
    · -- one plain step in the directive state appends one character
      have hstep : (∃ st1 x, dStep1 [.dir, .top] ob c = .ok (st1, ob.add (.ns x), false, false) ∧ DirSt st1 ∧
          slashOK st1 cs ∧ ((x == '#') = (c == '#'))) ∨
          (dStep1 [.dir, .top] ob c = .ok ([.dir, .top], ob.add .sp, false, false) ∧ c ≠ '#') := by
        by_cases h2 : c = '"'
        · subst h2; left
          exact ⟨[.dq, .dir, .top], '"', by simp [dStep1], by simp [DirSt], by intro h; simp at h, rfl⟩
        · by_cases h3 : c = '\''
          · subst h3; left
            exact ⟨[.sq, .dir, .top], '\'', by simp [dStep1], by simp [DirSt], by intro h; simp at h, rfl⟩
          · by_cases hs : pyIsSpace c = true
            · right
              refine ⟨by simp [dStep1, hc, h1, h2, h3, emitChar, hs], ?_⟩
              intro hh; rw [hh, hash_not_space] at hs; cases hs
            · left
              exact ⟨[.dir, .top], c, by simp [dStep1, hc, h1, h2, h3, emitChar, hs], by simp [DirSt],
                by intro h; simp at h, rfl⟩
      rcases hstep with ⟨st1, x, e0, e1, e2, e3⟩ | ⟨e0, e3⟩
      · obtain ⟨st', ob', ob'', f1, f2, f3, q, hq⟩ :=
          cont cs st1 (ob.add (.ns x)) x e1 e2 hb' hss' ⟨[], by simp [OSL.add]⟩
        refine ⟨st', ob', ob'', ?_, f2, f3, x :: q, hq, by simpa using e3⟩
        simp only [dProcess, e0, Bool.false_eq_true, if_false]
        exact f1
      · obtain ⟨st', ob', ob'', f1, f2, f3, q, hq⟩ :=
          cont cs [.dir, .top] (ob.add .sp) ' ' (Or.inl rfl) (by intro h; simp at h) hb' hss'
            ⟨[], by simp [OSL.add, ht]⟩
        refine ⟨st', ob', ob'', ?_, f2, f3, ' ' :: q, hq, ?_⟩
        · simp only [dProcess, e0, Bool.false_eq_true, if_false]
          exact f1
        · have : (c == '#') = false := by simpa using e3
          simp [this]

def startsPaste (t : List Char) : Bool := (t.dropWhile (· == ' ')).take 2 == ['#', '#']

theorem startsPaste_hash (q : List Char) : startsPaste ('#' :: q) = (q.head? == some '#') := by
  cases q with
  | nil => simp [startsPaste]
  | cons a r => by_cases ha : a = '#' <;> simp [startsPaste, ha]

/-- a directive line: leading blanks, `#`, the rest -/
theorem dirline_head (l : List Char) : ∀ (ob : OSL), ob.OnlySp → isDirectiveLine l = true →
    (∀ c ∈ l, c ≠ '\\') → hasSlashStar l = false →
    ∃ st' ob' ob'', dProcess [.top] ob l = .ok (st', ob') ∧ st'.head? ≠ some .blockC ∧
      dNewline st' ob' = .ok ([.top], ob'') ∧ startsPaste ob''.parts = isPasteLine l := by
  induction l with
  | nil => intro ob _ h; simp [isDirectiveLine] at h
  | cons c cs ih =>
    intro ob ho hd hb hss
    have hc : c ≠ '\\' := hb c (by simp)
    have hb' : ∀ x ∈ cs, x ≠ '\\' := fun x hx => hb x (by simp [hx])
    have hss' := hasSlashStar_tail c cs hss
    simp only [isDirectiveLine] at hd
    by_cases hs : pyIsSpace c = true
    · simp only [hs, if_true] at hd
      have hne : c ≠ '#' := fun hh => by rw [hh] at hs; exact absurd hs (by decide)
      have h1 : dStep1 [.top] ob c = .ok ([.top], ob.add (emitChar c), false, false) := by
        simp [dStep1, hc, hne]
      have ho2 := onlySp_add ob _ ho (by rw [emitChar_vis]; simp [hs]) (emitChar_lit c)
      obtain ⟨st', ob', ob'', f1, f2, f3, hp⟩ := ih _ ho2 hd hb' hss'
      refine ⟨st', ob', ob'', ?_, f2, f3, ?_⟩
      · simp only [dProcess, h1, Bool.false_eq_true, if_false]; exact f1
      · rw [hp]; simp [isPasteLine, hs]
    · simp only [hs, Bool.false_eq_true, if_false, beq_iff_eq] at hd
      subst hd
      have hbl : ob.blank = true := blank_of_onlySp ob ho
      have h1 : dStep1 [.top] ob '#' = .ok ([.dir, .top], ob.add (.ns '#'), false, false) := by
        simp [dStep1, hbl]
      obtain ⟨st', ob', ob'', f1, f2, f3, q, hq, hp⟩ :=
        dir_tail_head cs (ob.add (.ns '#')) (by simp [OSL.add]) hb' hss'
      refine ⟨st', ob', ob'', ?_, f2, f3, ?_⟩
      · simp only [dProcess, h1, Bool.false_eq_true, if_false]; exact f1
      · have hparts : startsPaste ob''.parts = startsPaste ('#' :: q) := by
          rw [hq]
          rcases ho with ⟨hp0, _⟩ | ⟨hp0, _⟩ <;> simp [OSL.add, hp0, startsPaste]
        rw [hparts, startsPaste_hash, hp]
        simp [isPasteLine, hash_not_space]

/-- the C pass on a `#` line: its cleaned text starts with `##` iff the text of the line does -/
theorem dLine_dir_paste (l : List Char) (hd : isDirectiveLine l = true) (h : LineOK l) (ob : OSL)
    (e : dLine l = .ok ([.top], ob)) : startsPaste ob.parts = isPasteLine l := by
  obtain ⟨st', ob', ob'', f1, f2, f3, hp⟩ := dirline_head l {} onlySp_empty hd h.1 (h.2 hd)
  unfold dLine at e
  rw [f1] at e
  simp only [bne_iff_ne, ne_eq, f2, not_false_eq_true, if_true, f3, Except.ok.injEq, Prod.mk.injEq, true_and] at e
  rw [← e]; exact hp

end CbiVerif.Fortran
