/-! C11 — the property-level reference: what a compiler command line *says* about macro
definitions, include directories and forced includes.  Written from the property text and the
gcc manual (`-D name`, `-Dname`, `-U name`, `-Uname`, `-I dir`, `-Idir`, `-isystem dir`, `-isystemdir`,
`-include file`, `-includefile`), not from the code.

"Exactly the macro definitions given with -D, in command-line order" is read the way a compiler reads a
command line (GCC manual, Preprocessor Options: "-D and -U options are processed in the order they are
given on the command line"): the definitions **in force** after processing `-D` / `-U` left to right —
`-U name` cancels every earlier definition of `name` (`name`, `name=value`, `name(params)=value`), a later
`-D name` defines it again.  A command line without `-U` is read exactly as before.

`extract argv`: scan left to right; an argument that is exactly a modelled flag takes the next
argument as its value (whatever it looks like); an argument that starts with a modelled flag
carries the non-empty remainder as its value; every other argument is skipped.  The result lists
the values per kind in command-line order; the search path is all `-I` directories followed by
all `-isystem` directories (gcc's search order). -/
namespace CbiVerif.Extract

abbrev Arg := List Char

inductive Flag | D | I | isystem | include | U
deriving DecidableEq, Repr, Inhabited

def Flag.text : Flag → Arg
  | .D => ['-', 'D']
  | .I => ['-', 'I']
  | .isystem => ['-', 'i', 's', 'y', 's', 't', 'e', 'm']
  | .include => ['-', 'i', 'n', 'c', 'l', 'u', 'd', 'e']
  | .U => ['-', 'U']

def allFlags : List Flag := [.D, .I, .isystem, .include, .U]

/-- `stripPrefix p a = some r` iff `a = p ++ r` -/
def stripPrefix : Arg → Arg → Option Arg
  | [], a => some a
  | _ :: _, [] => none
  | p :: ps, c :: cs => if p = c then stripPrefix ps cs else none

/-- how the property reads one argument standing in flag position -/
inductive Reading
  | other
  | sep (f : Flag)
  | att (f : Flag) (v : Arg)
deriving DecidableEq, Repr, Inhabited

def readingFrom : List Flag → Arg → Reading
  | [], _ => .other
  | f :: fs, a =>
    match stripPrefix f.text a with
    | some [] => .sep f
    | some (c :: cs) => .att f (c :: cs)
    | none => readingFrom fs a

def reading (a : Arg) : Reading := readingFrom allFlags a

/-- the name of the macro a `-D` value defines: the text before the first `=` or `(` -/
def macroName (d : Arg) : Arg := d.takeWhile fun c => c != '=' && c != '('

/-- `defines`: the definitions in force; `undefs`: the names given with `-U`, in command-line order -/
structure Lists where
  defines : List Arg := []
  userDirs : List Arg := []
  systemDirs : List Arg := []
  files : List Arg := []
  undefs : List Arg := []
deriving DecidableEq, Repr, Inhabited

/-- the definitions of `ds` that a later `-U` of each name in `us` leaves in force -/
def surviving (ds us : List Arg) : List Arg := ds.filter fun d => !us.contains (macroName d)

def Lists.add (l : Lists) : Flag → Arg → Lists
  | .U, v => { l with defines := surviving l.defines [v], undefs := l.undefs ++ [v] }
  | .D, v => { l with defines := l.defines ++ [v] }
  | .I, v => { l with userDirs := l.userDirs ++ [v] }
  | .isystem, v => { l with systemDirs := l.systemDirs ++ [v] }
  | .include, v => { l with files := l.files ++ [v] }

/-- `scan pending lists argv` -/
def scan : Option Flag → Lists → List Arg → Lists
  | _, l, [] => l
  | some f, l, a :: rest => scan none (l.add f a) rest
  | none, l, a :: rest =>
    match reading a with
    | .other => scan none l rest
    | .sep f => scan (some f) l rest
    | .att f v => scan none (l.add f v) rest

/-- the preprocessor configuration the property demands -/
structure Result where
  defines : List Arg
  includePaths : List Arg
  includeFiles : List Arg
deriving DecidableEq, Repr, Inhabited

def Lists.result (l : Lists) : Result := ⟨l.defines, l.userDirs ++ l.systemDirs, l.files⟩

/-- the four value lists of a command line, each in command-line order -/
def lists (argv : List Arg) : Lists := scan none {} argv

def extract (argv : List Arg) : Result := (lists argv).result

/-- `a` read first, then `b`: the `-U` names of `b` cancel definitions of `a` -/
def Lists.append (a b : Lists) : Lists :=
  ⟨surviving a.defines b.undefs ++ b.defines, a.userDirs ++ b.userDirs, a.systemDirs ++ b.systemDirs, a.files ++ b.files,
   a.undefs ++ b.undefs⟩

def Lists.get (l : Lists) : Flag → List Arg
  | .U => l.undefs
  | .D => l.defines
  | .I => l.userDirs
  | .isystem => l.systemDirs
  | .include => l.files

/-! ### command lines as sequences of items (used to state "in command-line order") -/

/-- one logical element of a command line -/
inductive Item
  | sep (f : Flag) (v : Arg)    -- `-D`, `X`
  | att (f : Flag) (v : Arg)    -- `-DX`
  | other (u : Arg)             -- anything the property does not model
deriving DecidableEq, Repr, Inhabited

def Item.render : Item → List Arg
  | .sep f v => [f.text, v]
  | .att f v => [f.text ++ v]
  | .other u => [u]

/-- an attached value is non-empty; an unmodelled argument is one the property reads as `other` -/
def Item.WF : Item → Prop
  | .sep _ _ => True
  | .att _ v => v ≠ []
  | .other u => reading u = .other

/-- the value an item contributes to the list of flag `g` -/
def Item.value? (g : Flag) : Item → Option Arg
  | .sep f v => if f = g then some v else none
  | .att f v => if f = g then some v else none
  | .other _ => none

def renderAll (items : List Item) : List Arg := items.flatMap Item.render

/-- the `-D` values of an item sequence that are in force at its end: those not followed by a `-U` of their macro -/
def inForce : List Item → List Arg
  | [] => []
  | it :: rest => surviving (it.value? .D).toList (rest.filterMap (Item.value? .U)) ++ inForce rest

/-! ### the recorded finding classes, as shapes of the command line

`classes argv` scans the command line the way `extract` does and lists the shapes on which the
real parser is *known* to deviate from `extract` (known_findings.json D21, D22, D23, D36) plus the one
shape that no compiler accepts (`dangling`: a flag that needs a value is the last argument).
`Tame argv` says none occurs. -/

inductive Tag
  | D21        -- `-isystemDIR`, `-includeFILE` (also `-isystem=DIR`, `-include=FILE`)
  | D22dash    -- separate-form value (of `-D`, `-U`, `-I`, `-isystem`, `-include`, `-o`) with a leading dash, other than the lone `-`
  | D22abbrev  -- a proper prefix of `-isystem` / `-include` (`-i`, `-is`, `-in`, ...)
  | D23        -- `--`, or an attached value `--` (`-D--`, `-I--`, `-U--`)
  | D36        -- `-D=...`, `-I=...`, `-U=...`: the leading `=` of the attached value is dropped
  | dangling   -- value flag (or `-o`) as last argument: rejected by every compiler
deriving DecidableEq, Repr, Inhabited

def dashO : Arg := ['-', 'o']
def ddash : Arg := ['-', '-']

/-- a value that cannot be mistaken for an option: no leading dash, or the lone `-` -/
def plainValue (v : Arg) : Bool :=
  match v with
  | [] => true
  | ['-'] => true
  | c :: _ => c != '-'

def isProperPrefixOf (a b : Arg) : Bool := a.isPrefixOf b && a.length < b.length

/-- shapes of a single argument standing in flag position -/
def tagsOf1 (a : Arg) : List Tag :=
  (if a = ddash || a = Flag.D.text ++ ddash || a = Flag.I.text ++ ddash || a = Flag.U.text ++ ddash then [Tag.D23] else []) ++
  (if (Flag.D.text ++ ['=']).isPrefixOf a || (Flag.I.text ++ ['=']).isPrefixOf a || (Flag.U.text ++ ['=']).isPrefixOf a
    then [Tag.D36] else []) ++
  (if isProperPrefixOf Flag.isystem.text a || isProperPrefixOf Flag.include.text a then [Tag.D21] else []) ++
  (if 2 ≤ a.length && (isProperPrefixOf a Flag.isystem.text || isProperPrefixOf a Flag.include.text) then [Tag.D22abbrev] else [])

def takesValue (a : Arg) : Bool := allFlags.any (fun f => f.text = a) || a = dashO

/-- `classesFrom pending argv` -/
def classesFrom : Bool → List Arg → List Tag
  | false, [] => []
  | true, [] => [.dangling]
  | true, v :: rest => (if plainValue v then [] else [.D22dash]) ++ classesFrom false rest
  | false, a :: rest => if takesValue a then classesFrom true rest else tagsOf1 a ++ classesFrom false rest

def classes (argv : List Arg) : List Tag := classesFrom false argv

/-- none of the recorded finding classes occurs and the command line is complete -/
def Tame (argv : List Arg) : Prop := classes argv = []

instance (argv : List Arg) : Decidable (Tame argv) := by unfold Tame; exact inferInstance

/-- the scan of `extract` does not end while a flag is waiting for its value -/
def completeFrom : Option Flag → List Arg → Bool
  | none, [] => true
  | some _, [] => false
  | some _, _ :: rest => completeFrom none rest
  | none, a :: rest =>
    match reading a with
    | .sep f => completeFrom (some f) rest
    | _ => completeFrom none rest

def Complete (argv : List Arg) : Prop := completeFrom none argv = true

instance (argv : List Arg) : Decidable (Complete argv) := by unfold Complete; exact inferInstance

end CbiVerif.Extract
