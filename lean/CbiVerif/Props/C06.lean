import CbiVerif.Props.C06Base
import CbiVerif.Props.C06Compose
/-!
# C06 — every counted line lands in exactly one platform set; all reports agree

Umbrella module (what `lake build CbiVerif.Props.C06` builds):
* `Props/C06Base.lean` — the theorems about an analysis result (`setmap_total`, `setmap_lines`, `lines_partition`,
  `tree_sums`, `tree_root_eq_summary`, `prune_exact`, `levels_only_hide`, `levels_none_all`, `percent`,
  `summary_rows_are_line_counts`);
* `Props/C06Compose.lean` — the same statements about SOURCE TEXT: the analysis result is the composed pipeline
  C05 parser model → C01 associator per `-D` list → platform set per node, and the hypotheses of the former are discharged
  from `C05.partition` / `C05.main` / `C05.nodes_of_ok` and `C01.analyseNodes_eq_reference`.
All theorems live in namespace `CbiVerif.C06`.
-/
